#!/usr/bin/env python3
"""Run the checks against every seeded change:  python3 checks/seeded.py [name ...]
For each directory under seeded/ with patch.diff + meta.json: apply the patch to the repository ($VERIF_REPO or /repo),
run the quick tier of the checks named in meta.json, record the VIOLATION lines, undo the patch.  Prints a table and writes
seeded/results.json.  Meant to be run in a `vp run --with-repo` snapshot (VERIF_REPO=$VP_RUN_REPO) so that /repo is not disturbed."""
import os, sys, json, subprocess, time
HERE = os.path.dirname(os.path.dirname(os.path.abspath(__file__)))
REPO = os.environ.get('VERIF_REPO') or os.environ.get('VP_RUN_REPO') or '/repo'
os.environ['VERIF_REPO'] = REPO


def sh(cmd, **kw):
    return subprocess.run(cmd, stdout=subprocess.PIPE, stderr=subprocess.STDOUT, text=True, **kw)


def main():
    names = sys.argv[1:] or sorted(os.listdir(os.path.join(HERE, 'seeded')))
    results = {}
    for n in names:
        d = os.path.join(HERE, 'seeded', n)
        if not os.path.exists(os.path.join(d, 'patch.diff')) or not os.path.exists(os.path.join(d, 'meta.json')):
            continue
        meta = json.load(open(os.path.join(d, 'meta.json')))
        p = sh(['git', '-C', REPO, 'apply', os.path.join(d, 'patch.diff')])
        if p.returncode != 0:
            results[n] = {'error': 'patch does not apply: ' + p.stdout[-300:]}
            print(n, 'PATCH FAILED', p.stdout[-200:])
            continue
        r = {}
        try:
            for chk in meta.get('checks', []):
                t = time.time()
                q = sh([sys.executable, os.path.join(HERE, 'checks', 'run.py'), chk, '--tier', 'quick'], cwd=HERE)
                lines = [l for l in q.stdout.split('\n') if l.startswith('VIOLATION')]
                r[chk] = {'exit': q.returncode, 'violations': len(lines), 'with_failing_input': sum(1 for l in lines if 'no-failing-input-found' not in l),
                          'first': lines[0] if lines else '', 'wall_s': round(time.time() - t, 1)}
                print('%-22s %-4s exit=%d violations=%d concrete=%d (%.0fs)' % (n, chk, q.returncode, len(lines), r[chk]['with_failing_input'], time.time() - t))
                sys.stdout.flush()
        finally:
            sh(['git', '-C', REPO, 'checkout', '--', '.'])
        results[n] = {'breaks': meta.get('breaks'), 'checks': r, 'caught': any(v['exit'] != 0 for v in r.values())}
    json.dump(results, open(os.path.join(HERE, 'seeded', 'results.json'), 'w'), indent=1)
    missed = [n for n, v in results.items() if not v.get('caught')]
    print('caught %d of %d; missed: %s' % (len(results) - len(missed), len(results), missed))


if __name__ == '__main__':
    main()
