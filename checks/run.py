#!/usr/bin/env python3
"""Entry point of every check:  python3 checks/run.py <Cnn> --tier quick|thorough   (cwd /verif)

Steps (DESIGN.md section 7): regenerate the model data from /repo's working tree (tie T), build and
audit the Lean proofs, run the correspondence harness against a fresh build of the working tree
(tie D), evaluate the property oracle on the implementation where the theorems do not reach,
decide, write evidence.  Exit 0 / `VIOLATION property=<id> replay=<path>` + exit 1.
"""
import sys, os, json, time, argparse, random, traceback
sys.path.insert(0, os.path.dirname(os.path.abspath(__file__)))
import lib
from lib import VERIF

T0 = time.time()
os.environ.setdefault('VERIF_CAP', str(4 * 1024 * 1024))


# properties whose theorems do not mention the codecs (objects are opaque cargo of queues, streams and threads): a class that leaves the
# translator's grammar or the verified fragment is reported by the codec properties, not by these
NONCODEC_PROPS = ('C06', 'C07', 'C11', 'C12', 'C13', 'C15', 'C16')


class Result:
    def __init__(self, pid, tier):
        self.pid = pid
        self.tier = tier
        self.obligations = []      # (name, ok, detail)
        self.violations = []       # dicts (unlisted)
        self.known_hits = []       # listed findings that were observed
        self.corr = {'programs': 0, 'requests': 0, 'disagreements': 0, 'samples': []}
        self.notes = []
        self.coverage_extra = {}
        self.trusted = ['Lean 4.33.0 kernel', 'clang-14 JSON AST as account of the C++ source',
                        'translator/translate.py and the hand models to the extent the correspondence runs do not contradict them',
                        'C++ harness, sanitizers as observers of the implementation']
        self.assumptions = []
        self.checker_cmd = ''

    def oblige(self, name, ok, detail=''):
        self.obligations.append((name, bool(ok), detail))

    def violation(self, kind, what, replay_payload, found_input=True):
        self.violations.append({'kind': kind, 'what': what, 'payload': replay_payload, 'found': found_input})


class Pipe:
    """shared, cached stages"""
    def __init__(self, res):
        self.res = res
        self.tr = None
        self.regres = None
        self.built = {}

    def regenerate(self):
        if self.tr is None:
            self.tr = lib.translate()
            if not self.tr['ok']:
                self.res.oblige('T:translate', False, self.tr['log'][-1500:])
            else:
                un = self.tr['summary']['untranslated']
                self.res.oblige('T:translate', True)
                try:
                    gold = json.load(open(os.path.join(VERIF, 'spec', 'golden.json')))
                    same = self.tr['summary'].get('ohbLoopHash') == gold.get('ohb_loop_hash')
                    if self.res.pid in NONCODEC_PROPS and self.res.pid not in ('C06', 'C07'):
                        if not same:
                            self.res.notes.append('the AST of the signature search of ObjectHeaderBase::read changed (an obligation of the properties that parse objects, not of this one)')
                    else:
                        self.res.oblige('T:signature-search-loop-shape', same,
                                        'the AST of the while loop of ObjectHeaderBase::read changed; the hand model Blf.syncLoop may no longer match')
                except Exception as e:
                    self.res.oblige('T:signature-search-loop-shape', False, str(e))
                for k, v in un.items():
                    if self.res.pid in NONCODEC_PROPS:
                        self.res.notes.append('class %s is outside the translator\'s grammar (%s): not an obligation of this property, whose theorems treat objects as opaque cargo; the sessions draw their objects from the other classes' % (k, v))
                    else:
                        self.res.oblige('T:grammar:' + k, False, v)
        return self.tr

    def checks(self):
        if self.regres is None and self.tr and self.tr['ok']:
            r, fails, log = lib.gen_checks(self.tr['summary'])
            if r is None:
                self.res.oblige('L:driver-build', False, str(fails)[:1500])
                self.regres = {}
            else:
                self.regres = r
        return self.regres or {}

    def lean(self, targets, theorems_by_module):
        ok, fails, log = lib.lake_build(targets)
        for f in fails:
            self.res.oblige('L:%s:%d' % (f[0], f[1]), False, f[2][:300])
        hits = lib.audit_sources()
        self.res.oblige('L:audit-no-sorry-axiom-native_decide', not hits, str(hits[:5]))
        for mod, thms in theorems_by_module.items():
            ax, txt = lib.print_axioms(mod, thms)
            for t in thms:
                a = ax.get(t)
                good = a is not None and set(a) <= lib.ALLOWED_AXIOMS
                self.res.oblige('L:thm:' + t, good, 'axioms=%s' % a if a is not None else 'theorem missing or module failed')
            self.res.coverage_extra.setdefault('axioms', {}).update({k: v for k, v in ax.items()})
        if self.res.tier == 'thorough':
            # independent re-check of the compiled modules (the property module and every Blf module it imports, transitively)
            mods = []
            todo = list(theorems_by_module)
            while todo:
                m_ = todo.pop()
                if m_ in mods:
                    continue
                mods.append(m_)
                src = os.path.join(lib.LEAN, *m_.split('.')) + '.lean'
                if os.path.exists(src):
                    for l in open(src):
                        if l.startswith('import Blf'):
                            todo.append(l.split()[1])
                        elif l.strip() and not l.startswith('import') and not l.startswith('--'):
                            break
            from concurrent.futures import ThreadPoolExecutor
            with ThreadPoolExecutor(max_workers=8) as ex:
                rs = list(ex.map(lambda m_: (m_, lib.run(['lake', 'env', 'leanchecker', m_], cwd=lib.LEAN)), mods))
            bad = [(m_, p.stdout[-200:]) for m_, p in rs if p.returncode != 0]
            self.res.coverage_extra['leanchecker_modules'] = len(mods)
            self.res.oblige('L:leanchecker', not bad, str(bad[:3]))
        return ok

    def harness(self, tag, srcs, flags=None):
        key = tag
        if key in self.built:
            return self.built[key]
        flags = flags or lib.SAN
        a, f = lib.build_lib('san', flags)
        if a is None:
            self.res.oblige('D:build-lib', False, str(f)[:1500])
            self.built[key] = None
            return None
        import glob
        gen = sorted(glob.glob(os.path.join(self.tr['cpp'], 'gen_reflect_*.cpp')))
        exe, f = lib.build_exe(tag, [os.path.join(VERIF, 'harness', s) for s in srcs] + gen, a, flags)
        if exe is None:
            self.res.oblige('D:build-' + tag, False, str(f)[:1500])
        self.built[key] = exe
        return exe


def monitor_tables(res, pipe, summary, classes=('ObjectQueue', 'UncompressedFile')):
    """tie T for the monitors: the notify/wait tables regenerated from the AST are what the models use (theorems of
    Blf.MonitorTie), and the wait predicates / lock kinds have the recorded shape (spec/monitors_golden.json)"""
    gold = json.load(open(os.path.join(VERIF, 'spec', 'monitors_golden.json')))
    tabs = summary.get('monitors')
    res.oblige('T:monitor-tables-extracted', bool(tabs), summary.get('untranslated', {}).get('monitors', 'missing'))
    if not tabs:
        return
    for cls in classes:
        g, t = gold.get(cls, {}), tabs.get(cls, {})
        for m in sorted(set(g) | set(t)):
            a, b = g.get(m), t.get(m)
            # the *meaning* of a wait predicate is tied by the Blf.MonitorTie.*_guard theorems (predicate translated from the AST);
            # here only the condition variable waited on must be the recorded one; a changed shape hash is reported as drift
            cva = [w[0] for w in a['waits']] if a else None
            cvb = [w[0] for w in b['waits']] if b else None
            if a is not None and b is not None and a['waits'] != b['waits'] and cva == cvb:
                res.corr.setdefault('wait_predicate_shape_drift', []).append('%s::%s' % (cls, m))
            ok = a is not None and b is not None and cva == cvb and a['lock'] == b['lock'] and a['notifies'] == b['notifies']
            why = ''
            if not ok:
                if a is None or b is None:
                    why = 'method %s' % ('added' if a is None else 'removed')
                else:
                    why = '; '.join(x for x in [
                        'condition variable waited on changed (%s -> %s)' % (a['waits'], b['waits']) if cva != cvb else '',
                        'notifications changed %s -> %s' % (a['notifies'], b['notifies']) if a['notifies'] != b['notifies'] else '',
                        'lock kind %s -> %s' % (a['lock'], b['lock']) if a['lock'] != b['lock'] else ''] if x)
            res.oblige('T:monitor:%s::%s' % (cls, m), ok, why)
    ths = ['Blf.MonitorTie.queue_notifies', 'Blf.MonitorTie.queue_waits', 'Blf.MonitorTie.ufile_notifies', 'Blf.MonitorTie.ufile_waits',
           'Blf.MonitorTie.queue_read_guard', 'Blf.MonitorTie.queue_write_guard', 'Blf.MonitorTie.queue_read_guard32', 'Blf.MonitorTie.queue_write_guard32', 'Blf.MonitorTie.ufile_read_guard',
           'Blf.MonitorTie.ufile_write_guard', 'Blf.MonitorTie.ufile_writeCont_guard']
    pipe.lean(['Blf.MonitorTie'], {'Blf.MonitorTie': ths})


# ================================================================================================ codec correspondence
def load_baseline():
    p = os.path.join(VERIF, 'spec', 'coverage_baseline.json')
    return json.load(open(p)) if os.path.exists(p) else {'exact': [], 'unproved': []}


def hdr_bytes(c):
    return sum(f['kind'][1] for f in c['fields'] if f['owner'] in ('ObjectHeaderBase', 'ObjectHeader', 'ObjectHeader2', 'VarObjectHeader'))


def parse_kv(line):
    d = {}
    toks = line.split()
    d['cmd'] = toks[0] if toks else ''
    i = 1
    while i < len(toks) and toks[i] != 'obj':
        if toks[i] == 'dec' and i > 1:
            # `reenc`: the object as decoded, before the encoder's pre-processing
            j = i + 1
            while j < len(toks) and toks[j] != 'obj':
                j += 1
            d['dec'] = toks[i + 1:j]
            i = j
            continue
        if '=' in toks[i]:
            k, v = toks[i].split('=', 1)
            d[k] = v
        i += 1
    if i < len(toks):
        rest = toks[i + 1:]
        if rest and rest[-1].startswith('indet='):
            d['indet'] = rest[-1][6:]
            rest = rest[:-1]
        d['obj'] = rest
    return d


def codec_corr(pipe, res, nper, modes, want_dec=True, classes=None, big=False, wide=False, suspects=()):
    """run enc/dec requests through the Lean driver and the real library; diff.
    -> (requests, model answers, impl answers)"""
    import codecgen
    tr = pipe.regenerate()
    if not tr['ok']:
        return [], [], []
    exe = pipe.harness('codec_harness', ['codec_harness.cpp'])
    drv = lib.driver_exe()
    if exe is None or not os.path.exists(drv):
        return [], [], []
    rng = random.Random(lib.seed() * 7919 + 17)
    g = codecgen.ObjGen(tr['summary'], rng)
    reqs = []
    names = [c['name'] for c in tr['summary']['classes'] if c['name'] != 'LogContainer']
    if classes is not None:
        names = [n for n in names if n in classes]
    for n in names:
        reqs.append('dflt ' + n)
        reqs.append(g.line(n, {}))
        for mode in modes:
            for _ in range(nper):
                reqs.append(g.line(n, g.obj(n, mode, big=big)))
        if n in suspects:
            # an obligation about this class broke on this run: search it much harder (the search for a failing input)
            for _ in range(200):
                reqs.append(g.line(n, g.obj(n, rng.choice(list(modes) + ['random']))))
        if wide:
            # one payload just above 64 KiB per container member: beyond what a 16-bit length field can say (finding 27)
            for i, f in enumerate(g.cls[n]['fields']):
                if f['kind'][0] == 'vec':
                    ew = f['kind'][1]
                    reqs.append(g.line(n, {i: bytes(rng.randrange(256) for _ in range(((65544 + ew - 1) // ew) * ew))}))
    mod, rc, err = lib.session(drv, reqs)
    if len(mod) != len(reqs):
        res.oblige('D:driver-session', False, 'got %d answers for %d requests; rc=%s %s' % (len(mod), len(reqs), rc, err[-500:]))
        return reqs, mod, []
    # decode requests derived from the model's encodings: exact image + trailer, and mutated images
    if want_dec:
        extra = []
        for rq, a in zip(reqs, mod):
            if a.startswith('enc halt=none'):
                d = parse_kv(a)
                img = bytes.fromhex(d.get('out', ''))
                cn = rq.split()[1]
                extra.append('dec %s %s' % (cn, (img + b'\xee' * 8).hex()))
                if rng.random() < 0.5:
                    for m in codecgen.mutate_image(rng, img, 2):
                        extra.append('dec %s %s' % (cn, m.hex()))
        mod2, rc, err = lib.session(drv, extra)
        if len(mod2) != len(extra):
            res.oblige('D:driver-session', False, 'decode batch: %d answers for %d requests' % (len(mod2), len(extra)))
            return reqs, mod, []
        reqs += extra
        mod += mod2
    # requests on which the model predicts undefined behaviour or an allocation failure run in a child process
    sent = [('!' + r) if ' halt=oob' in a else r for r, a in zip(reqs, mod)]
    imp, rc, err = lib.session(exe, sent, timeout=1800)
    crashes = 0
    while len(imp) < len(reqs) and crashes < 25:
        # the harness process died on request len(imp): that request is the input; it is repeated in a child process
        # (the answer then says how it died) and the session continues behind it
        k = len(imp)
        crashes += 1
        res.corr.setdefault('harness_crashes', []).append({'request': sent[k][:600], 'request_len': len(sent[k]), 'rc': rc, 'stderr': err[-300:]})
        if crashes <= 3:
            lib.write_replay(res.pid, {'property': res.pid, 'kind': 'harness-crash', 'request': sent[k], 'rc': rc, 'stderr': err[-1500:]})
        if sent[k].startswith('!'):
            break
        sent[k] = '!' + sent[k]
        more, rc, err = lib.session(exe, sent[k:], timeout=1800)
        imp += more
    if len(imp) != len(reqs):
        res.oblige('D:harness-session', False, 'got %d answers for %d requests; rc=%s stderr=%s; request %s' % (len(imp), len(reqs), rc, err[-1500:], sent[len(imp)][:400] if len(imp) < len(sent) else ''))
        return reqs, mod, imp
    return reqs, mod, imp


def same_modulo_indet(a, b, c):
    """answers equal once members without initialiser are masked in the object dump"""
    if a == b:
        return True
    ind = set(str(i) for i, f in enumerate(c['fields']) if not f['hasInit'])
    if not ind:
        return False
    da, db = parse_kv(a), parse_kv(b)
    oa = [x for x in da.pop('obj', []) if x.split('=')[0] not in ind]
    ob = [x for x in db.pop('obj', []) if x.split('=')[0] not in ind]
    ea = [x for x in da.pop('dec', []) if x.split('=')[0] not in ind]
    eb = [x for x in db.pop('dec', []) if x.split('=')[0] not in ind]
    return da == db and oa == ob and ea == eb


def compare_codec(res, reqs, mod, imp, summary):
    """diff model and implementation answers; returns list of disagreements"""
    dis = []
    cls = {c['name']: c for c in summary['classes']}
    unm = set(c['name'] for c in summary['classes'] if c.get('modelled') is False)
    for r, a, b in zip(reqs, mod, imp):
        res.corr['requests'] += 1
        if len(r.split()) > 1 and r.split()[1] in unm:
            continue     # no model of this class (outside the translator's grammar): only the oracles look at it
        if r.startswith('dflt'):
            # model prints constructor defaults from the AST; implementation the real default object and which
            # fields differ between poison patterns
            da, db = parse_kv(a), parse_kv(b)
            cn = r.split()[1]
            fields = cls[cn]['fields']
            indet = set(int(x) for x in db.get('indet', '').split(',') if x)
            model_indet = set(i for i, f in enumerate(fields) if not f['hasInit'])
            bad = []
            if da.get('type') != db.get('type'):
                bad.append('ctor type %s vs %s' % (da.get('type'), db.get('type')))
            # every field the implementation leaves indeterminate must be marked so by the translator (the converse is
            # not observable: poison may coincide)
            if not indet <= model_indet:
                bad.append('fields %s indeterminate in the implementation but initialised according to the AST' % sorted(indet - model_indet))
            oa = dict(x.split('=') for x in da.get('obj', []))
            ob = dict(x.split('=') for x in db.get('obj', []))
            for i, f in enumerate(fields):
                if i in model_indet:
                    continue
                if oa.get(str(i)) != ob.get(str(i)):
                    bad.append('default of %s: model %s impl %s' % (f['name'], oa.get(str(i)), ob.get(str(i))))
            if bad:
                dis.append({'request': r, 'model': a, 'impl': b, 'why': bad})
            continue
        if a == b:
            continue
        if ' halt=oob' in a:
            # undefined behaviour in C++: a sanitizer abort (crash ...) is agreement; a silent run is unobservable
            res.corr.setdefault('oob_cases', 0)
            res.corr['oob_cases'] += 1
            if b.startswith('crash'):
                res.corr.setdefault('oob_confirmed_by_sanitizer', 0)
                res.corr['oob_confirmed_by_sanitizer'] += 1
                res.corr.setdefault('oob_list', []).append((r.split()[0], r.split()[1], r[:3000]))
            continue
        if ' halt=badalloc' in a and (b.startswith('crash') or 'halt=badalloc' in b):
            continue
        # objects with indeterminate members that the request leaves unset behave nondeterministically in the
        # implementation (that is the C14/C17 finding); they cannot be compared
        cn = r.split()[1] if len(r.split()) > 1 else ''
        c = cls.get(cn)
        if c and r.startswith('dec'):
            ind = [i for i, f in enumerate(c['fields']) if not f['hasInit'] and f['kind'][0] == 'num']
            if ind:
                da, db = parse_kv(a), parse_kv(b)
                if da.get('good') == 'false' or 'halt=badalloc' in b or 'halt=badalloc' in a:
                    # a short read leaves indeterminate members partly unread; what follows depends on them
                    res.corr.setdefault('skipped_indeterminate', 0)
                    res.corr['skipped_indeterminate'] += 1
                    continue
                strip = lambda d: [x for x in d.get('obj', []) if int(x.split('=')[0]) not in ind]
                if all(da.get(k) == db.get(k) for k in ('halt', 'pos', 'good', 'eof')) and strip(da) == strip(db):
                    res.corr.setdefault('masked_indeterminate', 0)
                    res.corr['masked_indeterminate'] += 1
                    continue
        if c and r.startswith('enc'):
            ind = [i for i, f in enumerate(c['fields']) if not f['hasInit'] and f['kind'][0] == 'num']
            set_fields = set(int(t.split('=')[0]) for t in r.split()[2:] if '=' in t)
            if any(i not in set_fields for i in ind):
                res.corr.setdefault('skipped_indeterminate', 0)
                res.corr['skipped_indeterminate'] += 1
                continue
        dis.append({'request': r, 'model': a[:600], 'impl': b[:600], 'why': ['answers differ']})
    return dis


def ext_variant(cls, cn, value_of):
    """finding 4 (CanFdMessage64 / CanFdErrorFrame64: hasExtData() consults the stale objectSize) concerns objects that announce
    extended frame data (extDataOffset != 0).  A failure of an object WITHOUT it is something else and gets a kind of its own,
    so that the listed finding does not cover it.  value_of(field index) -> bytes or None"""
    if cn not in ('CanFdMessage64', 'CanFdErrorFrame64') or cn not in cls:
        return ''
    idx = next((i for i, f in enumerate(cls[cn]['fields']) if f['name'] == 'extDataOffset'), None)
    rdx = next((i for i, f in enumerate(cls[cn]['fields']) if f['name'] == 'reservedCanFdExtFrameData'), None)
    if idx is None or rdx is None:
        return ''
    v, rv = value_of(idx), value_of(rdx)
    # (the reserved tail belongs to the extended frame data: it is written only when hasExtData() says so)
    return ':without-ext-data' if ((v is None or int.from_bytes(v, 'little') == 0) and not rv) else ''


def framing_oracle(reqs, imp, summary, padobs):
    """C03 evaluated directly on the implementation's answers -> list of failures (class, kind, detail, request)"""
    cls = {c['name']: c for c in summary['classes']}
    code_of = {}
    fails = []
    enc_by_req = {}
    for r, b in zip(reqs, imp):
        if not r.lstrip('!').startswith('enc') or not b.startswith('enc'):
            continue
        d = parse_kv(b)
        cn = r.split()[1]
        c = cls[cn]
        asg = dict(t.split('=', 1) for t in r.split()[2:] if '=' in t)
        xv = ext_variant(cls, cn, lambda i: bytes.fromhex(asg[str(i)]) if str(i) in asg else None)
        out = bytes.fromhex(d.get('out', ''))
        if d.get('halt') != 'none' or len(out) < 16:
            fails.append((cn, 'encode-stopped' + xv, b[:100], r))
            continue
        hs = int.from_bytes(out[4:6], 'little')
        osz = int.from_bytes(out[8:12], 'little')
        typ = int.from_bytes(out[12:16], 'little')
        if hs != hdr_bytes(c):
            fails.append((cn, 'header-size', 'headerSize field %d, header bytes %d' % (hs, hdr_bytes(c)), r))
        pads = None
        for code, cname in summary.get('factory', {}).items():
            if cname == cn and code in padobs:
                pads = padobs[code]
        if len(out) == osz:
            if pads is True and osz % 4 != 0:
                fails.append((cn, 'padding-missing', 'objectSize %d not followed by %d pad bytes' % (osz, osz % 4), r))
        elif len(out) == osz + osz % 4:
            if pads is False:
                fails.append((cn, 'padding-unexpected', 'type %d pads but reference logs do not' % typ, r))
            if any(out[osz:]):
                fails.append((cn, 'padding-nonzero', out[osz:].hex(), r))
        else:
            fails.append((cn, 'size-mismatch' + xv, 'emitted %d bytes, objectSize field %d' % (len(out), osz), r))
        enc_by_req[(cn, out)] = r
    return fails


def decode_oracle(reqs, imp, summary):
    """decoding an emitted image followed by a trailer consumes exactly the image"""
    fails = []
    cls = {c['name']: c for c in summary['classes']}
    for r, b in zip(reqs, imp):
        if r.startswith('dec') and r.endswith('ee' * 8) and b.startswith('dec'):
            d = parse_kv(b)
            cn = r.split()[1]
            n = len(r.split()[2]) // 2 - 8
            od = dict(x.split('=', 1) for x in d.get('obj', []) if '=' in x)
            xv = ext_variant(cls, cn, lambda i: bytes.fromhex(od[str(i)]) if str(i) in od else None)
            if d.get('halt') != 'none':
                fails.append((cn, 'decode-stopped', b[:80], r))          # (the dump of a stopped decode says nothing about the variant)
            elif int(d.get('pos', -1)) != n:
                fails.append((cn, 'consumed-mismatch' + xv, 'consumed %s of %d emitted bytes' % (d.get('pos'), n), r))
    return fails


# ================================================================================================ verdict
def finish(res, known_filter):
    """known_filter(violation) -> finding entry or None"""
    wall = time.time() - T0
    kf = [k for k in lib.known_findings() if k.get('property') == res.pid and k.get('status') == 'known']
    unlisted = []
    seen_known = {}
    for v in res.violations:
        k = known_filter(v, kf)
        if k is not None:
            seen_known[k['id']] = k
        else:
            unlisted.append(v)
    broken = [(n, d) for n, ok, d in res.obligations if not ok]
    nobl = len(res.obligations)
    ndis = sum(1 for _, ok, _ in res.obligations if ok)
    cov = {'obligations': nobl, 'discharged': ndis, 'checker_cmd': res.checker_cmd,
           'trusted_base': res.trusted, 'programs': res.corr.get('programs', 0),
           'evaluations': res.corr.get('requests', 0),
           'disagreements_checked': res.corr.get('requests', 0),
           'disagreements_found': res.corr.get('disagreements', 0),
           'traces_validated_against_impl': res.corr.get('requests', 0),
           'distinct_nontrivial': res.corr.get('distinct', 0),
           'rule': res.corr.get('rule', ''),
           'samples': res.corr.get('samples', [])[:6] or [n for n, ok, _ in res.obligations[:6]],
           'broken_obligations': [{'name': n, 'detail': d} for n, d in broken][:40],
           'known_findings_observed': sorted(seen_known),
           'notes': res.notes}
    for k, v in res.corr.items():
        if k not in ('samples', 'requests', 'programs', 'disagreements', 'distinct', 'rule'):
            cov[k] = v
    cov.update(res.coverage_extra)
    rc = 0
    lines = []
    for k in kf:
        lines.append('KNOWN-FINDING: property=%s %s' % (res.pid, k.get('what', k['id'])))
    if unlisted:
        # concrete failing input found
        unlisted.sort(key=lambda v: 1 if v['kind'] == 'model-vs-implementation' else 0)
        for v in unlisted[:40]:
            if v['kind'] == 'model-vs-implementation':
                # an input on which model and implementation differ: the correspondence no longer checks, but this is not
                # (by itself) an input on which the property fails
                v['found'] = False
            p = lib.write_replay(res.pid, {'property': res.pid, 'kind': v['kind'], 'what': v['what'], 'replay': v['payload'],
                                           'broken_obligations': [n for n, _ in broken][:20],
                                           'how_to_replay': 'python3 checks/run.py %s --replay <this file>   (runs the recorded input again through the implementation and the model and prints both answers)' % res.pid})
            lines.append('VIOLATION property=%s replay=%s' % (res.pid, p) + ('' if v['found'] else ' no-failing-input-found'))
        rc = 1
    elif broken:
        p = lib.write_replay(res.pid, {'property': res.pid, 'kind': 'broken-obligation',
                                       'what': 'proof obligations or correspondence no longer check; the search found no failing input',
                                       'broken_obligations': [{'name': n, 'detail': d} for n, d in broken][:40]})
        lines.append('VIOLATION property=%s replay=%s no-failing-input-found' % (res.pid, p))
        rc = 1
    lib.write_evidence(res.pid, res.tier, cov, res.assumptions, wall, len(unlisted) + (1 if (broken and not unlisted) else 0))
    for l in lines:
        print(l)
    print('%s %s: %d/%d obligations discharged, %d correspondence requests, %d disagreements, %d unlisted violations, %.1fs' % (
        res.pid, res.tier, ndis, nobl, res.corr.get('requests', 0), res.corr.get('disagreements', 0), len(unlisted), wall))
    return rc


def default_known_filter(v, kf):
    for k in kf:
        m = k.get('match', {})
        if all(v.get('payload', {}).get(a) == b or v.get(a) == b for a, b in m.items()):
            return k
    return None


# ================================================================================================ properties
def coverage_obligations(pipe, res, summary, regres):
    """every class of the baseline's exact set must still pass the kernel check; every class outside it must be
    listed as unproved or be a known finding"""
    base = load_baseline()
    names = [c['name'] for c in summary['classes']]
    exact = set(n for n, v in regres.items() if v)
    if res.pid in NONCODEC_PROPS:
        gone = [n for n in base['exact'] if n not in exact]
        if gone:
            res.notes.append('classes outside the verified codec fragment on this tree: %s (an obligation of the codec properties, not of this one)' % ', '.join(gone[:10]))
        return exact
    for n in base['exact']:
        if n not in names:
            res.notes.append('class %s of the baseline no longer exists' % n)
            res.oblige('K:class-translated:' + n, False, 'class %s of the baseline is no longer among the translated classes (removed, or it no longer has codec bodies of its own)' % n)
            continue
        res.oblige('K:regularCheck:' + n, n in exact, 'regenerated programs of %s no longer satisfy regularCheck' % n)
    for n in names:
        if n not in base['exact'] and n not in base['unproved'] and n not in exact:
            res.oblige('K:coverage:' + n, False, 'new class outside the verified fragment')
    return exact


def suspect_classes(summary, regres):
    """classes for which an obligation broke on this run: left the translator's grammar, left the exact fragment, or new.
    The search for a failing input concentrates on them."""
    base = load_baseline()
    names = [c['name'] for c in summary['classes']]
    exact = set(n for n, v in (regres or {}).items() if v)
    sus = [n for n in names if n in (summary.get('untranslated') or {})]
    sus += [n for n in base['exact'] if n in names and n not in exact]
    sus += [n for n in names if n not in base['exact'] and n not in base['unproved']]
    return sorted(set(sus))


def check_C03(res):
    pipe = Pipe(res)
    tr = pipe.regenerate()
    if not tr['ok']:
        return
    summary = tr['summary']
    regres = pipe.checks()
    res.checker_cmd = 'cd lean && lake build Blf.Props.C03 && lake env lean <#print axioms>'
    pipe.lean(['Blf.Props.C03', 'blfdriver'], {'Blf.Props.C03': ['Blf.Props.C03_framing', 'Blf.Props.C03_consumes',
                                                                   'Blf.Props.C03_padset', 'Blf.Props.C03_pad_symmetric',
                                                                   'Blf.Gen.exact_all']})
    exact = coverage_obligations(pipe, res, summary, regres)
    # pad table re-derived from the reference logs
    import subprocess
    walk = os.path.join(lib.scratch(), 'images.json')
    p = lib.run([sys.executable, os.path.join(VERIF, 'spec', 'walk_logs.py'), os.path.join(lib.SRC, 'tests', 'unittests'), walk])
    padobs = {}
    if p.returncode == 0:
        im = json.load(open(walk))
        rows = sorted((int(k), v['pad'] > 0) for k, v in im['pad'].items() if not (v['pad'] and v['nopad']))
        committed = [tuple(x) for x in json.load(open(os.path.join(VERIF, 'spec', 'pad_observed.json')))]
        res.oblige('S:pad-table-rederived', rows == committed, 'pad table derived from the reference logs differs from spec/pad_observed.json')
        padobs = {str(k): v for k, v in rows}
    else:
        res.oblige('S:pad-table-rederived', False, p.stdout[-500:])
    nper = 3 if res.tier == 'quick' else 25
    sus = suspect_classes(summary, regres)
    res.corr['suspect_classes'] = sus
    reqs, mod, imp = codec_corr(pipe, res, nper, ['payload', 'random'], want_dec=True, big=(res.tier == 'thorough'), wide=True, suspects=sus)
    res.corr['programs'] = len(summary['classes'])
    if imp:
        dis = compare_codec(res, reqs, mod, imp, summary)
        res.corr['disagreements'] = len(dis)
        res.corr['samples'] = [{'request': r[:200], 'model': a[:200], 'impl': b[:200]} for r, a, b in list(zip(reqs, mod, imp))[2:5]]
        res.corr['distinct'] = len(set(reqs))
        res.corr['rule'] = 'type-directed objects per class: default, payload-only (API style), all scalars random incl. stale length/size fields; payload lengths cover every residue mod 4; distinct = distinct request lines'
        for d in dis[:50]:
            res.violation('model-vs-implementation', 'codec correspondence: ' + '; '.join(d['why']), d)
        res.oblige('D:codec-correspondence', not dis, '%d disagreements' % len(dis))
        fails = framing_oracle(reqs, imp, summary, padobs) + decode_oracle(reqs, imp, summary)
        seen = {}
        for cn, kind, detail, r in fails:
            seen.setdefault((cn, kind), (detail, r))
        res.corr['oracle_failures_by_class'] = sorted('%s:%s' % k for k in seen)
        for (cn, kind), (detail, r) in seen.items():
            res.violation('framing', '%s: %s (%s)' % (cn, kind, detail), {'class': cn, 'failure': kind, 'detail': detail, 'request': r})
        oobs = {}
        for cmd, cn, r in res.corr.pop('oob_list', []):
            if cmd == 'enc':
                oobs.setdefault(cn, r)
        for cn, r in oobs.items():
            res.violation('framing', '%s: encoding reads outside the caller\'s container (model: oob; sanitizer abort in the implementation)' % cn,
                          {'class': cn, 'failure': 'oob-read-on-encode', 'request': r})
    finish_codec(res)


def load_images(res):
    """reference images: walked out of the 170 logs + the raw lobj samples -> list of (name, type, bytes)"""
    walk = os.path.join(lib.scratch(), 'images.json')
    if not os.path.exists(walk):
        p = lib.run([sys.executable, os.path.join(VERIF, 'spec', 'walk_logs.py'), os.path.join(lib.SRC, 'tests', 'unittests'), walk])
        if p.returncode != 0:
            res.oblige('S:walk-logs', False, p.stdout[-500:])
            return [], 0
    im = json.load(open(walk))
    out = [('%s@%d' % (x['file'], x['offset']), x['type'], bytes.fromhex(x['hex'])) for x in im['images']]
    import glob
    for f in sorted(glob.glob(os.path.join(lib.SRC, 'tests', 'unittests', 'lobj', '*', '*.lobj'))):
        b = open(f, 'rb').read()
        if len(b) >= 16 and b[:4] == b'LOBJ':
            out.append((os.path.relpath(f, lib.SRC), int.from_bytes(b[12:16], 'little'), b))
    return out, im['nfiles']


def mask_offsets(c):
    """byte ranges of fields the encoder recomputes by design (headerSize, objectSize, constant pre-assignments),
    for classes with a layout hint"""
    m = [(4, 6), (8, 12)]
    lay = c.get('layout')
    if lay:
        consts = [g for g, e in lay['pre'] if e[0] == 'const']
        off = 4
        for it in lay['items']:
            if it[0] == 'scalar':
                if it[1] in consts:
                    m.append((off, off + it[2]))
                off += it[2]
            elif it[0] == 'fixed':
                off += it[2]
            else:
                break
    return m


def masked(b, m):
    b = bytearray(b)
    for a, e in m:
        for i in range(a, min(e, len(b))):
            b[i] = 0
    return bytes(b)


def reenc_verdict(img, ans, m, pads):
    """-> None (not decoded completely: outside the property), 'ok', or a failure string"""
    d = parse_kv(ans)
    if d.get('cmd') != 'reenc' or d.get('halt') != 'none' or d.get('short') != 'false' or 'out' not in d:
        return None
    if d.get('ehalt') != 'none':
        return 'encode of the decoded object stopped (%s)' % d.get('ehalt')
    out = bytes.fromhex(d['out'])
    pos = int(d['pos'])
    if len(out) < 16:
        return 'short output'
    nosz = int.from_bytes(out[8:12], 'little')
    body = out[:nosz] if len(out) >= nosz else out
    cons = img[:pos]
    # bytes the decoder consumed, padding excluded
    if pads and len(out) > nosz:
        if any(out[nosz:]):
            return 'non-zero padding emitted'
    if masked(body, m) != masked(cons[:len(body)], m):
        k = next(i for i in range(min(len(body), len(cons))) if masked(body, m)[i] != masked(cons, m)[i]) if len(body) <= len(cons) else -1
        return 're-encoded bytes differ from the image at offset %d (re-encoded %d bytes, consumed %d)' % (k, len(body), pos)
    if len(body) + (len(out) - len(body)) < pos and not pads:
        return 're-encoded %d bytes but the decoder consumed %d' % (len(out), pos)
    return 'ok'


def variant_values(osz):
    """byte values at which a selector, offset or length byte of an object of declared size osz changes the variant"""
    vs = set([0, 1, 2, 3, 4, 7, 8, 9, 12, 15, 16, 17, 24, 31, 32, 33, 48, 63, 64, 65, 72, 80, 96, 127, 128, 129, 254, 255])
    for base in (osz, osz - 8, osz - 16, osz - 32):
        for dlt in (-2, -1, 0, 1, 2):
            if 0 <= base + dlt <= 255:
                vs.add(base + dlt)
    return sorted(vs)


def filler_only(img, out, base_out, m, mut):
    """the re-encoding differs from the overwritten image only at overwritten offsets whose bytes the decoder ignored
    (they come out exactly as in the re-encoding of the unmodified image)"""
    off, width = mut[0], mut[2]
    if len(out) != len(base_out):
        return False
    a, b = masked(out, m), masked(img[:len(out)], m)
    if len(a) != len(b):
        return False
    for k in range(len(a)):
        if a[k] != b[k] and not (off <= k < off + width and out[k] == base_out[k]):
            return False
    return True


def golden_positions(c, img):
    """the byte positions of an image whose treatment by the decoder is recorded in spec/reenc_ignored_golden.json: the object header
    behind the base header and the first fields of the body, the first and last byte of every fixed-size array, the last two bytes"""
    osz = min(int.from_bytes(img[8:12], 'little'), len(img))
    pos = set(range(16, min(80, osz)))
    pos |= set(p_ for p_ in (osz - 1, osz - 2) if p_ >= 16)
    lay = c.get('layout')
    if lay:
        off = 4
        for it in lay['items']:
            if it[0] == 'scalar':
                off += it[2]
            elif it[0] == 'fixed':
                pos |= set(p_ for p_ in (off, off + it[2] - 1) if 16 <= p_ < osz)
                off += it[2]
            else:
                break
    return sorted(pos)


def check_C02(res):
    pipe = Pipe(res)
    tr = pipe.regenerate()
    if not tr['ok']:
        return finish_codec(res)
    summary = tr['summary']
    regres = pipe.checks()
    res.checker_cmd = 'cd lean && lake build Blf.Props.C02 && lake env lean <#print axioms>'
    pipe.lean(['Blf.Props.C02', 'blfdriver'], {'Blf.Props.C02': ['Blf.Props.C02_left_inverse', 'Blf.Props.C02_fresh_arrays', 'Blf.Gen.exact_all']})
    coverage_obligations(pipe, res, summary, regres)
    images, nfiles = load_images(res)
    cls = {c['name']: c for c in summary['classes']}
    fac = summary.get('factory', {})
    exe = pipe.harness('codec_harness', ['codec_harness.cpp'])
    drv = lib.driver_exe()
    if exe is None or not images:
        return finish_codec(res)
    rng = random.Random(lib.seed() * 104729 + 5)
    reqs = []
    meta = []
    npos = 12 if res.tier == 'quick' else 10 ** 9
    vals = [0x00, 0x01, 0x7f, 0x80, 0xff] if res.tier == 'quick' else [0x00, 0x01, 0x7f, 0x80, 0xff, 0x55, 0xaa]
    first_of_class = set()
    try:
        gold = json.load(open(os.path.join(VERIF, 'spec', 'reenc_ignored_golden.json')))
    except Exception:
        gold = {}
    gold_reqs = {}      # class -> (image name, {position: index into reqs})
    WRITE_GOLD = os.environ.get('VERIF_WRITE_GOLDEN') == 'C02'
    try:
        vgold = json.load(open(os.path.join(VERIF, 'spec', 'reenc_variants_golden.json')))
    except Exception:
        vgold = {}
    var_seen = set()
    var_now = {}
    for name, typ, img in images:
        cn = fac.get(str(typ))
        if cn is None or cn not in cls:
            res.notes.append('image %s has type %d without a class' % (name, typ))
            continue
        reqs.append('reenc %s %s' % (cn, img.hex()))
        meta.append((name, cn, img, None))
        if cn not in gold_reqs and (cn not in gold or gold[cn]['image'] == name):
            # the recorded positions of the recorded image of this class: is a byte the decoder used to represent ignored now?
            gp = {}
            for ppos in (gold[cn]['positions'] if cn in gold else golden_positions(cls[cn], img)):
                if ppos < len(img):
                    d = bytearray(img); d[ppos] = 0x00 if img[ppos] == 0xff else 0xff
                    gp[ppos] = len(reqs)
                    reqs.append('reenc %s %s' % (cn, bytes(d).hex()))
                    meta.append((name, cn, bytes(d), ('golden', ppos)))
            gold_reqs[cn] = (name, gp, len(reqs) - len(gp) - 1)
        osz = int.from_bytes(img[8:12], 'little')
        if cn not in var_seen and (WRITE_GOLD or (cn in vgold and vgold[cn]['image'] == name)):
            # consistent variant images (spec/reenc_variants_golden.json): single-byte overwrites of selector / offset / length bytes
            # with values at the class's own boundaries that the recorded tree decodes completely and re-encodes to the very same
            # bytes although the shape changed - images the library itself writes (encode(decode(I')) = I'), so they stay reproducible
            var_seen.add(cn)
            if WRITE_GOLD:
                cand = [(pp, vv) for pp in range(16, min(osz, len(img), 128)) for vv in variant_values(osz) if vv != img[pp]]
            else:
                cand = [tuple(x) for x in vgold[cn]['exact']]
            for pp, vv in cand:
                if pp < len(img):
                    d = bytearray(img); d[pp] = vv
                    reqs.append('reenc %s %s' % (cn, bytes(d).hex()))
                    meta.append((name, cn, bytes(d), ('variant', pp, vv)))
        positions = list(range(16, min(osz, len(img))))
        if len(positions) > npos:
            positions = sorted(rng.sample(positions, npos))
            if cn not in first_of_class:
                # one image per class: every byte of the object header behind the base header and of the first fields of the body
                # (flags, selectors, lengths, offsets live there)
                first_of_class.add(cn)
                positions = sorted(set(positions) | set(range(16, min(80, osz, len(img)))))
        for ppos in positions:
            vs = list(vals)
            if res.tier == 'thorough' and rng.random() < 0.05:
                vs = list(range(256))
            for v in vs + [img[ppos] ^ 0x55]:
                if v == img[ppos]:
                    continue
                d = bytearray(img)
                d[ppos] = v
                reqs.append('reenc %s %s' % (cn, bytes(d).hex()))
                meta.append((name, cn, bytes(d), (ppos, v)))
        # aligned 2/4/8-byte groups with boundary values
        for w in (2, 4, 8):
            for _ in range(2 if res.tier == 'quick' else 12):
                if osz - 16 < w:
                    continue
                ppos = rng.randrange(16, osz - w + 1) // w * w
                if ppos < 16:
                    continue
                v = rng.choice([0, 1, 256 ** w // 2 - 1, 256 ** w // 2, 256 ** w - 1])
                d = bytearray(img)
                d[ppos:ppos + w] = v.to_bytes(w, 'little')
                d = bytes(d[:len(img)])
                if d != img:
                    reqs.append('reenc %s %s' % (cn, d.hex()))
                    meta.append((name, cn, d, (ppos, v, w)))
    if lib.model_ok():
        mod, rc, err = lib.session(drv, reqs)
        if len(mod) != len(reqs):
            res.oblige('D:driver-session', False, '%d answers for %d requests %s' % (len(mod), len(reqs), err[-300:]))
            return finish_codec(res)
    else:
        mod = [None] * len(reqs)       # no executable model of this tree: the re-encode oracle runs on the implementation alone
    sent = [('!' + r) if (a is not None and ' halt=oob' in a) else r for r, a in zip(reqs, mod)]
    imp, rc, err = lib.session(exe, sent, timeout=3000)
    if len(imp) != len(reqs):
        res.oblige('D:harness-session', False, '%d answers for %d requests; stderr %s' % (len(imp), len(reqs), err[-800:]))
        return finish_codec(res)
    res.corr['programs'] = len(set(m[1] for m in meta))
    dis = 0
    stats = {'base_images': 0, 'base_complete': 0, 'base_identical': 0, 'derived': 0, 'derived_complete_same_shape': 0,
             'derived_identical': 0, 'skipped_incomplete_base': []}
    base_ans = {}
    fails = {}
    for r, a, b, (name, cn, img, mut) in zip(reqs, mod, imp, meta):
        res.corr['requests'] += 1
        if a is not None and cls[cn].get('modelled') is not False and not same_modulo_indet(a, b, cls[cn]):
            if ' halt=oob' in a and b.startswith('crash'):
                continue
            if ' halt=badalloc' in a and ('badalloc' in b or b.startswith('crash')):
                continue
            ind = [i for i, f in enumerate(cls[cn]['fields']) if not f['hasInit'] and f['kind'][0] == 'num']
            if ind and 'short=true' in a:
                continue
            dis += 1
            if dis <= 20:
                res.violation('model-vs-implementation', 'reenc correspondence differs for %s' % cn, {'request': r[:3000], 'model': a[:1500], 'impl': b[:1500], 'image': name, 'mutation': mut})
            continue
        if mut is not None and mut[0] == 'golden':
            continue
        m = mask_offsets(cls[cn])
        pads = any(fac.get(k) == cn for k in fac) and cls[cn].get('layout') and any(it[0] == 'pad' for it in cls[cn]['layout']['items'])
        v = reenc_verdict(img, b, m, pads)
        if mut is not None and mut[0] == 'variant':
            d = parse_kv(b)
            ba = base_ans.get(name, {})
            osz_ = int.from_bytes(img[8:12], 'little')
            exact_ = v == 'ok' and 'out' in d and int.from_bytes(bytes.fromhex(d['out'])[8:12], 'little') == osz_ and int(d.get('pos', 0)) >= osz_ \
                and len(bytes.fromhex(d['out'])) >= osz_
            if WRITE_GOLD:
                sf = set(str(x) for x in cls[cn].get('shapeFields', []))
                oa = dict(x.split('=') for x in (ba.get('dec') or ba.get('obj', [])))
                ob = dict(x.split('=') for x in (d.get('dec') or d.get('obj', [])))
                if exact_ and 'out' in ba and (d.get('pos') != ba.get('pos') or any(oa.get(k) != ob.get(k) for k in sf)):
                    var_now.setdefault(cn, {'image': name, 'exact': []})['exact'].append([mut[1], mut[2]])
            else:
                stats.setdefault('consistent_variants_checked', 0)
                stats['consistent_variants_checked'] += 1
                if not exact_:
                    fails.setdefault((cn, 'consistent-variant-not-reproduced'), (name, 'the image with the byte at offset %d set to %d (a variant that the recorded tree decodes completely and writes back byte for byte) is now %s' % (
                        mut[1], mut[2], v if v not in (None, 'ok') else ('not decoded completely (pos=%s, declared %d)' % (d.get('pos'), osz_))), r))
            continue
        if mut is None:
            stats['base_images'] += 1
            base_ans[name] = parse_kv(b)
            if v is None:
                stats['skipped_incomplete_base'].append(name)
            else:
                stats['base_complete'] += 1
                if v == 'ok':
                    stats['base_identical'] += 1
                else:
                    fails.setdefault((cn, 'fixture-not-reproduced'), (name, v, r))
        else:
            stats['derived'] += 1
            ba = base_ans.get(name, {})
            d = parse_kv(b)
            if v is None or 'out' not in ba:
                continue
            # same shape: consumed count, recomputed object size and every field that a length expression or a
            # variant/version condition of the class reads, as for the unmodified image
            if d.get('pos') != ba.get('pos') or bytes.fromhex(d['out'])[8:12] != bytes.fromhex(ba['out'])[8:12]:
                continue
            sf = set(str(x) for x in cls[cn].get('shapeFields', []))
            oa = dict(x.split('=') for x in (ba.get('dec') or ba.get('obj', [])))
            ob = dict(x.split('=') for x in (d.get('dec') or d.get('obj', [])))
            if any(oa.get(k) != ob.get(k) for k in sf):
                # a selector / length / offset field changed: the rest of the image may now be read as another variant (what was a
                # field is filler), so the image as a whole is outside the property.  The overwritten bytes themselves are not:
                # the decoder represented the new value (the dumps differ), so the encoder has to put it back.
                o2 = bytes.fromhex(d['out'])
                off, wd = mut[0], (mut[2] if len(mut) > 2 else 1)
                mm = set(i for a_, e_ in m for i in range(a_, e_))
                if oa != ob and len(o2) >= off + wd and len(img) >= off + wd and not any(i in mm for i in range(off, off + wd)) \
                        and wd == 1 and o2[off:off + wd] != img[off:off + wd]:
                    fails.setdefault((cn, 'derived-not-reproduced'), (name, 'the overwritten selector/length byte at offset %d is represented in the decoded object but comes back as %s, not as %s' % (off, o2[off:off + wd].hex(), img[off:off + wd].hex()), r))
                continue
            stats['derived_complete_same_shape'] += 1
            if v == 'ok':
                stats['derived_identical'] += 1
            elif d.get('out') == ba.get('out') and d.get('dec') == ba.get('dec'):
                # the overwritten byte is not represented in the decoded object at all (union filler / padding; the decoded
                # objects are equal): not a field value, outside the property
                stats.setdefault('derived_ignored_filler_byte', 0)
                stats['derived_ignored_filler_byte'] += 1
            elif len(mut) > 2 and filler_only(img, bytes.fromhex(d['out']), bytes.fromhex(ba['out']), m, mut):
                # a 2/4/8-byte overwrite that covers a field and filler behind it (SerialEvent single-byte variant): every byte
                # that is not reproduced lies inside the overwritten range and comes out as in the unmodified image
                stats.setdefault('derived_partly_filler', 0)
                stats['derived_partly_filler'] += 1
            else:
                fails.setdefault((cn, 'derived-not-reproduced'), (name, '%s after overwrite %s' % (v, mut), r))
    # bytes the decoder ignores (union filler, reserved gaps): the set recorded for the repaired tree may shrink, not grow - a byte
    # that was represented in the decoded object and is ignored now is a byte of a Vector-produced object that no longer survives
    ignored_now = {}
    for cn, (name, gp, bi) in gold_reqs.items():
        bd = parse_kv(imp[bi]).get('dec')
        if bd is None:
            continue
        ign = []
        for ppos, ri in gp.items():
            dd = parse_kv(imp[ri])
            if dd.get('halt') == 'none' and dd.get('short') == 'false' and dd.get('dec') == bd:
                ign.append(ppos)
        ignored_now[cn] = {'image': name, 'positions': sorted(gp), 'ignored': sorted(ign)}
        if cn in gold:
            new_ign = sorted(set(ign) - set(gold[cn]['ignored']))
            if new_ign:
                ppos = new_ign[0]
                fails.setdefault((cn, 'represented-byte-now-ignored'), (name, 'the decoder no longer represents the byte at offset %d of the image (it did on the recorded tree; %d such bytes: %s): an image with another value there is not reproduced' % (ppos, len(new_ign), new_ign[:8]), reqs[gp[ppos]]))
    if os.environ.get('VERIF_WRITE_GOLDEN') == 'C02':
        json.dump(ignored_now, open(os.path.join(VERIF, 'spec', 'reenc_ignored_golden.json'), 'w'), indent=0, sort_keys=True)
        json.dump(var_now, open(os.path.join(VERIF, 'spec', 'reenc_variants_golden.json'), 'w'), sort_keys=True)
    res.oblige('S:variant-golden-present', bool(vgold) or WRITE_GOLD, 'spec/reenc_variants_golden.json missing')
    res.corr['ignored_byte_classes_checked'] = len([c for c in ignored_now if c in gold])
    res.oblige('S:ignored-byte-golden-present', bool(gold), 'spec/reenc_ignored_golden.json missing')
    res.corr['disagreements'] = dis
    res.oblige('D:reenc-correspondence', dis == 0, '%d disagreements' % dis)
    res.corr['distinct'] = len(set(reqs))
    res.corr['rule'] = 'every object image of the %d reference logs and lobj samples, plus single-byte overwrites at sampled (quick) / all (thorough) offsets between base header and declared size and aligned 2/4/8-byte boundary overwrites; non-trivial = decoded completely with unchanged shape' % nfiles
    res.corr['samples'] = [{'request': reqs[i][:160], 'answer': imp[i][:200]} for i in (0, 1, 2)]
    res.corr.update({k: (v if not isinstance(v, list) else v[:10]) for k, v in stats.items()})
    for (cn, kind), (name, v, r) in fails.items():
        res.violation('reencode', '%s: %s (%s: %s)' % (cn, kind, name, v), {'class': cn, 'failure': kind, 'image': name, 'detail': v, 'request': r})
    finish_codec(res)


def check_C17(res):
    pipe = Pipe(res)
    tr = pipe.regenerate()
    if not tr['ok']:
        return finish_codec(res)
    summary = tr['summary']
    regres = pipe.checks()
    res.checker_cmd = 'cd lean && lake build Blf.Props.C17 && lake env lean <#print axioms>'
    pipe.lean(['Blf.Props.C17', 'blfdriver'], {'Blf.Props.C17': ['Blf.Props.C17_factory', 'Blf.Props.C17_factory_total',
              'Blf.Props.C17_factory_classes_translated', 'Blf.Props.C17_ctor', 'Blf.Props.C17_defaults_determined',
              'Blf.Props.C17_fresh_wellformed', 'Blf.Props.C17_default_roundtrip', 'Blf.Gen.exact_all']})
    coverage_obligations(pipe, res, summary, regres)
    cls = {c['name']: c for c in summary['classes']}
    tables = summary.get('tables', {})
    exe = pipe.harness('codec_harness', ['codec_harness.cpp'])
    drv = lib.driver_exe()
    if exe is None:
        return finish_codec(res)
    rng = random.Random(lib.seed() * 31 + 3)
    codes = list(range(0, 256)) + [256, 257, 65535, 65536, 2 ** 31 - 1, 2 ** 31, 2 ** 32 - 1] + [rng.randrange(0, 2 ** 32) for _ in range(60 if res.tier == 'quick' else 2000)]
    reqs = ['factory %d' % c for c in codes]
    names = [c['name'] for c in summary['classes']]
    reqs += ['dflt ' + n for n in names]
    reqs += ['enc ' + n + ' ' for n in names if n != 'LogContainer']
    imp, rc2, err2 = lib.session(exe, reqs)
    if lib.model_ok():
        mod, rc, err = lib.session(drv, reqs)
    else:
        mod = None        # no executable model of this tree: the oracle below runs on the implementation alone
    if (mod is not None and len(mod) != len(reqs)) or len(imp) != len(reqs):
        res.oblige('D:sessions', False, 'driver %s, harness %d answers for %d requests %s' % (len(mod) if mod is not None else '-', len(imp), len(reqs), err2[-500:]))
        return finish_codec(res)
    res.corr['programs'] = len(names)
    dis = compare_codec(res, reqs, mod, imp, summary) if mod is not None else []
    # factory answers are compared verbatim by compare_codec (answers differ -> disagreement)
    res.corr['disagreements'] = len(dis)
    res.oblige('D:factory-defaults-correspondence', not dis, '%d disagreements' % len(dis))
    for d in dis[:20]:
        res.violation('model-vs-implementation', 'C17 correspondence: ' + '; '.join(d['why']), d)
    res.corr['distinct'] = len(set(reqs))
    res.corr['rule'] = 'createObject for every code 0..255, boundary and random 32-bit codes; default object of every class built in memory pre-filled with 0xAA/0x55/0xFF; distinct = distinct requests'
    res.corr['samples'] = [{'request': r, 'impl': b[:200]} for r, b in list(zip(reqs, imp))[64:67]]
    # property oracle on the implementation
    spec = {}
    for l in open(os.path.join(VERIF, 'spec', 'object_types.tsv')):
        if l.strip() and not l.startswith('#'):
            k, _, v = l.rstrip('\n').split('\t')
            spec[int(k)] = v
    for r, b in zip(reqs, imp):
        t = b.split()
        if r.startswith('factory'):
            code = int(t[1])
            want = spec.get(code, 'none')
            if t[2] != want:
                res.violation('factory', 'createObject(%d) yields %s, the format assigns %s' % (code, t[2], want),
                              {'class': want if want != 'none' else t[2], 'failure': 'factory-code', 'code': code, 'request': r})
            elif want != 'none' and len(t) > 3 and t[3].startswith('type=') and spec.get(int(t[3][5:])) != want:
                # the object the factory builds for this code (a default-constructed one) carries a code of another class
                res.violation('ctor', '%s() (built by createObject(%d)) carries type code %s, which the factory maps to %s' % (want, code, t[3][5:], spec.get(int(t[3][5:]), 'nothing')),
                              {'class': want, 'failure': 'ctor-code', 'code': int(t[3][5:]), 'request': r})
        elif r.startswith('dflt'):
            cn = r.split()[1]
            d = parse_kv(b)
            code = int(d.get('type', -1))
            if spec.get(code) != cn:
                res.violation('ctor', '%s() carries type code %d, which the factory maps to %s' % (cn, code, spec.get(code, 'nothing')),
                              {'class': cn, 'failure': 'ctor-code', 'code': code, 'request': r})
            ind = [x for x in d.get('indet', '').split(',') if x]
            if ind:
                fn = [cls[cn]['fields'][int(i)]['name'] for i in ind]
                res.violation('defaults', '%s(): members %s depend on previous memory contents' % (cn, fn),
                              {'class': cn, 'failure': 'indeterminate-default', 'fields': fn, 'request': r})
    # "... is written under that code, and reading it back yields the same class and code": the default object of every creatable
    # class through the real File, one file per class
    import filechecks as fc
    fexe, cexe = fc.build_file_harness(pipe, res)
    if fexe and cexe:
        cr = creatable(summary)
        cases = [fc.Case(rng.choice([0, 1]), 4096, False, [(cn, {})]) for cn in cr]
        out = fc.run_cases(pipe, res, cases, fexe, cexe, want_model=False)
        if out is not None:
            files = [o['file'] if o['file'] is not None else b'' for o in out]
            rd, _ = fc.read_files(res, files, fexe, want_model=False)
            for cn, o, a in zip(cr, out, rd or []):
                res.corr['requests'] += 1
                d, st, objs = fc.split_read(a)
                e = o['expected'][0]
                code = int.from_bytes(e['bytes'][12:16], 'little') if len(e['bytes']) >= 16 else -1
                if spec.get(code) != cn:
                    continue          # (the constructor carries a code of another class: reported above as ctor-code)
                if o['file'] is None or d.get('outcome') != 'ended' or len(objs) != 1 or objs[0][0] != cn:
                    res.violation('ctor', '%s(): written under code %d, read back as %s' % (cn, code, [x[0] for x in objs] if d.get('outcome') == 'ended' else a[:60]),
                                  {'class': cn, 'failure': 'default-object-not-read-back', 'code': code, 'config': cases[0].opts(), 'objects': ';; ' + cn})
    # the computed exception lists must be findings too (they are what the theorems exclude)
    for n, t in tables.items():
        if not t['ctorOk']:
            res.violation('ctor', '%s: constructor code not mapped back by the factory (model tables)' % n, {'class': n, 'failure': 'ctor-code'})
        if not t['allInit']:
            res.violation('defaults', '%s: member without initialiser (model tables)' % n, {'class': n, 'failure': 'indeterminate-default'})
    finish_codec(res)


def check_C14(res):
    pipe = Pipe(res)
    tr = pipe.regenerate()
    if not tr['ok']:
        return finish_codec(res)
    summary = tr['summary']
    regres = pipe.checks()
    res.checker_cmd = 'cd lean && lake build Blf.Props.C14 && lake env lean <#print axioms>'
    pipe.lean(['Blf.Props.C14', 'blfdriver'], {'Blf.Props.C14': ['Blf.Props.C14_no_indeterminate', 'Blf.Props.C14_arrays_init',
                                                                   'Blf.Props.C14_filler_zero']})
    tables = summary.get('tables', {})
    cls = {c['name']: c for c in summary['classes']}
    exe = pipe.harness('codec_harness', ['codec_harness.cpp'])
    drv = lib.driver_exe()
    if exe is None:
        return finish_codec(res)
    import codecgen
    rng = random.Random(lib.seed() * 131 + 9)
    g = codecgen.ObjGen(summary, rng)
    base = []
    names = [c['name'] for c in summary['classes'] if c['name'] != 'LogContainer']
    nper = 2 if res.tier == 'quick' else 12
    sus = suspect_classes(summary, regres)
    res.corr['suspect_classes'] = sus
    for n in names:
        base.append((n, {}))
        for _ in range(nper + (60 if n in sus else 0)):      # (a class about which an obligation broke on this run is searched harder)
            base.append((n, g.obj(n, 'payload')))
    outs = {}
    runs = 0
    for fill in ('0', '190', '255'):
        reqs = []
        for pat in (0x00, 0xAA, 0xFF):
            for n, a in base:
                # (objects of a suspect class are encoded in a child process: an encoder that leaves its containers aborts under ASan)
                reqs.append('%sencp %d %s %s' % ('!' if n in sus else '', pat, n, ' '.join('%d=%s' % (i, b.hex()) for i, b in sorted(a.items()))))
        imp, rc, err = lib.session_resilient(exe, reqs, env={'ASAN_OPTIONS': 'detect_leaks=0:allocator_may_return_null=1:malloc_fill_byte=%s:max_malloc_fill_size=1048576' % fill})
        if len(imp) != len(reqs):
            res.oblige('D:harness-session', False, '%d answers for %d requests %s' % (len(imp), len(reqs), err[-500:]))
            return finish_codec(res)
        runs += 1
        for k, (r, b) in enumerate(zip(reqs, imp)):
            res.corr['requests'] += 1
            key = k % len(base)
            if b.startswith('crash'):
                res.violation('nondeterministic', '%s: encoding the object aborts under the sanitizers (%s): the bytes written come from outside the object' % (base[key][0], b[:40]),
                              {'class': base[key][0], 'failure': 'encoder-reads-outside-object', 'request': r.lstrip('!')})
                continue
            d = parse_kv(b)
            outs.setdefault(key, set()).add((d.get('halt'), d.get('out')))
    res.corr['programs'] = len(names)
    res.corr['distinct'] = len(base)
    res.corr['rule'] = 'every class: default object and payload-only (API style) objects, each encoded in 3 fresh processes (heap fill 0x00/0xbe/0xff) x 3 placement poison patterns; distinct = distinct objects; a failure is an object with more than one encoding'
    res.corr['samples'] = [{'object': '%s %s' % (base[k][0], {i: v.hex()[:40] for i, v in base[k][1].items()}), 'encodings': len(v)} for k, v in list(outs.items())[:3]]
    nondet = {}
    for k, v in outs.items():
        if len(v) > 1:
            nondet.setdefault(base[k][0], k)
    res.corr['objects_with_several_encodings'] = sum(1 for v in outs.values() if len(v) > 1)
    for cn, k in nondet.items():
        res.violation('nondeterministic', '%s: the same object encodes differently depending on previous memory contents' % cn,
                      {'class': cn, 'failure': 'nondeterministic-encoding', 'object': {i: v.hex() for i, v in base[k][1].items()}, 'encodings': sorted(str(x)[:300] for x in outs[k])})
    for n, t in tables.items():
        if not t['inputsInit']:
            res.violation('nondeterministic', '%s: the encoder reads a member without initialiser (model tables)' % n, {'class': n, 'failure': 'nondeterministic-encoding'})
        if not t['arraysInit']:
            res.violation('nondeterministic', '%s: array member without initialiser (model tables)' % n, {'class': n, 'failure': 'indeterminate-array'})
    file_determinism(res, pipe, summary, rng)
    # correspondence of the model itself: model encodings equal the implementation's for determined classes
    reqs = ['enc %s %s' % (n, ' '.join('%d=%s' % (i, b.hex()) for i, b in sorted(a.items()))) for n, a in base]
    mod, rc, err = lib.session(drv, reqs) if lib.model_ok() else ([], 0, '')
    imp, rc, err = lib.session(exe, reqs)
    if len(mod) == len(reqs) == len(imp):
        dis = compare_codec(res, reqs, mod, imp, summary)
        res.corr['disagreements'] = len(dis)
        res.oblige('D:codec-correspondence', not dis, '%d disagreements' % len(dis))
        for d in dis[:20]:
            res.violation('model-vs-implementation', 'codec correspondence: ' + '; '.join(d['why']), d)
    finish_codec(res)


def file_determinism(res, pipe, summary, rng):
    """file level: sequences of objects with alignment padding / union filler (odd payload lengths) in tiny containers,
    written by the real File natively, in processes with different heap fill patterns, and under seeded random and PCT
    schedules of the controlled scheduler: every run must produce the same bytes, and the containers' payload must be the
    concatenation of the (zero-padded) encodings of the objects"""
    import filechecks as fc
    import blfparse
    fexe, cexe = fc.build_file_harness(pipe, res)
    sexe = build_sched_harness(pipe, res)
    if not fexe or not cexe or not sexe:
        return
    g = codecgen_mod().ObjGen(summary, rng)
    padded = [c['name'] for c in summary['classes'] if c.get('layout') and any(it[0] == 'pad' for it in c['layout']['items'])
              and c['name'] in creatable(summary)]
    extra = [n for n in ('SerialEvent', 'EnvironmentVariable') if n in g.cls and n in creatable(summary)]
    cases = []
    for k in range(4 if res.tier == 'quick' else 24):
        objs = []
        for cn in rng.sample(padded, min(len(padded), 5)) + extra[:1]:
            for ln in (1, 2, 3, 5):
                a = fc.api_object(g, summary, cn, rng)
                for i, f in enumerate(g.cls[cn]['fields']):
                    if f['kind'][0] == 'vec' and f['kind'][1] == 1 and i in a:
                        a[i] = bytes(rng.randrange(1, 256) for _ in range(ln + 4 * rng.randrange(0, 3)))
                objs.append((cn, a))
        rng.shuffle(objs)
        cases.append(fc.Case(rng.choice([0, 1]), rng.choice([16, 33, 64]), k % 2 == 0, objs))
    # streams that end exactly on a container boundary (whether a trailing empty container is cut must not depend on the schedule)
    fixed = [c['name'] for c in summary['classes'] if c['name'] in creatable(summary) and c.get('layout')
             and not any(f['kind'][0] == 'vec' for f in c['fields']) and not any(it[0] == 'pad' for it in c['layout']['items'])]
    probe = [fc.Case(0, 131072, False, [(cn, {})]) for cn in rng.sample(fixed, min(len(fixed), 2 if res.tier == 'quick' else 6))]
    pout = fc.run_cases(pipe, res, probe, fexe, cexe, want_model=False) if probe else []
    for pc, po in zip(probe, pout or []):
        sz = len(po['stream'])
        if sz > 0:
            for nobj, mult in ((2, 1), (4, 2), (6, 3)):
                cases.append(fc.Case(rng.choice([0, 1]), sz * mult, nobj % 4 == 0, [(pc.objs[0][0], {}) for _ in range(nobj)]))
    out = fc.run_cases(pipe, res, cases, fexe, cexe, want_model=False)
    if out is None:
        return
    env = fc.fenv()
    reqs, owner = [], []
    for ci, (c, o) in enumerate(zip(cases, out)):
        for pol in ['policy=nonpreempt'] + ['policy=%s seed=%d' % (p, lib.seed() * 10 + s) for p in ('random', 'pct') for s in range(5 if res.tier == 'quick' else 40)]:
            reqs.append('wsess level=%d cs=%d rp=%d close=-1 %s %s' % (c.level, c.cs, 1 if c.rp else 0, pol, c.tail())); owner.append(ci)
    ans, rc, err = lib.psession(sexe, reqs, env=env, timeout=3600)
    if len(ans) != len(reqs):
        res.oblige('D:sched-session', False, '%d answers for %d requests %s' % (len(ans), len(reqs), err[-300:]))
        return
    # natively, with different heap fill patterns
    nat = {}
    for fill in ('0', '170', '255'):
        e2 = dict(env); e2['ASAN_OPTIONS'] = e2.get('ASAN_OPTIONS', 'detect_leaks=0') + ':malloc_fill_byte=%s:max_malloc_fill_size=4194304' % fill
        w, rc, err = lib.psession(fexe, ['writefile %s %s' % (c.opts(), c.tail()) for c in cases], env=e2, timeout=1800)
        for ci, a in enumerate(w):
            nat.setdefault(ci, set()).add(a.split('out=')[1] if a.startswith('writefile out=') else a[:80])
    bad = {}
    for ci, (c, o) in enumerate(zip(cases, out)):
        files = set(nat.get(ci, set()))
        for rq, a, oc in zip(reqs, ans, owner):
            if oc == ci:
                res.corr['requests'] += 1
                files.add(a.split('file=')[1].split()[0] if 'outcome=done' in a and 'file=' in a else a[:80])
        if o['file'] is not None:
            files.add(o['file'].hex())
        if len(files) > 1:
            bad.setdefault('file-bytes-depend-on-schedule-or-heap', (c, '%d different results' % len(files)))
        for fh in files:
            try:
                hdr, conts = blfparse.parse_file(bytes.fromhex(fh))
            except (blfparse.FormatError, ValueError) as e:
                bad.setdefault('file-not-well-formed', (c, str(e)[:100])); continue
            payload = b''.join(k['payload'] for k in conts)
            if payload != o['stream']:
                k = next((i for i in range(min(len(payload), len(o['stream']))) if payload[i] != o['stream'][i]), min(len(payload), len(o['stream'])))
                bad.setdefault('padding-or-filler-not-as-encoded', (c, 'stream differs from the zero-padded encodings at offset %d of %d' % (k, len(o['stream']))))
    res.corr['file_level_cases'] = len(cases)
    res.corr['file_level_runs'] = len(reqs) + 3 * len(cases)
    for kind, (c, det) in bad.items():
        res.violation('nondeterministic', '%s (%s)' % (kind, det), {'class': 'File', 'failure': kind, 'config': c.opts(), 'objects': c.tail()})


# ================================================================================================ monitors
def gen_useq(rng, maxlen):
    ops = ['new', 'sdlcs:%d' % rng.randrange(1, 65)]
    if rng.random() < 0.4:
        ops.append('sbs:%d' % rng.choice([1, 4, 8, 16, 64]))
    n = rng.randrange(3, maxlen + 1)
    tot = 0
    for _ in range(n):
        k = rng.random()
        if k < 0.30:
            ln = rng.choice([0, 1, 2, 3, 5, 8, 13, 21, 40, 64, 65])
            ops.append('w:' + bytes(rng.randrange(256) for _ in range(ln)).hex())
            tot += ln
        elif k < 0.40:
            ln = rng.choice([0, 1, 4, 7, 16, 33])
            ops.append('wc:%d:%s' % (ln, bytes(rng.randrange(256) for _ in range(ln)).hex()))
            tot += ln
        elif k < 0.65:
            ops.append('r:%d' % rng.choice([0, 1, 2, 3, 4, 7, 8, 16, 31, 64, 100]))
        elif k < 0.78:
            ops.append('sk:%d' % rng.choice([-20, -8, -3, -2, -1, 0, 1, 2, 3, 8, 20]))
        elif k < 0.84:
            ops.append('nlc')
        elif k < 0.92:
            ops.append('drop')
            if rng.random() < 0.5:
                ops.append('held')
        elif k < 0.95:
            ops.append('sfs:%d' % max(0, tot + rng.choice([-5, -1, 0, 0, 0])))
        elif k < 0.98:
            ops.append('sdlcs:%d' % rng.randrange(1, 65))
        else:
            ops.append('sbs:%d' % rng.choice([1, 8, 64, 1000]))
    if rng.random() < 0.5:
        ops.append('held')
    return ops


def gen_wsess(rng, maxlen):
    """a write session of the in-memory stream: byte writes, reads of what is there, drops; the container list is dumped after every drop"""
    d = rng.choice([1, 2, 3, 4, 5, 8, 16, 33])
    ops = ['new', 'sdlcs:%d' % d]
    n = rng.randrange(3, maxlen + 1)
    tp = tg = 0
    for _ in range(n):
        k = rng.random()
        if k < 0.45:
            ln = rng.choice([1, 1, 2, 3, d, d, 2 * d, 2 * d + 1, max(1, d - 1), 5, 13])
            ops.append('w:' + bytes(rng.randrange(256) for _ in range(ln)).hex())
            tp += ln
            if rng.random() < 0.5:
                ops.append('held')
        elif k < 0.75:
            if tp > tg:
                ln = rng.choice([tp - tg, tp - tg, min(tp - tg, d), rng.randint(1, tp - tg)])
                ops.append('r:%d' % ln)
                tg += ln
        else:
            ops.append('drop'); ops.append('held')
    ops.append('drop'); ops.append('held')
    return ops


def gen_qseq(rng, maxlen):
    ops = ['new']
    if rng.random() < 0.2:
        # the counters are uint32_t: start the session 1..6 objects before the wrap-around (empty queue: both counters equal)
        x = 2 ** 32 - rng.randrange(1, 7)
        ops.append('pos:%d:%d' % (x, x))
    if rng.random() < 0.8:
        ops.append('sbs:%d' % rng.randrange(1, 4))
    n = rng.randrange(2, maxlen + 1)
    nid = 1
    for _ in range(n):
        k = rng.random()
        if k < 0.42:
            ops.append('w:%d' % nid)
            nid += 1
        elif k < 0.84:
            ops.append('r')
        elif k < 0.90:
            ops.append('sfs:%d' % rng.randrange(0, nid + 2))
        elif k < 0.94:
            ops.append('abort')
        else:
            ops.append('sbs:%d' % rng.randrange(1, 5))
    return ops


def monitor_corr(pipe, res, kind, nseq, maxlen):
    """kind 'u' or 'q'.  -> list of (ops actually executed, impl answers)"""
    tr = pipe.regenerate()
    a, f = lib.build_lib('san', lib.SAN)
    if a is None:
        res.oblige('D:build-lib', False, str(f)[:1500])
        return []
    exe, f = lib.build_exe('monitor_harness', [os.path.join(VERIF, 'harness', 'monitor_harness.cpp')], a, lib.SAN + ['-fno-access-control'])
    drv = lib.driver_exe()
    if exe is None or not os.path.exists(drv):
        res.oblige('D:build-monitor-harness', False, str(f)[:1500])
        return []
    rng = random.Random(lib.seed() * 6007 + {'u': 11, 'q': 13, 'ws': 17}[kind])
    seqs = [{'u': gen_useq, 'q': gen_qseq, 'ws': gen_wsess}[kind](rng, maxlen) for _ in range(nseq)]
    if kind == 'ws':
        # long sessions of the same shape: N rounds of (fill a container, read it, drop): what is held must not depend on N
        for nr in (4, 64, 512):
            for d in (4, 7):
                sq = ['new', 'sdlcs:%d' % d]
                for i in range(nr):
                    sq += ['w:' + ('%02x' % (i % 251)) * d, 'r:%d' % d, 'drop']
                    if i % 7 == 3:
                        sq += ['w:aa', 'held', 'r:1', 'drop']
                sq += ['w:bb', 'held']
                seqs.append(sq)
    if kind == 'u':
        # directed: go back in front of what is still held, drop, come forward again - nothing unread may have been discarded
        for c in (1, 3, 8, 16):
            for back in (1, 5, c + 2):
                body = bytes((7 * i + c) % 251 for i in range(20)).hex()
                seqs.append(['new', 'sdlcs:%d' % c, 'w:' + body, 'r:10', 'drop', 'sk:-%d' % back, 'drop', 'held', 'sk:%d' % back, 'r:10'])
                seqs.append(['new', 'wc:%d:%s' % (c + 4, body[:2 * (c + 4)]), 'wc:%d:%s' % (c + 4, body[:2 * (c + 4)]), 'r:%d' % (c + 5), 'drop',
                             'sk:-%d' % min(back, c + 5), 'drop', 'held', 'sk:%d' % min(back, c + 5), 'r:%d' % (c + 3)])
    if kind == 'u':
        # directed: an end declared ahead of the put position, then a write that crosses it (the end then follows the put position)
        for c in (3, 8, 64):
            for ahead, ln in ((2, 3), (1, 1), (4, 9), (2, 2)):
                seqs.append(['new', 'sdlcs:%d' % c, 'w:010203', 'sfs:%d' % (3 + ahead), 'w:' + '0a' * ln, 'r:%d' % (3 + ln), 'r:1', 'sk:-2', 'r:2'])
    corpus = os.path.join(VERIF, 'corpus', kind + 'seq.txt')
    if os.path.exists(corpus):
        seqs = [l.strip().split(';') for l in open(corpus) if l.strip() and not l.startswith('#')] + seqs
    cmd = 'qseq' if kind == 'q' else 'useq'
    mod, rc, err = lib.session(drv, ['%s %s' % (cmd, ';'.join(sq)) for sq in seqs])
    if len(mod) != len(seqs):
        res.oblige('D:driver-session', False, '%d answers for %d sequences' % (len(mod), len(seqs)))
        return []
    if kind == 'u':
        # every blocked read also becomes a `demand` probe: the read sleeps, then a write is tried beside it
        extra = []
        for sq, a in zip(list(seqs), mod):
            parts = a[len(cmd) + 1:].split(' | ')
            for j, pa in enumerate(parts):
                if pa.endswith(' block'):
                    if sq[j].startswith('r:'):
                        n = sq[j].split(':')[1]
                        k = rng.randint(1, 8)     # (the woken read copies from the new container: its vector must hold what it declares)
                        extra.append(sq[:j] + [rng.choice(['demand:%s:w:%s' % (n, 'ab' * rng.randint(1, 6)),
                                                           'demand:%s:wc:%d:%s' % (n, k, 'cd' * k)])])
                    break
        if extra:
            mod2, rc, err = lib.session(drv, ['%s %s' % (cmd, ';'.join(sq)) for sq in extra])
            if len(mod2) != len(extra):
                res.oblige('D:driver-session', False, '%d answers for %d demand sequences' % (len(mod2), len(extra)))
                return []
            seqs = seqs + extra
            mod = mod + mod2
        res.corr['demand_probes'] = len(extra)
    sent = []
    expect = []
    executed = []
    nprobe = 0
    for sq, a in zip(seqs, mod):
        parts = a[len(cmd) + 1:].split(' | ')
        cut = len(sq)
        ops2 = list(sq)
        exp = list(parts)
        risky = False
        for j, pa in enumerate(parts):
            if pa.startswith('u demand'):
                exp = parts[:j + 1]
                ops2 = sq[:j + 1]
                break
            if pa.endswith(' block'):
                ops2 = sq[:j] + ['probe-' + sq[j]]
                exp = parts[:j + 1]
                nprobe += 1
                break
            if ' oob' in pa or ' hang' in pa:
                ops2 = sq[:j]
                exp = parts[:j]
                res.corr.setdefault('model_flags_oob_or_hang', 0)
                res.corr['model_flags_oob_or_hang'] += 1
                break
        sent.append('%s %s' % (cmd, ';'.join(ops2)))
        expect.append(cmd + ' ' + ' | '.join(exp))
        executed.append(ops2)
    imp, rc, err = lib.psession(exe, sent, timeout=1800)
    if len(imp) != len(sent):
        # the harness died on some sequence (sanitizer abort, signal): find it, answer the rest
        first_err = err
        imp, rc, err = lib.psession_resilient(exe, sent, timeout=1800)
        if len(imp) != len(sent):
            res.oblige('D:harness-session', False, '%d answers for %d sequences; %s' % (len(imp), len(sent), (first_err or err)[-800:]))
            return []
        res.corr['harness_crashes'] = sum(1 for a in imp if a.startswith('crash'))
        res.corr['harness_crash_report'] = (first_err or '')[-600:]
    # blocking probes are timing based: an operation that returns may, under load, need longer than the probe waits.
    # Every disagreement is therefore repeated alone with a long probe time before it counts.
    redo = [i for i, (e, b) in enumerate(zip(expect, imp)) if e != b and not b.startswith('crash')]
    if redo and len(redo) <= 400:
        env2 = dict(os.environ); env2['VERIF_PROBE_MS'] = '1500'
        again, rc2, err2 = lib.session(exe, [sent[i] for i in redo], env=env2, timeout=1800)
        if len(again) == len(redo):
            for i, a2 in zip(redo, again):
                imp[i] = a2
            res.corr['timing_retries'] = len(redo)
    dis = 0
    for r, e, b in zip(sent, expect, imp):
        res.corr['requests'] += 1
        if e != b:
            dis += 1
            if dis <= 10:
                # first differing step
                if b.startswith('crash'):
                    res.violation('implementation-aborts', '%s monitor: the implementation is stopped by the sanitizer or a signal on this operation sequence (%s); the model answers %s' % (cmd, b, e[:200]),
                                  {'request': r, 'impl': b, 'model': e, 'sanitizer_report': res.corr.get('harness_crash_report', '')})
                    continue
                pe, pb = e.split(' | '), b.split(' | ')
                k = next((i for i in range(min(len(pe), len(pb))) if pe[i] != pb[i]), min(len(pe), len(pb)))
                res.violation('model-vs-implementation', '%s monitor: model and implementation differ at step %d' % (cmd, k),
                              {'request': r, 'step': k, 'model': pe[k] if k < len(pe) else None, 'impl': pb[k] if k < len(pb) else None})
    res.corr['disagreements'] = dis
    res.corr['blocking_probes'] = nprobe
    res.corr['distinct'] = len(set(sent))
    res.corr['samples'] = [{'sequence': sent[i][:300], 'answer': imp[i][:300]} for i in range(min(3, len(sent)))]
    res.oblige('D:%s-correspondence' % cmd, dis == 0, '%d disagreements' % dis)
    return list(zip(executed, imp))


def flat_oracle_u(ops, ans):
    """the reference byte queue of the property -> failure description or None"""
    parts = ans[5:].split(' | ')
    data = bytearray()
    g = 0
    p = 0
    fs = 2 ** 63 - 1
    good = True
    eof = False
    low = 0            # positions below `low` may have been dropped after having been read
    maxg = 0
    for i, (op, pa) in enumerate(zip(ops, parts)):
        if op == 'held' and pa.startswith('u held'):
            continue            # the container list: not an operation of the byte queue
        if op.startswith('probe-') or not pa.startswith('u ok'):
            break
        a = op.split(':')
        d = dict(x.split('=') for x in pa.split()[2:] if '=' in x)
        if a[0] == 'w':
            b = bytes.fromhex(a[1]) if len(a) > 1 else b''
            data += b; p += len(b)
            if p >= fs: fs = p
        elif a[0] == 'wc':
            b = bytes.fromhex(a[2]) if len(a) > 2 else b''
            n = int(a[1])
            data += b[:n] + bytes(max(0, n - len(b))); p += n
        elif a[0] == 'r':
            n = int(a[1])
            if n + g > fs:
                n = fs - g; good = False; eof = True
            elif n > 0:
                good = True; eof = False
            n = max(0, n)
            want = bytes(data[g:g + n]) if g >= 0 else b''
            got = bytes.fromhex(d.get('bytes', ''))
            if g >= low and g >= 0:
                if got != want:
                    return 'step %d (%s): read returned %s, the byte queue holds %s at position %d' % (i, op, got.hex()[:60], want.hex()[:60], g)
                g += len(want)
            else:
                g += len(got)
            maxg = max(maxg, g)
        elif a[0] == 'sk':
            g = min(g + int(a[1]), fs)
        elif a[0] == 'sfs':
            fs = int(a[1])
        elif a[0] == 'drop':
            # everything behind the get position is consumed - read, or skipped by a forward seek - and may be dropped
            low = max(low, min(g, p, fs))
        tg = g if good else -1
        tp = p if good else -1
        if int(d['tg']) != tg or int(d['tp']) != tp or int(d['fs']) != fs or (d['good'] == '1') != good or (d['eof'] == '1') != eof:
            return 'step %d (%s): observed tg=%s tp=%s fs=%s good=%s eof=%s, reference tg=%d tp=%d fs=%d good=%d eof=%d' % (
                i, op, d['tg'], d['tp'], d['fs'], d['good'], d['eof'], tg, tp, fs, good, eof)
    return None


def check_C15(res):
    pipe = Pipe(res)
    pipe.regenerate()
    res.checker_cmd = 'cd lean && lake build Blf.Props.C15 && lake env lean <#print axioms>'
    pipe.lean(['Blf.Props.C15', 'blfdriver'], {'Blf.Props.C15': C15_THEOREMS})
    tr = pipe.regenerate()
    if tr['ok']:
        monitor_tables(res, pipe, tr['summary'], classes=('UncompressedFile',))
        sexe = build_sched_harness(pipe, res)
        if sexe:
            monitor_sessions(res, sexe, random.Random(lib.seed() * 31 + 5), 'u')
    nseq = 1500 if res.tier == 'quick' else 30000
    runs = monitor_corr(pipe, res, 'u', nseq, 60)
    res.corr['programs'] = 1
    res.corr['rule'] = 'non-blocking operation sequences up to length 60 over {write bytes, write container, read, seekg, nextLogContainer, dropOldData, setFileSize, setDefaultLogContainerSize c in 1..64, setBufferSize}; an operation the model says blocks is issued on a helper thread and must be observed blocked; distinct = distinct sequences'
    fails = {}
    for ops, ans in runs:
        v = flat_oracle_u(ops, ans)
        if v:
            kind = 'container-after-partial-write' if any(o.startswith('wc') for o in ops) else 'byte-queue-mismatch'
            # minimise: shortest failing sequence of this kind
            if kind not in fails or len(ops) < len(fails[kind][0]):
                fails[kind] = (ops, v)
    res.corr['reference_model_failures'] = {k: v[1] for k, v in fails.items()}
    for kind, (ops, v) in fails.items():
        res.violation('byte-queue', 'in-memory stream deviates from the reference byte queue: ' + v, {'class': 'UncompressedFile', 'failure': kind, 'sequence': ';'.join(ops), 'detail': v})
    finish_codec(res)


def check_C16(res):
    pipe = Pipe(res)
    pipe.regenerate()
    res.checker_cmd = 'cd lean && lake build Blf.Props.C16 && lake env lean <#print axioms>'
    pipe.lean(['Blf.Props.C16', 'blfdriver'], {'Blf.Props.C16': C16_THEOREMS})
    tr = pipe.regenerate()
    if tr['ok']:
        monitor_tables(res, pipe, tr['summary'], classes=('ObjectQueue',))
        sexe = build_sched_harness(pipe, res)
        if sexe:
            monitor_sessions(res, sexe, random.Random(lib.seed() * 31 + 5), 'q')
    nseq = 2000 if res.tier == 'quick' else 40000
    runs = monitor_corr(pipe, res, 'q', nseq, 40)
    res.corr['wrap_sessions'] = sum(1 for ops, ans in runs if any(o.startswith('pos:') for o in ops))
    res.corr['wrap_sessions_counter_wrapped'] = sum(1 for ops, ans in runs if any(o.startswith('pos:') for o in ops) and any(' tg=0 ' in pa or ' tp=0 ' in pa for pa in ans.split(' | ')[2:]))
    res.corr['programs'] = 1
    res.corr['rule'] = 'single-threaded operation sequences up to length 40 over {write, read, setFileSize, setBufferSize, abort} with capacities 1..4, one session in five started 1..6 objects before the 2^32 wrap-around of the two counters (preset through the private members; the driver runs the uint32_t machine Queue.step32); an operation the model says blocks is issued on a helper thread and must be observed blocked'
    # property oracle on the implementation, back-pressure and end of stream: a reference bounded queue written down here (not the
    # Lean model): a writer is held back exactly while the queue is at its configured capacity (and not aborted), a reader exactly
    # while the queue is empty, not aborted and the declared number of objects has not been read yet
    for ops, ans in runs:
        parts = ans[5:].split(' | ')
        n, cap, fsz, tg, ab, tp = 0, 2 ** 32 - 1, 2 ** 32 - 1, 0, False, 0
        for op, pa in zip(ops, parts):
            a = op.split(':')
            k = a[0][6:] if a[0].startswith('probe-') else a[0]
            blocked = pa in ('q block', 'q hang')
            if k == 'w':
                should = (not ab) and n >= cap
                if blocked != should:
                    res.violation('backpressure', 'write %s with %d queued, capacity %d, abort=%s' % ('was held back' if blocked else 'was admitted', n, cap, ab),
                                  {'class': 'ObjectQueue', 'failure': 'held-back-below-capacity' if blocked else 'capacity-exceeded', 'sequence': ';'.join(ops)})
                    break
                if blocked:
                    break
                n += 1
                tp = (tp + 1) % 2 ** 32      # the declared size follows the put counter (32 bit) when that passes it
                if tp > fsz:
                    fsz = tp
            elif k == 'pos':
                tg, tp = int(a[1]) % 2 ** 32, int(a[2]) % 2 ** 32
            elif k == 'r':
                should = (not ab) and n == 0 and tg < fsz
                if blocked != should:
                    res.violation('backpressure', 'read %s with %d queued, %d read, declared size %d, abort=%s' % ('was held back' if blocked else 'returned', n, tg, fsz, ab),
                                  {'class': 'ObjectQueue', 'failure': 'reader-held-back' if blocked else 'end-of-stream-early', 'sequence': ';'.join(ops)})
                    break
                if blocked:
                    break
                if n > 0:
                    n -= 1; tg = (tg + 1) % 2 ** 32
            elif k == 'abort':
                ab = True
            elif k == 'sbs':
                cap = int(a[1])
            elif k == 'sfs':
                fsz = int(a[1])
            if not pa.startswith('q ok') and not pa.startswith('q returned'):
                break
    # property oracle on the implementation: FIFO, exactly once, null only when empty
    for ops, ans in runs:
        parts = ans[5:].split(' | ')
        pending = []
        aborted = False
        for op, pa in zip(ops, parts):
            if not pa.startswith('q ok'):
                break
            a = op.split(':')
            if a[0] == 'w':
                pending.append(a[1])
            elif a[0] == 'abort':
                aborted = True
            elif a[0] == 'r':
                d = dict(x.split('=') for x in pa.split()[2:] if '=' in x)
                if d.get('ret') == 'null':
                    if pending:
                        res.violation('fifo', 'read returned null while %d objects remained' % len(pending), {'class': 'ObjectQueue', 'failure': 'null-while-nonempty', 'sequence': ';'.join(ops)})
                        break
                else:
                    if not pending or pending[0] != d.get('ret'):
                        res.violation('fifo', 'read returned %s, expected %s' % (d.get('ret'), pending[:1]), {'class': 'ObjectQueue', 'failure': 'order', 'sequence': ';'.join(ops)})
                        break
                    pending.pop(0)
    finish_codec(res)


C15_THEOREMS = ['Blf.Props.C15_init', 'Blf.Props.C15_append_container', 'Blf.Props.C15_read', 'Blf.Props.C15_read_preserves', 'Blf.Props.C15_seek_preserves', 'Blf.Props.C15_setFileSize_preserves', 'Blf.Props.C15_drop_preserves', 'Blf.Props.C15_drop_safe', 'Blf.Props.C15_read_flags',
                'Blf.Props.C15_byte_write', 'Blf.Props.C15_byte_read', 'Blf.Props.C15_write_session_fifo']
C16_THEOREMS = ['Blf.Props.C16_fifo', 'Blf.Props.C16_backpressure', 'Blf.Props.C16_eos', 'Blf.Props.C16_abort_releases', 'Blf.Props.C16_positions',
                'Blf.Props.C16_counters32_refine', 'Blf.Props.C16_fifo_wrap', 'Blf.Props.C16_never_null_while_objects_remain_wrap',
                'Blf.Props.C16_abort_releases_wrap', 'Blf.Props.C16_positions_wrap']


# ================================================================================================ file level
def creatable(summary):
    names = set(summary.get('factory', {}).values())
    return sorted(n for n in names if n != 'LogContainer' and any(c['name'] == n for c in summary['classes']))


def check_C01(res):
    import filechecks as fc
    pipe = Pipe(res)
    tr = pipe.regenerate()
    if not tr['ok']:
        return finish_codec(res)
    summary = tr['summary']
    regres = pipe.checks()
    res.checker_cmd = 'cd lean && lake build Blf.Props.C01 && lake env lean <#print axioms>'
    pipe.lean(['Blf.Props.C01', 'blfdriver'], {'Blf.Props.C01': C01_THEOREMS})
    exact = sorted(coverage_obligations(pipe, res, summary, regres))
    fexe, cexe = fc.build_file_harness(pipe, res)
    if not fexe or not cexe:
        return finish_codec(res)
    clsd = {c_['name']: c_ for c_ in summary['classes']}

    def xv_case(c, cn):
        # (finding 4 needs an object that announces extended frame data; see ext_variant)
        if cn not in ('CanFdMessage64', 'CanFdErrorFrame64'):
            return ''
        vs = [ext_variant(clsd, n_, lambda i, a_=a_: a_.get(i)) for n_, a_ in c.objs if n_ in ('CanFdMessage64', 'CanFdErrorFrame64')]
        di = next((i for i, f in enumerate(clsd[cn]['fields']) if f['name'] == 'data'), None)
        if not (vs and all(vs)):
            return ''                       # some object announces extended frame data: finding 4 applies
        if any(len(a_.get(di, b'')) > 255 for n_, a_ in c.objs if n_ == cn):
            return ':data-above-255'        # finding 29: more data bytes than the 8-bit validDataBytes can say
        return ':without-ext-data'
    rng = random.Random(lib.seed() * 2741 + 1)
    classes = creatable(summary)
    ncases = 3 * len(classes) if res.tier == 'quick' else 40 * len(classes)
    sus = suspect_classes(summary, regres)
    res.corr['suspect_classes'] = sus
    cases = fc.gen_cases(summary, rng, res.tier, classes, [c for c in exact if c in classes], ncases, suspects=sus)
    # an application that takes its time: more than a second between open() and the first write() and between two writes
    for c in [c for c in cases if len(c.objs) >= 2][:2]:
        c2 = fc.Case(c.level, c.cs, c.rp, c.objs, c.hdr)
        c2.pause = 4
        cases.append(c2)
    out = fc.run_cases(pipe, res, cases, fexe, cexe)
    if out is None:
        return finish_codec(res)
    files = [o['file'] if o['file'] is not None else b'' for o in out]
    r, mr = fc.read_files(res, files, fexe)
    if r is None or mr is None:
        return finish_codec(res)
    res.corr['programs'] = len(classes)
    dis = 0
    fails = {}
    reenc = []
    pending = []
    stats = {'cases': len(cases), 'objects': sum(len(c.objs) for c in cases), 'levels': sorted(set(c.level for c in cases)),
             'container_sizes': sorted(set(c.cs for c in cases)), 'files_identical_model_impl': 0, 'reads_identical_model_impl': 0}
    for c, o, a, ma in zip(cases, out, r, mr):
        res.corr['requests'] += 2
        cn0 = c.objs[0][0] if c.objs else '-'
        single = len(set(x[0] for x in c.objs)) <= 1
        indet = any(not f['hasInit'] for x in c.objs for f in next(k for k in summary['classes'] if k['name'] == x[0])['fields'])
        if o['file'] is None:
            fails.setdefault((cn0, 'write-' + o['wanswer'].split('outcome=')[-1].split()[0]), (c, o['wanswer'][:200]))
            continue
        if o.get('mfile') is not None and o['mfile'] != o['file'] and not indet:
            dis += 1
            if dis <= 10:
                k = next((i for i in range(min(len(o['file']), len(o['mfile']))) if o['file'][i] != o['mfile'][i]), -1)
                res.violation('model-vs-implementation', 'writeFile: model and implementation bytes differ at offset %d (%d vs %d bytes)' % (k, len(o['mfile']), len(o['file'])),
                              {'request': 'writefile %s %s' % (c.opts(), c.tail())[:3000], 'offset': k})
        else:
            stats['files_identical_model_impl'] += 1
        if not fc.compare_read(summary, ma, a):
            if not (indet and 'outcome=ended' in a and 'outcome=ended' in ma):
                dis += 1
                if dis <= 10:
                    res.violation('model-vs-implementation', 'readFile: model and implementation answers differ', {'file': o['file'].hex(), 'model': ma[:1500], 'impl': a[:1500]})
        else:
            stats['reads_identical_model_impl'] += 1
        # property oracle on the implementation
        d, st, objs = fc.split_read(a)
        kind = None
        if d.get('outcome') != 'ended':
            kind = 'read-' + str(d.get('outcome'))
        elif d.get('badeof'):
            kind = 'no-clean-eof'
        else:
            exp = o['expected']
            # an object whose type code on the wire is not mapped to its class by the factory is skipped by the reader (that is the
            # specified treatment of unknown types, C09): it is reported as lost, and the rest is compared without it
            fmap = summary.get('factory', {})
            def mapped(e):
                return len(e['bytes']) >= 16 and fmap.get(str(int.from_bytes(e['bytes'][12:16], 'little'))) == e['class']
            if len(objs) < len(exp) and any(not mapped(e) for e in exp):
                lost = [e for e in exp if not mapped(e)]
                key = (lost[0]['class'], 'object-lost')
                if key not in fails or len(c.objs) < len(fails[key][0].objs):
                    fails[key] = (c, 'type code %d is not mapped to %s by the factory' % (int.from_bytes(lost[0]['bytes'][12:16], 'little'), lost[0]['class']))
                exp = [e for e in exp if mapped(e)]
            for i in range(max(len(exp), len(objs))):
                if i >= len(objs):
                    kind = 'object-lost'; cn0 = exp[i]['class']; break
                if i >= len(exp):
                    kind = 'extra-object'; break
                if objs[i][0] != exp[i]['class']:
                    kind = 'class-mismatch'; cn0 = exp[i]['class']; break
                if fc.mask_indet(summary, objs[i][0], objs[i][1]) != fc.mask_indet(summary, exp[i]['class'], exp[i]['dump']):
                    # fields differ: decided below by comparing the encodings (members outside the object's variant,
                    # e.g. an optional trailing field that is absent, are not part of what the format can express)
                    pending.append((len(reenc), c, i, exp[i]))
                    reenc.append('!enc %s %s' % (objs[i][0], objs[i][1]))
        if kind:
            key = (cn0, kind + xv_case(c, cn0))
            if key not in fails or len(c.objs) < len(fails[key][0].objs):
                fails[key] = (c, a[:300])
    if reenc:
        ra, rc, err = lib.psession(cexe, reenc)
        if len(ra) == len(reenc):
            for (k, c, i, e) in pending:
                dd = parse_kv(ra[k])
                if dd.get('halt') != 'none' or bytes.fromhex(dd.get('out', '')) != e['bytes']:
                    key = (e['class'], 'field-mismatch' + xv_case(c, e['class']))
                    if key not in fails or len(c.objs) < len(fails[key][0].objs):
                        fails[key] = (c, 'object %d read back with a different encoding' % i)
                else:
                    stats['equal_by_encoding'] = stats.get('equal_by_encoding', 0) + 1
    res.corr['disagreements'] = dis
    res.oblige('D:file-correspondence', dis == 0, '%d disagreements' % dis)
    res.corr['distinct'] = len(set((c.opts(), c.tail()) for c in cases))
    res.corr['rule'] = 'object sequences (single class with 1-3 objects incl. defaults, empty, mixed sequences of exactly-framed classes) populated API-style, x compression levels x container sizes {1,7,64,4096,131072} x trailer on/off x header fields; written and read through the real threaded File; non-trivial = distinct (configuration, sequence)'
    res.corr['samples'] = [{'config': c.opts(), 'objects': [x[0] for x in c.objs][:5]} for c in cases[:4]]
    res.corr.update(stats)
    for (cn, kind), (c, det) in fails.items():
        res.violation('roundtrip', '%s: %s (%s)' % (cn, kind, det[:160]), {'class': cn, 'failure': kind, 'config': c.opts(), 'objects': c.tail()})
    finish_codec(res)


C01_THEOREMS = ['Blf.Props.C01_object_roundtrip', 'Blf.Props.parsable_of_exact', 'Blf.Props.C01_stream_roundtrip', 'Blf.Props.C01_file_roundtrip', 'Blf.Props.C01_delivered_length', 'Blf.Gen.exact_all', 'Blf.Gen.exact_hdr']


def file_setup(res, prop, theorems):
    import filechecks as fc
    pipe = Pipe(res)
    tr = pipe.regenerate()
    if not tr['ok']:
        finish_codec(res)
    summary = tr['summary']
    regres = pipe.checks()
    res.checker_cmd = 'cd lean && lake build Blf.Props.%s && lake env lean <#print axioms>' % prop
    pipe.lean(['Blf.Props.' + prop, 'blfdriver'], {'Blf.Props.' + prop: theorems})
    exact = sorted(coverage_obligations(pipe, res, summary, regres))
    if not regres:
        # no executable model of this tree: the oracles still need to know which classes to draw objects from
        names = set(c['name'] for c in summary['classes'])
        exact = sorted(n for n in load_baseline()['exact'] if n in names and n not in (summary.get('untranslated') or {}))
    fexe, cexe = fc.build_file_harness(pipe, res)
    if not fexe or not cexe:
        finish_codec(res)
    return fc, pipe, summary, exact, fexe, cexe


FLEVEL = {1: 0, 2: 1, 3: 1, 4: 1, 5: 1, 6: 2, 7: 3, 8: 3, 9: 3}


def check_C04(res):
    fc, pipe, summary, exact, fexe, cexe = file_setup(res, 'C04', C04_THEOREMS)
    import blfparse
    rng = random.Random(lib.seed() * 3571 + 4)
    classes = [c for c in creatable(summary) if c in exact]
    ncases = 250 if res.tier == 'quick' else 4000
    cases = fc.gen_cases(summary, rng, res.tier, classes, classes, ncases)
    # the same sequence under several configurations: payload must be identical
    base = cases[:20]
    for c in base:
        for lv, cs in ((0, 7), (9, 4096), (5, 64)):
            cases.append(fc.Case(lv, cs, not c.rp, c.objs, c.hdr))
    # the level assigned to the public member right after open(), and a File destroyed without an explicit close(): the finished
    # file must be what the configuration at the time of writing says, with every object in it
    for c in cases[20:40]:
        if c.objs:
            cases.append(fc.Case(c.level, c.cs, c.rp, c.objs, c.hdr, open_level=rng.choice([x for x in (0, 1, 6, 9) if x != c.level])))
            cases.append(fc.Case(c.level, c.cs, c.rp, c.objs + c.objs + c.objs, c.hdr, noclose=True))
    out = fc.run_cases(pipe, res, cases, fexe, cexe)
    if out is None:
        finish_codec(res)
    res.corr['programs'] = len(classes)
    dis = 0
    nfail = {}
    for c, o in zip(cases, out):
        res.corr['requests'] += 1
        if o['file'] is None:
            nfail.setdefault('write-' + o['wanswer'].split('outcome=')[-1].split()[0], (c, o['wanswer'][:200]))
            continue
        if o.get('mfile') is not None and o['mfile'] != o['file']:
            dis += 1
            if dis <= 10:
                res.violation('model-vs-implementation', 'writeFile: model and implementation bytes differ', {'request': ('writefile %s %s' % (c.opts(), c.tail()))[:3000]})
        try:
            hdr, conts = blfparse.parse_file(o['file'])
        except blfparse.FormatError as e:
            nfail.setdefault('independent-decoder-rejects', (c, str(e)))
            continue
        main = conts[:-1] if c.rp else conts
        if c.rp and (not conts or conts[-1]['uncompressedSize'] != 0):
            nfail.setdefault('restore-point-container-missing', (c, 'last container holds %s bytes' % (conts[-1]['uncompressedSize'] if conts else None)))
        for k in conts:
            if k['method'] != (0 if c.level == 0 else 2):
                nfail.setdefault('compression-method', (c, 'method %d at level %d' % (k['method'], c.level)))
            if c.level > 0 and k['flevel'] != FLEVEL[c.level]:
                nfail.setdefault('zlib-level-class', (c, 'FLEVEL %s at level %d' % (k['flevel'], c.level)))
            if k['uncompressedSize'] > c.cs:
                nfail.setdefault('container-too-large', (c, '%d > %d' % (k['uncompressedSize'], c.cs)))
            if k['objectSize'] != 32 + len(k['stored']):
                nfail.setdefault('container-object-size', (c, str(k['objectSize'])))
            if k['reserved'] != (0, 0, 0):
                nfail.setdefault('container-reserved-nonzero', (c, str(k['reserved'])))
        payload = b''.join(k['payload'] for k in conts)
        if payload != o['stream']:
            nfail.setdefault('payload-differs-from-object-encodings', (c, '%d vs %d bytes' % (len(payload), len(o['stream']))))
        if any(k['uncompressedSize'] != c.cs for k in main[:-1]):
            nfail.setdefault('container-not-full', (c, str([k['uncompressedSize'] for k in main])[:100]))
    res.corr['disagreements'] = dis
    res.oblige('D:file-correspondence', dis == 0, '%d disagreements' % dis)
    res.corr['distinct'] = len(set((c.opts(), c.tail()) for c in cases))
    res.corr['rule'] = 'object sequences (incl. empty) of exactly-framed classes x levels x container sizes x trailer on/off, the first 20 sequences under three further configurations; files written by the real File are parsed by a strict stdlib-only Python decoder (spec/blfparse.py); non-trivial = distinct (configuration, sequence)'
    res.corr['samples'] = [{'config': c.opts(), 'objects': [x[0] for x in c.objs][:5], 'containers': len(o['chunks'])} for c, o in list(zip(cases, out))[:4]]
    for kind, (c, det) in nfail.items():
        res.violation('container-format', '%s (%s)' % (kind, det[:200]), {'class': 'File', 'failure': kind, 'config': c.opts(), 'objects': c.tail()})
    finish_codec(res)


def check_C05(res):
    fc, pipe, summary, exact, fexe, cexe = file_setup(res, 'C05', C05_THEOREMS)
    import blfparse
    rng = random.Random(lib.seed() * 3581 + 5)
    classes = [c for c in creatable(summary) if c in exact] + ['RestorePointContainer']
    ncases = 250 if res.tier == 'quick' else 4000
    cases = fc.gen_cases(summary, rng, res.tier, classes, [c for c in classes if c in exact], ncases)
    for c in cases:
        if rng.random() < 0.6:
            c.hdr.update({2: struct_pack('<I', rng.randrange(2 ** 32)), 6: bytes([rng.randrange(256)]), 14: bytes(rng.randrange(256) for _ in range(64))})
    out = fc.run_cases(pipe, res, cases, fexe, cexe)
    if out is None:
        finish_codec(res)
    files = [o['file'] if o['file'] is not None else b'' for o in out]
    # the 170 reference logs: reader counters against their headers
    logs = sorted(glob_mod.glob(os.path.join(lib.SRC, 'tests', 'unittests', 'events_from_*', '*.blf')))
    files += [open(f, 'rb').read() for f in logs]
    r, mr = fc.read_files(res, files, fexe)
    if r is None or mr is None:
        finish_codec(res)
    res.corr['programs'] = len(classes)
    dis = 0
    nfail = {}
    for i, (f, a, ma) in enumerate(zip(files, r, mr)):
        res.corr['requests'] += 1
        if not fc.compare_read(summary, ma, a):
            dis += 1
            if dis <= 10:
                res.violation('model-vs-implementation', 'readFile: model and implementation answers differ', {'file': f.hex(), 'model': ma[:1200], 'impl': a[:1200]})
        c = cases[i] if i < len(cases) else None
        name = 'written' if c else os.path.basename(logs[i - len(cases)])
        try:
            hdr, conts = blfparse.parse_file(f)
        except blfparse.FormatError as e:
            nfail.setdefault('independent-decoder-rejects', (c, name + ': ' + str(e)))
            continue
        d, st, objs = fc.split_read(a)
        want_usize = hdr['statisticsSize'] + sum(32 + k['uncompressedSize'] for k in conts)
        if c:
            if hdr['fileSize'] != len(f):
                nfail.setdefault('header-file-size', (c, '%d vs %d' % (hdr['fileSize'], len(f))))
            if hdr['uncompressedFileSize'] != want_usize:
                nfail.setdefault('header-uncompressed-size', (c, '%d vs %d' % (hdr['uncompressedFileSize'], want_usize)))
            nobj = sum(1 for x in c.objs if x[0] != 'RestorePointContainer')
            if hdr['objectCount'] != nobj:
                nfail.setdefault('header-object-count', (c, '%d vs %d' % (hdr['objectCount'], nobj)))
            if c.rp and hdr['restorePointsOffset'] != conts[-1]['offset']:
                nfail.setdefault('header-restore-points-offset', (c, '%d vs %d' % (hdr['restorePointsOffset'], conts[-1]['offset'])))
            if not c.rp and hdr['restorePointsOffset'] != int.from_bytes(c.hdr.get(13, b''), 'little'):
                nfail.setdefault('header-restore-points-offset', (c, 'changed although disabled'))
            for k, key in ((2, 'apiNumber'), (3, 'applicationId'), (4, 'compressionLevel'), (5, 'applicationMajor'), (6, 'applicationMinor'), (10, 'applicationBuild')):
                if k in c.hdr and hdr[key] != int.from_bytes(c.hdr[k], 'little'):
                    nfail.setdefault('header-caller-field', (c, key))
            for k, key in ((11, 'measurementStartTime'), (12, 'lastObjectTime'), (14, 'reserved')):
                if k in c.hdr and hdr[key] != c.hdr[k]:
                    nfail.setdefault('header-caller-field', (c, key))
        if d.get('outcome') != 'ended':
            nfail.setdefault('reader-' + str(d.get('outcome')), (c, name))
            continue
        if int(d.get('usize', -1)) != hdr['uncompressedFileSize'] or int(d.get('usize', -1)) != want_usize:
            nfail.setdefault('reader-uncompressed-size' + ('' if c else '-reference-log'), (c, '%s: reader %s header %d recomputed %d' % (name, d.get('usize'), hdr['uncompressedFileSize'], want_usize)))
        if int(d.get('count', -1)) != hdr['objectCount']:
            # (finding 6: a default EnvironmentVariable carries type UNKNOWN, which the reader skips; such a case is attributed to that class)
            envu = c is not None and any(x[0] == 'EnvironmentVariable' and int.from_bytes(x[1].get(4, b'\0'), 'little') not in (6, 7, 8, 9) for x in c.objs)
            nfail.setdefault('reader-object-count' + ('' if c else '-reference-log') + (':EnvironmentVariable' if envu else ''), (c, '%s: reader %s header %d' % (name, d.get('count'), hdr['objectCount'])))
    res.corr['disagreements'] = dis
    res.oblige('D:file-correspondence', dis == 0, '%d disagreements' % dis)
    res.corr['distinct'] = len(set(files))
    res.corr['reference_logs'] = len(logs)
    res.corr['rule'] = 'written files as in C04 with caller-supplied header fields, plus the reference logs; header fields compared with an independent recomputation from the container walk (spec/blfparse.py) and with the reader counters after a complete read'
    res.corr['samples'] = [{'config': c.opts(), 'objects': [x[0] for x in c.objs][:5]} for c in cases[:3]]
    for kind, (c, det) in nfail.items():
        cls = 'File'
        if kind.endswith(':EnvironmentVariable'):
            kind, cls = kind[:-len(':EnvironmentVariable')], 'EnvironmentVariable'
        res.violation('statistics', '%s (%s)' % (kind, str(det)[:200]), {'class': cls, 'failure': kind, 'config': c.opts() if c else None, 'objects': c.tail() if c else det})
    finish_codec(res)


def check_C08(res):
    fc, pipe, summary, exact, fexe, cexe = file_setup(res, 'C08', C08_THEOREMS)
    import blfparse
    rng = random.Random(lib.seed() * 3593 + 8)
    classes = [c for c in creatable(summary) if c in exact]
    g = codecgen_mod().ObjGen(summary, rng)
    cases = []
    nfiles = 8 if res.tier == 'quick' else 64
    for k in range(nfiles):
        lv = [0, 1, 6, 9][k % 4]
        cs = rng.choice([16, 40, 64, 100])
        objs = []
        for cn in rng.sample(classes, rng.choice([3, 4, 5])):
            a = fc.api_object(g, summary, cn, rng)
            # keep files small enough that every offset can be tried
            a = {i: (v if len(v) <= 40 else v[:40]) for i, v in a.items()}
            objs.append((cn, a))
        if k % 3 == 0:
            objs.insert(1, ('AppText', {next(i for i, f in enumerate(g.cls['AppText']['fields']) if f['name'] == 'text'): bytes(rng.randrange(32, 127) for _ in range(rng.choice([5, 37, 90])))}))
        # an object of a class with layout variants (older versions are shorter than the class default: the parser seeks back behind
        # them), as the last object and in the middle
        variants = [(cn, fi, v) for cn in ('EthernetStatus', 'LinMessage2', 'LinMessage', 'LinSendError2', 'CanErrorFrame') if cn in creatable(summary) and cn in g.cls
                    for fi in (g.cls[cn].get('shapeFields') or []) if g.cls[cn]['fields'][fi]['kind'][0] == 'num'
                    and g.cls[cn]['fields'][fi]['name'] in ('apiMajor', 'reservedLinMessage2_present', 'reservedLinSendError2_present', 'length')
                    for v in ((0, 1) if g.cls[cn]['fields'][fi]['name'].endswith('_present') else (0, 1, 2, 3))]      # (a bool member holds 0 or 1)
        if variants:
            cn, fi, v = variants[k % len(variants)]
            a = fc.api_object(g, summary, cn, rng)
            a[fi] = codecgen_mod().le(v, g.cls[cn]['fields'][fi]['kind'][1])
            objs.append((cn, a))
            if k % 2:
                objs.insert(1, (cn, dict(a)))
        cases.append(fc.Case(lv, cs, k % 2 == 0, objs))
    out = fc.run_cases(pipe, res, cases, fexe, cexe)
    if out is None:
        finish_codec(res)
    files = []
    meta = []
    for ci, (c, o) in enumerate(zip(cases, out)):
        if o['file'] is None:
            res.violation('truncation', 'write failed: ' + o['wanswer'][:100], {'class': 'File', 'failure': 'write-failed', 'config': c.opts()})
            continue
        f = o['file']
        init_hdr = fc_encode_initial_header()
        variants = [('final-header', f), ('initial-header', init_hdr + f[144:])]
        for vn, fv in variants:
            step = 1 if (res.tier == 'thorough' or len(fv) <= 700) else 3
            offs = sorted(set(list(range(0, len(fv) + 1, step)) + [len(fv)]))
            for k in offs:
                files.append(fv[:k])
                meta.append((ci, vn, k, len(fv)))
    r, mr = fc.read_files(res, files, fexe)
    if r is None or mr is None:
        finish_codec(res)
    res.corr['programs'] = len(classes)
    dis = 0
    fails = {}
    # expected: objects wholly contained in completely stored containers
    full = {}
    reenc, pend = [], []
    for (ci, vn, k, n), f, a, ma in zip(meta, files, r, mr):
        res.corr['requests'] += 1
        if not fc.compare_read(summary, ma, a):
            dis += 1
            if dis <= 10:
                res.violation('model-vs-implementation', 'readFile of a truncated file: model and implementation differ', {'file': f.hex(), 'cut': k, 'model': ma[:800], 'impl': a[:800]})
        d, st, objs = fc.split_read(a)
        c, o = cases[ci], out[ci]
        if k == n:
            full[(ci, vn)] = objs
        # independent expectation
        hdr_ok = k >= 4 and f[:4] == b'LOGG' or (k < 4 and (f + b'LOGG'[k:])[:4] == b'LOGG')
        exp_n = None
        if d.get('outcome') == 'openexc':
            exp_n = None
        elif d.get('outcome') != 'ended':
            fails.setdefault('read-' + str(d.get('outcome')), (ci, vn, k, a[:120]))
            continue
        else:
            # containers completely contained in the prefix
            pos = 144
            payload = 0
            whole = blfparse.parse_file(o['file'])[1]
            for kc in whole:
                end = kc['offset'] + kc['objectSize']
                if end <= k:
                    payload += kc['uncompressedSize']
                else:
                    break
            acc = 0
            exp_n = 0
            for e in o['expected']:
                # an object is there when all its fields are there; the alignment padding behind it (objectSize % 4 bytes, skipped
                # with a seek) is not part of it -- this is `TruncRound.jOf`/`bodyLen` of the theorem
                usz = int.from_bytes(e['bytes'][8:12], 'little')
                body = usz if usz <= len(e['bytes']) < usz + 4 else len(e['bytes'])
                if acc + body <= payload:
                    acc += len(e['bytes']); exp_n += 1
                else:
                    break
            if len(objs) != exp_n:
                fails.setdefault('wrong-object-count', (ci, vn, k, 'delivered %d objects, %d have all their fields in completely stored containers' % (len(objs), exp_n)))
            for j, (cn, dump) in enumerate(objs[:exp_n]):
                e = o['expected'][j]
                if cn != e['class']:
                    fails.setdefault('modified-object', (ci, vn, k, 'object %d (%s) differs from the written one' % (j, cn)))
                    break
                if fc.mask_indet(summary, cn, dump) != fc.mask_indet(summary, cn, e['dump']):
                    # members outside the object's variant (e.g. apiMajor, which is not in the file) do not round-trip: decided
                    # below by comparing encodings, as in C01
                    pend.append((len(reenc), ci, vn, k, j, cn, e['bytes']))
                    reenc.append('!enc %s %s' % (cn, dump))
            if d.get('badeof'):
                fails.setdefault('no-end-indication', (ci, vn, k, a[:80]))
    if reenc:
        uniq = list(dict.fromkeys(reenc))
        ra, rc, err = lib.psession(cexe, uniq)
        if len(ra) == len(uniq):
            enc_of = dict(zip(uniq, ra))
            for (qi, ci, vn, k, j, cn, want) in pend:
                dd = parse_kv(enc_of[reenc[qi]])
                if dd.get('halt') != 'none' or bytes.fromhex(dd.get('out', '')) != want:
                    fails.setdefault('modified-object', (ci, vn, k, 'object %d (%s) is read back with a different encoding than the written one' % (j, cn)))
    # monotonicity
    last = {}
    for (ci, vn, k, n), a in zip(meta, r):
        d, st, objs = fc.split_read(a)
        if d.get('outcome') == 'ended':
            key = (ci, vn)
            if key in last and len(objs) < last[key][1]:
                fails.setdefault('not-monotone', (ci, vn, k, 'prefix %d yields %d objects, prefix %d yielded %d' % (k, len(objs), last[key][0], last[key][1])))
            last[key] = (k, len(objs))
    res.corr['disagreements'] = dis
    res.oblige('D:file-correspondence', dis == 0, '%d disagreements' % dis)
    res.corr['distinct'] = len(set(files))
    res.corr['rule'] = 'files written with levels {0,1,6,9} and container sizes 16..100 so that objects span containers, final and initial (default statistics) header; every truncation offset (quick: every offset of files up to 700 bytes, every third otherwise); expectation computed independently from the container walk and the object encodings'
    res.corr['samples'] = [{'file_len': m[3], 'cut': m[2], 'header': m[1], 'answer': a[:80]} for m, a in list(zip(meta, r))[200:203]]
    for kind, (ci, vn, k, det) in fails.items():
        c = cases[ci]
        res.violation('truncation', '%s at cut %d of a %s file (%s)' % (kind, k, vn, det[:160]), {'class': 'File', 'failure': kind, 'config': c.opts(), 'objects': c.tail(), 'cut': k, 'header': vn})
    finish_codec(res)


def fc_encode_initial_header():
    # the header as File::open(out) first writes it: default statistics
    import struct
    return struct.pack('<IIIBBBBQQII', 0x47474F4C, 144, 4080200, 0, 1, 0, 0, 0, 0, 0, 0) + bytes(16) + bytes(16) + struct.pack('<Q', 0) + bytes(64)


def codecgen_mod():
    import codecgen
    return codecgen


def wrap_stream(stream, cs, level=0):
    """file around a hand-assembled uncompressed stream (independent of the library); level 0: stored containers"""
    import struct, zlib
    body = b''
    chunks = []
    while len(stream) >= cs:
        chunks.append(stream[:cs]); stream = stream[cs:]
    chunks.append(stream)
    for ch in chunks:
        st = zlib.compress(ch, level) if level else ch
        osz = 32 + len(st)
        body += struct.pack('<IHHIIHHIII', 0x4A424F4C, 16, 1, osz, 10, 2 if level else 0, 0, 0, len(ch), 0) + st + bytes(osz % 4)
    hdr = struct.pack('<IIIBBBBQQII', 0x47474F4C, 144, 4080200, 0, 0, 0, 0, 144 + len(body), 0, 0, 0) + bytes(16) + bytes(16) + struct.pack('<Q', 0) + bytes(64)
    return hdr + body


def check_C09(res):
    fc, pipe, summary, exact, fexe, cexe = file_setup(res, 'C09', C09_THEOREMS)
    rng = random.Random(lib.seed() * 3607 + 9)
    classes = [c for c in creatable(summary) if c in exact]
    g = codecgen_mod().ObjGen(summary, rng)
    # a pool of real objects with their encodings
    pool = []
    reqs = []
    for cn in rng.sample(classes, 24):
        a = fc.api_object(g, summary, cn, rng)
        a = {i: (v if len(v) <= 24 else v[:24]) for i, v in a.items()}
        pool.append((cn, a))
        reqs.append('!enc ' + fc.objline(cn, a))
    enc, rc, err = lib.psession(cexe, reqs)
    objs = []
    for (cn, a), e in zip(pool, enc):
        d = parse_kv(e)
        if d.get('halt') == 'none' and b'LOBJ' not in bytes.fromhex(d['out'])[4:]:
            objs.append((cn, bytes.fromhex(d['out']), ' '.join(d.get('obj', []))))
    import itertools
    maxlen = 5 if res.tier == 'quick' else 7
    alpha = [b'L', b'O', b'B', b'J', b'x']
    fillers = [b'']
    for n in range(1, maxlen + 1):
        for t in itertools.product(alpha, repeat=n):
            f = b''.join(t)
            if b'LOBJ' not in f:
                fillers.append(f)
    for _ in range(200 if res.tier == 'quick' else 5000):
        n = rng.randrange(10, 200)
        f = bytes(rng.choice(b'LOBJxLOB\x00\xff') for _ in range(n))
        if b'LOBJ' not in f:
            fillers.append(f)
    unknown_codes = [0, 26, 27, 28, 52, 53, 108, 116, 117, 132, 133, 255, 256, 65535, 2 ** 31, 2 ** 32 - 1] + [rng.randrange(132, 2 ** 32) for _ in range(8)]
    def unknown_block():
        code = rng.choice(unknown_codes)
        size = rng.choice([16, 17, 20, 31, 32, 48, 100, 1000, 4096]) if res.tier == 'thorough' else rng.choice([16, 17, 20, 32, 48, 100])
        import struct
        body = bytes(rng.randrange(256) for _ in range(size - 16))
        # the header-size and version fields of an object of unknown type are part of what is skipped: nothing may depend on them
        # (a declared header size above the declared object size included - the object is skipped by its *object* size)
        hs = 16 if rng.random() < 0.6 else rng.choice([0, 8, 24, 32, 40, 48, 64, size, size + 4, size + 16, 255, 65535])
        ver = 1 if rng.random() < 0.7 else rng.choice([0, 2, 3, 7, 65535])
        return struct.pack('<IHHII', 0x4A424F4C, hs, ver, size, code) + body
    files = []
    expect = []
    per = 40
    items = list(fillers)
    rng.shuffle(items)
    i = 0
    while i < len(items):
        stream = b''
        exp = []
        for f in items[i:i + per]:
            stream += f
            if rng.random() < 0.25:
                ub = unknown_block()
                # an unknown block must not swallow a partial signature of what follows: it is skipped by its size
                stream += ub
            o = rng.choice(objs)
            stream += o[1]
            exp.append((o[0], o[2]))
        if rng.random() < 0.5:
            stream += rng.choice(fillers)
        cs = rng.choice([13, 64, 1000, 131072])
        files.append(wrap_stream(stream, cs))
        expect.append(exp)
        i += per
    r, mr = fc.read_files(res, files, fexe)
    if r is None or mr is None:
        finish_codec(res)
    res.corr['programs'] = len(classes)
    dis = 0
    fails = {}
    for f, a, ma, exp in zip(files, r, mr, expect):
        res.corr['requests'] += 1
        if not fc.compare_read(summary, ma, a):
            dis += 1
            if dis <= 10:
                res.violation('model-vs-implementation', 'readFile of a stream with filler: model and implementation differ', {'file': f.hex(), 'model': ma[:800], 'impl': a[:800]})
        d, st, objs_r = fc.split_read(a)
        if d.get('outcome') != 'ended':
            fails.setdefault('read-' + str(d.get('outcome')), (f, a[:100]))
            continue
        got = [(cn, fc.mask_indet(summary, cn, dump)) for cn, dump in objs_r]
        want = [(cn, fc.mask_indet(summary, cn, dump)) for cn, dump in exp]
        if got != want:
            k = next((j for j in range(min(len(got), len(want))) if got[j] != want[j]), min(len(got), len(want)))
            fails.setdefault('neighbour-lost-or-modified', (f, 'delivered %d objects, expected %d; first difference at %d' % (len(got), len(want), k)))
    res.corr['disagreements'] = dis
    res.corr['fillers'] = len(fillers)
    res.oblige('D:file-correspondence', dis == 0, '%d disagreements' % dis)
    res.corr['distinct'] = len(set(files))
    res.corr['rule'] = 'every filler over {L,O,B,J,x} up to length %d not containing the signature, random longer fillers, unknown-type blocks (reserved, zero and >131 codes, sizes 16.., header-size fields 16 / below / above the object size, versions 0..65535) in front of real objects, %d (filler, object) pairs per hand-assembled level-0 file with container sizes {13,64,1000,131072}' % (maxlen, per)
    res.corr['samples'] = [{'file_len': len(f), 'expected_objects': len(e), 'answer': a[:60]} for f, e, a in list(zip(files, expect, r))[:3]]
    for kind, (f, det) in fails.items():
        res.violation('filler', '%s (%s)' % (kind, det), {'class': 'File', 'failure': kind, 'file': f.hex()[:8000]})
    finish_codec(res)


def mutate_file(rng, f, k):
    b = bytearray(f)
    n = len(b)
    if n == 0:
        return bytes(b)
    if k == 'byte':
        p = rng.randrange(n); b[p] = rng.choice([0, 1, 0x7f, 0x80, 0xff])
    elif k == 'field16':
        p = rng.randrange(0, max(1, n - 2)) // 2 * 2; b[p:p + 2] = rng.choice([0, 1, 0x7fff, 0x8000, 0xffff]).to_bytes(2, 'little')
    elif k == 'field32':
        p = rng.randrange(0, max(1, n - 4)) // 4 * 4; b[p:p + 4] = rng.choice([0, 1, 0x7fffffff, 0x80000000, 0xffffffff]).to_bytes(4, 'little')
    elif k == 'trunc':
        b = b[:rng.randrange(n)]
    elif k == 'dup':
        p = rng.randrange(n); q = min(n, p + rng.randrange(1, 64)); b[p:p] = b[p:q]
    elif k == 'del':
        p = rng.randrange(n); q = min(n, p + rng.randrange(1, 64)); del b[p:q]
    elif k == 'header':
        # structure-aware: container / object headers and length fields
        offs = [i for i in range(len(b) - 16) if b[i:i + 4] == b'LOBJ']
        if offs:
            p = rng.choice(offs) + rng.choice([4, 6, 8, 12, 16, 24, 32, 36, 40, 44])
            w = rng.choice([2, 4])
            if p + w <= len(b):
                b[p:p + w] = rng.choice([0, 1, 2, 15, 16, 31, 32, 2 ** (8 * w - 1) - 1, 2 ** (8 * w - 1), 2 ** (8 * w) - 1]).to_bytes(w, 'little')
    return bytes(b[:len(b)][:2_000_000])


def check_C10(res):
    fc, pipe, summary, exact, fexe, cexe = file_setup(res, 'C10', C10_THEOREMS)
    rng = random.Random(lib.seed() * 3613 + 10)
    classes = creatable(summary)
    cases = fc.gen_cases(summary, rng, 'quick', classes, [c for c in classes if c in exact], 24 if res.tier == 'quick' else 120)
    cases = [c for c in cases if c.objs]
    for c in cases:
        c.level = rng.choice([0, 0, 1, 6])     # uncompressed containers expose the object stream to the mutations
        c.cs = rng.choice([64, 4096, 131072])
    out = fc.run_cases(pipe, res, cases, fexe, cexe, want_model=False)
    if out is None:
        finish_codec(res)
    seeds = [o['file'] for o in out if o['file'] is not None]
    logs = sorted(glob_mod.glob(os.path.join(lib.SRC, 'tests', 'unittests', 'events_from_*', '*.blf')))
    seeds += [open(f, 'rb').read() for f in (logs if res.tier == 'thorough' else rng.sample(logs, 30))]
    files = []
    kinds = []
    per = 14 if res.tier == 'quick' else 150
    for f in seeds:
        for _ in range(per):
            k = rng.choice(['byte', 'field16', 'field32', 'trunc', 'dup', 'del', 'header', 'header', 'header'])
            files.append(mutate_file(rng, f, k)); kinds.append(k)
    # declared-size sweep (suggested by the progress argument of the model): every creatable class with every small
    # declared object size, followed by zeros / by a valid object
    import struct
    tail_obj = next((o['expected'][0]['bytes'] for o in out if o['file'] is not None and o['expected'] and o['expected'][0]['halt'] == 'none'), b'')
    for code, cn in sorted(summary.get('factory', {}).items(), key=lambda x: int(x[0]) if x[0].isdigit() else -1):
        if not code.isdigit() or cn == 'LogContainer':
            continue
        sizes = list(range(16, 40)) + [48, 64, 100, 200] if res.tier == 'thorough' else [16, 17, 19, 20, 21, 24, 31, 32, 33, 40, 48]
        for osz in sizes:
            hv = 2 if cn in ('CanFdMessage64x',) else 1
            stream = struct.pack('<IHHII', 0x4A424F4C, 32, hv, osz, int(code)) + bytes(rng.choice([40, 120, 400])) + tail_obj
            files.append(wrap_stream(stream, rng.choice([64, 131072]))); kinds.append('size-sweep:%s:%d' % (cn, osz))
    # objects of a type without codec (skipped by their declared size) with every kind of declared size, not first in the stream
    for code in (0, 26, 52, 108, 116, 132, 65535, 2 ** 32 - 1):
        for osz in (0, 1, 15, 16, 17, 31, 32, 100, 2 ** 15, 2 ** 16 - 1, 2 ** 31 - 1, 2 ** 31, 2 ** 31 + 16, 2 ** 32 - 16, 2 ** 32 - 1):
            stream = tail_obj + struct.pack('<IHHII', 0x4A424F4C, 16, 1, osz, code) + bytes(rng.choice([0, 8, 40])) + tail_obj + tail_obj
            files.append(wrap_stream(stream, rng.choice([64, 131072]))); kinds.append('unknown-type-size:%d:%d' % (code, osz))
    # a corrupt base header as a whole (e.g. a zero-filled tail behind a signature): every combination of boundary values of header
    # size, object size and type (known, unknown), not first in the stream, with and without data behind it
    for hs in (0, 1, 15, 16, 17, 32, 0xffff):
        for osz in (0, 1, 15, 16, 17, 31, 32, 48):
            for code in (0, 1, 65, 200):
                stream = tail_obj + struct.pack('<IHHII', 0x4A424F4C, hs, 1, osz, code) + bytes(rng.choice([0, 16, 40])) + (tail_obj if rng.random() < 0.7 else b'')
                files.append(wrap_stream(stream, rng.choice([64, 131072]))); kinds.append('header-fields:%d:%d:%d' % (hs, osz, code))
    # the parser stops early in a file far larger than the read-ahead (stream buffer = one default container, object queue = 10 objects):
    # the inflating thread sleeps on the full buffer when the parser gives up; the session must still end and close() return
    ti = next(i for i, f in enumerate(next(c for c in summary['classes'] if c['name'] == 'AppText')['fields']) if f['name'] == 'text')
    tcode = next((int(k) for k, v in summary.get('factory', {}).items() if v == 'AppText' and k.isdigit()), 65)
    nbig = 0
    for lvl, cs, n, ln in ((0, 131072, 40, 12000), (6, 131072, 60, 9000), (0, 65536, 30, 16000)):
        rq = 'writefile level=%d cs=%d rp=1 ' % (lvl, cs) + ' '.join(';; AppText %d=%s' % (ti, '%02x' % (0x61 + j % 20) * ln) for j in range(n))
        w, rc, err = lib.session(fexe, [rq], env=fc.fenv(), timeout=300)
        if not (w and w[0].startswith('writefile out=')):
            res.notes.append('large file for the early-stop cases not written: %s' % ((w[0] if w else err)[-200:]))
            continue
        big = bytes.fromhex(w[0].split('out=')[1].split()[0])
        if lvl != 0:
            # compressed: the object stream is not visible in the file; corrupt it through the independent decoder
            import blfparse
            try:
                hdr, conts = blfparse.parse_file(big)
            except blfparse.FormatError:
                conts = None
            if not conts:
                continue
            stream = b''.join(c['payload'] for c in conts)
            k = stream.find(b'LOBJ', 1)
            if k < 0:
                continue
            bad = stream[:k + 8] + (rng.choice([0, 8, 15])).to_bytes(4, 'little') + stream[k + 12:]
            files.append(wrap_stream(bad, cs, level=lvl)); kinds.append('early-stop-large:object-1-size-below-16:compressed:%d' % cs); nbig += 1
            continue
        import re
        pos = [m.start() for m in re.finditer(b'LOBJ', big)]
        objs_at = [q for q in pos if big[q + 12:q + 16] == tcode.to_bytes(4, 'little')]
        for idx in (0, 1, 2):
            if idx < len(objs_at):
                q = objs_at[idx]
                b2 = bytearray(big); b2[q + 8:q + 12] = (rng.choice([0, 8, 15])).to_bytes(4, 'little')
                files.append(bytes(b2)); kinds.append('early-stop-large:object-%d-size-below-16:%d' % (idx, cs)); nbig += 1
    res.corr['early_stop_large_files'] = [k for k in kinds if k.startswith('early-stop-large')]
    decoder_safety(res, pipe, summary, rng)
    os.environ['VERIF_CAP'] = str(256 * 1024 * 1024)
    r, mr = fc.read_files(res, files, fexe)
    if r is None or mr is None:
        finish_codec(res)
    res.corr['programs'] = len(classes)
    dis = 0
    fails = {}
    outcomes = {}
    for f, k, a, ma in zip(files, kinds, r, mr):
        res.corr['requests'] += 1
        d, st, objs = fc.split_read(a)
        oc = d.get('outcome', a.split()[1] if len(a.split()) > 1 else a)
        outcomes[oc] = outcomes.get(oc, 0) + 1
        cmp_ok = fc.compare_read(summary, ma, a, ignore_usize=True)
        ma = ma if ma is not None else 'readfile outcome=no-model'
        if not cmp_ok:
            # a memory error or hang the model does not predict is itself a disagreement
            dis += 1
            if dis <= 15:
                res.violation('model-vs-implementation', 'readFile of a mutated file: model %s, implementation %s' % (ma[:40], a[:40]), {'file': f.hex(), 'mutation': k, 'model': ma[:600], 'impl': a[:600]})
        if oc not in ('ended', 'openexc'):
            md = fc.split_read(ma)[0].get('outcome')
            sig = classify_hostile(f, a, ma, k)
            if sig not in fails or len(f) < len(fails[sig][0]):
                fails[sig] = (f, k, a[:120], ma[:120])
    res.corr['disagreements'] = dis
    res.corr['outcomes'] = outcomes
    res.oblige('D:file-correspondence', dis == 0, '%d disagreements' % dis)
    res.corr['distinct'] = len(set(files))
    res.corr['rule'] = 'valid files (library-written and reference logs) mutated by boundary byte substitution, aligned 16/32-bit overwrites, truncation, block duplication/deletion and structure-aware edits of container/object headers and length fields; read through the real threaded File under ASan+UBSan with a 256 MiB allocation cap and a watchdog; every outcome other than ended/open-exception is a failure'
    res.corr['samples'] = [{'mutation': k, 'file_len': len(f), 'answer': a[:60]} for f, k, a in list(zip(files, kinds, r))[:4]]
    for sig, (f, k, a, ma) in fails.items():
        res.violation('hostile-input', '%s: implementation %s (model %s)' % (sig, a[:60], ma[:60]), {'class': 'File', 'failure': sig, 'mutation': k, 'file': f.hex()})
    finish_codec(res)


def decoder_safety(res, pipe, summary, rng):
    """per-class obligations of the memory-safety theorem (readSafe / syncFirst of the regenerated decoders); for a class
    that does not pass, search for an input on which the decoder really leaves its container: valid images of that
    class with every aligned 16/32-bit word of the body replaced by small and odd values"""
    import codecgen
    safe = summary.get('readSafe', {})
    syncf = summary.get('syncFirst', {})
    res.oblige('T:readSafe-table-present', bool(safe), 'driver did not answer safecheck')
    bad = []
    for n in sorted(safe):
        res.oblige('T:readSafe:' + n, safe[n], 'the regenerated decoder does not pass the verified memory-safety check (a read into a container that is not known to be large enough)')
        res.oblige('T:syncFirst:' + n, syncf.get(n, False), 'the regenerated decoder does not begin with the signature search (progress argument)')
        if not safe[n]:
            bad.append(n)
    # classes whose decoder could not even be translated (or that left the exact fragment): there is no model to guide the search,
    # so it runs on the implementation alone: valid images encoded by the implementation, every body byte and every aligned
    # 16/32-bit word overwritten with boundary values, decoded in a child process under ASan/UBSan
    sus = [n for n in suspect_classes(summary, pipe.checks()) if n not in bad]
    if sus:
        exe = pipe.harness('codec_harness', ['codec_harness.cpp'])
        g = codecgen.ObjGen(summary, rng)
        for cn in sus[:6]:
            if exe is None or cn not in g.cls:
                continue
            reqs = [g.line(cn, {})] + [g.line(cn, g.obj(cn, mode)) for mode in ('payload', 'random', 'payload') for _ in range(2)]
            enc, rc, err = lib.session(exe, ['!' + r for r in reqs], timeout=600)
            decs = []
            for a in enc:
                if not a.startswith('enc halt=none'):
                    continue
                img = bytes.fromhex(parse_kv(a).get('out', ''))[:400]
                for p_ in range(16, len(img)):
                    for v in (0, 1, 0x3f, 0x40, 0x41, 0x7f, 0x80, 0xff):
                        b = bytearray(img); b[p_] = v
                        decs.append('!dec %s %s' % (cn, (bytes(b) + bytes(64)).hex()))
                for w in (4, 2):
                    for p_ in range(16, len(img) - w + 1, w):
                        for v in (3, 255, 257, 65535, 256 ** w - 1):
                            b = bytearray(img); b[p_:p_ + w] = (v % 256 ** w).to_bytes(w, 'little')
                            decs.append('!dec %s %s' % (cn, (bytes(b) + bytes(64)).hex()))
            decs = list(dict.fromkeys(decs))[:12000]
            imp, rc, err = lib.psession(exe, decs, timeout=1200) if decs else ([], 0, '')
            res.corr.setdefault('decoder_safety_search', {})[cn] = {'decode_requests_impl_only': len(decs)}
            for r, b in zip(decs, imp):
                if b.startswith('crash'):
                    res.violation('hostile-input', '%s: the decoder crashes on a corrupt image (sanitizer abort in the implementation: %s)' % (cn, b[:80]),
                                  {'class': cn, 'failure': 'decoder-out-of-bounds', 'request': r.lstrip('!')})
                    break
    if not bad:
        return
    exe = pipe.harness('codec_harness', ['codec_harness.cpp'])
    drv = lib.driver_exe()
    if exe is None:
        return
    g = codecgen.ObjGen(summary, rng)
    found = {}
    for cn in bad:
        if cn not in g.cls:
            continue
        reqs = [g.line(cn, {})] + [g.line(cn, g.obj(cn, mode)) for mode in ('payload', 'random', 'boundary', 'payload', 'random') for _ in range(3)]
        mod, rc, err = lib.session(drv, reqs)
        decs = []
        for a in mod:
            if not a.startswith('enc halt=none'):
                continue
            img = bytes.fromhex(parse_kv(a).get('out', ''))
            for w in (4, 2):
                for p in range(16, len(img) - w + 1, w):
                    for v in (1, 2, 3, 5, 7, 9, 15, 17, 31, 33, 255, 257):
                        b = bytearray(img); b[p:p + w] = v.to_bytes(w, 'little')
                        decs.append('dec %s %s' % (cn, (bytes(b) + bytes(64)).hex()))
        decs = list(dict.fromkeys(decs))[:6000]
        m2, rc, err = lib.session(drv, decs)
        cand = [r for r, a in zip(decs, m2) if ' halt=oob' in a][:40]
        res.corr.setdefault('decoder_safety_search', {})[cn] = {'decode_requests': len(decs), 'model_oob': len(cand)}
        if not cand:
            continue
        imp, rc, err = lib.session(exe, ['!' + r for r in cand], timeout=600)
        for r, b in zip(cand, imp):
            if b.startswith('crash'):
                found[cn] = (r, b)
                break
    for cn, (r, b) in found.items():
        res.violation('hostile-input', '%s: the decoder writes outside its container (model: oob; sanitizer abort in the implementation: %s)' % (cn, b[:80]),
                      {'class': cn, 'failure': 'decoder-out-of-bounds', 'request': r})


def classify_hostile(f, a, ma, kind=''):
    """failure signature of a hostile-input failure: outcome + the first structural anomaly of the file"""
    import struct
    oc = 'hang' if 'outcome=hang' in a else ('crash' if 'crash' in a else a.split()[1] if len(a.split()) > 1 else 'other')
    why = 'other'
    if kind.startswith('size-sweep'):
        return oc + ':declared-size-smaller-than-default-layout:' + kind.split(':')[1]
    if kind.startswith('unknown-type-size'):
        return oc + ':unknown-type-object-with-declared-size-' + ('above-2^31' if int(kind.split(':')[2]) >= 2 ** 31 else 'small')
    if kind.startswith('header-fields'):
        return oc + ':corrupt-base-header'
    # walk the containers
    pos = 144
    stream = b''
    try:
        while pos + 32 <= len(f) and f[pos:pos + 4] == b'LOBJ':
            osz, typ = struct.unpack_from('<II', f, pos + 8)
            meth = struct.unpack_from('<H', f, pos + 16)[0]
            usz = struct.unpack_from('<I', f, pos + 24)[0]
            if typ != 10:
                break
            if osz < 32:
                why = 'container-size-below-header'; raise StopIteration
            if meth == 0 and usz > osz - 32:
                why = 'uncompressed-container-declares-more-than-stored'; raise StopIteration
            if meth == 2 and usz > 256 * 1024 * 1024:
                why = 'container-declares-absurd-uncompressed-size'; raise StopIteration
            if osz - 32 > 256 * 1024 * 1024:
                why = 'container-declares-absurd-size'; raise StopIteration
            data = f[pos + 32:pos + osz]
            if meth == 0:
                stream += data[:usz]
            elif meth == 2:
                import zlib
                try:
                    stream += zlib.decompress(data)
                except Exception:
                    break
            pos += osz + osz % 4
        # walk the objects
        p = 0
        while True:
            p = stream.find(b'LOBJ', p)
            if p < 0 or p + 16 > len(stream):
                break
            osz, typ = struct.unpack_from('<II', stream, p + 8)
            if osz == 0:
                why = 'object-size-zero'; break
            if osz < 16:
                why = 'object-size-below-base-header'; break
            if osz > len(stream) - p + 64:
                why = 'object-size-beyond-stream'
            p += max(osz, 1)
    except StopIteration:
        pass
    return oc + ':' + why


# ================================================================================================ schedules
def build_sched_harness(pipe, res, tsan=False):
    tr = pipe.regenerate()
    V = os.path.join(VERIF, 'harness', 'vshim', 'vshim.h')
    fl = ['-O1', '-g', '-fsanitize=address,undefined', '-fno-sanitize-recover=all', '-fno-omit-frame-pointer']
    a, f = lib.build_lib('shim', fl, force_include=V)
    if a is None:
        res.oblige('D:build-lib-shim', False, str(f)[:1500])
        return None
    gen = sorted(glob_mod.glob(os.path.join(tr['cpp'], 'gen_reflect_*.cpp')))
    exe, f = lib.build_exe('sched_harness', [os.path.join(VERIF, 'harness', 'sched_harness.cpp'), os.path.join(VERIF, 'harness', 'vshim', 'vshim.cpp')] + gen, a, fl + ['-fno-access-control'], force_include=V)
    if exe is None:
        res.oblige('D:build-sched-harness', False, str(f)[:1500])
    return exe


def monitor_sessions(res, sexe, rng, kinds):
    """the two monitors alone under the controlled scheduler: a producer thread and a consumer thread on the real
    ObjectQueue<T> (`qsess`) / UncompressedFile (`usess`) with tiny capacities; baseline schedule, every single deviation
    from it (and every second deviation on the smallest ones), seeded random and PCT schedules.  The expected result is the
    one the theorems of QueueConc / Pipe give: all objects in order then null; the bytes of the stream in order."""
    import filechecks as fc
    env = fc.fenv()
    sess = []
    if 'q' in kinds:
        for cap in (1, 2, 3):
            for n in range(0, 5):
                sess.append(('qsess cap=%d n=%d' % (cap, n), 'got=%s null=1' % (','.join(str(i + 1) for i in range(n)) or '-'), cap <= 2 and n <= 3))
        sess.append(('qsess cap=2 n=7', 'got=1,2,3,4,5,6,7 null=1', False))
        for cap, n in ((1, 2), (2, 3), (3, 4)):
            sess.append(('qsess cap=%d n=%d presize=1' % (cap, n), 'got=%s null=1' % ','.join(str(i + 1) for i in range(n)), n <= 3))
        sess.append(('qsess cap=10 n=14', 'got=%s null=1' % ','.join(str(i + 1) for i in range(14)), False))
        # abort() from a third thread while the consumer sleeps on the empty queue / the producer on the full one and no end is declared:
        # every waiter is released, the consumer gets a prefix of the objects and then null
        for cap, n in ((1, 0), (1, 2), (2, 3), (1, 4)):
            sess.append(('qsess cap=%d n=%d ctl=1' % (cap, n), 'prefix:%d' % n, n <= 3))
    if 'u' in kinds:
        for buf, conts, reads in [(1, [2, 2], [1, 2, 1, 1]), (4, [8, 8, 8], [20, 4, 1]), (4, [3, 5], [8, 1]), (8, [4, 4, 4, 4], [3, 13, 1]), (2, [1, 1, 1], [1, 1, 1, 1]),
                                  (4, [6], [2, 2, 2, 2]), (1, [5, 5], [10]), (16, [4, 4], [8, 8]), (3, [7, 2, 9], [4, 14, 5])]:
            tot = sum(conts); pos = 0; exp = []
            for r in reads:
                k = min(r, tot - pos)
                exp.append(bytes((pos + i) % 251 for i in range(k)).hex() + ('!' if r > tot - pos else ''))
                pos += k
                if r > k:
                    break
            sess.append(('usess buf=%d conts=%s reads=%s' % (buf, ','.join(map(str, conts)), ','.join(map(str, reads))), 'reads=%s' % (','.join(exp) or '-'), sum(conts) <= 8))
        # abort() from a third thread, no end declared: the session ends, what was read is a prefix of the stream
        for buf, conts, reads in [(1, [2, 2], [1, 2, 1, 1]), (4, [3, 5], [8, 1]), (2, [1, 1, 1], [1, 1, 1, 1])]:
            sess.append(('usess buf=%d conts=%s reads=%s ctl=1' % (buf, ','.join(map(str, conts)), ','.join(map(str, reads))), 'uprefix:%d' % sum(conts), sum(conts) <= 4))
    base = [b + ' policy=nonpreempt' for b, _, _ in sess]
    bans, rc, err = lib.psession(sexe, base, env=env, timeout=1800)
    if len(bans) != len(base):
        res.oblige('D:monitor-sched-session', False, '%d answers for %d requests %s' % (len(bans), len(base), err[-300:]))
        return
    reqs, owner = [], []
    for i, ((b, exp, small), a) in enumerate(zip(sess, bans)):
        reqs.append(base[i]); owner.append(i)
        for sd in range(6 if res.tier == 'quick' else 60):
            reqs.append(b + ' policy=random seed=%d' % (lib.seed() * 100 + sd)); owner.append(i)
            reqs.append(b + ' policy=pct seed=%d' % (lib.seed() * 100 + sd)); owner.append(i)
        if 'outcome=done' in a:
            dev = sched_requests('', parse_trace(a))
            if len(dev) > (150 if res.tier == 'quick' else 3000):
                dev = [dev[j] for j in sorted(rng.sample(range(len(dev)), 150 if res.tier == 'quick' else 3000))]
            for (extra, _, _) in dev:
                reqs.append(b + ' policy=nonpreempt' + extra); owner.append(i)
    ans, rc, err = lib.psession(sexe, reqs, env=env, timeout=3600)
    if len(ans) != len(reqs):
        res.oblige('D:monitor-sched-session', False, '%d answers for %d requests %s' % (len(ans), len(reqs), err[-300:]))
        return
    # second deviation on the small ones
    reqs2, owner2 = [], []
    for rq, a, i in zip(reqs, ans, owner):
        if sess[i][2] and 'choices=' in rq and 'outcome=done' in a and (res.tier == 'thorough' or rng.random() < 0.15):
            tr_ = parse_trace(a)
            nfix = len(rq.split('choices=')[1].split()[0].split(','))
            for (extra, j, _) in sched_requests('', tr_):
                if j >= nfix:
                    reqs2.append(sess[i][0] + ' policy=nonpreempt' + extra); owner2.append(i)
    if len(reqs2) > (1500 if res.tier == 'quick' else 60000):
        idx = sorted(rng.sample(range(len(reqs2)), 1500 if res.tier == 'quick' else 60000))
        reqs2 = [reqs2[k] for k in idx]; owner2 = [owner2[k] for k in idx]
    ans2, rc, err = lib.psession(sexe, reqs2, env=env, timeout=3600) if reqs2 else ([], 0, '')
    bad = {}
    n = 0
    for rq, a, i in list(zip(reqs, ans, owner)) + list(zip(reqs2, ans2, owner2)):
        n += 1
        res.corr['requests'] += 1
        exp = sess[i][1]
        if exp.startswith('uprefix:'):
            rd = a.split(' reads=')[1].split()[0] if ' reads=' in a else '?'
            try:
                bs = b''.join(bytes.fromhex(x.rstrip('!')) for x in ([] if rd == '-' else rd.split(',')))
                ok = 'outcome=done' in a and bs == bytes(k % 251 for k in range(len(bs))) and len(bs) <= int(exp[8:])
            except ValueError:
                ok = False
        elif exp.startswith('prefix:'):
            got = a.split(' got=')[1].split()[0] if ' got=' in a else '?'
            want = [str(k + 1) for k in range(int(exp[7:]))]
            gl = [] if got == '-' else got.split(',')
            ok = 'outcome=done' in a and ' null=1' in a and gl == want[:len(gl)]
        else:
            ok = 'outcome=done' in a and (' ' + exp + ' ') in (a + ' ')
        if not ok:
            oc = a.split('outcome=')[1].split()[0] if 'outcome=' in a else 'none'
            sig = ('deadlock' if oc in ('deadlock', 'watchdog', 'steplimit') else 'wrong-result' if oc == 'done' else oc) + '-' + sess[i][0].split()[0]
            if sig not in bad or len(rq) < len(bad[sig][0]):
                bad[sig] = (rq, a[:300], exp)
    res.corr['monitor_schedules_run'] = res.corr.get('monitor_schedules_run', 0) + n
    for sig, (rq, a, exp) in bad.items():
        res.violation('schedule', '%s: %s under schedule %s (expected %s)' % (sig, a[:120], rq[-80:], exp[:80]),
                      {'class': 'ObjectQueue' if 'qsess' in sig else 'UncompressedFile', 'failure': sig, 'request': rq, 'answer': a, 'expected': exp})


def parse_trace(ans):
    t = ans.split('trace=')[1].split()[0] if 'trace=' in ans else ''
    return [tuple(int(x) for x in d.split(':')) for d in t.split(';') if d]


def sched_requests(base, trace, bound_alts=True):
    """all schedules that deviate once from the recorded one (systematic, one deviation = preemption bound 1)"""
    reqs = []
    chosen = [d[1] for d in trace]
    for i, (n, c, cur) in enumerate(trace):
        for alt in range(n):
            if alt != c:
                reqs.append((base + ' choices=' + ','.join(str(x) for x in chosen[:i] + [alt]), i, alt))
    return reqs


def sched_sessions(res, pipe, fexe, cexe, sexe, summary, exact, rng):
    """-> list of dicts {kind, req, native (expected), runs [(label, answer)]}"""
    import filechecks as fc
    classes = [c for c in creatable(summary) if c in exact]
    g = codecgen_mod().ObjGen(summary, rng)
    cases = []
    nsess = 6 if res.tier == 'quick' else 40
    for k in range(nsess):
        objs = []
        for cn in rng.sample(classes, rng.choice([1, 2, 3, 4])):
            a = fc.api_object(g, summary, cn, rng)
            a = {i: (v if len(v) <= 30 else v[:30]) for i, v in a.items()}
            objs.append((cn, a))
        if k % 2 == 0:
            ti = next(i for i, f in enumerate(g.cls['AppText']['fields']) if f['name'] == 'text')
            objs.append(('AppText', {ti: bytes(rng.randrange(32, 127) for _ in range(rng.choice([3, 50, 150])))}))
        cases.append(fc.Case(rng.choice([0, 1]), rng.choice([1, 7, 16, 64]) if k < nsess - 1 else 131072, k % 3 != 0, objs))
    # more objects than the object queue holds (10): an early close finds the queue full and the parser asleep inside write()
    nbig = len(cases)
    for cs in ((64, 131072) if res.tier == 'quick' else (7, 64, 4096, 131072)):
        cn = rng.choice(classes)
        cases.append(fc.Case(rng.choice([0, 1]), cs, False, [(cn, {}) for _ in range(14)]))
    out = fc.run_cases(pipe, res, cases, fexe, cexe, want_model=False)
    if out is None:
        return None
    files = [o['file'] for o in out]
    nat, _ = fc.read_files(res, files, fexe, want_model=False)
    sessions = []
    env = fc.fenv()
    for ci, (c, o) in enumerate(zip(cases, out)):
        if o['file'] is None:
            continue
        fhex = o['file'].hex()
        nobj = len(c.objs)
        # read sessions: complete, and early close after k objects for every k
        for close in ([-1] + list(range(0, nobj + 1)) if ci < nbig else [-1, 0, 1, 3, 12]):
            base = 'rsess file=%s close=%d' % (fhex, close)
            sessions.append({'kind': 'read', 'base': base, 'case': ci, 'close': close, 'small': len(o['file']) < 1500})
        wbase = 'wsess level=%d cs=%d rp=%d' % (c.level, c.cs, 1 if c.rp else 0)
        for close in ([-1] + list(range(0, nobj)) if ci < nbig else [-1, 0, 5, 13]):
            sessions.append({'kind': 'write', 'base': wbase + ' close=%d' % close, 'tail': ' ' + c.tail(), 'case': ci, 'close': close, 'small': len(c.tail()) < 600})
    # baseline run of every session, then deviations / random / pct schedules
    def line(sx, extra):
        return sx['base'] + ' ' + extra + sx.get('tail', '')
    breq = [line(sx, 'policy=nonpreempt') for sx in sessions]
    bans, rc, err = lib.psession(sexe, breq, env=env, timeout=3600)
    if len(bans) != len(breq):
        res.oblige('D:sched-session', False, '%d answers for %d requests %s' % (len(bans), len(breq), err[-500:]))
        return None
    allreq = []
    owner = []
    nrand = 4 if res.tier == 'quick' else 40
    ndfs = 0
    for si, (sx, a) in enumerate(zip(sessions, bans)):
        sx['runs'] = [('nonpreempt', a)]
        for sd in range(nrand):
            allreq.append(line(sx, 'policy=random seed=%d' % (lib.seed() * 1000 + sd))); owner.append((si, 'random:%d' % sd))
            allreq.append(line(sx, 'policy=pct seed=%d' % (lib.seed() * 1000 + sd))); owner.append((si, 'pct:%d' % sd))
        if sx['small'] and 'outcome=done' in a and (res.tier == 'thorough' or (sx['case'] < 2)):
            tr_ = parse_trace(a)
            dev = sched_requests('', tr_)
            if res.tier == 'quick' and len(dev) > 400:
                dev = [dev[i] for i in sorted(rng.sample(range(len(dev)), 400))]
            for (extra, i, alt) in dev:
                allreq.append(line(sx, 'policy=nonpreempt' + extra)); owner.append((si, 'dev:%d:%d' % (i, alt)))
                ndfs += 1
    ans, rc, err = lib.psession(sexe, allreq, env=env, timeout=7200)
    if len(ans) != len(allreq):
        res.oblige('D:sched-session', False, '%d answers for %d requests %s' % (len(ans), len(allreq), err[-500:]))
        return None
    for (si, lab), rq, a in zip(owner, allreq, ans):
        sessions[si]['runs'].append((lab, a))
        sessions[si].setdefault('reqs', {})[lab] = rq
    for sx, rq in zip(sessions, breq):
        sx.setdefault('reqs', {})['nonpreempt'] = rq
    res.corr['schedules_run'] = len(allreq) + len(breq)
    res.corr['systematic_single_deviation_schedules'] = ndfs
    res.corr['sessions'] = len(sessions)
    return {'sessions': sessions, 'cases': cases, 'out': out, 'native': nat}


def kv(ans):
    return dict(x.split('=', 1) for x in ans.split() if '=' in x)


def check_sched(res, prop):
    fc, pipe, summary, exact, fexe, cexe = file_setup(res, prop, {'C06': C06_THEOREMS, 'C07': C07_THEOREMS, 'C11': C11_THEOREMS}[prop])
    sexe = build_sched_harness(pipe, res)
    if not sexe:
        finish_codec(res)
    monitor_tables(res, pipe, summary)
    rng = random.Random(lib.seed() * 3617 + 6)
    if prop in ('C06', 'C07'):
        monitor_sessions(res, sexe, random.Random(lib.seed() * 31 + 5), 'qu')
    R = sched_sessions(res, pipe, fexe, cexe, sexe, summary, exact, rng)
    if R is None:
        finish_codec(res)
    res.corr['programs'] = 2
    fails = {}
    nruns = 0
    for sx in R['sessions']:
        c = R['cases'][sx['case']]
        o = R['out'][sx['case']]
        first = None
        for lab, a in sx['runs']:
            nruns += 1
            res.corr['requests'] += 1
            d = kv(a)
            oc = d.get('outcome')
            if prop in ('C06', 'C11') or True:
                if oc in ('deadlock', 'watchdog', 'steplimit'):
                    key = ('File', 'deadlock-%s-session' % sx['kind'])
                    if prop == 'C06':
                        fails.setdefault(key, (sx, lab, a[:300]))
                    continue
                if oc == 'crash' or (oc or '').startswith('escaped'):
                    key = ('File', 'memory-error-under-schedule-%s-session' % sx['kind'])
                    if prop == 'C11':
                        fails.setdefault(key, (sx, lab, a[:300]))
                    continue
            if oc != 'done':
                continue
            if prop == 'C07':
                if sx['kind'] == 'read':
                    sig = (d.get('n'), d.get('null'), d.get('good'), d.get('eof'), d.get('hash'))
                    if sx['close'] >= 0:
                        sig = (d.get('n'), d.get('hash'))
                else:
                    sig = (d.get('n'), d.get('file'))
                if first is None:
                    first = (lab, sig)
                elif sig != first[1]:
                    fails.setdefault(('File', 'schedule-dependent-result-%s-session' % sx['kind']), (sx, lab, 'differs from schedule %s' % first[0]))
                # against the schedule-free expectation
                if sx['kind'] == 'read' and sx['close'] == -1:
                    nd, st, nobjs = fc.split_read(R['native'][sx['case']])
                    if d.get('n') != nd.get('n') or d.get('null') != '1' or d.get('eof') != '1' or d.get('good') != '0':
                        fails.setdefault(('File', 'result-differs-from-sequential-read'), (sx, lab, a[:200]))
                if sx['kind'] == 'write' and sx['close'] == -1 and o['file'] is not None and d.get('file') != o['file'].hex():
                    fails.setdefault(('File', 'file-differs-from-native-write'), (sx, lab, 'bytes differ'))
    res.corr['distinct'] = nruns
    res.corr['rule'] = 'read and write sessions of the real File (1-5 objects, container sizes 1/7/16/64/131072, levels 0/1, complete and closed after k objects for every k) executed by the controlled scheduler: non-preemptive baseline, every single deviation from it at every scheduling decision (systematic) on the small sessions, seeded random and PCT-priority schedules on all; under ASan+UBSan'
    res.corr['samples'] = [{'session': sx['base'][:100], 'runs': len(sx['runs']), 'first': sx['runs'][0][1][:100]} for sx in R['sessions'][:3]]
    if prop == 'C11':
        tsan_stress(res, pipe, summary, exact)
    if prop == 'C06':
        # object sizes up to 4 x (buffer + container) and container sizes above the buffer: native sessions (too long for
        # the controlled scheduler), watchdog with a confirmation re-run
        ti = next(i for i, f in enumerate(next(c for c in summary['classes'] if c['name'] == 'AppText')['fields']) if f['name'] == 'text')
        big = [('large-object-default-container', 'level=1 cs=131072 rp=1', [300000]),
               ('container-above-buffer', 'level=1 cs=200000 rp=1', [150000, 150000]),
               ('large-object-small-container', 'level=0 cs=4096 rp=0', [600000]),
               ('container-equal-buffer', 'level=6 cs=131072 rp=1', [131072, 1, 131071]),
               ('zlib-default-compression-level', 'level=-1 cs=131072 rp=1', [150000, 150000, 150000])]
        env = dict(fc.fenv()); env['VERIF_WATCHDOG_S'] = '25'; env['VERIF_CAP'] = str(256 << 20)
        for name, opts, sizes in big:
            rq = 'writefile %s %s' % (opts, ' '.join(';; AppText %d=%s' % (ti, '61' * n) for n in sizes))
            for attempt in range(2):
                w, rc, err = lib.session(fexe, [rq], env=env, timeout=120)
                res.corr['requests'] += 1
                if w and w[0].startswith('writefile out='):
                    break
            if not (w and w[0].startswith('writefile out=')):
                fails.setdefault(('File', 'deadlock-write-session-' + name), ({'kind': 'write', 'reqs': {'native': rq}}, 'native', (w[0] if w else 'no answer')[:100]))
                continue
            fhex = w[0].split('out=')[1]
            for attempt in range(2):
                r, rc, err = lib.session(fexe, ['readfile ' + fhex], env=env, timeout=120)
                res.corr['requests'] += 1
                if r and 'outcome=ended' in r[0]:
                    break
            if not (r and 'outcome=ended' in r[0] and ' n=%d ' % len(sizes) in r[0]):
                fails.setdefault(('File', 'deadlock-read-session-' + name), ({'kind': 'read', 'reqs': {'native': 'readfile of: ' + rq}}, 'native', (r[0] if r else 'no answer')[:100]))
        # the container size changed in the middle of a write session (smaller and larger), with the workers asleep when it happens
        small = ' '.join(';; AppText %d=%s' % (ti, '63' * 40) for _ in range(100))
        many = ' '.join(';; AppText %d=%s' % (ti, '64' * 40) for _ in range(6000))
        for name, first, second in (('container-size-reduced-in-session', 131072, 16384), ('container-size-raised-in-session', 4096, 262144)):
            rq = 'writefile level=1 cs=%d rp=1 %s ;; @z ;; @cs=%d %s' % (first, small, second, many)
            for attempt in range(2):
                w, rc, err = lib.session(fexe, [rq], env=env, timeout=120)
                res.corr['requests'] += 1
                if w and w[0].startswith('writefile out='):
                    break
            if not (w and w[0].startswith('writefile out=')):
                fails.setdefault(('File', 'deadlock-write-session-' + name), ({'kind': 'write', 'reqs': {'native': rq}}, 'native', (w[0] if w else 'no answer')[:100]))
        # early close of a read session on a file far larger than the read-ahead: the inflater sleeps on the full stream buffer,
        # the parser on the full object queue (more than 10 objects unread) when close() / the destructor arrives
        rq = 'writefile level=0 cs=131072 rp=1 ' + ' '.join(';; AppText %d=%s' % (ti, '62' * 20000) for _ in range(48))
        w, rc, err = lib.session(fexe, [rq], env=env, timeout=120)
        if w and w[0].startswith('writefile out='):
            fhex = w[0].split('out=')[1]
            for k, end in ((0, 'z c'), (1, 'z c'), (3, 'z d'), (11, 'c'), (11, 'z c'), (40, 'z d')):
                hq = 'api %s oi %s%s' % (fhex, 'r ' * k, end)
                for attempt in range(2):
                    a_, rc, err = lib.session(fexe, [hq], env=env, timeout=120)
                    res.corr['requests'] += 1
                    if a_ and 'leak=' in a_[0] and 'threads=0' in a_[0]:
                        break
                if not (a_ and 'leak=' in a_[0] and 'threads=0' in a_[0]):
                    fails.setdefault(('File', 'deadlock-early-close-large-file'), ({'kind': 'read', 'reqs': {'native': 'api <file of 48 AppText of 20000 bytes, level 0> oi %s%s' % ('r ' * k, end)}}, 'native', (a_[0][-160:] if a_ else 'no answer')))
        else:
            fails.setdefault(('File', 'deadlock-write-session-48-objects'), ({'kind': 'write', 'reqs': {'native': rq[:200]}}, 'native', (w[0] if w else 'no answer')[:100]))
    for (cl, kind), (sx, lab, det) in fails.items():
        res.violation('schedule', '%s under schedule %s of a %s session (%s)' % (kind, lab, sx['kind'], det[:200]),
                      {'class': cl, 'failure': kind, 'request': sx['reqs'].get(lab, ''), 'schedule': lab})
    finish_codec(res)


def check_C06(res):
    check_sched(res, 'C06')


def check_C07(res):
    check_sched(res, 'C07')


def tsan_stress(res, pipe, summary, exact):
    """native sessions of the real File under ThreadSanitizer with varied consumer/producer pacing"""
    import filechecks as fc
    tr = pipe.regenerate()
    fl = ['-O1', '-g', '-fsanitize=thread', '-fno-omit-frame-pointer']
    a, f = lib.build_lib('tsan', fl)
    if a is None:
        res.oblige('D:build-lib-tsan', False, str(f)[:1500])
        return
    gen = sorted(glob_mod.glob(os.path.join(tr['cpp'], 'gen_reflect_*.cpp')))
    texe, f = lib.build_exe('file_harness_tsan', [os.path.join(VERIF, 'harness', 'file_harness.cpp')] + gen, a, fl)
    if texe is None:
        res.oblige('D:build-file-harness-tsan', False, str(f)[:1500])
        return
    rng = random.Random(lib.seed() * 3623 + 11)
    classes = [c for c in creatable(summary) if c in exact]
    cases = fc.gen_cases(summary, rng, 'quick', classes, classes, 30 if res.tier == 'quick' else 300)
    cases = [c for c in cases if c.objs]
    # the classes with layout variants (their codecs take other paths through the stream classes: seeks, filler of other lengths)
    irr = [c for c in ('SerialEvent', 'EthernetStatus', 'LinMessage2', 'LinMessage', 'LinSendError2', 'CanErrorFrame', 'CanErrorFrameExt', 'CanMessage2',
                       'FlexRayVFrReceiveMsgEx') if c in creatable(summary)]
    vc = [c for c in fc.gen_cases(summary, rng, 'quick', irr, classes, 0) if c.objs and c.cs == 7]
    cases += vc if res.tier == 'thorough' else rng.sample(vc, min(len(vc), 24))
    for c in cases:
        c.cs = rng.choice([7, 64, 4096])
    reports = 0
    nreq = 0
    g0 = codecgen_mod().ObjGen(summary, rng)
    for pace in (0, 200, 2000):
        env = dict(fc.fenv())
        env.update({'VERIF_PACE_US': str(pace), 'TSAN_OPTIONS': 'halt_on_error=1 exitcode=66 report_signal_unsafe=0'})
        wreq = ['writefile %s %s' % (c.opts(), c.tail()) for c in cases]
        w, rc, err = lib.psession(texe, wreq, env=env, timeout=3600)
        nreq += len(wreq)
        files = [x.split('out=')[1] for x in w if x.startswith('writefile out=')]
        bad = [(q, x) for q, x in zip(wreq, w) if not x.startswith('writefile out=')]
        # state that is shared by every session of a process (function-local statics and the like) is touched first by the first
        # session: a few sessions with the rarely used codec paths (15 filler bytes of the single-byte serial event, ...) each in a
        # process of its own, in the middle of a busy write session
        if 'SerialEvent' in g0.cls and 'CanMessage' in g0.cls:
            fl_ = next(i for i, f in enumerate(g0.cls['SerialEvent']['fields']) if f['name'] == 'flags')
            for flags in (4, 8, 0):
                for rep in range(2):
                    q = 'writefile level=%d cs=%d rp=1 %s ;; SerialEvent %d=%s %s' % (1 + rep, 64 if rep else 4096, ' '.join([';; CanMessage'] * (20 + 30 * rep)),
                                                                                     fl_, codecgen_mod().le(flags, 4).hex(), ' '.join([';; CanMessage'] * 25))
                    x, rc, err = lib.session(texe, [q], env=env, timeout=600)
                    nreq += 1
                    if not (x and x[0].startswith('writefile out=')):
                        bad.append((q, x[0] if x else 'no answer'))
        r, rc, err2 = lib.psession(texe, ['readfile ' + f for f in files], env=env, timeout=3600)
        nreq += len(files)
        bad += [('readfile ' + f, x) for f, x in zip(files, r) if 'outcome=ended' not in x]
        for q, x in bad:
            reports += 1
            if reports <= 3:
                # re-run the request alone to capture the report
                o1, rc1, e1 = lib.session(texe, [q], env=env)
                i = e1.find('WARNING: ThreadSanitizer')
                res.violation('data-race', 'ThreadSanitizer / failure in a native session (pace %d us): %s' % (pace, x[:80]),
                              {'class': 'File', 'failure': 'tsan-report', 'request': q, 'report': e1[i:i + 3000] if i >= 0 else e1[-1500:]})
    # early close of a read session on a file far larger than the read-ahead: close() runs while both workers are still busy
    # (the compressed-file stream, the in-memory stream and the queue are all touched from two sides)
    ti = next(i for i, f in enumerate(next(c for c in summary['classes'] if c['name'] == 'AppText')['fields']) if f['name'] == 'text')
    env = dict(fc.fenv())
    env.update({'TSAN_OPTIONS': 'halt_on_error=1 exitcode=66 report_signal_unsafe=0', 'VERIF_WATCHDOG_S': '60'})
    brq = 'writefile level=1 cs=4096 rp=1 ' + ' '.join(';; AppText %d=%s' % (ti, '%02x' % (0x61 + k % 26) * 6000) for k in range(60))
    w, rc, err = lib.session(texe, [brq], env=env, timeout=600)
    nreq += 1
    if w and w[0].startswith('writefile out='):
        fhex = w[0].split('out=')[1]
        hreq = ['api %s %s' % (fhex, h) for h in ('oi c', 'oi r c', 'oi r r r d', 'oi r r r r r r r r r r r r c', 'oi z c', 'oi r z d')] * (2 if res.tier == 'quick' else 10)
        ha, rc, err = lib.psession(texe, hreq, nproc=6, env=env, timeout=3600)
        nreq += len(hreq)
        for q, x in zip(hreq, ha if len(ha) == len(hreq) else ['no answer'] * len(hreq)):
            if 'leak=' not in x:
                reports += 1
                if reports <= 3:
                    o1, rc1, e1 = lib.session(texe, [q], env=env)
                    i = e1.find('WARNING: ThreadSanitizer')
                    res.violation('data-race', 'ThreadSanitizer / failure in an early-close read session: %s' % x[:80],
                                  {'class': 'File', 'failure': 'tsan-report', 'request': q, 'report': e1[i:i + 3000] if i >= 0 else e1[-1500:]})
    else:
        reports += 1
        res.violation('data-race', 'ThreadSanitizer / failure while writing the large file: %s' % (w[0][:80] if w else 'no answer'), {'class': 'File', 'failure': 'tsan-report', 'request': brq[:300]})
    res.corr['tsan_native_sessions'] = nreq
    res.corr['tsan_reports'] = reports
    res.oblige('D:tsan-native-sessions-clean', reports == 0, '%d sessions with a ThreadSanitizer report or failure' % reports)


def check_C11(res):
    check_sched(res, 'C11')


C06_THEOREMS = ['Blf.Props.C06_queue_no_deadlock', 'Blf.Props.C06_queue_terminates', 'Blf.Props.C06_queue_no_lost_wakeup',
                'Blf.Props.C06_read_pipeline_no_deadlock', 'Blf.Props.C06_read_pipeline_terminates', 'Blf.Props.C06_read_pipeline_no_lost_wakeup',
                'Blf.Props.C06_tie_read', 'Blf.Props.C06_write_pipeline_no_deadlock', 'Blf.Props.C06_write_pipeline_terminates']
C07_THEOREMS = ['Blf.Props.C07_queue_result', 'Blf.Props.C07_read_pipeline_prefix', 'Blf.Props.C07_read_pipeline_eof_last',
                'Blf.Props.C07_write_pipeline_result', 'Blf.Props.C07_write_pipeline_prefix']
C11_THEOREMS = ['Blf.Props.C11_read_handover', 'Blf.Props.C11_write_handover']


def residency_oracle(res, runs):
    """the conclusions of C12_write_session_resident / C12_write_held_after_drop, read off the implementation's container list"""
    nheld = 0
    worst = 0
    bad = 0
    for ops, ans in runs:
        parts = ans[len('useq '):].split(' | ')
        d = 131072
        tg = tp = 0
        prev = None
        floor = None        # min(tellg, tellp) at the last drop
        for op, pa in zip(ops, parts):
            if op.startswith('sdlcs:'):
                d = int(op.split(':')[1])
            if op != 'held':
                kvs = dict(x.split('=', 1) for x in pa.split() if '=' in x)
                if 'tg' in kvs:
                    tg, tp = int(kvs['tg']), int(kvs['tp'])
                if op == 'drop':
                    floor = min(tg, tp)
                prev = op
                continue
            if not pa.startswith('u held'):
                break
            nheld += 1
            cl = pa.split('c=', 1)[1]
            cs = [tuple(int(x) for x in c.split(':')) for c in cl.split(',') if c and c != 'null']
            heldb = sum(c[2] for c in cs)
            worst = max(worst, heldb - (tp - (floor or 0)) - 2 * d) if nheld > 1 else heldb - (tp - (floor or 0)) - 2 * d
            why = None
            for a, b in zip(cs, cs[1:]):
                if a[0] + a[1] != b[0]:
                    why = 'containers held are not contiguous'
            if cs and any(c[1] != d or c[2] != d for c in cs):
                why = why or 'a container held does not have the default size'
            if cs and not (cs[0][0] <= tp <= cs[-1][0] + cs[-1][1] < tp + d):
                why = why or 'the containers held do not end within one container of the put position'
            if floor is None and not heldb < tp + d:
                why = why or 'before the first drop %d bytes are held, %d written, container %d' % (heldb, tp, d)
            if floor is not None and not heldb < tp - floor + 2 * d:
                why = why or '%d bytes are held, put position %d, unread position at the last dropOldData %d, container %d' % (heldb, tp, floor, d)
            if why:
                bad += 1
                if bad <= 3:
                    k = len(parts)
                    res.violation('residency', 'write session of the in-memory stream: ' + why,
                                  {'class': 'UncompressedFile', 'failure': 'held-bytes-grow-write-session', 'request': 'useq ' + ';'.join(ops),
                                   'held': pa[:300], 'tellg': tg, 'tellp': tp, 'dlcs': d})
                break
            prev = op
    res.corr['residency_dumps_checked'] = nheld
    res.corr['residency_worst_margin'] = worst
    res.oblige('D:residency-oracle', bad == 0 and nheld > 0, '%d sessions violate the bound, %d dumps' % (bad, nheld))


def read_residency_sessions(res, pipe, fc, fexe, summary):
    """read sessions on the real File under the controlled scheduler (so that the result does not depend on the machine's timing):
    files of many small containers; when the application has seen the end, every container that lies completely before the get
    position has been handed back (C12_read_held_after_drop: what is held starts in the container of the get position), whatever
    the schedule - also when the whole file fits into the read-ahead and the parser never falls behind"""
    sexe = build_sched_harness(pipe, res)
    if sexe is None:
        return
    ti = next(i for i, f in enumerate(next(c for c in summary['classes'] if c['name'] == 'AppText')['fields']) if f['name'] == 'text')
    env = fc.fenv()
    reqs, meta = [], []
    for lvl, cs, n, ln in ((0, 64, 40, 30), (1, 256, 60, 100), (0, 4096, 50, 1500), (0, 64, 12, 200)):
        rq = 'writefile level=%d cs=%d rp=0 ' % (lvl, cs) + ' '.join(';; AppText %d=%s' % (ti, '%02x' % (0x41 + j % 26) * ln) for j in range(n))
        w, rc, err = lib.session(fexe, [rq], env=env, timeout=300)
        if not (w and w[0].startswith('writefile out=')):
            res.oblige('D:residency-read-sessions', False, 'file not written: %s' % ((w[0] if w else err)[-200:]))
            return
        fhex = w[0].split('out=')[1].split()[0]
        ncont = max(1, (n * (ln + 48)) // cs)
        for pol in ['policy=nonpreempt'] + ['policy=%s seed=%d' % (p_, lib.seed() * 10 + k) for p_ in ('random', 'pct') for k in range(2 if res.tier == 'quick' else 12)]:
            reqs.append('rsess file=%s close=-1 %s' % (fhex, pol)); meta.append((cs, n, ncont, pol))
    ans, rc, err = lib.psession(sexe, reqs, env=env, timeout=3600)
    if len(ans) != len(reqs):
        res.oblige('D:residency-read-sessions', False, '%d answers for %d requests %s' % (len(ans), len(reqs), err[-400:]))
        return
    worst = 0
    bad = 0
    for rq, (cs, n, ncont, pol), a in zip(reqs, meta, ans):
        res.corr['requests'] += 1
        d = kv(a)
        if 'outcome=done' not in a or d.get('null') != '1' or 'held' not in d:
            continue        # deadlocks / wrong results are the business of C06 / C07
        held = int(d['held'])
        worst = max(worst, held)
        if held > 2 and bad == 0:
            bad += 1
            res.violation('residency', 'read session: %d containers (%s bytes) are still held when the application has seen the end of a file of about %d containers of %d bytes (schedule %s): consumed containers are not handed back' % (
                held, d.get('heldbytes'), ncont, cs, pol), {'class': 'File', 'failure': 'consumed-containers-held-read-session', 'request': rq, 'answer': a[:200]})
    res.corr['read_residency_sessions'] = len(reqs)
    res.corr['read_residency_worst_held_containers'] = worst
    res.oblige('D:residency-read-sessions', True, '')


def check_C12(res):
    fc, pipe, summary, exact, fexe, cexe = file_setup(res, 'C12', C12_THEOREMS)
    runs = monitor_corr(pipe, res, 'ws', 300 if res.tier == 'quick' else 3000, 40)
    res.corr['write_sessions'] = len(runs)
    residency_oracle(res, runs)
    read_residency_sessions(res, pipe, fc, fexe, summary)
    env = dict(fc.fenv()); env['VERIF_WATCHDOG_S'] = '300'
    BUF = 0x20000
    QCAP = 10
    configs = [(60000, 4096, 0, 0), (200, 4096, 0, 0), (3000, 16384, 1, 0), (200, 4096, 50, 2000), (60000, 4096, 3, 3000),
               # containers larger than the stream buffer (128 KiB), consumer that stalls
               (3000, 262144, 20, 2000, (3, 12, 36)), (40000, 524288, 4, 2000, (3, 10, 24))]
    # long runs of objects of a type the reader does not know (a file of a newer tool version): skipped, not delivered
    configs += [(200, 4096, 0, 0, (4, 32, 256), 1000000), (3000, 16384, 0, 0, (4, 32, 128), 50)]
    # a damaged file (the parser gives up at the first object) that the application closes only 400 ms after it saw the end
    configs += [(2000, 16384, 0, 0, (8, 64, 256), 0, 1)]
    if res.tier == 'thorough':
        configs += [(300000, 65536, 0, 0), (1000, 1048576, 0, 0, (4, 16, 64)), (60000, 4096, 0, 0), (200, 4096, 0, 0), (3000, 262144, 0, 0, (4, 16, 64, 128))]
    reqs = []
    meta = []
    for cfg in configs:
        (payload, cs, stall_every, stall_us) = cfg[:4]
        per_obj = payload + 48
        unk = cfg[5] if len(cfg) > 5 else 0
        dmg = cfg[6] if len(cfg) > 6 else 0
        for ncont in (cfg[4] if len(cfg) > 4 else (4, 32, 256) if res.tier == 'quick' else (4, 16, 64, 256, 1024)):
            n = max(1, (ncont * cs) // per_obj)
            for rep in range(2):
                reqs.append('heap %d %d %d %d %d %d %d %d' % (n, payload, cs, 0 if (payload > 1000 or dmg) else 1, stall_every, stall_us, unk, dmg))
                meta.append((payload, cs, stall_every + 1000 * unk + 7 * dmg, ncont, n))
    ans, rc, err = lib.psession(fexe, reqs, nproc=8, env=env, timeout=7200)
    if len(ans) != len(reqs):
        res.oblige('D:heap-session', False, '%d answers for %d requests %s' % (len(ans), len(reqs), err[-400:]))
        finish_codec(res)
    res.corr['programs'] = 1
    table = {}
    for m, a in zip(meta, ans):
        res.corr['requests'] += 1
        d = kv(a)
        if 'wpeak' not in d:
            res.violation('heap', 'heap session failed: ' + a[:100], {'class': 'File', 'failure': 'heap-session-failed', 'request': 'heap ' + str(m)})
            continue
        key = m[:3]
        t = table.setdefault(key, {})
        w, r = t.get(m[3], (0, 0))
        t[m[3]] = (max(w, int(d['wpeak'])), max(r, int(d['rpeak'])))
    rows = []
    for (payload, cs, stall), t in table.items():
        bound = BUF + 3 * cs + (QCAP + 3) * (payload + 512) * 2 + 262144
        for side, idx in (('write', 0), ('read', 1)):
            peaks = {n: v[idx] for n, v in t.items()}
            rows.append({'payload': payload, 'container': cs, 'stall_every': stall, 'side': side, 'peak_by_containers': peaks, 'bound': bound})
            ns = sorted(peaks)
            for prev, n in zip(ns, ns[1:]):
                pk, small = peaks[n], peaks[prev]
                # growth between consecutive sizes beyond the point where the buffer is saturated
                if pk > bound and pk > 1.25 * small + 65536:
                    res.violation('heap', '%s session: peak live heap %d bytes with %d containers (%d with %d containers), bound %d: grows with the number of containers' % (side, pk, n, small, prev, bound),
                                  {'class': 'File', 'failure': 'peak-heap-grows-%s-session' % side, 'payload': payload, 'container_size': cs, 'peaks': peaks})
                    break
    res.corr['heap_table'] = rows
    res.corr['distinct'] = len(set(reqs))
    res.corr['rule'] = 'files of 4..256 (thorough: ..1024) containers, AppText payloads 200 B .. 60 KB (thorough: 300 KB) so that objects are far smaller than / span many containers, consumers that stall; peak live heap of the write and of the read session counted by the replaced operator new/delete of the harness; failure = peak above buffer + 3 containers + queue, and growing with the number of containers'
    res.corr['samples'] = rows[:3]
    finish_codec(res)


def check_C13(res):
    fc, pipe, summary, exact, fexe, cexe = file_setup(res, 'C13', C13_THEOREMS)
    rng = random.Random(lib.seed() * 3631 + 13)
    classes = [c for c in creatable(summary) if c in exact]
    g = codecgen_mod().ObjGen(summary, rng)
    # valid files of 0..50 objects
    cases = []
    for n in [0, 1, 2, 5, 12, 50]:
        objs = [(cn, fc.api_object(g, summary, cn, rng)) for cn in [rng.choice(classes) for _ in range(n)]]
        objs = [(cn, {i: (v if len(v) <= 40 else v[:40]) for i, v in a.items()}) for cn, a in objs]
        cases.append(fc.Case(rng.choice([0, 1]), rng.choice([64, 4096, 131072]), True, objs))
    out = fc.run_cases(pipe, res, cases, fexe, cexe, want_model=False)
    if out is None:
        finish_codec(res)
    files = [(len(c.objs), o['file'].hex()) for c, o in zip(cases, out) if o['file'] is not None]
    nh = 400 if res.tier == 'quick' else 8000
    maxlen = 12 if res.tier == 'quick' else 40
    hist = []
    for _ in range(nh):
        n, fhex = rng.choice(files)
        ops = []
        state = 'closed'   # closed | in | out | done
        opened = False
        for _ in range(rng.randrange(1, maxlen + 1)):
            if state == 'closed' and not opened:
                op = rng.choice(['om', 'ou', 'oi', 'oi', 'oo', 'oo', 'c', 'd'])
            elif state == 'closed':
                op = rng.choice(['om', 'ou', 'c', 'c', 'd'])
            elif state == 'in':
                op = rng.choice(['r', 'r', 'r', 'r', 'oi', 'oo', 'om', 'c', 'd'])
            else:
                op = rng.choice(['w', 'w', 'w', 'oo', 'oi', 'ou', 'c', 'd'])
            if op in ('c', 'd') and state in ('in', 'out') and rng.random() < 0.3:
                ops.append('z')          # a pause: the workers reach whatever they block on before the session is ended
            shown = op
            if op == 'oo' and rng.random() < 0.4:
                shown = rng.choice(['ob', 'ot'])      # further openmode bits
            elif op == 'oi' and rng.random() < 0.3:
                shown = 'ib'
            ops.append(shown)
            if op == 'oi' and state == 'closed' and not opened:
                state = 'in'; opened = True
            elif op == 'oo' and state == 'closed' and not opened:
                state = 'out'; opened = True
            elif op == 'c':
                state = 'closed'
            elif op == 'd':
                break
        hist.append((n, fhex, ops))
    hreq = ['api %s %s' % (fhex, ' '.join(ops)) for n, fhex, ops in hist]
    mreq = ['api %d %s' % (n, ' '.join(ops)) for n, fhex, ops in hist]
    env = dict(fc.fenv())
    a, rc, err = lib.psession(fexe, hreq, env=env, timeout=3600)
    m, rc, err2 = lib.psession(lib.driver_exe(), mreq)
    if len(a) != len(hreq) or len(m) != len(mreq):
        res.oblige('D:api-session', False, 'harness %d, driver %d answers for %d histories %s' % (len(a), len(m), len(hreq), err[-300:]))
        finish_codec(res)
    res.corr['programs'] = 1
    dis = 0
    for (n, fhex, ops), x, y in zip(hist, a, m):
        res.corr['requests'] += 1
        if x != y:
            dis += 1
            if dis <= 10:
                px, py = x.split(' | '), y.split(' | ')
                k = next((i for i in range(min(len(px), len(py))) if px[i] != py[i]), min(len(px), len(py)))
                # the reference state machine IS the documented behaviour (is_open/good/eof after every step, what read() returns,
                # what is left after destruction): a history on which the implementation differs from it is a failing history
                res.violation('lifecycle', 'API history: the implementation differs from the documented state machine at step %d (%s vs %s)' % (k, px[k] if k < len(px) else None, py[k] if k < len(py) else None),
                              {'class': 'File', 'failure': 'state-differs-from-documented', 'history': ' '.join(ops), 'objects_in_file': n, 'impl': x[:1500], 'model': y[:1500]})
        # property oracle on the implementation
        d = kv(x.split(' | ')[-1]) if 'leak=' in x else {}
        if 'leak' not in d:
            res.violation('lifecycle', 'history did not complete: ' + x[:120], {'class': 'File', 'failure': 'history-' + (x.split('outcome=')[-1].split()[0] if 'outcome=' in x else 'failed'), 'history': ' '.join(ops), 'objects_in_file': n})
        elif d['leak'] != '0':
            res.violation('lifecycle', 'live heap after the history differs by %s bytes (an object or buffer was not released exactly once)' % d['leak'], {'class': 'File', 'failure': 'leak', 'history': ' '.join(ops), 'objects_in_file': n})
        elif d['threads'] != '0':
            res.violation('lifecycle', '%s threads left behind' % d['threads'], {'class': 'File', 'failure': 'thread-leak', 'history': ' '.join(ops), 'objects_in_file': n})
    res.corr['disagreements'] = dis
    res.oblige('D:api-correspondence', dis == 0, '%d disagreements' % dis)
    res.corr['distinct'] = len(set(hreq))
    res.corr['rule'] = 'call histories up to length %d over {open(missing), open(unwritable), open(valid,in), open(out), open again, read, write(obj), close, destroy} that respect the mode of the open session, on files of 0..50 objects; is_open/good/eof after every step compared with the Lean state machine; live heap delta and thread count after destruction must be zero (under ASan: a double free aborts)' % maxlen
    res.corr['samples'] = [{'history': ' '.join(h[2]), 'answer': x[-60:]} for h, x in list(zip(hist, a))[:3]]
    finish_codec(res)


C13_THEOREMS = ['Blf.Props.C13_after_destroy', 'Blf.Props.C13_flags_read_obj', 'Blf.Props.C13_flags_read_null']
C12_THEOREMS = ['Blf.Props.C12_read_session_bounded', 'Blf.Props.C12_write_session_bounded', 'Blf.Props.C12_drop_leaves_one_container',
                'Blf.Props.C12_write_session_resident', 'Blf.Props.C12_write_held_since_drop', 'Blf.Props.C12_write_held_after_drop',
                'Blf.Props.C12_read_held_after_drop']


def struct_pack(fmt, v):
    import struct
    return struct.pack(fmt, v)


import glob as glob_mod
C04_THEOREMS = ['Blf.Props.C04_container', 'Blf.Props.C04_file_layout', 'Blf.Props.C04_payload_is_stream', 'Blf.Props.C04_full_containers', 'Blf.Props.C04_container_sizes', 'Blf.Props.C04_stored_inflates']
C05_THEOREMS = ['Blf.Props.C05_uncompressed_size', 'Blf.Props.C05_object_count', 'Blf.Props.C05_file_size', 'Blf.Props.C05_restore_point_offset', 'Blf.Props.C05_caller_fields_verbatim', 'Blf.Props.C05_reader_counters', 'Blf.Props.C05_count_matches']
C08_THEOREMS = ['Blf.Props.C08_stream_prefix', 'Blf.Props.C08_monotone', 'Blf.Props.C08_cut_object_dropped', 'Blf.Props.C08_file_prefix', 'Blf.Props.C08_file_monotone',
                'Blf.Props.C08_file_header_cut', 'Blf.Props.C08_file_every_cut']
C09_THEOREMS = ['Blf.Props.C09_search_finds_first_signature', 'Blf.Props.C09_stream_with_filler_and_unknown_objects', 'Blf.sync_finds_first']
C10_THEOREMS = ['Blf.Props.C10_decoder_memory_safe', 'Blf.Props.C10_read_session_ends_without_ub', 'Blf.Props.C10_parser_progress']


def finish_codec(res):
    def kfilter(v, kf):
        pl = v.get('payload', {})
        for k in kf:
            m = k.get('match', {})
            if m and all(pl.get(a) == b for a, b in m.items()):
                return k
        return None
    sys.exit(finish(res, kfilter))


PROPS = {'C03': check_C03, 'C02': check_C02, 'C17': check_C17, 'C14': check_C14, 'C15': check_C15, 'C16': check_C16, 'C01': check_C01, 'C04': check_C04, 'C05': check_C05, 'C08': check_C08, 'C09': check_C09, 'C10': check_C10, 'C06': check_C06, 'C07': check_C07, 'C11': check_C11, 'C12': check_C12, 'C13': check_C13}


def parse_case(fc, config, objects):
    """inverse of Case.opts() / Case.tail()"""
    kv_ = dict(t.split('=', 1) for t in config.split() if '=' in t)
    hdr = {int(k[1:]): bytes.fromhex(v) for k, v in kv_.items() if k[0] == 'h' and k[1:].isdigit()}
    objs = []
    for chunk in objects.split(';;'):
        toks = chunk.split()
        if not toks:
            continue
        objs.append((toks[0], {int(t.split('=')[0]): bytes.fromhex(t.split('=')[1]) for t in toks[1:] if '=' in t}))
    return fc.Case(int(kv_.get('level', 1)), int(kv_.get('cs', 131072)), kv_.get('rp', '0') == '1', objs, hdr)


def replay(prop, path):
    """run the input of a replay file again, through the implementation (current /repo tree) and through the model; prints both
    answers; exit 1 if they differ or the implementation does not answer, else 0.  The verdict of the property's oracle is the
    business of the check itself; this shows what the code does on the recorded input."""
    import filechecks as fc
    e = json.load(open(path))
    r = e.get('replay') or e
    res = Result(prop, 'quick')
    pipe = Pipe(res)
    tr = pipe.regenerate()
    if not tr['ok']:
        print('translation of the current tree failed'); return 1
    lib.gen_checks(tr['summary'])
    ok, fails, log = lib.lake_build(['blfdriver'])
    drv = lib.driver_exe()
    def show(tag, a):
        print('%-6s %s' % (tag, a if len(a) < 3000 else a[:3000] + ' ...(%d chars)' % len(a)))
    def both(exe, reqs, mreqs=None, env=None):
        imp, rc, err = lib.session(exe, reqs, env=env, timeout=600)
        mod, rc2, err2 = lib.session(drv, mreqs or reqs, timeout=600)
        bad = 0
        for i, rq in enumerate(reqs):
            show('input', rq)
            show('impl', imp[i] if i < len(imp) else 'NO ANSWER rc=%s %s' % (rc, err[-600:]))
            show('model', mod[i] if i < len(mod) else 'NO ANSWER rc=%s %s' % (rc2, err2[-300:]))
            if i >= len(imp) or i >= len(mod) or imp[i] != mod[i]:
                bad = 1
        return bad
    req = r.get('request') or (r.get('reqs') or {}).get('native')
    if isinstance(req, str) and req.split() and req.split()[0].lstrip('!') in ('enc', 'dec', 'reenc', 'dflt', 'encp', 'factory'):
        exe = pipe.harness('codec_harness', ['codec_harness.cpp'])
        return both(exe, [req])
    if isinstance(req, str) and req.split() and req.split()[0] in ('useq', 'qseq'):
        a_, f = lib.build_lib('san', lib.SAN)
        exe, f = lib.build_exe('monitor_harness', [os.path.join(VERIF, 'harness', 'monitor_harness.cpp')], a_, lib.SAN + ['-fno-access-control'])
        return both(exe, [req], env={'VERIF_PROBE_MS': '1500'})
    fexe, cexe = fc.build_file_harness(pipe, res)
    if 'file' in r:
        f = bytes.fromhex(r['file'])
        return both(fexe, ['readfile ' + (f.hex() or '-')], ['readfile %s %s' % (f.hex() or '-', ' '.join(blfparse_mod().zi_tokens(f)))], env=fc.fenv())
    if 'config' in r and r.get('config') and isinstance(r.get('objects'), str):
        c = parse_case(fc, r['config'], r['objects'])
        out = fc.run_cases(pipe, res, [c], fexe, cexe)
        if out is None or out[0]['file'] is None:
            print('write failed:', None if out is None else out[0].get('wanswer', '')[:300]); return 1
        o = out[0]
        show('config', c.opts()); show('objs', c.tail())
        show('file', o['file'].hex()); show('mfile', (o.get('mfile') or b'').hex())
        bad = 0 if o['file'] == o.get('mfile') else 1
        f = o['file']
        if r.get('header') == 'initial-header':
            f = fc_encode_initial_header() + f[144:]
        if 'cut' in r:
            f = f[:int(r['cut'])]
        return both(fexe, ['readfile ' + (f.hex() or '-')], ['readfile %s %s' % (f.hex() or '-', ' '.join(blfparse_mod().zi_tokens(f)))], env=fc.fenv()) or bad
    if isinstance(req, str):
        return both(fexe, [req], env=fc.fenv())
    if isinstance(r.get('reqs'), dict) or 'sched' in json.dumps(r)[:2000]:
        sexe = build_sched_harness(pipe, res)
        for k, rq in (r.get('reqs') or {}).items():
            imp, rc, err = lib.session(sexe, [rq], env=fc.fenv(), timeout=600)
            show('input', rq); show('impl', imp[0] if imp else 'NO ANSWER rc=%s %s' % (rc, err[-600:]))
        return 0
    print('this replay file names a broken proof obligation or a correspondence failure without an input:')
    print(json.dumps(e, indent=1)[:3000])
    return 0


def blfparse_mod():
    import blfparse
    return blfparse


def main():
    ap = argparse.ArgumentParser()
    ap.add_argument('prop', nargs='?')
    ap.add_argument('--tier', default=os.environ.get('VERIF_TIER', 'quick'))
    ap.add_argument('--setup', action='store_true')
    ap.add_argument('--replay')
    a = ap.parse_args()
    # one check at a time per /verif: every check regenerates lean/Blf/Gen and rebuilds the driver in place, so two checks started
    # side by side (e.g. a runner that fans the MANIFEST commands out) would overwrite each other's model.  The second one waits.
    import fcntl
    lockf = open(os.path.join(VERIF, 'lean', '.check.lock'), 'w')
    t_lock = time.time()
    fcntl.flock(lockf, fcntl.LOCK_EX)
    if time.time() - t_lock > 1:
        print('waited %.0fs for another check in this directory to finish' % (time.time() - t_lock))
    if a.setup:
        tr = lib.translate()
        print(tr['log'])
        if tr['ok']:
            lib.gen_checks(tr['summary'])
        ok, fails, log = lib.lake_build(['Blf', 'blfdriver', 'Blf.MonitorTie'] + ['Blf.Props.C%02d' % i for i in range(1, 18)])
        print(log[-2000:])
        sys.exit(0 if ok else 1)
    if a.prop not in PROPS:
        print('unknown property', a.prop)
        sys.exit(2)
    if a.replay:
        sys.exit(replay(a.prop, a.replay))
    res = Result(a.prop, a.tier)
    try:
        PROPS[a.prop](res)
    except SystemExit:
        raise
    except Exception:
        traceback.print_exc()
        res.oblige('X:check-crashed', False, traceback.format_exc()[-1500:])
        sys.exit(finish(res, default_known_filter))


if __name__ == '__main__':
    main()
