"""File-level checks (C01, C04, C05, C08, C09, C10): whole files through the real threaded File API (forked, with a
watchdog, under ASan+UBSan) and through the sequential Lean model `FileSeq`; zlib answers are passed to the model
as tables computed with Python's zlib (same libz as the library)."""
import os, sys, json, random, zlib, struct, glob
import lib
from lib import VERIF
sys.path.insert(0, os.path.join(VERIF, 'spec'))
import blfparse
import codecgen


def build_file_harness(pipe, res):
    tr = pipe.regenerate()
    a, f = lib.build_lib('san', lib.SAN)
    if a is None:
        res.oblige('D:build-lib', False, str(f)[:1500])
        return None, None
    gen = sorted(glob.glob(os.path.join(tr['cpp'], 'gen_reflect_*.cpp')))
    fexe, f = lib.build_exe('file_harness', [os.path.join(VERIF, 'harness', 'file_harness.cpp')] + gen, a, lib.SAN)
    if fexe is None:
        res.oblige('D:build-file-harness', False, str(f)[:1500])
    cexe, f = lib.build_exe('codec_harness', [os.path.join(VERIF, 'harness', 'codec_harness.cpp')] + gen, a, lib.SAN)
    if cexe is None:
        res.oblige('D:build-codec-harness', False, str(f)[:1500])
    return fexe, cexe


def fenv():
    return {'VERIF_TMPD': lib.scratch(), 'VERIF_WATCHDOG_S': os.environ.get('VERIF_WATCHDOG_S', '20')}


def parse_kv(line):
    import run
    return run.parse_kv(line)


def objline(cn, assigns):
    return '%s %s' % (cn, ' '.join('%d=%s' % (i, b.hex()) for i, b in sorted(assigns.items())))


def api_object(g, summary, cn, rng, big=False):
    """an object populated the way the API is used: payload containers and scalars set by the caller; size, length and
    count fields (the targets of the write-side pre-processing, and anything named like a length) left alone"""
    c = g.cls[cn]
    skip = set(['headerSize', 'objectSize', 'signature', 'objectType'])
    lay = c.get('layout')
    if lay:
        skip |= set(c['fields'][t]['name'] for t, e in lay['pre'])
    out = {}
    codes = sorted(int(k) for k, v in summary.get('factory', {}).items() if v == cn and k != 'default')
    if codes and (len(codes) > 1 or c.get('ctorType') not in codes):
        # classes that serve several type codes: the caller picks one of them
        ti = next(i for i, f in enumerate(c['fields']) if f['name'] == 'objectType')
        out[ti] = codecgen.le(rng.choice(codes), 4)
    for i, f in enumerate(c['fields']):
        k = f['kind']
        nm = f['name'].split('.')[-1]
        if f['name'] in skip or nm in skip:
            continue
        if k[0] == 'num':
            low = nm.lower()
            if any(x in low for x in ('length', 'len', 'count', 'validdatabytes', 'structlength')) and not lay:
                continue
            if rng.random() < 0.7:
                out[i] = g.scalar(f)
        elif k[0] == 'arr':
            if rng.random() < 0.6:
                out[i] = bytes(rng.randrange(256) for _ in range(k[1]))
        else:
            out[i] = g.payload(k[1], big=big and rng.random() < 0.3)
    return out


def split_chunks(B, cs):
    out = []
    while cs > 0 and len(B) >= cs:
        out.append(B[:cs]); B = B[cs:]
    out.append(B)
    return out


def zd_tokens(chunks, level, trailer):
    toks = {}
    if level == 0:
        return []
    for c in chunks + ([b''] if trailer else []):
        toks['zd=%d:%s:%s' % (level, c.hex(), zlib.compress(c, level).hex())] = 1
    return list(toks)


class Case:
    def __init__(self, level, cs, rp, objs, hdr=None, open_level=None, noclose=False):
        self.level, self.cs, self.rp, self.objs, self.hdr = level, cs, rp, objs, hdr or {}
        self.open_level = open_level      # compressionLevel at open(); `level` is assigned right after open() (API use of a public member)
        self.noclose = noclose            # the File is destroyed without an explicit close()
        self.pause = 0                    # number of 300 ms pauses of the application behind the first object (and before it)

    def opts(self, model=False):
        h = ' '.join('h%d=%s' % (k, v.hex()) for k, v in sorted(self.hdr.items()))
        lv = self.level if (model or self.open_level is None) else self.open_level
        return 'level=%d cs=%d rp=%d %s' % (lv, self.cs, 1 if self.rp else 0, h)

    def tail(self, model=False):
        t = ' '.join(';; ' + objline(cn, a) for cn, a in self.objs)
        if model:
            return t
        if self.pause and self.objs:
            z = ' '.join([';; @z'] * self.pause)
            t = z + ' ;; ' + objline(*self.objs[0]) + ' ' + z + ' ' + ' '.join(';; ' + objline(cn, a) for cn, a in self.objs[1:])
        return (';; @level=%d ' % self.level if self.open_level is not None else '') + t + (' ;; @noclose' if self.noclose else '')


def gen_cases(summary, rng, tier, classes, exact, ncases, suspects=()):
    g = codecgen.ObjGen(summary, rng)
    cases = []
    # classes about which an obligation broke on this run are searched much harder (the search for a failing input)
    simple0 = 'CanMessage' if 'CanMessage' in classes else None
    for cn in suspects:
        if cn not in classes:
            continue
        for k in range(80):
            objs = [(cn, api_object(g, summary, cn, rng)) for _ in range(rng.choice([1, 2, 3]))]
            if simple0 and k % 2:
                objs.append((simple0, {}))
            cases.append(Case(rng.choice([0, 1, 6]), rng.choice([1, 7, 64, 4096, 131072]) if sum(len(v) for _, a in objs for v in a.values()) <= 400 else 4096, rng.random() < 0.5, objs))
    levels = [0, 1, 6, 9] if tier == 'quick' else list(range(10))
    sizes = [1, 7, 64, 4096, 131072]
    for n in range(ncases):
        k = rng.random()
        if k < 0.75:
            cn = classes[n % len(classes)]
            objs = [(cn, api_object(g, summary, cn, rng)) for _ in range(rng.choice([1, 2, 3]))]
            if rng.random() < 0.3:
                objs.insert(rng.randrange(len(objs) + 1), (cn, {}))
        elif k < 0.8:
            objs = []
        else:
            objs = [(cn, api_object(g, summary, cn, rng)) for cn in rng.sample(exact, min(len(exact), rng.choice([2, 4, 8, 20])))]
        hdr = {}
        if rng.random() < 0.3:
            hdr = {3: bytes([rng.randrange(256)]), 4: bytes([rng.randrange(10)]), 5: bytes([rng.randrange(256)]), 10: struct.pack('<I', rng.randrange(2 ** 32)),
                   11: bytes(rng.randrange(256) for _ in range(16)), 12: bytes(rng.randrange(256) for _ in range(16))}
        cs = rng.choice(sizes)
        if cs == 1 and sum(len(v) for _, a in objs for v in a.values()) > 400:
            cs = 7
        cases.append(Case(rng.choice(levels), cs, rng.random() < 0.7, objs, hdr))
    # layout variants: every value 0..4 of every variant selector (apiMajor, flags, *_present), in tiny containers and
    # followed by further objects - a variant shorter than the default layout makes the parser seek backwards
    simple = 'CanMessage' if 'CanMessage' in classes else (exact[0] if exact else None)
    for cn in classes:
        c = g.cls[cn]
        for fi in c.get('shapeFields') or []:
            f = c['fields'][fi]
            low = f['name'].lower()
            if f['kind'][0] != 'num' or f['name'] in ('objectSize', 'headerSize', 'headerVersion', 'signature', 'objectType'):
                continue
            if any(x in low for x in ('length', 'len', 'count', 'size', 'offset', 'bytes')) or ('reserved' in low and not low.endswith('_present')):
                continue
            vals = (0, 1) if low.endswith('_present') else (0, 4, 8, 12) if low == 'flags' else (0, 1, 2, 3, 4)
            for v in vals:
                a = api_object(g, summary, cn, rng)
                a[fi] = codecgen.le(v, f['kind'][1])
                objs = [(cn, a)] + ([(simple, {})] if simple else []) + [(cn, dict(a))] + ([(simple, {})] if simple else [])
                for cs in ((4, 7) if tier == 'quick' else (1, 2, 3, 4, 5, 7, 16, 43)):
                    cases.append(Case(rng.choice([0, 1]), cs, rng.random() < 0.5, objs))
                # ... and as the very last object of the file (nothing behind it that a decoder reading too far could borrow)
                cases.append(Case(rng.choice([0, 1]), rng.choice([7, 64, 4096]), rng.random() < 0.5, objs[:3] if simple else objs[:1]))
    # payload lengths around the capacity of 6-, 7- and 8-bit length fields, one container member at a time, everything else default
    for cn in classes:
        c = g.cls[cn]
        for fi, f in enumerate(c['fields']):
            if f['kind'][0] != 'vec':
                continue
            ew = f['kind'][1]
            for ln in ((64, 65, 255, 256) if tier == 'quick' else (1, 63, 64, 65, 127, 128, 255, 256, 257)):
                objs = [(cn, {fi: bytes(rng.randrange(1, 256) for _ in range(ln * ew))})] + ([(simple, {})] if simple else [])
                cases.append(Case(rng.choice([0, 1]), rng.choice([64, 4096]), False, objs))
    if tier == 'thorough':
        # container larger than the internal buffer / payloads of several containers
        for cn in ('AppText', 'EthernetFrame'):
            if cn in classes:
                cases.append(Case(1, 200000, True, [(cn, api_object(g, summary, cn, rng, big=True)) for _ in range(3)]))
    return cases


def run_cases(pipe, res, cases, fexe, cexe, want_model=True):
    """-> per case dict: expected (post-write dumps + encodings from the codec harness), file (impl bytes), mfile (model bytes),
    rd (impl readfile answer), mrd (model readfile answer)"""
    drv = lib.driver_exe()
    # 1. encodings and post-write dumps of every object (real codecs, in-process)
    encreq = []
    idx = []
    for ci, c in enumerate(cases):
        for oi, (cn, a) in enumerate(c.objs):
            encreq.append('!enc ' + objline(cn, a))   # forked: an encoder defect must not take the session down
            idx.append((ci, oi))
    enc, rc, err = lib.psession(cexe, encreq) if encreq else ([], 0, '')
    if len(enc) != len(encreq):
        res.oblige('D:codec-session', False, '%d answers for %d requests: %s' % (len(enc), len(encreq), err[-500:]))
        return None
    out = [{'expected': [None] * len(c.objs)} for c in cases]
    for (ci, oi), a in zip(idx, enc):
        d = parse_kv(a)
        out[ci]['expected'][oi] = {'class': cases[ci].objs[oi][0], 'halt': d.get('halt'), 'bytes': bytes.fromhex(d.get('out', '')), 'dump': ' '.join(d.get('obj', []))}
    # 2. write through the real File
    wreq = ['writefile %s %s' % (c.opts(), c.tail()) for c in cases]
    w, rc, err = lib.psession(fexe, wreq, env=fenv(), timeout=3600)
    if len(w) != len(wreq):
        res.oblige('D:file-session', False, '%d answers for %d requests: %s' % (len(w), len(wreq), err[-500:]))
        return None
    mreq = []
    for c, o, a in zip(cases, out, w):
        o['wanswer'] = a
        o['file'] = bytes.fromhex(a.split('out=')[1]) if a.startswith('writefile out=') else None
        B = b''.join(e['bytes'] for e in o['expected'])
        chunks = split_chunks(B, c.cs)
        o['stream'] = B
        o['chunks'] = chunks
        mreq.append('writefile %s %s %s' % (c.opts(model=True), ' '.join(zd_tokens(chunks, c.level, c.rp)), c.tail(model=True)))
    if want_model and lib.model_ok():
        mw, rc, err = lib.psession(drv, mreq, timeout=3600)
        if len(mw) != len(mreq):
            res.oblige('D:driver-session', False, '%d answers for %d requests: %s' % (len(mw), len(mreq), err[-500:]))
            return None
        for o, a in zip(out, mw):
            o['mfile'] = bytes.fromhex(a.split('out=')[1]) if a.startswith('writefile out=') else None
    return out


def read_files(res, files, fexe, want_model=True):
    """files: list of bytes -> (impl answers, model answers)"""
    drv = lib.driver_exe()
    rreq = ['readfile ' + (f.hex() or '-') for f in files]
    r, rc, err = lib.psession(fexe, rreq, env=fenv(), timeout=7200)
    if len(r) != len(rreq):
        res.oblige('D:file-session', False, '%d answers for %d requests: %s' % (len(r), len(rreq), err[-500:]))
        return None, None
    mr = None
    if want_model and not lib.model_ok():
        return r, [None] * len(r)        # no model of this tree (see lib.lake_build): implementation-only oracles go on
    if want_model:
        mreq = ['readfile %s %s' % (f.hex() or '-', ' '.join(blfparse.zi_tokens(f))) for f in files]
        mr, rc, err = lib.psession(drv, mreq, timeout=7200)
        if len(mr) != len(mreq):
            res.oblige('D:driver-session', False, '%d answers for %d requests: %s' % (len(mr), len(mreq), err[-500:]))
            return r, None
    return r, mr


def split_read(ans):
    """-> (head dict, stats str, [ (class, dump) ])"""
    parts = ans.split(' | ')
    head = parts[0]
    d = {}
    toks = head.split()
    i = 1
    while i < len(toks) and toks[i] != 'stats':
        if '=' in toks[i]:
            k, v = toks[i].split('=', 1)
            d[k] = v
        i += 1
    stats = ' '.join(toks[i + 1:]) if i < len(toks) else ''
    if 'BADEOF' in stats:
        d['badeof'] = '1'
        stats = stats.replace(' BADEOF', '')
    objs = []
    for p in parts[1:]:
        p = p.replace(' BADEOF', '')
        cn, _, dump = p.partition(' ')
        objs.append((cn, dump))
    if ans.endswith('BADEOF'):
        d['badeof'] = '1'
    return d, stats, objs


def mask_indet(summary, cn, dump):
    c = next((x for x in summary['classes'] if x['name'] == cn), None)
    if not c:
        return dump
    ind = set(str(i) for i, f in enumerate(c['fields']) if not f['hasInit'])
    if not ind:
        return dump
    return ' '.join(x for x in dump.split() if x.split('=')[0] not in ind)


def compare_read(summary, a, b, ignore_usize=False):
    """model vs implementation readfile answers, indeterminate members masked.  ignore_usize: for corrupt files the
    parser may stop (and the application close the file) while the inflater is still counting containers"""
    if a == b or a is None:
        return True      # (a is None: there is no model of this tree; the broken build obligation is reported on its own)
    if 'outcome=hang' in a and 'outcome=hang' in b:
        return True
    if 'outcome=oob' in a and 'outcome=crash' in b:
        return True
    da, sa, oa = split_read(a)
    db, sb, ob = split_read(b)
    unm = set(c['name'] for c in summary['classes'] if c.get('modelled') is False)
    if unm and any(x[0] in unm for x in ob):
        return True     # the file holds an object of a class the translator could not model: nothing to compare with
    # the model marks a parser that stopped before the end of the stream (`early=1`): the application then closes the file while
    # the inflater may still be counting containers, so the implementation's counter is anything up to the model's
    early = da.pop('early', None)
    if ignore_usize or (early and da.get('usize', '').isdigit() and db.get('usize', '').isdigit() and int(db['usize']) <= int(da['usize'])):
        da.pop('usize', None); db.pop('usize', None)
    if da != db or sa != sb or len(oa) != len(ob):
        return False
    return all(x[0] == y[0] and mask_indet(summary, x[0], x[1]) == mask_indet(summary, y[0], y[1]) for x, y in zip(oa, ob))
