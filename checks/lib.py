"""Shared infrastructure of the checks: scratch dirs, regeneration (tie T), Lean build + audit,
C++ builds of /repo's working tree, line-protocol sessions (tie D), evidence and verdict output."""
import os, sys, json, subprocess, shutil, tempfile, atexit, time, re, hashlib, glob, signal
from concurrent.futures import ThreadPoolExecutor

VERIF = os.path.dirname(os.path.dirname(os.path.abspath(__file__)))
REPO = os.environ.get('VERIF_REPO', '/repo')
SRC = os.path.join(REPO, 'src', 'Vector', 'BLF')
LEAN = os.path.join(VERIF, 'lean')
GEN = os.path.join(LEAN, 'Blf', 'Gen')
NPROC = os.cpu_count() or 8
GUARD = 'VECTOR_BLF_VERIF'

_scratch = None


def scratch():
    global _scratch
    if _scratch is None:
        for base in (os.environ.get('TMPDIR'), '/var/tmp', '/tmp'):
            if base and os.path.isdir(base) and os.access(base, os.W_OK):
                break
        _scratch = tempfile.mkdtemp(prefix='vblf-verif.', dir=base)
        atexit.register(lambda: shutil.rmtree(_scratch, ignore_errors=True))
    return _scratch


def seed():
    try:
        return int(os.environ.get('VERIF_SEED', '1'))
    except ValueError:
        return 1


def run(cmd, **kw):
    return subprocess.run(cmd, stdout=subprocess.PIPE, stderr=subprocess.STDOUT, text=True, **kw)


def include_flags():
    fl = ['-I' + os.path.join(REPO, 'src')]
    b = os.path.join(REPO, '_build', 'src')
    if os.path.exists(os.path.join(b, 'Vector', 'BLF', 'config.h')):
        fl.append('-I' + b)
    fl.append('-I' + os.path.join(VERIF, 'harness', 'compat'))
    return fl


# ------------------------------------------------------------------------------------------ tie T
_translated = None


def translate():
    """regenerate Blf/Gen, harness reflection and the summary from the current working tree"""
    global _translated
    if _translated is not None:
        return _translated
    s = scratch()
    ast = os.path.join(s, 'ast')
    cpp = os.path.join(s, 'gen')
    js = os.path.join(s, 'summary.json')
    t0 = time.time()
    tmpgen = os.path.join(s, 'leangen')
    p = run([sys.executable, os.path.join(VERIF, 'translator', 'translate.py'), '--ast', ast, '--lean', tmpgen,
             '--cpp', cpp, '--json', js])
    if p.returncode != 0:
        _translated = {'ok': False, 'log': p.stdout, 'summary': None, 'cpp': cpp, 'wall': time.time() - t0}
        return _translated
    # install into lean/Blf/Gen only files whose content changed (keeps lake incremental)
    os.makedirs(GEN, exist_ok=True)
    for fn in os.listdir(tmpgen):
        src = os.path.join(tmpgen, fn)
        dst = os.path.join(GEN, fn)
        new = open(src).read()
        if not os.path.exists(dst) or open(dst).read() != new:
            with open(dst, 'w') as f:
                f.write(new)
    for fn in os.listdir(GEN):
        if fn not in os.listdir(tmpgen) and not (fn.startswith('K') or fn in ('Exact.lean', 'Checks.lean', 'Safe.lean')):
            os.remove(os.path.join(GEN, fn))
    shutil.rmtree(ast, ignore_errors=True)
    _translated = {'ok': True, 'log': p.stdout, 'summary': json.load(open(js)), 'cpp': cpp, 'wall': time.time() - t0}
    return _translated


def write_if_changed(path, txt):
    if not os.path.exists(path) or open(path).read() != txt:
        with open(path, 'w') as f:
            f.write(txt)


def gen_checks(summary):
    """Evaluate `regularCheck` on the regenerated terms with the compiled driver, then write the per-class
    kernel obligations: `X_regular` (check = true) for passing classes and `X_not_regular` (check = false, also
    proved) for the others, plus `Exact.lean` with the list of exactly-framed classes."""
    ok, fails, log = lake_build(['blfdriver'])
    if not ok:
        return None, fails, log
    out, rc, err = session(driver_exe(), ['regcheck', 'tables', 'safecheck'])
    res = {}
    tables = {}
    if out and out[0].startswith('regcheck'):
        for tok in out[0].split()[1:]:
            n, v = tok.split('=')
            res[n] = (v == '1')
    if len(out) > 1 and out[1].startswith('tables'):
        for tok in out[1].split()[1:]:
            n, v = tok.split('=')
            tables[n] = {'inputsInit': v[0] == '1', 'arraysInit': v[1] == '1', 'allInit': v[2] == '1', 'ctorOk': v[3] == '1'}
    summary['tables'] = tables
    safe = {}
    syncf = {}
    if len(out) > 2 and out[2].startswith('safecheck'):
        for tok in out[2].split()[1:]:
            n, v = tok.split('=')
            safe[n] = (v[0] == '1')
            syncf[n] = (v[1:2] == '1')
    summary['readSafe'] = safe
    summary['syncFirst'] = syncf
    # memory safety of the decoders: per-class kernel obligations of `readSafe_sound`
    t = 'import Blf.Gen.All\nimport Blf.Codec.Safe\nimport Blf.Codec.Pos\n/-! generated: `readSafe` of every regenerated decoder, decided by the kernel -/\nnamespace Blf.Gen\nopen Blf\n\n'
    for n in sorted(safe):
        t += 'theorem %s_%s : readSafe %s = %s := by decide +kernel\n' % (n, 'readSafe' if safe[n] else 'not_readSafe', n, 'true' if safe[n] else 'false')
    t += '\n/-- the decoders that pass the memory-safety check -/\ndef safeCodecs : List Codec := [' + ', '.join(n for n in sorted(safe) if safe[n]) + ']\n\n'
    t += 'theorem safe_all : (safeCodecs.all readSafe) = true := by decide +kernel\n\n'
    if safe and all(safe.values()):
        t += '/-- every decoder of the object factory, the log container and the base header pass the check -/\n'
        t += 'theorem all_readSafe : ((ObjectHeaderBase :: allCodecs).all readSafe) = true := by decide +kernel\n\n'
    if syncf and all(syncf.values()):
        t += '/-- every decoder begins with the signature search -/\n'
        t += 'theorem all_syncFirst : ((ObjectHeaderBase :: allCodecs).all fun c => c.readProg.syncFirst) = true := by decide +kernel\n\n'
    t += '/-- decoders that do not pass it -/\ndef unsafeNames : List String := [' + ', '.join('"%s"' % n for n in sorted(safe) if not safe[n]) + ']\n\nend Blf.Gen\n'
    write_if_changed(os.path.join(GEN, 'Safe.lean'), t)
    nch = 1 + max([c['chunk'] for c in summary['classes']] or [0])
    for j in range(nch):
        t = 'import Blf.Gen.C%d\n/-! generated: per-class side conditions of `regular_sound`, decided by the kernel -/\nnamespace Blf.Gen\nopen Blf\n\n' % j
        for c in summary['classes']:
            if c['chunk'] == j and c['name'] in res:
                if res[c['name']]:
                    t += 'theorem %s_regular : regularCheck %s %s_layout = true := by decide +kernel\n' % (c['name'], c['name'], c['name'])
                else:
                    t += 'theorem %s_not_regular : regularCheck %s %s_layout = false := by decide +kernel\n' % (c['name'], c['name'], c['name'])
        t += 'end Blf.Gen\n'
        write_if_changed(os.path.join(GEN, 'K%d.lean' % j), t)
    exact = [c['name'] for c in summary['classes'] if res.get(c['name'])]
    t = ''.join('import Blf.Gen.K%d\n' % j for j in range(nch)) + 'import Blf.Gen.All\nimport Blf.FileRound\n'
    t += '/-! generated: the classes whose regenerated programs pass `regularCheck` -/\nnamespace Blf.Gen\nopen Blf\n\n'
    t += 'def exactLayouts : List (Codec × Layout) := [' + ', '.join('(%s, %s_layout)' % (n, n) for n in exact) + ']\n\n'
    t += 'theorem exact_all : (exactLayouts.all fun p => regularCheck p.1 p.2) = true := by decide +kernel\n\n'
    t += '/-- every exactly-framed layout begins with the base header and its pre-processing leaves the type code alone -/\n'
    t += 'theorem exact_hdr : (exactLayouts.all fun p => FileRound.hdrCheck p.2) = true := by decide +kernel\n\n'
    # a concrete non-trivial object for the non-vacuity examples of the property files
    smp = None
    for c in summary['classes']:
        if c['name'] == 'AppText' and res.get('AppText'):
            ids = [i for i, f in enumerate(c['fields']) if f['name'] == 'text']
            if ids:
                smp = '(AppText, AppText_layout, AppText.fresh.setBuf %d [104, 101, 108, 108, 111])' % ids[0]
    t += 'def sample : Option (Codec × Layout × Obj) := ' + ('some ' + smp if smp else 'none') + '\n\n'
    # classes outside the table-level obligations of C14/C17 (computed from the regenerated terms; the check
    # compares them with known_findings.jsonl)
    def lst(key):
        return '[' + ', '.join('"%s"' % n for n in sorted(tables) if not tables[n][key]) + ']'
    t += '/-- classes whose encoder reads a member without initialiser -/\ndef inputsNotInit : List String := ' + lst('inputsInit') + '\n'
    t += '/-- classes with an array member without initialiser -/\ndef arraysNotInit : List String := ' + lst('arraysInit') + '\n'
    t += '/-- classes with some member without initialiser -/\ndef notAllInit : List String := ' + lst('allInit') + '\n'
    t += '/-- classes whose default constructor passes a type code the factory does not map back to them -/\ndef ctorMismatch : List String := ' + lst('ctorOk') + '\n\n'
    t += 'end Blf.Gen\n'
    write_if_changed(os.path.join(GEN, 'Exact.lean'), t)
    write_if_changed(os.path.join(GEN, 'Checks.lean'), 'import Blf.Gen.Exact\nimport Blf.Gen.Safe\n')
    return res, [], log


# ------------------------------------------------------------------------------------------ Lean
def lake_build(targets):
    """-> (ok, failures [(file, line, msg)], log)"""
    p = run(['lake', 'build'] + targets, cwd=LEAN)
    fails = []
    for m in re.finditer(r'^error: ([^\s:]+\.lean):(\d+):(\d+): (.*)$', p.stdout, re.M):
        fails.append((m.group(1), int(m.group(2)), m.group(4)))
    ok = p.returncode == 0
    if not ok and not fails:
        fails.append(('lake', 0, p.stdout[-2000:]))
    if not ok and 'blfdriver' in targets and len(targets) > 1:
        # a proof module may have failed while the driver itself builds: ask for the driver alone before giving the model up
        if run(['lake', 'build', 'blfdriver'], cwd=LEAN).returncode == 0:
            return ok, fails, p.stdout
    if not ok and 'blfdriver' in targets:
        # the executable model of this tree could not be built (a class it needs left the translator's grammar, ...): whatever binary
        # is lying around is the model of an OLDER tree and must not be consulted; the implementation-only oracles go on
        global _model_ok
        _model_ok = False
        try:
            os.remove(driver_exe())
        except OSError:
            pass
    return ok, fails, p.stdout


_model_ok = True


def model_ok():
    return _model_ok and os.path.exists(driver_exe())


FORBIDDEN = re.compile(r'\b(sorry|admit|native_decide|bv_decide|implemented_by|unsafe)\b|^\s*axiom\s|maxHeartbeats\s+0', re.M)


def strip_comments(txt):
    txt = re.sub(r'/-.*?-/', '', txt, flags=re.S)
    txt = re.sub(r'--.*$', '', txt, flags=re.M)
    return txt


def audit_sources():
    """grep the Lean sources for forbidden tokens (comments stripped) -> list of hits"""
    hits = []
    for root, _, files in os.walk(LEAN):
        if '.lake' in root:
            continue
        for fn in files:
            if fn.endswith('.lean'):
                p = os.path.join(root, fn)
                txt = strip_comments(open(p).read())
                for m in FORBIDDEN.finditer(txt):
                    hits.append((os.path.relpath(p, LEAN), m.group(0).strip()))
    return hits


def print_axioms(module, theorems):
    """#print axioms for each theorem -> {thm: [axioms]} ; None if the file failed"""
    s = scratch()
    fn = os.path.join(s, 'axioms_%s.lean' % hashlib.md5((module + ''.join(theorems)).encode()).hexdigest()[:8])
    with open(fn, 'w') as f:
        f.write('import %s\n' % module)
        for t in theorems:
            f.write('#print axioms %s\n' % t)
    p = run(['lake', 'env', 'lean', fn], cwd=LEAN)
    out = {}
    cur = None
    txt = p.stdout
    for t in theorems:
        m = re.search(r"'%s' depends on axioms: \[(.*?)\]" % re.escape(t), txt, re.S)
        if m:
            out[t] = [x.strip() for x in m.group(1).replace('\n', ' ').split(',')]
        elif re.search(r"'%s' does not depend on any axioms" % re.escape(t), txt):
            out[t] = []
        else:
            out[t] = None
    return out, txt


ALLOWED_AXIOMS = {'propext', 'Classical.choice', 'Quot.sound'}


# ------------------------------------------------------------------------------------------ C++ builds
def lib_sources():
    return sorted(glob.glob(os.path.join(SRC, '*.cpp')))


def compile_many(jobs):
    """jobs: list of (cmd list, label) -> list of failures"""
    fails = []

    def one(j):
        p = run(j[0])
        return (j[1], p.returncode, p.stdout)
    with ThreadPoolExecutor(max_workers=NPROC) as ex:
        for lab, rc, out in ex.map(one, jobs):
            if rc != 0:
                fails.append((lab, out[-3000:]))
    return fails


def build_lib(tag, flags, cxx='g++', force_include=None):
    """compile the library sources of the working tree -> path of static archive (or None, log)"""
    d = os.path.join(scratch(), 'lib-' + tag)
    os.makedirs(d, exist_ok=True)
    jobs = []
    objs = []
    for src in lib_sources():
        o = os.path.join(d, os.path.basename(src)[:-4] + '.o')
        objs.append(o)
        cmd = [cxx, '-std=c++11', '-c', '-D' + GUARD] + flags + include_flags()
        if force_include:
            cmd += ['-include', force_include]
        cmd += [src, '-o', o]
        jobs.append((cmd, src))
    fails = compile_many(jobs)
    if fails:
        return None, fails
    a = os.path.join(d, 'libvblf.a')
    p = run(['ar', 'rcs', a] + objs)
    if p.returncode != 0:
        return None, [('ar', p.stdout)]
    return a, []


def build_exe(tag, sources, lib, flags, cxx='g++', extra_inc=None, force_include=None, libs=('-lz', '-lpthread')):
    d = os.path.join(scratch(), 'exe-' + tag)
    os.makedirs(d, exist_ok=True)
    jobs = []
    objs = []
    for src in sources:
        o = os.path.join(d, os.path.basename(src) + '.o')
        objs.append(o)
        cmd = [cxx, '-std=c++11', '-c', '-D' + GUARD] + flags + include_flags() + ['-I' + os.path.join(VERIF, 'harness')]
        if extra_inc:
            cmd += ['-I' + x for x in extra_inc]
        if force_include:
            cmd += ['-include', force_include]
        cmd += [src, '-o', o]
        jobs.append((cmd, src))
    fails = compile_many(jobs)
    if fails:
        return None, fails
    exe = os.path.join(d, tag)
    p = run([cxx] + flags + objs + [lib] + list(libs) + ['-o', exe])
    if p.returncode != 0:
        return None, [('link', p.stdout[-3000:])]
    return exe, []


SAN = ['-O1', '-g', '-fsanitize=address,undefined', '-fno-sanitize-recover=all', '-fno-omit-frame-pointer']


# ------------------------------------------------------------------------------------------ sessions
def session(exe, lines, env=None, timeout=600, cwd=None):
    """feed request lines, get answer lines"""
    e = dict(os.environ)
    e.setdefault('ASAN_OPTIONS', 'detect_leaks=0:abort_on_error=0:allocator_may_return_null=1')
    e.setdefault('UBSAN_OPTIONS', 'print_stacktrace=1')
    if env:
        e.update(env)
    p = subprocess.run([exe] if isinstance(exe, str) else exe, input='\n'.join(lines) + '\n', stdout=subprocess.PIPE,
                       stderr=subprocess.PIPE, text=True, env=e, timeout=timeout, cwd=cwd)
    return p.stdout.split('\n')[:-1] if p.stdout.endswith('\n') else p.stdout.split('\n'), p.returncode, p.stderr


def session_resilient(exe, lines, max_crashes=25, **kw):
    """like session, but a harness process that dies on a request does not end the run: that request is repeated in a child
    process (prefix `!`: its answer then says how it died) and the session continues behind it"""
    sent = list(lines)
    out = []
    crashes = 0
    rc, err = 0, ''
    while len(out) < len(sent) and crashes <= max_crashes:
        o, rc, err = session(exe, sent[len(out):], **kw)
        out += o
        if len(out) < len(sent):
            crashes += 1
            k = len(out)
            if sent[k].startswith('!'):
                out.append('crash status=unknown')
            else:
                sent[k] = '!' + sent[k]
    return out, rc, err


def psession(exe, lines, nproc=None, **kw):
    """like session, but the (independent) request lines are spread over several processes"""
    nproc = nproc or min(NPROC, 16)
    if len(lines) < 4 * nproc:
        return session(exe, lines, **kw)
    chunks = [lines[i::nproc] for i in range(nproc)]
    with ThreadPoolExecutor(max_workers=nproc) as ex:
        rs = list(ex.map(lambda c: session(exe, c, **kw), chunks))
    out = [None] * len(lines)
    err = ''
    rc = 0
    for i, (o, r, e) in enumerate(rs):
        if len(o) != len(chunks[i]):
            return [], r, e
        for j, x in enumerate(o):
            out[i + j * nproc] = x
        err += e[-300:]
        rc = rc or r
    return out, rc, err


def psession_resilient(exe, lines, nproc=None, **kw):
    """psession whose processes survive a request on which the harness dies (see session_resilient): that request's answer
    is `crash status=<how>`, every other request is still answered"""
    nproc = nproc or min(NPROC, 16)
    if len(lines) < 4 * nproc:
        return session_resilient(exe, lines, **kw)
    chunks = [lines[i::nproc] for i in range(nproc)]
    with ThreadPoolExecutor(max_workers=nproc) as ex:
        rs = list(ex.map(lambda c: session_resilient(exe, c, **kw), chunks))
    out = [None] * len(lines)
    err = ''
    rc = 0
    for i, (o, r, e) in enumerate(rs):
        if len(o) != len(chunks[i]):
            return [], r, e
        for j, x in enumerate(o):
            out[i + j * nproc] = x
        err += e[-300:]
        rc = rc or r
    return out, rc, err


def driver_exe():
    return os.path.join(LEAN, '.lake', 'build', 'bin', 'blfdriver')


# ------------------------------------------------------------------------------------------ findings / verdict
def known_findings():
    p = os.path.join(VERIF, 'known_findings.jsonl')
    out = []
    if os.path.exists(p):
        for l in open(p):
            l = l.strip()
            if l and not l.startswith('#'):
                out.append(json.loads(l))
    return out


def write_replay(pid, payload):
    d = os.path.join(VERIF, 'replays')
    os.makedirs(d, exist_ok=True)
    h = hashlib.sha1(json.dumps(payload, sort_keys=True, default=str).encode()).hexdigest()[:10]
    p = os.path.join(d, '%s-%s.json' % (pid, h))
    json.dump(payload, open(p, 'w'), indent=1, default=str)
    return p


def write_evidence(pid, tier, coverage, assumptions, wall, violations):
    d = os.path.join(VERIF, 'evidence')
    os.makedirs(d, exist_ok=True)
    ev = {'property_id': pid, 'tier': tier, 'seed': seed(), 'level': 'proof', 'coverage': coverage,
          'assumptions': assumptions, 'wall_s': round(wall, 2), 'violations': violations}
    json.dump(ev, open(os.path.join(d, pid + '.json'), 'w'), indent=1, default=str)
    return ev
