#!/usr/bin/env python3
"""The other direction of checks/seeded.py:  python3 checks/harmless.py [patch ...]
Every seeded/harmless/*.diff is a behaviour-preserving edit of the library.  Each is applied alone to the repository
($VERIF_REPO or /repo), the quick tier of every check is run, the patch is undone.  Every run has to exit 0 without a
VIOLATION line.  Writes seeded/harmless/results.json.  Meant for a `vp run --with-repo` snapshot (VERIF_REPO=$VP_RUN_REPO)."""
import os, sys, json, subprocess, time, glob
HERE = os.path.dirname(os.path.dirname(os.path.abspath(__file__)))
REPO = os.environ.get('VERIF_REPO') or os.environ.get('VP_RUN_REPO') or '/repo'
os.environ['VERIF_REPO'] = REPO


def sh(cmd, **kw):
    return subprocess.run(cmd, stdout=subprocess.PIPE, stderr=subprocess.STDOUT, text=True, **kw)


def main():
    patches = sys.argv[1:] or sorted(glob.glob(os.path.join(HERE, 'seeded', 'harmless', '*.diff')))
    checks = ['C%02d' % i for i in range(1, 18)]
    results = {}
    for pf in patches:
        n = os.path.basename(pf)
        p = sh(['git', '-C', REPO, 'apply', os.path.abspath(pf)])
        if p.returncode != 0:
            results[n] = {'error': 'patch does not apply: ' + p.stdout[-300:]}
            print(n, 'PATCH FAILED', p.stdout[-200:])
            continue
        r = {}
        try:
            for chk in checks:
                t = time.time()
                q = sh([sys.executable, os.path.join(HERE, 'checks', 'run.py'), chk, '--tier', 'quick'], cwd=HERE)
                lines = [l for l in q.stdout.split('\n') if l.startswith('VIOLATION')]
                r[chk] = {'exit': q.returncode, 'violations': len(lines), 'first': lines[0] if lines else '', 'wall_s': round(time.time() - t, 1)}
                print('%-10s %-4s exit=%d violations=%d (%.0fs)' % (n, chk, q.returncode, len(lines), time.time() - t))
                sys.stdout.flush()
        finally:
            sh(['git', '-C', REPO, 'checkout', '--', '.'])
        results[n] = {'checks': r, 'quiet': all(v['exit'] == 0 and v['violations'] == 0 for v in r.values())}
    json.dump(results, open(os.path.join(HERE, 'seeded', 'harmless', 'results.json'), 'w'), indent=1)
    loud = [n for n, v in results.items() if not v.get('quiet')]
    print('quiet on %d of %d harmless changes; alarms on: %s' % (len(results) - len(loud), len(results), loud))


if __name__ == '__main__':
    main()
