"""Type-directed generators for the codec correspondence (tie D).  All randomness comes from one
random.Random seeded by VERIF_SEED."""
import random, struct

BOUND = [0, 1, 2, 3, 4, 7, 8, 0x7f, 0x80, 0xff]
PAYLEN = [0, 0, 1, 2, 3, 4, 5, 6, 7, 8, 9, 15, 16, 17, 31, 32, 33, 63, 64, 100, 255, 256, 257, 300, 1000]


def le(v, w):
    return (v % (256 ** w)).to_bytes(w, 'little')


class ObjGen:
    def __init__(self, summary, rng):
        self.s = summary
        self.rng = rng
        self.cls = {c['name']: c for c in summary['classes']}

    def scalar(self, f):
        w = f['kind'][1]
        r = self.rng
        if f.get('isBool'):
            return le(r.choice([0, 1]), 1)
        m = 256 ** w
        k = r.random()
        if k < 0.30:
            return le(r.choice(BOUND), w)
        if k < 0.45:
            return le(r.choice([m - 1, m // 2, m // 2 - 1, m - 2]), w)
        if k < 0.55:
            return le(r.randrange(0, 16), w)
        return le(r.randrange(0, m), w)

    def payload(self, ew, big=False):
        r = self.rng
        n = r.choice(PAYLEN) if not big else r.choice([4096, 70000, 131072, 131073])
        if r.random() < 0.1:
            n = r.randrange(0, 2000)
        return bytes(r.randrange(0, 256) for _ in range(n * ew))

    def obj(self, cname, mode='random', keep_sig=True, big=False):
        """-> {fid: bytes}.  mode: 'default' (nothing set), 'payload' (only containers set: API-style use),
        'random' (every scalar random incl. stale length/size fields), 'boundary'"""
        c = self.cls[cname]
        out = {}
        if mode == 'default':
            return out
        for i, f in enumerate(c['fields']):
            k = f['kind']
            if k[0] == 'num':
                if keep_sig and f['name'] == 'signature':
                    continue
                if mode == 'payload':
                    continue
                if f['name'] == 'objectType' and self.rng.random() < 0.9:
                    continue
                out[i] = self.scalar(f)
            elif k[0] == 'arr':
                if mode == 'payload' and self.rng.random() < 0.5:
                    continue
                out[i] = bytes(self.rng.randrange(0, 256) for _ in range(k[1]))
            elif k[0] == 'vec':
                out[i] = self.payload(k[1], big=big and self.rng.random() < 0.5)
        return out

    def line(self, cname, assigns):
        return 'enc %s %s' % (cname, ' '.join('%d=%s' % (i, b.hex()) for i, b in sorted(assigns.items())))


def mutate_image(rng, img, n):
    """derived images: truncations, single-byte and aligned-field overwrites"""
    out = []
    L = len(img)
    for _ in range(n):
        k = rng.random()
        b = bytearray(img)
        if k < 0.25 and L > 0:
            out.append(bytes(b[:rng.randrange(0, L)]))
        elif k < 0.65 and L > 16:
            p = rng.randrange(4, L)
            b[p] = rng.choice([0, 1, 0x7f, 0x80, 0xff, rng.randrange(256)])
            out.append(bytes(b))
        elif L > 20:
            w = rng.choice([2, 4, 8])
            p = rng.randrange(4, max(5, L - w)) // w * w
            v = rng.choice([0, 1, 256 ** w // 2 - 1, 256 ** w // 2, 256 ** w - 1])
            b[p:p + w] = le(v, w)
            out.append(bytes(b[:L]))
        else:
            out.append(bytes(b))
    return out
