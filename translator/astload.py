"""Dump clang-14 JSON ASTs of /repo/src/Vector/BLF/*.cpp (current working tree) and load them.

One clang run per translation unit, filtered to the declarations whose name contains the
file's base name (class definition from the header + out-of-line members from the .cpp).
"""
import json, os, subprocess, sys, hashlib
from concurrent.futures import ThreadPoolExecutor

REPO = os.environ.get('VERIF_REPO', '/repo')
SRC = os.path.join(REPO, 'src', 'Vector', 'BLF')
HERE = os.path.dirname(os.path.abspath(__file__))
COMPAT = os.path.join(os.path.dirname(HERE), 'harness', 'compat')


def include_flags():
    fl = ['-I' + os.path.join(REPO, 'src')]
    b = os.path.join(REPO, '_build', 'src')
    if os.path.exists(os.path.join(b, 'Vector', 'BLF', 'config.h')):
        fl.append('-I' + b)
    fl.append('-I' + COMPAT)
    return fl


def dump_one(args):
    cpp, flt, out = args
    cmd = ['clang++-14', '-std=c++11', '-fsyntax-only'] + include_flags() + [
        '-Xclang', '-ast-dump=json', '-Xclang', '-ast-dump-filter=' + flt, cpp]
    with open(out, 'wb') as fo:
        p = subprocess.run(cmd, stdout=fo, stderr=subprocess.PIPE)
    return (cpp, p.returncode, p.stderr.decode(errors='replace'))


def dump_all(outdir, jobs=16):
    os.makedirs(outdir, exist_ok=True)
    cpps = sorted(f for f in os.listdir(SRC) if f.endswith('.cpp'))
    tasks = [(os.path.join(SRC, f), f[:-4], os.path.join(outdir, f[:-4] + '.json')) for f in cpps]
    # extra: enums and constants from the umbrella of ObjectHeaderBase.h
    errs = []
    with ThreadPoolExecutor(max_workers=jobs) as ex:
        for cpp, rc, err in ex.map(dump_one, tasks):
            if rc != 0:
                errs.append((cpp, err[-2000:]))
    return [t[1] for t in tasks], errs


def dump_named(outdir, cpp, name):
    out = os.path.join(outdir, '_named_' + name + '.json')
    dump_one((cpp, name, out))
    return docs(out)


def docs(path):
    s = open(path).read()
    dec = json.JSONDecoder()
    i = 0
    out = []
    n = len(s)
    while i < n:
        while i < n and s[i].isspace():
            i += 1
        if i >= n:
            break
        d, j = dec.raw_decode(s, i)
        out.append(d)
        i = j
    return out
