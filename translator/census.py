import sys, json, collections, glob
sys.path.insert(0,'.')
from astload import *
from extract import *
names=[os.path.basename(p)[:-5] for p in sorted(glob.glob('/tmp/ast/*.json')) if not os.path.basename(p).startswith('_')]
m=Model('/tmp/ast',names)
creat=set(open('/tmp/creatable.txt').read().split())
def tmpl(e,fmap):
    if not isinstance(e,tuple): return str(e)
    if e[0]=='fld': return fmap.setdefault(e[1],'F%d'%len(fmap))
    if e[0]=='bsize': return 'size('+fmap.setdefault(e[1],'F%d'%len(fmap))+')'
    if e[0]=='const': return 'K'
    return e[0]+'('+','.join(tmpl(x,fmap) for x in e[1:])+')'
cen=collections.Counter(); ex={}
for cls in sorted(creat):
    c=m.classes.get(cls)
    if not c or 'read' not in c['methods']: print('no read',cls); continue
    rm=c['methods']['read']; wm=c['methods']['write']
    r=[simp_stmt(x) for x in proc_body(Ctx(m,cls,cls,'',stream_of(rm)), rm['body'].get('inner',[]))]
    w=[simp_stmt(x) for x in proc_body(Ctx(m,cls,cls,'',stream_of(wm)), wm['body'].get('inner',[]))]
    for side,prog in (('R',r),('W',w)):
        i=0
        while i<len(prog):
            s=prog[i]; fmap={}
            if s[0] in('rd','wr','sync'): i+=1; continue
            if s[0]=='resize' and i+1<len(prog) and prog[i+1][0]=='rdBuf':
                fmap[s[1]]='V'; fmap[prog[i+1][1]]='V' if prog[i+1][1]==s[1] else 'V2'
                t='resize V '+tmpl(s[2],fmap)+' ; rdBuf '+fmap[prog[i+1][1]]+' '+tmpl(prog[i+1][2],fmap); i+=2
            elif s[0]=='if': t=side+' if'; i+=1
            else:
                fmap[s[1]]='V' if isinstance(s[1],str) else None
                t=side+' '+s[0]+' '+' '.join(tmpl(x,fmap) if isinstance(x,tuple) else ('V' if isinstance(x,str) else str(x)) for x in s[1:]); i+=1
                if s[0] in ('rdBuf','wrBuf'):
                    k=[f for f in m.flat_fields(cls) if f['path']==s[1]][0]['kind']
                    t+='   ['+k[0]+(' ew%d'%k[2] if k[0]=='arr' else ' ew%d'%k[1])+']'
            cen[t]+=1; ex.setdefault(t,[]).append(cls)
for t,c in cen.most_common(): print(c,t,'   e.g.',ex[t][:4])
