"""clang JSON AST  ->  IR for the codec classes of vector_blf.

IR (plain tuples, JSON-serialisable):
  Expr : ('const',n) ('fld',path) ('bsize',path)            -- bsize = container.size() in ELEMENTS
         ('add',a,b) ('mul',a,b) ('sub',w,a,b) ('div',a,b) ('mod',a,b)
         ('band',a,b) ('bor',a,b) ('bnot',w,a) ('cast',w,a) ('ite',c,a,b)
  BExpr: ('lt',a,b) ('le',a,b) ('eq',a,b) ('ne',a,b) ('and',c,d) ('or',c,d) ('not',c) ('nz',a) ('btrue',) ('bfalse',)
  Stmt : ('sync',) ('rd',path,n) ('rdBuf',path,e) ('resize',path,e) ('seekg',e)
         ('wr',path,n) ('wrBuf',path,e) ('skipp',e) ('assign',path,e) ('if',c,[then],[else]) ('ret',)
Everything the grammar does not know raises Unsupported (fail closed).
"""
import os, re, json
from astload import docs, SRC


class Unsupported(Exception):
    pass


SCALAR_W = {'unsigned char': 1, 'signed char': 1, 'char': 1, 'bool': 1, 'unsigned short': 2, 'short': 2,
            'unsigned int': 4, 'int': 4, 'unsigned long': 8, 'long': 8, 'unsigned long long': 8, 'long long': 8,
            'double': 8, 'float': 4, 'char16_t': 2}
SIGNED = {'signed char', 'char', 'short', 'int', 'long', 'long long'}
ELEM_ALIAS = {'uint8_t': 'unsigned char', 'int8_t': 'signed char', 'uint16_t': 'unsigned short', 'int16_t': 'short',
              'uint32_t': 'unsigned int', 'int32_t': 'int', 'uint64_t': 'unsigned long', 'int64_t': 'long',
              'char': 'char', 'unsigned char': 'unsigned char', 'unsigned short': 'unsigned short',
              'unsigned int': 'unsigned int', 'unsigned long': 'unsigned long', 'long': 'long', 'char16_t': 'char16_t'}

CAST_KINDS = ('ImplicitCastExpr', 'CXXStaticCastExpr', 'CStyleCastExpr', 'CXXReinterpretCastExpr',
              'CXXConstCastExpr', 'CXXFunctionalCastExpr')


def qual(t):
    return t.get('desugaredQualType', t.get('qualType'))


def strip_ns(s):
    s = s.replace('const ', '').replace('Vector::BLF::', '').strip()
    return s


class Model:
    def __init__(self, astdir, names):
        self.astdir = astdir
        self.classes = {}      # name -> dict(bases, fields[], methods{}, ctor, enums{})
        self.enumconst = {}    # (class or '', enumerator) -> value ; also plain name -> value when unique
        self.srccache = {}
        for n in names:
            p = os.path.join(astdir, n + '.json')
            for d in docs(p):
                self._ingest(n, d)

    # ------------------------------------------------------------------ ingest
    def _ingest(self, fname, d):
        k = d.get('kind')
        if k == 'CXXRecordDecl' and 'inner' in d and d.get('completeDefinition'):
            name = d.get('name')
            c = self.classes.setdefault(name, {'bases': [], 'fields': [], 'methods': {}, 'ctor': None, 'file': fname,
                                               'methoddecl': {}})
            c['bases'] = [strip_ns(b['type']['qualType']) for b in d.get('bases', [])]
            c['fields'] = []
            for f in d['inner']:
                fk = f.get('kind')
                if fk == 'FieldDecl':
                    ini = [x for x in f.get('inner', []) if x.get('kind') != 'FullComment']
                    c['fields'].append({'name': f['name'], 'type': f['type'].get('qualType'), 'dtype': qual(f['type']),
                                        'hasInit': bool(f.get('hasInClassInitializer')), 'init': ini[0] if ini else None})
                elif fk == 'EnumDecl':
                    self._enum(name, f)
                elif fk == 'CXXMethodDecl':
                    c['methoddecl'][f['name']] = {'virtual': bool(f.get('virtual')), 'type': f['type']['qualType']}
                    body = [x for x in f.get('inner', []) if x.get('kind') == 'CompoundStmt']
                    if body:
                        c['methods'][f['name']] = {'body': body[0], 'type': f['type']['qualType'], 'params': [x for x in f.get('inner', []) if x.get('kind') == 'ParmVarDecl']}
        elif k == 'CXXMethodDecl':
            cls = self._parent_of(fname, d)
            body = [x for x in d.get('inner', []) if x.get('kind') == 'CompoundStmt']
            if body and cls:
                c = self.classes.setdefault(cls, {'bases': [], 'fields': [], 'methods': {}, 'ctor': None, 'file': fname, 'methoddecl': {}})
                c['methods'][d['name']] = {'body': body[0], 'type': d['type']['qualType'],
                                           'params': [x for x in d.get('inner', []) if x.get('kind') == 'ParmVarDecl']}
        elif k == 'CXXConstructorDecl':
            cls = d.get('name')
            if any(x.get('kind') == 'CompoundStmt' for x in d.get('inner', [])) and not d.get('isImplicit'):
                c = self.classes.setdefault(cls, {'bases': [], 'fields': [], 'methods': {}, 'ctor': None, 'file': fname, 'methoddecl': {}})
                nparams = len([x for x in d.get('inner', []) if x.get('kind') == 'ParmVarDecl'])
                c.setdefault('ctors', [])
                if not any(x['node'].get('type') == d.get('type') for x in c['ctors']):
                    c['ctors'].append({'node': d, 'nparams': nparams})
                # keep the default constructor (fewest parameters)
                if c['ctor'] is None or nparams < c['ctor']['nparams']:
                    c['ctor'] = {'node': d, 'nparams': nparams}
        elif k == 'EnumDecl':
            self._enum('', d)

    def _parent_of(self, fname, d):
        # out-of-line method: parentDeclContextId is opaque; the file's base name is the class
        # (one class per .cpp in this code base); verified against the qualified source text
        return fname

    def _enum(self, cls, d):
        ename = d.get('name', '')
        for e in d.get('inner', []):
            if e.get('kind') == 'EnumConstantDecl':
                v = self._const_of(e)
                self.enumconst[(cls, e['name'])] = v
                self.enumconst[(ename, e['name'])] = v

    def _const_of(self, e):
        for x in e.get('inner', []):
            if x.get('kind') == 'ConstantExpr' and 'value' in x:
                return int(x['value'])
            if x.get('kind') == 'IntegerLiteral':
                return int(x['value'])
            v = self._try_int(x)
            if v is not None:
                return v
        return None

    def _try_int(self, n):
        k = n.get('kind')
        if k == 'IntegerLiteral':
            return int(n['value'])
        if k == 'ConstantExpr' and 'value' in n:
            return int(n['value'])
        if k in CAST_KINDS or k in ('ParenExpr', 'ConstantExpr'):
            return self._try_int(n['inner'][0])
        return None

    # ------------------------------------------------------------------ source text
    def src_text(self, node):
        r = node.get('range')
        if not r:
            return ''
        b, e = r['begin'], r['end']
        f = b.get('file') or e.get('file')
        # clang omits 'file' when unchanged from the previous location; we only need '::' detection on
        # callee expressions, for which offsets are in the current method's file
        return (b.get('offset'), e.get('offset', 0) + e.get('tokLen', 0))

    # ------------------------------------------------------------------ fields
    def field_kind(self, f):
        """-> ('num', w, signed) | ('arr', nbytes, ew) | ('vec', ew) | ('sub', cls) | ('other', type)"""
        dt = f['dtype']
        t = f['type']
        if dt in SCALAR_W:
            return ('num', SCALAR_W[dt], dt in SIGNED)
        if dt.startswith('Vector::BLF::') or dt.startswith('enum '):
            nm = strip_ns(dt.replace('enum ', ''))
            if nm in self.classes and (self.classes[nm]['fields'] or self.classes[nm]['methods']):
                return ('sub', nm)
            # enum type: underlying width from the enum table is not in the JSON; all enums here have fixed underlying
            w = self.enum_width(nm)
            if w:
                return ('num', w, False)
            return ('other', dt)
        m = re.match(r'std::array<(.*), (\d+)>$', t)
        if m:
            et = ELEM_ALIAS.get(m.group(1).strip())
            if et is None:
                return ('other', t)
            return ('arr', SCALAR_W[et] * int(m.group(2)), SCALAR_W[et])
        m = re.match(r'std::vector<(.*)>$', t)
        if m:
            et = ELEM_ALIAS.get(m.group(1).strip())
            if et is None:
                return ('other', t)
            return ('vec', SCALAR_W[et])
        if t == 'std::string':
            return ('vec', 1)
        if t == 'std::u16string':
            return ('vec', 2)
        return ('other', t)

    ENUM_W = None

    def enum_width(self, nm):
        if Model.ENUM_W is None:
            Model.ENUM_W = {}
            # enum Name : uintN_t  in headers
            for fn in os.listdir(SRC):
                if fn.endswith('.h'):
                    txt = open(os.path.join(SRC, fn)).read()
                    for m in re.finditer(r'enum\s+(?:class\s+)?(\w+)\s*:\s*(\w+)\s*\{', txt):
                        w = SCALAR_W.get(ELEM_ALIAS.get(m.group(2), ''), None)
                        cls = fn[:-2]
                        Model.ENUM_W[(cls, m.group(1))] = w
                        Model.ENUM_W.setdefault(('', m.group(1)), w)
        parts = nm.split('::')
        if len(parts) == 2 and (parts[0], parts[1]) in Model.ENUM_W:
            return Model.ENUM_W[(parts[0], parts[1])]
        return Model.ENUM_W.get(('', parts[-1]))

    def flat_fields(self, cls, prefix=''):
        """flattened (path, kind, hasInit, initnode, ownerclass) in layout order: bases first"""
        out = []
        c = self.classes.get(cls)
        if c is None:
            raise Unsupported('unknown class ' + cls)
        for b in c['bases']:
            if b in ('AbstractFile',):
                continue
            out += self.flat_fields(b, prefix)
        for f in c['fields']:
            k = self.field_kind(f)
            if k[0] == 'sub':
                out += self.flat_fields(k[1], prefix + f['name'] + '.')
            else:
                out.append({'path': prefix + f['name'], 'kind': k, 'hasInit': f['hasInit'], 'init': f['init'], 'owner': cls, 'dtype': f['dtype']})
        return out

    def find_method(self, cls, name):
        """resolve name starting at cls, walking up the bases; -> (owner, method)"""
        c = self.classes.get(cls)
        if c is None:
            return None
        if name in c['methods']:
            return (cls, c['methods'][name])
        for b in c['bases']:
            r = self.find_method(b, name)
            if r:
                return r
        return None

    def is_derived(self, cls, base):
        if cls == base:
            return True
        c = self.classes.get(cls)
        return bool(c) and any(self.is_derived(b, base) for b in c['bases'])


def strip(n):
    while n.get('kind') in ('ParenExpr', 'ExprWithCleanups', 'MaterializeTemporaryExpr', 'CXXBindTemporaryExpr') or \
            (n.get('kind') in CAST_KINDS and n.get('castKind') in ('NoOp', 'LValueToRValue', 'BitCast', 'ConstructorConversion')):
        n = n['inner'][0]
    return n


class Ctx:
    def __init__(self, model, final, cls, prefix, stream, env=None, filetext=None):
        self.m = model
        self.final = final      # most derived class of the object whose method runs (virtual dispatch)
        self.cls = cls          # class whose method body is being translated
        self.prefix = prefix    # field path prefix (sub-objects)
        self.stream = stream    # name of the AbstractFile& parameter
        self.env = env if env is not None else {}
        self.depth = 0

    def sub(self, **kw):
        c = Ctx(self.m, self.final, self.cls, self.prefix, self.stream, dict(self.env))
        c.depth = self.depth + 1
        for k, v in kw.items():
            setattr(c, k, v)
        if c.depth > 12:
            raise Unsupported('inlining too deep')
        return c


def type_w(n):
    t = qual(n['type']).replace('const ', '').strip()
    if t in SCALAR_W:
        return SCALAR_W[t], (t in SIGNED)
    if t.startswith('Vector::BLF::') or t.startswith('enum '):
        return 4, False   # only compared / cast explicitly; width re-established by the enclosing IntegralCast
    if t == 'std::streamsize' or t == 'std::size_t' or t == 'size_t':
        return 8, t == 'std::streamsize'
    raise Unsupported('type ' + t)


def member_path(n, ctx):
    """MemberExpr chain rooted at `this` -> dotted path (with ctx.prefix)"""
    n = strip_derived(n)
    if n.get('kind') == 'MemberExpr':
        base = strip_derived(n['inner'][0])
        if base.get('kind') == 'CXXThisExpr':
            return ctx.prefix + n['name']
        return member_path(base, ctx) + '.' + n['name']
    raise Unsupported('member path over ' + str(n.get('kind')))


def strip_derived(n):
    while True:
        n = strip(n)
        if n.get('kind') in CAST_KINDS and n.get('castKind') in ('UncheckedDerivedToBase', 'DerivedToBase'):
            n = n['inner'][0]
            continue
        return n


def is_this(n):
    return strip_derived(n).get('kind') == 'CXXThisExpr'


def callee_info(call):
    """-> (method name, object expr node, qualified_base or None)"""
    callee = strip(call['inner'][0])
    if callee.get('kind') != 'MemberExpr':
        raise Unsupported('callee ' + str(callee.get('kind')))
    obj = callee['inner'][0]
    qualbase = None
    o = strip(obj)
    if o.get('kind') in CAST_KINDS and o.get('castKind') in ('UncheckedDerivedToBase', 'DerivedToBase'):
        qualbase = strip_ns(qual(o['type'])).replace(' *', '').replace('*', '').strip()
    return callee['name'], obj, qualbase


def field_info(ctx, path):
    for f in ctx.m.flat_fields(ctx.final_root):
        if f['path'] == path:
            return f
    raise Unsupported('unknown field ' + path)


# ---------------------------------------------------------------------- expressions
def num(e):
    """coerce IR value to numeric Expr"""
    if e[0] in ('lt', 'le', 'eq', 'ne', 'and', 'or', 'not', 'nz', 'btrue', 'bfalse'):
        return ('ite', e, ('const', 1), ('const', 0))
    return e


def boo(e):
    if e[0] in ('lt', 'le', 'eq', 'ne', 'and', 'or', 'not', 'nz', 'btrue', 'bfalse'):
        return e
    return ('nz', e)


def sizeof_type(ctx, tnode_type):
    t = tnode_type.replace('const ', '').strip()
    t = ELEM_ALIAS.get(t, t)
    if t in SCALAR_W:
        return SCALAR_W[t]
    m = re.match(r'std::array<(.*), (\d+)>$', t)
    if m:
        et = ELEM_ALIAS.get(m.group(1).strip())
        if et:
            return SCALAR_W[et] * int(m.group(2))
    nm = strip_ns(t.replace('enum ', ''))
    w = ctx.m.enum_width(nm)
    if w:
        return w
    raise Unsupported('sizeof(' + t + ')')


def expr(n, ctx):
    k = n.get('kind')
    if k in ('ParenExpr', 'ExprWithCleanups', 'ConstantExpr'):
        return expr(n['inner'][0], ctx)
    if k in CAST_KINDS:
        ck = n.get('castKind')
        inner = n['inner'][0]
        if ck in ('NoOp', 'LValueToRValue'):
            return expr(inner, ctx)
        if ck == 'IntegralCast':
            v = num(expr(inner, ctx))
            wt, st = type_w(n)
            try:
                ws, ss = type_w(inner)
            except Unsupported:
                ws, ss = 8, False
            if ss and wt > ws and v[0] != 'const':
                raise Unsupported('sign extension')
            if v[0] == 'const':
                return ('const', v[1] % (256 ** wt))
            if wt < ws:
                return ('cast', wt, v)
            return v
        if ck == 'IntegralToBoolean':
            return boo(expr(inner, ctx))
        raise Unsupported('cast ' + str(ck))
    if k == 'IntegerLiteral':
        return ('const', int(n['value']))
    if k == 'CXXBoolLiteralExpr':
        return ('btrue',) if n.get('value') else ('bfalse',)
    if k == 'UnaryExprOrTypeTraitExpr':
        if n.get('name') != 'sizeof':
            raise Unsupported('trait ' + str(n.get('name')))
        if 'argType' in n:
            return ('const', sizeof_type(ctx, qual(n['argType'])))
        a = strip(n['inner'][0])
        t = n['inner'][0]['type']
        try:
            return ('const', sizeof_type(ctx, qual(t)))
        except Unsupported:
            return ('const', sizeof_type(ctx, t.get('qualType')))
    if k == 'MemberExpr':
        p = member_path(n, ctx)
        return ('fld', p)
    if k == 'DeclRefExpr':
        rd = n.get('referencedDecl', {})
        nm = rd.get('name')
        if rd.get('kind') == 'EnumConstantDecl':
            # enumerator: look up by (class, name) along the hierarchy, then globally
            for c in [ctx.cls, ctx.final] + list(ctx.m.classes.keys()):
                if (c, nm) in ctx.m.enumconst and ctx.m.enumconst[(c, nm)] is not None:
                    return ('const', ctx.m.enumconst[(c, nm)])
            raise Unsupported('enumerator ' + str(nm))
        if nm in ctx.env:
            return ctx.env[nm]
        raise Unsupported('declref ' + str(nm))
    if k == 'BinaryOperator':
        op = n['opcode']
        a = expr(n['inner'][0], ctx)
        b = expr(n['inner'][1], ctx)
        if op in ('&&', '||'):
            return ('and' if op == '&&' else 'or', boo(a), boo(b))
        if op in ('<', '>', '<=', '>=', '==', '!='):
            for side in n['inner']:
                w, s = type_w(side) if qual(side['type']) in SCALAR_W else (4, False)
                if s and num(expr(side, ctx))[0] != 'const':
                    # signed comparison of a non-literal: only allowed when provably non-negative (int-promoted small unsigned)
                    if not promoted_unsigned(side):
                        raise Unsupported('signed comparison')
            a, b = num(a), num(b)
            return {'<': ('lt', a, b), '>': ('lt', b, a), '<=': ('le', a, b), '>=': ('le', b, a),
                    '==': ('eq', a, b), '!=': ('ne', a, b)}[op]
        a, b = num(a), num(b)
        w, s = type_w(n)
        if op == '+':
            return ('add', a, b)
        if op == '*':
            return ('mul', a, b)
        if op == '-':
            if s and not (promoted_unsigned(n['inner'][0]) and promoted_unsigned(n['inner'][1])):
                raise Unsupported('signed subtraction')
            return ('sub', w, a, b)
        if op == '/':
            return ('div', a, b)
        if op == '%':
            return ('mod', a, b)
        if op == '&':
            return ('band', a, b)
        if op == '|':
            return ('bor', a, b)
        raise Unsupported('binop ' + op)
    if k == 'UnaryOperator':
        op = n['opcode']
        if op == '~':
            w, s = type_w(n)
            return ('bnot', w, num(expr(n['inner'][0], ctx)))
        if op == '!':
            return ('not', boo(expr(n['inner'][0], ctx)))
        raise Unsupported('unop ' + op)
    if k == 'ConditionalOperator':
        c = boo(expr(n['inner'][0], ctx))
        return ('ite', c, num(expr(n['inner'][1], ctx)), num(expr(n['inner'][2], ctx)))
    if k == 'CXXMemberCallExpr':
        name, obj, qualbase = callee_info(n)
        args = n['inner'][1:]
        if name == 'size' and not args:
            return ('bsize', member_path(obj, ctx))
        if is_this(obj) and not args:
            return call_value(ctx, name, qualbase, n)
        o = strip_derived(obj)
        if o.get('kind') == 'MemberExpr' and not args:
            # value method of a sub-object
            p = member_path(o, ctx)
            sub = strip_ns(qual(o['type']))
            r = ctx.m.find_method(sub, name)
            if not r:
                raise Unsupported('method ' + sub + '::' + name)
            return fun_value(ctx.sub(final=sub, cls=r[0], prefix=p + '.', env={}), r[1])
        raise Unsupported('call ' + name)
    if k == 'CallExpr':
        # static member function call, e.g. RestorePoint::calculateObjectSize()
        callee = strip(n['inner'][0])
        if callee.get('kind') in CAST_KINDS:
            callee = strip(callee['inner'][0])
        raise Unsupported('free call')
    raise Unsupported('expr ' + str(k))


def promoted_unsigned(n):
    """n has type int because a narrower unsigned operand was promoted"""
    s = n
    while s.get('kind') == 'ParenExpr':
        s = s['inner'][0]
    if s.get('kind') in CAST_KINDS and s.get('castKind') == 'IntegralCast':
        inner = s['inner'][0]
        t = qual(inner['type'])
        return t in SCALAR_W and t not in SIGNED and SCALAR_W[t] < 4 or t == 'bool'
    if s.get('kind') == 'IntegerLiteral':
        return True
    return False


def is_qualified_call(ctx, call):
    """does the callee's source text contain '::' (non-virtual call)?"""
    callee = strip(call['inner'][0])
    r = callee.get('range')
    if not r:
        return False
    b, e = r['begin'], r['end']
    if 'offset' not in b or 'offset' not in e:
        return False
    fn = ctx.m.classes[ctx.cls]['file']
    path = os.path.join(SRC, fn + '.cpp')
    txt = ctx.m.srccache.get(path)
    if txt is None:
        txt = open(path, 'rb').read()
        ctx.m.srccache[path] = txt
    seg = txt[b['offset']: e['offset'] + e.get('tokLen', 0)]
    return b'::' in seg


def resolve(ctx, name, qualbase, call):
    if is_qualified_call(ctx, call):
        start = qualbase or ctx.cls
        r = ctx.m.find_method(start, name)
    else:
        r = ctx.m.find_method(ctx.final, name)   # virtual dispatch on the most derived class
    if not r:
        raise Unsupported('cannot resolve ' + name)
    return r


def call_value(ctx, name, qualbase, call):
    owner, meth = resolve(ctx, name, qualbase, call)
    return fun_value(ctx.sub(cls=owner, env={}), meth)


def ret_width(meth):
    rt = meth['type'].split('(')[0].strip()
    if rt == 'bool':
        return 'bool'
    a = ELEM_ALIAS.get(rt)
    if a:
        return SCALAR_W[a]
    raise Unsupported('return type ' + rt)


def fun_value(ctx, meth):
    """symbolic value of a value-returning const method"""
    rw = ret_width(meth)
    v = fun_body(ctx, meth['body'].get('inner', []))
    if v is None:
        raise Unsupported('no return')
    if rw == 'bool':
        return boo(v)
    return ('cast', rw, num(v))


def fun_body(ctx, stmts):
    for i, st in enumerate(stmts):
        k = st.get('kind')
        if k == 'ReturnStmt':
            return expr(st['inner'][0], ctx)
        if k == 'DeclStmt':
            for v in st['inner']:
                if v.get('kind') != 'VarDecl':
                    raise Unsupported('decl ' + str(v.get('kind')))
                init = [x for x in v.get('inner', []) if x.get('kind') != 'FullComment']
                lt = ' '.join(x for x in qual(v['type']).split() if x not in ('const', 'volatile'))    # `const uint32_t n = ...`
                lt = ELEM_ALIAS.get(lt, lt)
                w, s = SCALAR_W.get(lt), False
                if w is None or lt in SIGNED:
                    raise Unsupported('local type ' + qual(v['type']))
                ctx.env[v['name']] = ('cast', w, num(expr(init[0], ctx))) if init else ('const', 0)
                ctx.env['#w_' + v['name']] = w
            continue
        if k == 'CompoundAssignOperator' and st['opcode'] == '+=':
            lhs = strip(st['inner'][0])
            if lhs.get('kind') != 'DeclRefExpr' or lhs['referencedDecl']['name'] not in ctx.env:
                raise Unsupported('+= target')
            nm = lhs['referencedDecl']['name']
            ctx.env[nm] = ('cast', ctx.env['#w_' + nm], ('add', ctx.env[nm], num(expr(st['inner'][1], ctx))))
            continue
        if k == 'IfStmt':
            parts = [x for x in st['inner']]
            c = boo(expr(parts[0], ctx))
            th = parts[1]['inner'] if parts[1].get('kind') == 'CompoundStmt' else [parts[1]]
            el = []
            if len(parts) > 2:
                el = parts[2]['inner'] if parts[2].get('kind') == 'CompoundStmt' else [parts[2]]
            rest = stmts[i + 1:]
            c1 = ctx.sub(); c1.depth = ctx.depth
            v1 = fun_body(c1, list(th) + list(rest))
            c2 = ctx.sub(); c2.depth = ctx.depth
            v2 = fun_body(c2, list(el) + list(rest))
            if v1 is None or v2 is None:
                raise Unsupported('path without return')
            return ('ite', c, num(v1), num(v2)) if not (is_b(v1) and is_b(v2)) else ('or', ('and', c, v1), ('and', ('not', c), v2))
        if k == 'CompoundStmt':
            return fun_body(ctx, list(st.get('inner', [])) + list(stmts[i + 1:]))
        raise Unsupported('stmt in value method: ' + str(k))
    return None


def is_b(e):
    return e[0] in ('lt', 'le', 'eq', 'ne', 'and', 'or', 'not', 'nz', 'btrue', 'bfalse')


# ---------------------------------------------------------------------- statements
def const_of(e):
    if e[0] == 'const':
        return e[1]
    if e[0] == 'cast' and e[2][0] == 'const':
        return e[2][1] % (256 ** e[1])
    return None


def stream_of(meth):
    ps = meth.get('params', [])
    if len(ps) != 1:
        raise Unsupported('params')
    return ps[0]['name']


def expr_paths(e, acc=None):
    """member paths an expression reads (fields and container sizes)"""
    acc = set() if acc is None else acc
    if isinstance(e, tuple):
        if e and e[0] in ('fld', 'bsize'):
            acc.add(e[1])
        else:
            for x in e[1:]:
                expr_paths(x, acc)
    return acc


def stmt_writes(sts, acc=None):
    """member paths a translated statement list may modify"""
    acc = set() if acc is None else acc
    for st in sts:
        if st[0] in ('rd', 'rdBuf', 'resize', 'assign'):
            acc.add(st[1])
        elif st[0] == 'if':
            stmt_writes(st[2], acc); stmt_writes(st[3], acc)
        elif st[0] == 'sync':
            acc.add('signature')
    return acc


def proc_body(ctx, stmts):
    out = []
    locals_here = []       # (name, paths its initialiser reads, index into out where it was declared)
    for st in stmts:
        if st.get('kind') == 'DeclStmt':
            # `const T n = <expr>;` in a read()/write() body: the local is substituted by its initialiser.  That is the same
            # program only if nothing the initialiser reads is modified while the local is in use - checked below, over the rest
            # of the block (coarse: until the end of the block, not until the last use)
            for v in st['inner']:
                if v.get('kind') != 'VarDecl':
                    raise Unsupported('decl ' + str(v.get('kind')))
                init = [x for x in v.get('inner', []) if x.get('kind') != 'FullComment']
                lt = ' '.join(x for x in qual(v['type']).split() if x not in ('const', 'volatile'))
                lt = ELEM_ALIAS.get(lt, lt)
                w = SCALAR_W.get(lt)
                if w is None or lt in ('double', 'float', 'bool') or not init:
                    raise Unsupported('local in procedure: type ' + qual(v['type']))
                e0 = num(expr(init[0], ctx))
                st_ = ' '.join(x for x in qual(init[0]['type']).split() if x not in ('const', 'volatile'))
                st_ = ELEM_ALIAS.get(st_, st_)
                ws = SCALAR_W.get(st_)
                if lt in SIGNED:
                    # a signed local (std::streamsize): the same value as long as the initialiser is a non-negative quantity below 2^63 -
                    # accepted for 64-bit locals whose initialiser has no subtraction / complement
                    def has_neg(x):
                        return isinstance(x, tuple) and (x[0] in ('sub', 'bnot', 'neg') or any(has_neg(y) for y in x[1:]))
                    if w != 8 or has_neg(e0):
                        raise Unsupported('local in procedure: signed type ' + qual(v['type']))
                e = e0 if (ws is not None and ws <= w and st_ not in SIGNED) or lt in SIGNED else ('cast', w, e0)
                ctx.env[v['name']] = e
                locals_here.append((v['name'], expr_paths(e), len(out)))
            continue
        out += stmt(ctx, st)
    for nm, paths, k in locals_here:
        wr = stmt_writes(out[k:])
        if any(p_ == q or p_.startswith(q + '.') or q.startswith(p_ + '.') for p_ in paths for q in wr):
            raise Unsupported('local %s: its initialiser reads a member that the rest of the block modifies' % nm)
        ctx.env.pop(nm, None)
    return out


def stmt(ctx, st):
    k = st.get('kind')
    if k == 'CompoundStmt':
        return proc_body(ctx, st.get('inner', []))
    if k == 'ExprWithCleanups':
        return stmt(ctx, st['inner'][0])
    if k == 'ReturnStmt':
        if st.get('inner'):
            raise Unsupported('return value in procedure')
        return [('ret',)]
    if k == 'IfStmt':
        parts = st['inner']
        c = boo(expr(parts[0], ctx))
        th = stmt(ctx, parts[1])
        el = stmt(ctx, parts[2]) if len(parts) > 2 else []
        return [('if', c, th, el)]
    if k == 'BinaryOperator' and st.get('opcode') == '=':
        lhs = strip(st['inner'][0])
        if lhs.get('kind') != 'MemberExpr':
            raise Unsupported('assign target')
        p = member_path(lhs, ctx)
        rhs = expr(st['inner'][1], ctx)
        return [('assign', p, num(rhs))]
    if k == 'CXXMemberCallExpr':
        name, obj, qualbase = callee_info(st)
        args = st['inner'][1:]
        o = strip_derived(obj)
        if o.get('kind') == 'DeclRefExpr' and o['referencedDecl']['name'] == ctx.stream:
            return stream_call(ctx, name, args)
        if o.get('kind') == 'CXXThisExpr' and name in ('read', 'write'):
            owner, meth = resolve(ctx, name, qualbase, st)
            if owner == 'ObjectHeaderBase' and name == 'read':
                return ohb_read(ctx, meth)
            c = ctx.sub(cls=owner, stream=stream_of(meth), env={})
            return proc_body(c, meth['body'].get('inner', []))
        if o.get('kind') == 'MemberExpr':
            p = member_path(o, ctx)
            if name == 'resize':
                return [('resize', p, num(expr(args[0], ctx)))]
            if name in ('read', 'write'):
                sub = strip_ns(qual(o['type']))
                r = ctx.m.find_method(sub, name)
                if not r:
                    raise Unsupported('sub method')
                c = ctx.sub(final=sub, cls=r[0], prefix=p + '.', stream=stream_of(r[1]), env={})
                return proc_body(c, r[1]['body'].get('inner', []))
        raise Unsupported('call stmt ' + name)
    raise Unsupported('stmt ' + str(k))


def stream_call(ctx, name, args):
    if name in ('read', 'write'):
        a0 = strip(args[0])
        cnt = num(expr(args[1], ctx))
        if a0.get('kind') == 'UnaryOperator' and a0.get('opcode') == '&':
            p = member_path(a0['inner'][0], ctx)
            c = const_of(cnt)
            if c is None:
                raise Unsupported('scalar count not constant')
            return [('rd' if name == 'read' else 'wr', p, c)]
        if a0.get('kind') == 'CXXMemberCallExpr':
            nm, obj, _ = callee_info(a0)
            if nm == 'data':
                p = member_path(obj, ctx)
                return [('rdBuf' if name == 'read' else 'wrBuf', p, cnt)]
        raise Unsupported('stream ' + name + ' destination ' + str(a0.get('kind')))
    if name == 'seekg':
        return [('seekg', num(expr(args[0], ctx)))]
    if name == 'skipp':
        return [('skipp', num(expr(args[0], ctx)))]
    raise Unsupported('stream call ' + name)


OHB_READ_SHAPE = None


def shape(n, loc=None):
    """structure-only rendering of an AST subtree (kinds, opcodes, names, literal values), insensitive to what cannot change the
    meaning: redundant parentheses, braces around a single statement, comments, the names of local variables (numbered in order of
    appearance), explicit `this->`"""
    loc = {} if loc is None else loc
    k = n.get('kind')
    inner = [c for c in n.get('inner', []) if c.get('kind') not in ('FullComment', 'ParagraphComment', 'TextComment')]
    if k == 'ParenExpr' and len(inner) == 1:
        return shape(inner[0], loc)
    if k == 'CompoundStmt' and len(inner) == 1:
        return shape(inner[0], loc)
    s = k
    for key in ('opcode', 'name', 'value', 'castKind'):
        if key in n:
            v = n[key]
            if key == 'name' and k == 'VarDecl':
                v = loc.setdefault(n.get('id'), 'v%d' % len(loc))
            s += ':' + str(v)
    if 'referencedDecl' in n:
        rd = n['referencedDecl']
        s += '@' + str(loc.get(rd.get('id'), rd.get('name')) if rd.get('kind') == 'VarDecl' else rd.get('name'))
    ch = [shape(c, loc) for c in inner]
    return s + ('(' + ','.join(ch) + ')' if ch else '')


def ohb_read(ctx, meth):
    """ObjectHeaderBase::read: the signature search is hand-modelled (`sync`); its AST shape is pinned by a hash.
    The search is whatever precedes the longest suffix of the body that translates (the reads of the other header
    fields); if it is not the recorded [DeclStmt, WhileStmt] the hash differs, the obligation on it fails, and the
    correspondence runs compare the hand model with the changed code."""
    body = meth['body'].get('inner', [])
    import hashlib
    c = ctx.sub(cls='ObjectHeaderBase', stream=stream_of(meth), env={})
    k0 = None
    for k in range(len(body) + 1):
        try:
            rest = proc_body(c, body[k:])
            k0 = k
            break
        except Unsupported:
            continue
    if k0 is None or k0 == 0:
        raise Unsupported('ObjectHeaderBase::read shape')
    loc = {}
    h = hashlib.sha256(''.join(shape(b, loc) for b in body[:k0]).encode()).hexdigest()
    ctx.m.ohb_loop_hash = h
    return [('sync',)] + rest


# ---------------------------------------------------------------------- simplifier (constant folding only)
def simp(e):
    if not isinstance(e, tuple):
        return e
    k = e[0]
    if k in ('const', 'fld', 'bsize', 'btrue', 'bfalse'):
        return e
    a = tuple(simp(x) if isinstance(x, tuple) else x for x in e[1:])
    e = (k,) + a
    def c(x):
        return x[1] if isinstance(x, tuple) and x[0] == 'const' else None
    if k == 'add':
        x, y = a
        if c(x) is not None and c(y) is not None:
            return ('const', c(x) + c(y))
        # (x' + const) + const  -> x' + const
        if c(y) is not None and x[0] == 'add' and c(x[2]) is not None:
            return ('add', x[1], ('const', c(x[2]) + c(y)))
        if c(y) == 0:
            return x
        if c(x) == 0:
            return y
    if k == 'mul':
        x, y = a
        if c(x) is not None and c(y) is not None:
            return ('const', c(x) * c(y))
        if c(y) == 1:
            return x
        if c(x) == 1:
            return y
    if k == 'cast':
        w, x = a
        if c(x) is not None:
            return ('const', c(x) % (256 ** w))
        if x[0] == 'cast' and x[1] <= w:
            return x
        if x[0] == 'cast' and x[1] > w:
            return ('cast', w, x[2])
    if k == 'bor' and c(a[0]) is not None and c(a[1]) is not None:
        return ('const', c(a[0]) | c(a[1]))
    if k == 'band' and c(a[0]) is not None and c(a[1]) is not None:
        return ('const', c(a[0]) & c(a[1]))
    if k == 'bnot' and c(a[1]) is not None:
        return ('const', (256 ** a[0] - 1) ^ (c(a[1]) % 256 ** a[0]))
    if k == 'sub' and c(a[1]) is not None and c(a[2]) is not None:
        return ('const', (c(a[1]) - c(a[2])) % (256 ** a[0]))
    return e


def simp_stmt(s):
    k = s[0]
    if k == 'if':
        return ('if', simp(s[1]), [simp_stmt(x) for x in s[2]], [simp_stmt(x) for x in s[3]])
    return tuple(simp(x) if isinstance(x, tuple) else x for x in s)


def pp(e):
    if not isinstance(e, tuple):
        return str(e)
    k = e[0]
    if k == 'const': return str(e[1])
    if k == 'fld': return e[1]
    if k == 'bsize': return e[1] + '.size()'
    if k in ('add', 'mul', 'div', 'mod', 'band', 'bor', 'lt', 'le', 'eq', 'ne', 'and', 'or'):
        op = {'add': '+', 'mul': '*', 'div': '/', 'mod': '%', 'band': '&', 'bor': '|', 'lt': '<', 'le': '<=', 'eq': '==', 'ne': '!=', 'and': '&&', 'or': '||'}[k]
        return '(' + pp(e[1]) + ' ' + op + ' ' + pp(e[2]) + ')'
    if k == 'sub': return '(' + pp(e[2]) + ' -' + str(e[1]) + ' ' + pp(e[3]) + ')'
    if k == 'cast': return 'u' + str(8 * e[1]) + '(' + pp(e[2]) + ')'
    if k == 'bnot': return '~' + str(e[1]) + pp(e[2])
    if k == 'ite': return '(' + pp(e[1]) + ' ? ' + pp(e[2]) + ' : ' + pp(e[3]) + ')'
    if k == 'not': return '!' + pp(e[1])
    if k == 'nz': return 'nz(' + pp(e[1]) + ')'
    return str(e)


def pps(s, ind=''):
    k = s[0]
    if k == 'if':
        out = [ind + 'if ' + pp(s[1])]
        for x in s[2]: out += pps(x, ind + '  ')
        if s[3]:
            out.append(ind + 'else')
            for x in s[3]: out += pps(x, ind + '  ')
        return out
    return [ind + k + ' ' + ' '.join(pp(x) for x in s[1:])]
