"""The monitor tables of ObjectQueue<T> and UncompressedFile, from the clang AST (tie T for the hand models
Blf.Queue / Blf.UFile / Blf.Pipe): for every method with a body

  waits    : [(condition variable, hash of the shape of the wait predicate)]
  notifies : [(condition variable, 'always' | 'conditional')]   in source order; a notification is 'always' when no
             if / loop / switch / conditional operator / return lies between it and the function body and no return
             statement precedes it
  locks    : the kind of lock taken first (lock_guard / unique_lock / none)

Anything else that touches a condition variable raises Unsupported."""
import hashlib, json
import astload


class Unsupported(Exception):
    pass


BRANCHING = {'IfStmt', 'WhileStmt', 'ForStmt', 'DoStmt', 'SwitchStmt', 'ConditionalOperator', 'CXXForRangeStmt', 'CXXTryStmt', 'CXXCatchStmt'}


def shape(n):
    """canonical structure of an expression / statement: kinds, operators, referenced names, literals"""
    k = n.get('kind')
    if k in ('ImplicitCastExpr', 'ParenExpr', 'ExprWithCleanups', 'MaterializeTemporaryExpr', 'CXXBindTemporaryExpr', 'ConstantExpr'):
        inner = n.get('inner', [])
        if len(inner) == 1:
            return shape(inner[0])
    item = [k]
    for key in ('opcode', 'name', 'value', 'isArrow', 'castKind'):
        if key in n and key != 'castKind':
            item.append('%s=%s' % (key, n[key]))
    if 'referencedDecl' in n:
        item.append('ref=' + str(n['referencedDecl'].get('name')))
    if k in ('CXXStaticCastExpr', 'CStyleCastExpr', 'CXXFunctionalCastExpr'):
        item.append('to=' + n.get('type', {}).get('qualType', ''))
    return [item] + [shape(c) for c in n.get('inner', []) if c.get('kind') not in ('CXXRecordDecl',)]


def member_call(n):
    """-> (member name of the object, method name) for x.m(...) on a data member x of *this, else None"""
    if n.get('kind') != 'CXXMemberCallExpr':
        return None
    inner = n.get('inner', [])
    if not inner or inner[0].get('kind') != 'MemberExpr':
        return None
    m = inner[0]
    base = m.get('inner', [{}])[0]
    while base.get('kind') in ('ImplicitCastExpr', 'ParenExpr') and base.get('inner'):
        base = base['inner'][0]
    if base.get('kind') == 'MemberExpr':
        return (base.get('name'), m.get('name'))
    return None


def lambda_body(n):
    """the CompoundStmt of the first lambda below n"""
    if n.get('kind') == 'LambdaExpr':
        for c in n.get('inner', []):
            if c.get('kind') == 'CompoundStmt':
                return c
        # the body may sit inside the call operator
        for c in n.get('inner', []):
            r = find_compound(c)
            if r is not None:
                return r
    for c in n.get('inner', []):
        r = lambda_body(c)
        if r is not None:
            return r
    return None


def find_compound(n):
    if n.get('kind') == 'CompoundStmt':
        return n
    for c in n.get('inner', []):
        r = find_compound(c)
        if r is not None:
            return r
    return None


def method_table(meth):
    body = None
    for c in meth.get('inner', []):
        if c.get('kind') == 'CompoundStmt':
            body = c
    if body is None:
        return None
    out = {'waits': [], 'notifies': [], 'lock': 'none'}
    seen_return = [False]

    def walk(n, cond, in_lambda):
        k = n.get('kind')
        if k == 'ReturnStmt' and not in_lambda:
            # a return in the middle makes everything behind it conditional
            for c in n.get('inner', []):
                walk(c, cond, in_lambda)
            seen_return[0] = True
            return
        if k == 'VarDecl' and out['lock'] == 'none':
            t = n.get('type', {}).get('qualType', '')
            if 'lock_guard' in t:
                out['lock'] = 'lock_guard'
            elif 'unique_lock' in t:
                out['lock'] = 'unique_lock'
        mc = member_call(n)
        if mc and mc[1] in ('notify_all', 'notify_one', 'wait', 'wait_for', 'wait_until'):
            if in_lambda:
                raise Unsupported('condition variable used inside a lambda')
            if mc[1] == 'notify_all':
                out['notifies'].append([mc[0], 'conditional' if (cond or seen_return[0]) else 'always'])
            elif mc[1] == 'wait':
                lb = lambda_body(n)
                if lb is None:
                    raise Unsupported('wait without a predicate')
                if cond or seen_return[0]:
                    raise Unsupported('conditional wait')
                h = hashlib.sha256(json.dumps(shape(lb), sort_keys=True).encode()).hexdigest()[:16]
                out['waits'].append([mc[0], h])
            else:
                raise Unsupported('%s on a condition variable' % mc[1])
            return
        for c in n.get('inner', []):
            if k == 'IfStmt' or k in BRANCHING:
                walk(c, True, in_lambda)
            elif k == 'LambdaExpr':
                walk(c, cond, True)
            else:
                walk(c, cond, in_lambda)

    walk(body, False, False)
    return out


# ------------------------------------------------------------------------------------------------ wait predicates -> Lean
UFIELDS = {'m_abort': ('bool', 's.abort'), 'm_tellp': ('int', 's.tellp'), 'm_tellg': ('int', 's.tellg'),
           'm_bufferSize': ('int', 's.bufferSize'), 'm_fileSize': ('int', 's.fileSize'), 'm_readDemand': ('int', 's.readDemand'),
           'm_defaultLogContainerSize': ('int', '(s.dlcs : Int)')}
QFIELDS = {'m_abort': ('bool', 's.abort'), 'm_tellp': ('int', '(s.tellp : Int)'), 'm_tellg': ('int', '(s.tellg : Int)'),
           'm_bufferSize': ('int', '(s.bufferSize : Int)'), 'm_fileSize': ('int', '(s.fileSize : Int)')}
UNSIGNED = {'uint32_t': 2 ** 32, 'std::uint32_t': 2 ** 32, 'unsigned int': 2 ** 32, 'uint16_t': 2 ** 16, 'uint8_t': 2 ** 8,
            'uint64_t': 2 ** 64, 'unsigned long': 2 ** 64, 'size_t': 2 ** 64, 'std::size_t': 2 ** 64}
SIGNED64 = {'std::streamoff', 'std::streamsize', 'long', 'int64_t', 'std::int64_t', 'std::streampos'}
CMP = {'<': '<', '<=': '≤', '>': '>', '>=': '≥', '==': '=', '!=': '≠'}


def guard_expr(sh, fields, params):
    """shape (see `shape`) of an expression -> ('bool' | 'int', Lean text).  Integers are mathematical integers: the
    model leaves 64-bit overflow outside; a cast to an unsigned type is a reduction modulo 2^width."""
    head, kids = sh[0], sh[1:]
    kind = head[0]
    at = dict(a.split('=', 1) for a in head[1:] if '=' in a)
    if kind == 'BinaryOperator':
        op = at.get('opcode')
        ta, a = guard_expr(kids[0], fields, params)
        tb, b = guard_expr(kids[1], fields, params)
        if op in ('||', '&&') and ta == tb == 'bool':
            return 'bool', '(%s %s %s)' % (a, op, b)
        if op in CMP and ta == tb == 'int':
            return 'bool', 'decide (%s %s %s)' % (a, CMP[op], b)
        if op in ('+', '-') and ta == tb == 'int':
            return 'int', '(%s %s %s)' % (a, op, b)
        raise Unsupported('binary operator %s on %s, %s in a wait predicate' % (op, ta, tb))
    if kind == 'UnaryOperator' and at.get('opcode') == '!':
        ta, a = guard_expr(kids[0], fields, params)
        if ta == 'bool':
            return 'bool', '(!%s)' % a
        raise Unsupported('! on a non-boolean in a wait predicate')
    if kind == 'MemberExpr' and kids and kids[0][0][0] == 'CXXThisExpr':
        nm = at.get('name')
        if nm in fields:
            return fields[nm]
        raise Unsupported('member %s in a wait predicate' % nm)
    if kind == 'CXXMemberCallExpr' and kids and kids[0][0][0] == 'MemberExpr':
        m = kids[0]
        mat = dict(a.split('=', 1) for a in m[0][1:] if '=' in a)
        nm = mat.get('name', '')
        base = m[1] if len(m) > 1 else None
        if nm.startswith('operator ') and nm[len('operator '):] in SIGNED64 | {'long'} and len(kids) == 1:
            return guard_expr(base, fields, params)            # std::fpos -> std::streamoff: the same number
        if base is not None and base[0][0] == 'MemberExpr' and 'name=m_queue' in base[0] and len(kids) == 1:
            if nm == 'empty':
                return 'bool', 's.queue.isEmpty'
            if nm == 'size':
                return 'int', '(s.queue.length : Int)'
        raise Unsupported('call of %s in a wait predicate' % nm)
    if kind == 'CXXOperatorCallExpr' and len(kids) == 3 and kids[0][0][0] == 'DeclRefExpr':
        op = [a for a in kids[0][0] if a.startswith('ref=')][0][4:]
        ta, a = guard_expr(kids[1], fields, params)
        tb, b = guard_expr(kids[2], fields, params)
        if op in ('operator-', 'operator+') and ta == tb == 'int':
            return 'int', '(%s %s %s)' % (a, op[-1], b)
        if op[len('operator'):] in CMP and ta == tb == 'int':
            return 'bool', 'decide (%s %s %s)' % (a, CMP[op[len('operator'):]], b)
        raise Unsupported('%s in a wait predicate' % op)
    if kind in ('CXXStaticCastExpr', 'CStyleCastExpr', 'CXXFunctionalCastExpr') and len(kids) == 1:
        to = at.get('to', '')
        ta, a = guard_expr(kids[0], fields, params)
        if ta == 'int' and to in UNSIGNED:
            return 'int', '(%s %% %d)' % (a, UNSIGNED[to])
        if ta == 'int' and to in SIGNED64:
            return 'int', a
        raise Unsupported('cast to %s in a wait predicate' % to)
    if kind == 'DeclRefExpr':
        nm = at.get('ref')
        if nm and nm.isidentifier():
            params.add(nm)
            return 'int', nm
    if kind == 'IntegerLiteral' and 'value' in at:
        return 'int', '(%s : Int)' % at['value']
    if kind == 'CXXBoolLiteralExpr' and 'value' in at:
        return 'bool', 'true' if at['value'] in ('True', 'true') else 'false'
    raise Unsupported('%s in a wait predicate' % kind)


def guards(astdir):
    """-> [(lean name, state type, sorted parameter names, Lean text)] for every wait predicate of the two monitors"""
    out = []
    for cls, pre, fields, stt in (('ObjectQueue', 'queue', QFIELDS, 'Blf.Queue.State'), ('UncompressedFile', 'ufile', UFIELDS, 'Blf.UFile.State')):
        ds = astload.docs('%s/%s.json' % (astdir, cls))
        spec = [d for d in ds if d.get('kind') == 'ClassTemplateSpecializationDecl']
        inst = [c for d in spec for c in d.get('inner', []) if c.get('kind') == 'CXXMethodDecl'
                and any(x.get('kind') == 'CompoundStmt' for x in c.get('inner', []))]
        meths = inst or [d for d in ds if d.get('kind') == 'CXXMethodDecl']
        count = {}
        for d in meths:
            if not any(x.get('kind') == 'CompoundStmt' for x in d.get('inner', [])):
                continue
            nm = d['name']
            key = nm if nm not in count else '%s%d' % (nm, count[nm])
            count[nm] = count.get(nm, 0) + 1
            found = []

            def walk(n):
                mc = member_call(n)
                if mc and mc[1] == 'wait':
                    found.append(lambda_body(n))
                    return
                for c in n.get('inner', []):
                    walk(c)
            walk(d)
            for lb in found:
                if lb is None:
                    raise Unsupported('wait without a predicate in %s::%s' % (cls, nm))
                sh = shape(lb)
                # CompoundStmt [ ReturnStmt [ expr ] ]
                if not (len(sh) == 2 and sh[1][0][0] == 'ReturnStmt' and len(sh[1]) == 2):
                    raise Unsupported('wait predicate of %s::%s is not a single return statement' % (cls, nm))
                params = set()
                t, txt = guard_expr(sh[1][1], fields, params)
                if t != 'bool':
                    raise Unsupported('wait predicate of %s::%s is not boolean' % (cls, nm))
                out.append(('%sGuard_%s' % (pre, key), stt, sorted(params), txt))
    return out


def lean_guards_text(gs):
    t = 'import Blf.UFile\nimport Blf.Queue\n/-! generated from the clang AST: the predicates of the `wait` calls of the two monitors, over the state of the hand models\n    (integers are mathematical integers; a cast to an unsigned type is a reduction modulo 2^width) -/\nnamespace Blf.Gen\n\n'
    for nm, stt, ps, txt in gs:
        t += 'def %s (s : %s)%s : Bool :=\n  %s\n\n' % (nm, stt, ''.join(' (%s : Int)' % p for p in ps), txt)
    return t + 'end Blf.Gen\n'


def tables(astdir):
    """-> {class: {method(#k for overloads): table}}"""
    res = {}
    for cls in ('ObjectQueue', 'UncompressedFile'):
        ds = astload.docs('%s/%s.json' % (astdir, cls))
        meths = []
        spec = [d for d in ds if d.get('kind') == 'ClassTemplateSpecializationDecl']
        inst = [c for d in spec for c in d.get('inner', []) if c.get('kind') == 'CXXMethodDecl'
                and any(x.get('kind') == 'CompoundStmt' for x in c.get('inner', []))]
        if inst:
            meths = inst            # the explicit instantiation: calls are resolved there
        else:
            meths = [d for d in ds if d.get('kind') == 'CXXMethodDecl']
        t = {}
        count = {}
        for d in meths:
            mt = method_table(d)
            if mt is None:
                continue
            nm = d['name']
            key = nm if nm not in count else '%s#%d' % (nm, count[nm])
            count[nm] = count.get(nm, 0) + 1
            mt['signature'] = d.get('type', {}).get('qualType', '')
            t[key] = mt
        res[cls] = t
    return res


def lean_text(tabs):
    def cvs(l):
        out = []
        for cv, how in l:
            nm = cv if how == 'always' else '?' + cv
            if nm not in out:
                out.append(nm)
        return '[' + ', '.join('"%s"' % x for x in out) + ']'
    t = '/-! generated from the clang AST: which condition variables each method of the two monitors notifies (unconditionally;\n'
    t += '    a conditional notification is marked with `?`) and waits on -/\nnamespace Blf.Gen\n\n'
    for cls, nm in (('ObjectQueue', 'queue'), ('UncompressedFile', 'ufile')):
        tb = tabs.get(cls, {})
        t += 'def %sNotifies : List (String × List String) := [' % nm + ', '.join('("%s", %s)' % (m, cvs(tb[m]['notifies'])) for m in sorted(tb)) + ']\n\n'
        t += 'def %sWaits : List (String × List String) := [' % nm + ', '.join('("%s", [%s])' % (m, ', '.join('"%s"' % w[0] for w in tb[m]['waits'])) for m in sorted(tb)) + ']\n\n'
    t += 'end Blf.Gen\n'
    return t


if __name__ == '__main__':
    import sys
    tb = tables(sys.argv[1])
    print(json.dumps(tb, indent=1))
    print(lean_text(tb))
