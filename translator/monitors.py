"""The monitor tables of ObjectQueue<T> and UncompressedFile, from the clang AST (tie T for the hand models
Blf.Queue / Blf.UFile / Blf.Pipe): for every method with a body

  waits    : [(condition variable, hash of the shape of the wait predicate)]
  notifies : [(condition variable, 'always' | 'conditional')]   in source order; a notification is 'always' when no
             if / loop / switch / conditional operator / return lies between it and the function body and no return
             statement precedes it
  locks    : the kind of lock taken first (lock_guard / unique_lock / none)

Anything else that touches a condition variable raises Unsupported."""
import hashlib, json
import astload


class Unsupported(Exception):
    pass


BRANCHING = {'IfStmt', 'WhileStmt', 'ForStmt', 'DoStmt', 'SwitchStmt', 'ConditionalOperator', 'CXXForRangeStmt', 'CXXTryStmt', 'CXXCatchStmt'}


def shape(n):
    """canonical structure of an expression / statement: kinds, operators, referenced names, literals"""
    k = n.get('kind')
    if k in ('ImplicitCastExpr', 'ParenExpr', 'ExprWithCleanups', 'MaterializeTemporaryExpr', 'CXXBindTemporaryExpr', 'ConstantExpr'):
        inner = n.get('inner', [])
        if len(inner) == 1:
            return shape(inner[0])
    item = [k]
    for key in ('opcode', 'name', 'value', 'isArrow', 'castKind'):
        if key in n and key != 'castKind':
            item.append('%s=%s' % (key, n[key]))
    if 'referencedDecl' in n:
        item.append('ref=' + str(n['referencedDecl'].get('name')))
    if k in ('CXXStaticCastExpr', 'CStyleCastExpr', 'CXXFunctionalCastExpr'):
        item.append('to=' + n.get('type', {}).get('qualType', ''))
    return [item] + [shape(c) for c in n.get('inner', []) if c.get('kind') not in ('CXXRecordDecl',)]


def member_call(n):
    """-> (member name of the object, method name) for x.m(...) on a data member x of *this, else None"""
    if n.get('kind') != 'CXXMemberCallExpr':
        return None
    inner = n.get('inner', [])
    if not inner or inner[0].get('kind') != 'MemberExpr':
        return None
    m = inner[0]
    base = m.get('inner', [{}])[0]
    while base.get('kind') in ('ImplicitCastExpr', 'ParenExpr') and base.get('inner'):
        base = base['inner'][0]
    if base.get('kind') == 'MemberExpr':
        return (base.get('name'), m.get('name'))
    return None


def lambda_body(n):
    """the CompoundStmt of the first lambda below n"""
    if n.get('kind') == 'LambdaExpr':
        for c in n.get('inner', []):
            if c.get('kind') == 'CompoundStmt':
                return c
        # the body may sit inside the call operator
        for c in n.get('inner', []):
            r = find_compound(c)
            if r is not None:
                return r
    for c in n.get('inner', []):
        r = lambda_body(c)
        if r is not None:
            return r
    return None


def find_compound(n):
    if n.get('kind') == 'CompoundStmt':
        return n
    for c in n.get('inner', []):
        r = find_compound(c)
        if r is not None:
            return r
    return None


def method_table(meth):
    body = None
    for c in meth.get('inner', []):
        if c.get('kind') == 'CompoundStmt':
            body = c
    if body is None:
        return None
    out = {'waits': [], 'notifies': [], 'lock': 'none'}
    seen_return = [False]

    def walk(n, cond, in_lambda):
        k = n.get('kind')
        if k == 'ReturnStmt' and not in_lambda:
            # a return in the middle makes everything behind it conditional
            for c in n.get('inner', []):
                walk(c, cond, in_lambda)
            seen_return[0] = True
            return
        if k == 'VarDecl' and out['lock'] == 'none':
            t = n.get('type', {}).get('qualType', '')
            if 'lock_guard' in t:
                out['lock'] = 'lock_guard'
            elif 'unique_lock' in t:
                out['lock'] = 'unique_lock'
        mc = member_call(n)
        if mc and mc[1] in ('notify_all', 'notify_one', 'wait', 'wait_for', 'wait_until'):
            if in_lambda:
                raise Unsupported('condition variable used inside a lambda')
            if mc[1] == 'notify_all':
                out['notifies'].append([mc[0], 'conditional' if (cond or seen_return[0]) else 'always'])
            elif mc[1] == 'wait':
                lb = lambda_body(n)
                if lb is None:
                    raise Unsupported('wait without a predicate')
                if cond or seen_return[0]:
                    raise Unsupported('conditional wait')
                h = hashlib.sha256(json.dumps(shape(lb), sort_keys=True).encode()).hexdigest()[:16]
                out['waits'].append([mc[0], h])
            else:
                raise Unsupported('%s on a condition variable' % mc[1])
            return
        for c in n.get('inner', []):
            if k == 'IfStmt' or k in BRANCHING:
                walk(c, True, in_lambda)
            elif k == 'LambdaExpr':
                walk(c, cond, True)
            else:
                walk(c, cond, in_lambda)

    walk(body, False, False)
    return out


def tables(astdir):
    """-> {class: {method(#k for overloads): table}}"""
    res = {}
    for cls in ('ObjectQueue', 'UncompressedFile'):
        ds = astload.docs('%s/%s.json' % (astdir, cls))
        meths = []
        spec = [d for d in ds if d.get('kind') == 'ClassTemplateSpecializationDecl']
        inst = [c for d in spec for c in d.get('inner', []) if c.get('kind') == 'CXXMethodDecl'
                and any(x.get('kind') == 'CompoundStmt' for x in c.get('inner', []))]
        if inst:
            meths = inst            # the explicit instantiation: calls are resolved there
        else:
            meths = [d for d in ds if d.get('kind') == 'CXXMethodDecl']
        t = {}
        count = {}
        for d in meths:
            mt = method_table(d)
            if mt is None:
                continue
            nm = d['name']
            key = nm if nm not in count else '%s#%d' % (nm, count[nm])
            count[nm] = count.get(nm, 0) + 1
            mt['signature'] = d.get('type', {}).get('qualType', '')
            t[key] = mt
        res[cls] = t
    return res


def lean_text(tabs):
    def cvs(l):
        out = []
        for cv, how in l:
            nm = cv if how == 'always' else '?' + cv
            if nm not in out:
                out.append(nm)
        return '[' + ', '.join('"%s"' % x for x in out) + ']'
    t = '/-! generated from the clang AST: which condition variables each method of the two monitors notifies (unconditionally;\n'
    t += '    a conditional notification is marked with `?`) and waits on -/\nnamespace Blf.Gen\n\n'
    for cls, nm in (('ObjectQueue', 'queue'), ('UncompressedFile', 'ufile')):
        tb = tabs.get(cls, {})
        t += 'def %sNotifies : List (String × List String) := [' % nm + ', '.join('("%s", %s)' % (m, cvs(tb[m]['notifies'])) for m in sorted(tb)) + ']\n\n'
        t += 'def %sWaits : List (String × List String) := [' % nm + ', '.join('("%s", [%s])' % (m, ', '.join('"%s"' % w[0] for w in tb[m]['waits'])) for m in sorted(tb)) + ']\n\n'
    t += 'end Blf.Gen\n'
    return t


if __name__ == '__main__':
    import sys
    tb = tables(sys.argv[1])
    print(json.dumps(tb, indent=1))
    print(lean_text(tb))
