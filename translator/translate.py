#!/usr/bin/env python3
"""Regenerate the Lean model data (Blf/Gen/*.lean), the C++ reflection used by the harness and a JSON
summary from the *current working tree* of /repo.  Fail-closed: whatever the grammar does not cover is
emitted as `untranslated` and reported; nothing is skipped silently.

usage: translate.py --ast <scratch ast dir> --lean <Blf/Gen dir> --cpp <harness gen dir> --json <summary.json>
"""
import sys, os, json, argparse, hashlib
sys.path.insert(0, os.path.dirname(os.path.abspath(__file__)))
import astload
from astload import docs
from extract import *

HEADER_CLASSES = ('ObjectHeaderBase', 'ObjectHeader', 'ObjectHeader2', 'VarObjectHeader')
NON_OBJECT = {'File', 'UncompressedFile', 'CompressedFile', 'ObjectQueue', 'AbstractFile', 'Exceptions',
              'FileStatistics'}


# ---------------------------------------------------------------------------------- constants / ctor evaluation
class Consts:
    def __init__(self, model, astdir):
        self.m = model
        self.astdir = astdir
        self.named = {}
        self.load_named()

    def load_named(self):
        cpp = os.path.join(astload.SRC, 'File.cpp')
        for nm in ('ObjectSignature', 'ObjectType', 'FileSignature'):
            for d in astload.dump_named(self.astdir, cpp, nm):
                if d.get('kind') == 'VarDecl' and d.get('name') == nm:
                    v = self.int_of(d.get('inner', [{}])[0], {})
                    if v is not None:
                        self.named[nm] = v
                if d.get('kind') == 'EnumDecl' and d.get('name') == nm:
                    self.m._enum('', d)
                    self.objecttype = [(e['name'], self.m._const_of(e)) for e in d.get('inner', [])
                                       if e.get('kind') == 'EnumConstantDecl']

    def int_of(self, n, env):
        k = n.get('kind')
        if k is None:
            return None
        if k == 'IntegerLiteral':
            return int(n['value'])
        if k == 'CXXBoolLiteralExpr':
            return 1 if n.get('value') else 0
        if k == 'ConstantExpr' and 'value' in n:
            return int(n['value'])
        if k in CAST_KINDS or k in ('ParenExpr', 'ConstantExpr', 'ExprWithCleanups'):
            v = self.int_of(n['inner'][0], env)
            if v is None:
                return None
            t = qual(n['type']).replace('const ', '')
            if t in SCALAR_W:
                return v % (256 ** SCALAR_W[t])
            return v
        if k == 'ImplicitValueInitExpr':
            return 0
        if k == 'InitListExpr':
            inner = n.get('inner', [])
            if not inner:
                return 0
            if len(inner) == 1:
                return self.int_of(inner[0], env)
            return None
        if k == 'DeclRefExpr':
            rd = n.get('referencedDecl', {})
            nm = rd.get('name')
            if rd.get('kind') == 'ParmVarDecl':
                return env.get(nm)
            if rd.get('kind') == 'EnumConstantDecl':
                cands = set(v for (c, e), v in self.m.enumconst.items() if e == nm and v is not None)
                # disambiguate through the enum's type name when several enums share an enumerator name
                tn = strip_ns(qual(n['type']).replace('enum ', '')).split('::')
                for key in ((tn[-1], nm), (tn[0], nm)):
                    if key in self.m.enumconst and self.m.enumconst[key] is not None:
                        return self.m.enumconst[key]
                if len(cands) == 1:
                    return cands.pop()
                return None
            if nm in self.named:
                return self.named[nm]
            return None
        if k == 'CXXDefaultArgExpr':
            return env.get('#default')
        return None

    def ctor_defaults(self, cls, args=None, out=None, prefix=''):
        """evaluate the constructor of cls called with args (list of ints) -> {path: value or None}"""
        if out is None:
            out = {}
        c = self.m.classes.get(cls)
        if c is None:
            return out
        ctors = c.get('ctors', [])
        nargs = len(args) if args is not None else 0
        cand = [x for x in ctors if x['nparams'] >= nargs]
        cand.sort(key=lambda x: x['nparams'])
        # in-class initialisers first
        for f in c['fields']:
            k = self.m.field_kind(f)
            if k[0] == 'sub':
                self.ctor_defaults(k[1], [], out, prefix + f['name'] + '.')
            elif k[0] == 'num':
                if f['hasInit']:
                    out[prefix + f['name']] = self.int_of(f['init'], {}) if f['init'] is not None else 0
                else:
                    out.setdefault(prefix + f['name'], 'INDET')
            else:
                out.setdefault(prefix + f['name'], 'INDET' if not f['hasInit'] and k[0] != 'vec' and k[0] != 'other' else 0)
        if not cand:
            # implicit default constructor: bases default-constructed
            for b in c['bases']:
                self.ctor_defaults(b, [], out, prefix)
            return out
        node = cand[0]['node']
        params = [x for x in node.get('inner', []) if x.get('kind') == 'ParmVarDecl']
        env = {}
        for i, p in enumerate(params):
            if args is not None and i < len(args):
                env[p['name']] = args[i]
            else:
                d = [x for x in p.get('inner', []) if x.get('kind') != 'FullComment']
                env[p['name']] = self.int_of(d[0], {}) if d else None
        seen_bases = set()
        for ini in node.get('inner', []):
            if ini.get('kind') != 'CXXCtorInitializer':
                continue
            val = ini['inner'][0] if ini.get('inner') else None
            if 'baseInit' in ini:
                b = strip_ns(ini['baseInit']['qualType'])
                seen_bases.add(b)
                a = []
                if val is not None and val.get('kind') == 'CXXConstructExpr':
                    for x in val.get('inner', []):
                        if x.get('kind') == 'CXXDefaultArgExpr':
                            break
                        a.append(self.int_of(x, env))
                self.ctor_defaults(b, a, out, prefix)
            elif 'anyInit' in ini:
                nm = ini['anyInit']['name']
                if val is not None and val.get('kind') != 'CXXDefaultInitExpr':
                    v = self.int_of(val, env)
                    if v is not None or val.get('kind') not in ('CXXConstructExpr',):
                        if (prefix + nm) in out and not isinstance(out[prefix + nm], str) or True:
                            if val.get('kind') != 'CXXConstructExpr':
                                out[prefix + nm] = v
        body = [x for x in node.get('inner', []) if x.get('kind') == 'CompoundStmt']
        if body and body[0].get('inner'):
            out['#ctor_body_nonempty:' + cls] = True
        return out


# ---------------------------------------------------------------------------------- factory
def extract_factory(model, consts):
    c = model.classes.get('File')
    meth = c['methods'].get('createObject') if c else None
    if not meth:
        raise Unsupported('File::createObject not found')
    table = {}
    sw = [x for x in meth['body']['inner'] if x.get('kind') == 'SwitchStmt']
    if len(sw) != 1:
        raise Unsupported('createObject shape')
    body = [x for x in sw[0]['inner'] if x.get('kind') == 'CompoundStmt'][0]
    labels = []

    def label_value(cs):
        ce = cs['inner'][0]
        v = consts.int_of(ce, {})
        if v is None:
            raise Unsupported('case label')
        return v

    def handle(st):
        nonlocal labels
        k = st.get('kind')
        if k == 'CaseStmt':
            labels.append(label_value(st))
            handle(st['inner'][-1])
        elif k == 'DefaultStmt':
            labels.append('default')
            handle(st['inner'][-1])
        elif k == 'BreakStmt':
            labels = []
        elif k == 'BinaryOperator' and st.get('opcode') == '=':
            rhs = strip(st['inner'][1])
            while rhs.get('kind') in CAST_KINDS:
                rhs = strip(rhs['inner'][0])
            if rhs.get('kind') != 'CXXNewExpr':
                raise Unsupported('createObject assignment')
            t = strip_ns(qual(rhs['type'])).replace(' *', '').strip()
            for l in labels:
                if l in table:
                    raise Unsupported('duplicate case')
                table[l] = t
        elif k in ('NullStmt',):
            pass
        else:
            raise Unsupported('createObject stmt ' + str(k))
    for st in body.get('inner', []):
        handle(st)
    # the statements around the switch must be: declaration `obj = nullptr`, the switch, `return obj`
    kinds = [x.get('kind') for x in meth['body']['inner']]
    if kinds != ['DeclStmt', 'SwitchStmt', 'ReturnStmt']:
        raise Unsupported('createObject frame ' + str(kinds))
    return table


# ---------------------------------------------------------------------------------- per class
def build_class(model, consts, cls, allow_unmodelled=False):
    c = model.classes[cls]
    ff = [f for f in model.flat_fields(cls)]
    fields = []
    for f in ff:
        if f['kind'][0] == 'other':
            continue
        fields.append(f)
    fid = {f['path']: i for i, f in enumerate(fields)}
    kinds = {f['path']: f['kind'] for f in fields}

    def fix(e):
        """resolve field paths to ids; fold std::array sizes"""
        if not isinstance(e, tuple):
            return e
        k = e[0]
        if k == 'fld':
            if e[1] not in fid:
                raise Unsupported('reference to non-serialisable member ' + e[1])
            if kinds[e[1]][0] != 'num':
                raise Unsupported('numeric use of container ' + e[1])
            return ('fld', fid[e[1]])
        if k == 'bsize':
            if e[1] not in fid:
                raise Unsupported('reference to non-serialisable member ' + e[1])
            kd = kinds[e[1]]
            if kd[0] == 'arr':
                return ('const', kd[1] // kd[2])
            if kd[0] == 'vec':
                return ('bsize', fid[e[1]], kd[1])
            raise Unsupported('size() of scalar')
        return (k,) + tuple(fix(x) if isinstance(x, tuple) else x for x in e[1:])

    def fixs(s):
        k = s[0]
        if k == 'if':
            return ('if', simp(fix(s[1])), [fixs(x) for x in s[2]], [fixs(x) for x in s[3]])
        if k == 'sync':
            return ('sync', fid['signature'])
        if k == 'ret':
            return s
        if k in ('rd', 'wr'):
            p = s[1]
            if p not in fid:
                raise Unsupported('reference to non-serialisable member ' + p)
            kd = kinds[p]
            if kd[0] == 'num':
                return (k, fid[p], s[2])
            if kd[0] == 'arr':   # &array : whole-array transfer
                return ('rdBuf' if k == 'rd' else 'wrBuf', fid[p], ('const', s[2]))
            raise Unsupported('address of container ' + p)
        if k in ('rdBuf', 'wrBuf'):
            if s[1] not in fid or kinds[s[1]][0] == 'num':
                raise Unsupported('data() of ' + s[1])
            return (k, fid[s[1]], simp(fix(s[2])))
        if k == 'resize':
            if s[1] not in fid or kinds[s[1]][0] != 'vec':
                raise Unsupported('resize of ' + s[1])
            return ('resize', fid[s[1]], kinds[s[1]][1], simp(fix(s[2])))
        if k in ('seekg', 'skipp'):
            return (k, simp(fix(s[1])))
        if k == 'assign':
            if s[1] not in fid or kinds[s[1]][0] != 'num':
                raise Unsupported('assignment to ' + s[1])
            w = kinds[s[1]][1]
            e = simp(fix(s[2]))
            return ('assign', fid[s[1]], e)
        raise Unsupported('stmt ' + k)

    rm = c['methods']['read']
    wm = c['methods']['write']
    unmodelled = None
    try:
        if cls == 'ObjectHeaderBase':
            r = [fixs(x) for x in ohb_read(Ctx(model, cls, cls, '', stream_of(rm)), rm)]
        else:
            r = [fixs(x) for x in proc_body(Ctx(model, cls, cls, '', stream_of(rm)), rm['body'].get('inner', []))]
        w = [fixs(x) for x in proc_body(Ctx(model, cls, cls, '', stream_of(wm)), wm['body'].get('inner', []))]
        sz = model.find_method(cls, 'calculateObjectSize')
        hs = model.find_method(cls, 'calculateHeaderSize')
        size = simp(fix(fun_value(Ctx(model, cls, sz[0], '', None), sz[1])))
        hsize = simp(fix(fun_value(Ctx(model, cls, hs[0], '', None), hs[1])))
    except Unsupported as e:
        # the bodies are outside the grammar: no model of this class, but the harness can still create, fill and dump it,
        # so that the implementation-only oracles keep searching for a failing input
        if not allow_unmodelled:
            raise
        unmodelled = str(e)
        r, w, size, hsize = [], [], ('const', 0), ('const', 0)
    def eflds(e, acc):
        if isinstance(e, tuple):
            if e[0] in ('fld', 'bsize'):
                acc.add(e[1])
            for x in e[1:]:
                eflds(x, acc)

    def sflds(ss, acc):
        for st in ss:
            if st[0] == 'if':
                eflds(st[1], acc); sflds(st[2], acc); sflds(st[3], acc)
            elif st[0] in ('rdBuf', 'wrBuf', 'seekg', 'skipp'):
                eflds(st[-1], acc)
            elif st[0] == 'resize':
                eflds(st[3], acc)
    shape = set()
    sflds(r, shape)
    sflds(w, shape)
    dfl = consts.ctor_defaults(cls, [])
    finfo = []
    for f in fields:
        d = dfl.get(f['path'], 0)
        indet = (d == 'INDET')
        known = (d is not None) and not indet
        finfo.append({'name': f['path'], 'kind': list(f['kind']), 'hasInit': not indet,
                      'dflt': d if known else 0, 'dfltKnown': known or indet, 'owner': f['owner'],
                      'isBool': f.get('dtype') == 'bool'})
    ctor_type = dfl.get('objectType')
    notes = [k for k in dfl if k.startswith('#')]
    return {'name': cls, 'fields': finfo, 'read': r, 'write': w, 'size': size, 'hsize': hsize,
            'ctorType': ctor_type, 'notes': notes, 'shapeFields': sorted(shape), 'unmodelled': unmodelled}


def layout_hint(ci):
    """try to read the item list off the read program; None if outside the regular fragment"""
    fields = ci['fields']
    r = ci['read']
    if not r or r[0][0] != 'sync':
        return None
    items = []
    i = 1
    while i < len(r):
        s = r[i]
        k = s[0]
        if k == 'rd':
            items.append(('scalar', s[1], s[2]))
        elif k == 'rdBuf' and s[2][0] == 'const' and fields[s[1]]['kind'][0] == 'arr':
            items.append(('fixed', s[1], s[2][1]))
        elif k == 'resize' and i + 1 < len(r) and r[i + 1][0] == 'rdBuf' and r[i + 1][1] == s[1] and s[3][0] == 'fld':
            items.append(('var', s[1], s[2], s[3][1]))
            i += 1
        elif k == 'seekg' and s[1][0] == 'mod' and s[1][1][0] == 'fld' and s[1][2][0] == 'const':
            items.append(('pad', s[1][1][1], s[1][2][1]))
        elif k == 'seekg' and s[1][0] == 'const':
            items.append(('skipK', s[1][1]))
        else:
            return None
        i += 1
    names = {f['name']: j for j, f in enumerate(fields)}
    # write-side pre-processing: leading assignments minus the final headerSize/objectSize pair
    w = ci['write']
    na = 0
    while na < len(w) and w[na][0] == 'assign':
        na += 1
    if na < 2 or w[na - 2][1] != names['headerSize'] or w[na - 1][1] != names['objectSize']:
        return None
    pre = [(s[1], s[2]) for s in w[:na - 2]]
    nhdr = len([f for f in fields if f['owner'] in HEADER_CLASSES]) - 1
    return {'sigF': names['signature'], 'hsF': names['headerSize'], 'osF': names['objectSize'], 'nHdr': nhdr,
            'items': items, 'pre': pre}


# ---------------------------------------------------------------------------------- Lean emission
def L_expr(e):
    k = e[0]
    if k == 'const': return '(.const %d)' % e[1]
    if k == 'fld': return '(.fld %d)' % e[1]
    if k == 'bsize': return '(.bsize %d %d)' % (e[1], e[2])
    if k in ('add', 'mul', 'div', 'mod', 'band', 'bor', 'lt', 'le', 'eq', 'ne', 'and', 'or'):
        return '(.%s %s %s)' % (k, L_expr(e[1]), L_expr(e[2]))
    if k == 'sub': return '(.sub %d %s %s)' % (e[1], L_expr(e[2]), L_expr(e[3]))
    if k == 'cast': return '(.cast %d %s)' % (e[1], L_expr(e[2]))
    if k == 'bnot': return '(.bnot %d %s)' % (e[1], L_expr(e[2]))
    if k == 'ite': return '(.ite %s %s %s)' % (L_expr(e[1]), L_expr(e[2]), L_expr(e[3]))
    if k == 'not': return '(.not %s)' % L_expr(e[1])
    if k == 'nz': return '(.ne %s (.const 0))' % L_expr(e[1])
    if k == 'btrue': return '(.const 1)'
    if k == 'bfalse': return '(.const 0)'
    raise Unsupported('emit expr ' + k)


def L_stmt(s):
    k = s[0]
    if k == 'sync': return '.sync %d' % s[1]
    if k == 'rd': return '.rd %d %d' % (s[1], s[2])
    if k == 'wr': return '.wr %d %d' % (s[1], s[2])
    if k == 'rdBuf': return '.rdBuf %d %s' % (s[1], L_expr(s[2]))
    if k == 'wrBuf': return '.wrBuf %d %s' % (s[1], L_expr(s[2]))
    if k == 'resize': return '.resize %d %d %s' % (s[1], s[2], L_expr(s[3]))
    if k == 'seekg': return '.seekg %s' % L_expr(s[1])
    if k == 'skipp': return '.skipp %s' % L_expr(s[1])
    if k == 'assign': return '.assign %d %s' % (s[1], L_expr(s[2]))
    if k == 'ret': return '.ret'
    if k == 'if': return '.ite %s (%s) (%s)' % (L_expr(s[1]), L_block(s[2]), L_block(s[3]))
    raise Unsupported('emit stmt ' + k)


def L_block(ss):
    return 'Stmt.block [' + ', '.join(L_stmt(s) for s in ss) + ']'


def L_kind(k):
    if k[0] == 'num': return '.num %d' % k[1]
    if k[0] == 'arr': return '.arr %d %d' % (k[1], k[2])
    if k[0] == 'vec': return '.vec %d' % k[1]
    raise Unsupported('kind')


def L_item(it):
    return '.' + it[0] + ' ' + ' '.join(str(x) for x in it[1:])


def lean_class(ci, lay):
    n = ci['name']
    out = []
    out.append('def %s : Codec where' % n)
    out.append('  name := "%s"' % n)
    out.append('  fields := [' + ',\n    '.join(
        '{ name := "%s", kind := %s, hasInit := %s, dflt := %d }' % (f['name'], L_kind(f['kind']), 'true' if f['hasInit'] else 'false', f['dflt'])
        for f in ci['fields']) + ']')
    out.append('  readProg := ' + L_block(ci['read']))
    out.append('  writeProg := ' + L_block(ci['write']))
    out.append('  sizeExpr := ' + L_expr(ci['size']))
    out.append('  hdrSizeExpr := ' + L_expr(ci['hsize']))
    out.append('  ctorType := %d' % (ci['ctorType'] if isinstance(ci['ctorType'], int) else 4294967295))
    out.append('')
    if lay:
        out.append('def %s_layout : Layout where' % n)
        out.append('  sigF := %d' % lay['sigF'])
        out.append('  hsF := %d' % lay['hsF'])
        out.append('  osF := %d' % lay['osF'])
        out.append('  nHdr := %d' % lay['nHdr'])
        out.append('  items := [' + ', '.join(L_item(i) for i in lay['items']) + ']')
        out.append('  pre := [' + ', '.join('(%d, %s)' % (g, L_expr(e)) for g, e in lay['pre']) + ']')
        out.append('')
    return '\n'.join(out)


# ---------------------------------------------------------------------------------- C++ reflection
def cpp_reflect(classes, chunk):
    o = []
    o.append('// generated by translator/translate.py -- do not edit')
    o.append('#include <Vector/BLF.h>\n#include <cstring>\n#include <string>\n#include <vector>\n#include <cstdint>')
    o.append('#include "reflect.h"')
    o.append('using namespace Vector::BLF;')
    for ci in classes:
        n = ci['name']
        o.append('static void set_%s(ObjectHeaderBase* b, int f, const uint8_t* p, size_t n) { %s& o = *static_cast<%s*>(b); (void)o; switch (f) {' % (n, n, n))
        for i, f in enumerate(ci['fields']):
            k = f['kind']
            if k[0] == 'num':
                o.append('  case %d: { std::memcpy(reinterpret_cast<char*>(&o.%s), p, n < sizeof(o.%s) ? n : sizeof(o.%s)); break; }' % (i, f['name'], f['name'], f['name']))
            elif k[0] == 'arr':
                o.append('  case %d: { std::memcpy(reinterpret_cast<char*>(o.%s.data()), p, n < %d ? n : %d); break; }' % (i, f['name'], k[1], k[1]))
            else:
                o.append('  case %d: { o.%s.resize(n / %d); if (n) std::memcpy(reinterpret_cast<char*>(&o.%s[0]), p, n / %d * %d); break; }' % (i, f['name'], k[1], f['name'], k[1], k[1]))
        o.append('  default: break; } }')
        o.append('static void get_%s(ObjectHeaderBase* b, int f, std::vector<uint8_t>& out) { %s& o = *static_cast<%s*>(b); (void)o; switch (f) {' % (n, n, n))
        for i, f in enumerate(ci['fields']):
            k = f['kind']
            if k[0] == 'num':
                o.append('  case %d: { out.resize(sizeof(o.%s)); std::memcpy(out.data(), reinterpret_cast<const char*>(&o.%s), sizeof(o.%s)); break; }' % (i, f['name'], f['name'], f['name']))
            elif k[0] == 'arr':
                o.append('  case %d: { out.resize(%d); std::memcpy(out.data(), reinterpret_cast<const char*>(o.%s.data()), %d); break; }' % (i, k[1], f['name'], k[1]))
            else:
                o.append('  case %d: { out.resize(o.%s.size() * %d); if (!out.empty()) std::memcpy(out.data(), reinterpret_cast<const char*>(&o.%s[0]), out.size()); break; }' % (i, f['name'], k[1], f['name']))
        o.append('  default: out.clear(); break; } }')
        o.append('static ObjectHeaderBase* make_%s() { return new %s; }' % (n, n))
        o.append('static ObjectHeaderBase* make_in_%s(void* mem) { return new (mem) %s; }' % (n, n))
        o.append('static void destroy_%s(ObjectHeaderBase* b) { static_cast<%s*>(b)->~%s(); }' % (n, n, n))
        o.append('static const char* const kinds_%s = "%s";' % (n, ''.join({'num': 'n', 'arr': 'a', 'vec': 'v'}[f['kind'][0]] for f in ci['fields'])))
        o.append('static const int widths_%s[] = {%s};' % (n, ','.join(str(f['kind'][1]) for f in ci['fields']) or '0'))
    o.append('extern const ClassReflect g_classes_%d[];' % chunk)
    o.append('const ClassReflect g_classes_%d[] = {' % chunk)
    for ci in classes:
        n = ci['name']
        o.append('  {"%s", %d, set_%s, get_%s, make_%s, make_in_%s, destroy_%s, sizeof(%s), kinds_%s, widths_%s},' % (n, len(ci['fields']), n, n, n, n, n, n, n, n))
    o.append('  {nullptr, 0, nullptr, nullptr, nullptr, nullptr, nullptr, 0, nullptr, nullptr}')
    o.append('};')
    o.append('extern const int g_nclasses_%d;' % chunk)
    o.append('const int g_nclasses_%d = %d;' % (chunk, len(classes)))
    # static asserts pin widths the translator computed
    o.append('// widths / extents the translator computed, confirmed by the compiler')
    for ci in classes:
        n = ci['name']
        for f in ci['fields']:
            k = f['kind']
            if '.' in f['name']:
                continue
            if k[0] == 'num':
                o.append('static_assert(sizeof(%s::%s) == %d, "%s.%s width");' % (n, f['name'], k[1], n, f['name']))
            elif k[0] == 'arr':
                o.append('static_assert(sizeof(%s::%s) == %d, "%s.%s extent");' % (n, f['name'], k[1], n, f['name']))
    return '\n'.join(o) + '\n'


# ---------------------------------------------------------------------------------- main
def main():
    ap = argparse.ArgumentParser()
    ap.add_argument('--ast', required=True)
    ap.add_argument('--lean', required=True)
    ap.add_argument('--cpp', required=True)
    ap.add_argument('--json', required=True)
    a = ap.parse_args()
    names, errs = astload.dump_all(a.ast)
    if errs:
        for cpp, e in errs:
            print('clang failed on', cpp, e, file=sys.stderr)
        sys.exit(2)
    m = Model(a.ast, names)
    consts = Consts(m, a.ast)
    summary = {'classes': [], 'untranslated': {}, 'irregular': [], 'regular': []}
    try:
        factory = extract_factory(m, consts)
    except Unsupported as e:
        factory = None
        summary['untranslated']['File::createObject'] = str(e)
    objcls = [c for c in sorted(m.classes) if c not in NON_OBJECT and m.is_derived(c, 'ObjectHeaderBase')
              and 'read' in m.classes[c]['methods'] and 'write' in m.classes[c]['methods'] and c not in HEADER_CLASSES]
    # classes created by the factory but without own read/write (e.g. aliases) are reported
    built = []
    unmodelled = []
    for cls in objcls:
        try:
            ci = build_class(m, consts, cls, allow_unmodelled=True)
            if ci['unmodelled']:
                summary['untranslated'][cls] = ci['unmodelled']
                unmodelled.append(ci)
                continue
            # every emitter call must succeed, otherwise the class is untranslated
            lay = layout_hint(ci)
            txt = lean_class(ci, lay)
            built.append((ci, lay, txt))
        except Unsupported as e:
            summary['untranslated'][cls] = str(e)
        except KeyError as e:
            summary['untranslated'][cls] = 'KeyError ' + str(e)
    ohb_txt = None
    try:
        oci = build_class(m, consts, 'ObjectHeaderBase')
        ohb_txt = lean_class(oci, None)
    except (Unsupported, KeyError) as e:
        summary['untranslated']['ObjectHeaderBase'] = str(e)
    os.makedirs(a.lean, exist_ok=True)
    os.makedirs(a.cpp, exist_ok=True)
    # --- Lean: chunks of classes
    NCH = 8
    chunks = [[] for _ in range(NCH)]
    for i, b in enumerate(built):
        chunks[i % NCH].append(b)
    for j, ch in enumerate(chunks):
        with open(os.path.join(a.lean, 'C%d.lean' % j), 'w') as f:
            f.write('import Blf.Codec.Regular\n/-! generated from /repo by translator/translate.py -- do not edit -/\nnamespace Blf.Gen\nopen Blf\n\n')
            for ci, lay, txt in ch:
                f.write(txt + '\n')
            f.write('end Blf.Gen\n')
    with open(os.path.join(a.lean, 'All.lean'), 'w') as f:
        for j in range(NCH):
            f.write('import Blf.Gen.C%d\n' % j)
        f.write('/-! generated -/\nnamespace Blf.Gen\nopen Blf\n\n')
        f.write('def allCodecs : List Codec := [' + ', '.join(ci['name'] for ci, _, _ in built) + ']\n\n')
        f.write('def regularLayouts : List (Codec × Layout) := [' + ', '.join('(%s, %s_layout)' % (ci['name'], ci['name']) for ci, lay, _ in built if lay) + ']\n\n')
        f.write('def untranslated : List String := [' + ', '.join('"%s"' % k for k in sorted(summary['untranslated'])) + ']\n\n')
        if factory is not None:
            ent = sorted((k, v) for k, v in factory.items() if k != 'default')
            f.write('def factoryTable : List (Nat × String) := [' + ', '.join('(%d, "%s")' % (k, v) for k, v in ent) + ']\n\n')
        else:
            f.write('def factoryTable : List (Nat × String) := []\n\n')
        ot = getattr(consts, 'objecttype', [])
        f.write('def objectTypeEnum : List (String × Nat) := [' + ', '.join('("%s", %d)' % (k, v) for k, v in ot) + ']\n\n')
        f.write('def ohbLoopHash : String := "%s"\n\n' % getattr(m, 'ohb_loop_hash', ''))
        if ohb_txt:
            f.write(ohb_txt + '\n')
        f.write('end Blf.Gen\n')
    # --- C++
    NR = 8
    allc = [b[0] for b in built] + unmodelled
    for k in range(NR):
        with open(os.path.join(a.cpp, 'gen_reflect_%d.cpp' % k), 'w') as f:
            f.write(cpp_reflect(allc[k::NR], k))
    with open(os.path.join(a.cpp, 'gen_reflect_tab.cpp'), 'w') as f:
        f.write('#include "reflect.h"\n')
        for k in range(NR):
            f.write('extern const ClassReflect g_classes_%d[]; extern const int g_nclasses_%d;\n' % (k, k))
        f.write('const ClassReflect* const g_chunks[] = {' + ', '.join('g_classes_%d' % k for k in range(NR)) + '};\n')
        f.write('const int g_chunk_sizes[] = {' + ', '.join('%d' % len(allc[k::NR]) for k in range(NR)) + '};\n')
        f.write('const int g_nchunks = %d;\n' % NR)
    for idx, (ci, lay, _) in enumerate(built):
        summary['classes'].append({'name': ci['name'], 'chunk': idx % NCH, 'fields': ci['fields'], 'regular_hint': bool(lay),
                                   'ctorType': ci['ctorType'], 'notes': ci['notes'],
                                   'layout': lay, 'shapeFields': ci['shapeFields']})
        (summary['regular'] if lay else summary['irregular']).append(ci['name'])
    for ci in unmodelled:
        summary['classes'].append({'name': ci['name'], 'chunk': 0, 'fields': ci['fields'], 'regular_hint': False, 'ctorType': ci['ctorType'],
                                   'notes': ci['notes'], 'layout': None, 'shapeFields': [], 'modelled': False})
    summary['factory'] = {str(k): v for k, v in (factory or {}).items()}
    summary['objectType'] = getattr(consts, 'objecttype', [])
    summary['ohbLoopHash'] = getattr(m, 'ohb_loop_hash', '')
    # the monitor tables (ObjectQueue, UncompressedFile)
    import monitors
    try:
        tabs = monitors.tables(a.ast)
        summary['monitors'] = tabs
        with open(os.path.join(a.lean, 'Monitors.lean'), 'w') as f:
            f.write(monitors.lean_text(tabs))
    except (monitors.Unsupported, KeyError, IndexError, AttributeError, TypeError, ValueError) as e:
        summary['untranslated']['monitors'] = str(e) or type(e).__name__
        with open(os.path.join(a.lean, 'Monitors.lean'), 'w') as f:
            f.write(monitors.lean_text({}))
    try:
        gs = monitors.guards(a.ast)
        summary['guards'] = [[g[0], g[2], g[3]] for g in gs]
    except (monitors.Unsupported, KeyError, IndexError, AttributeError, TypeError, ValueError) as e:
        summary['untranslated']['guards'] = str(e) or type(e).__name__
        gs = []
    with open(os.path.join(a.lean, 'Guards.lean'), 'w') as f:
        f.write(monitors.lean_guards_text(gs))
    json.dump(summary, open(a.json, 'w'), indent=1)
    print('translated %d classes (%d with regular layout hint, %d irregular), %d untranslated' % (
        len(built), len(summary['regular']), len(summary['irregular']), len(summary['untranslated'])))
    for k, v in summary['untranslated'].items():
        print('  untranslated', k, ':', v)


if __name__ == '__main__':
    main()
