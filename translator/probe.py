import sys, json, collections
sys.path.insert(0,'.')
from astload import *
from extract import *
import glob
names=[os.path.basename(p)[:-5] for p in sorted(glob.glob('/tmp/ast/*.json')) if not os.path.basename(p).startswith('_')]
m=Model('/tmp/ast',names)
SKIP={'File','UncompressedFile','CompressedFile','ObjectQueue','AbstractFile','Exceptions'}
ok={};bad={}
for cls in sorted(m.classes):
    c=m.classes[cls]
    if cls in SKIP or 'read' not in c['methods'] or 'write' not in c['methods']: continue
    try:
        ff=m.flat_fields(cls)
        for f in ff:
            if f['kind'][0]=='other': raise Unsupported('field type '+f['kind'][1])
        rm=c['methods']['read']; wm=c['methods']['write']
        r=proc_body(Ctx(m,cls,cls,'',stream_of(rm)), rm['body'].get('inner',[]))
        w=proc_body(Ctx(m,cls,cls,'',stream_of(wm)), wm['body'].get('inner',[]))
        sz=m.find_method(cls,'calculateObjectSize')
        s=fun_value(Ctx(m,cls,sz[0],'',None), sz[1]) if sz else None
        ok[cls]=(ff,r,w,s)
    except Unsupported as e:
        bad[cls]=str(e)
print(len(ok),'ok',len(bad),'bad')
for k,v in bad.items(): print('  ',k,v)
for a in sys.argv[1:]:
    sys.argv[1]=a
    ff,r,w,s=ok[sys.argv[1]]
    for f in ff: print(f['path'],f['kind'],f['hasInit'])
    for x in r: print('R','\n'.join(pps(simp_stmt(x))))
    for x in w: print('W','\n'.join(pps(simp_stmt(x))))
    print('S',pp(simp(s)))
