#!/usr/bin/env python3
"""Independent walk of the reference logs (struct + zlib only): extracts object images and, per object
type, whether the objects are followed by objectSize%4 padding bytes (observed from where the next
signature is).  Output: JSON {images:[{file,offset,type,size,hex}], pad:{type:{'pad':n,'nopad':n}}}"""
import struct, zlib, sys, glob, os, json

def payload_of(b):
    ssz = struct.unpack_from('<I', b, 4)[0]
    pos = ssz
    out = b''
    while pos + 32 <= len(b):
        s, hs, hv, osz, typ = struct.unpack_from('<IHHII', b, pos)
        if s != 0x4A424F4C or typ != 10:
            break
        meth, r1, r2, us, r3 = struct.unpack_from('<HHIII', b, pos + 16)
        data = b[pos + 32:pos + osz]
        out += data if meth == 0 else zlib.decompress(data)
        pos += osz + osz % 4
    return out

def walk(p):
    """-> list of (offset, type, objectSize, padObserved or None)"""
    res = []
    pos = 0
    n = len(p)
    while pos + 16 <= n:
        if p[pos:pos + 4] != b'LOBJ':
            nxt = p.find(b'LOBJ', pos)
            if nxt < 0:
                break
            pos = nxt
            continue
        hs, hv, osz, typ = struct.unpack_from('<HHII', p, pos + 4)
        if osz < 16 or pos + osz > n:
            break
        pad = None
        if osz % 4 != 0:
            if p[pos + osz:pos + osz + 4] == b'LOBJ':
                pad = False
            elif p[pos + osz + osz % 4:pos + osz + osz % 4 + 4] == b'LOBJ':
                pad = True
            elif pos + osz + osz % 4 == n:
                pad = True
            elif pos + osz == n:
                pad = False
        res.append((pos, typ, osz, pad))
        pos += osz + (osz % 4 if pad else 0)
    return res

def main(root, out):
    images = []
    pad = {}
    files = sorted(glob.glob(os.path.join(root, 'events_from_*', '*.blf')))
    for path in files:
        p = payload_of(open(path, 'rb').read())
        for off, typ, osz, pd in walk(p):
            images.append({'file': os.path.relpath(path, root), 'offset': off, 'type': typ, 'size': osz,
                           'hex': p[off:off + osz + (osz % 4 if pd else 0)].hex(), 'pad': pd})
            if pd is not None:
                d = pad.setdefault(str(typ), {'pad': 0, 'nopad': 0})
                d['pad' if pd else 'nopad'] += 1
    json.dump({'nfiles': len(files), 'images': images, 'pad': pad}, open(out, 'w'))
    return len(files), len(images), pad

if __name__ == '__main__':
    nf, ni, pad = main(sys.argv[1], sys.argv[2])
    print(nf, 'files', ni, 'images')
    print('pad types', sorted(int(k) for k, v in pad.items() if v['pad'] and not v['nopad']))
    print('nopad types', sorted(int(k) for k, v in pad.items() if v['nopad'] and not v['pad']))
    print('mixed', {k: v for k, v in pad.items() if v['pad'] and v['nopad']})
