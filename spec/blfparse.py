"""Independent, strict decoder of the BLF container format (struct + zlib only).  Written from the format
description; shares no code with the library or with the Lean reader model."""
import struct, zlib

class FormatError(Exception):
    pass

def parse_header(b):
    if len(b) < 144:
        raise FormatError('file shorter than the 144-byte statistics header')
    sig, ssz, api, appid, clevel, amaj, amin, fsize, usize, ocount, build = struct.unpack_from('<IIIBBBBQQII', b, 0)
    if sig != 0x47474F4C:
        raise FormatError('bad file signature')
    return {'statisticsSize': ssz, 'apiNumber': api, 'applicationId': appid, 'compressionLevel': clevel,
            'applicationMajor': amaj, 'applicationMinor': amin, 'fileSize': fsize, 'uncompressedFileSize': usize,
            'objectCount': ocount, 'applicationBuild': build, 'measurementStartTime': b[40:56], 'lastObjectTime': b[56:72],
            'restorePointsOffset': struct.unpack_from('<Q', b, 72)[0], 'reserved': b[80:144]}

def zlib_level_class(cmf_flg):
    """FLEVEL bits of the zlib header"""
    return (cmf_flg[1] >> 6) & 3

def parse_file(b):
    """-> (header dict, [container dict]); raises FormatError on anything malformed"""
    hdr = parse_header(b)
    pos = 144
    conts = []
    while pos < len(b):
        if pos + 32 > len(b):
            raise FormatError('truncated container header at %d' % pos)
        sig, hs, hv, osz, typ = struct.unpack_from('<IHHII', b, pos)
        if sig != 0x4A424F4C:
            raise FormatError('bad object signature at %d' % pos)
        if hs != 16 or hv != 1:
            raise FormatError('container header size/version %d/%d at %d' % (hs, hv, pos))
        if typ != 10:
            raise FormatError('object type %d at top level at %d' % (typ, pos))
        meth, r1, r2, usz, r3 = struct.unpack_from('<HHIII', b, pos + 16)
        if osz < 32 or pos + osz > len(b):
            raise FormatError('container size %d at %d exceeds file' % (osz, pos))
        stored = b[pos + 32:pos + osz]
        if meth == 0:
            payload = stored
            flevel = None
        elif meth == 2:
            try:
                d = zlib.decompressobj()
                payload = d.decompress(stored)
                if not d.eof or d.unused_data:
                    raise FormatError('zlib stream incomplete or followed by garbage at %d' % pos)
            except zlib.error as e:
                raise FormatError('zlib error at %d: %s' % (pos, e))
            flevel = zlib_level_class(stored[:2])
        else:
            raise FormatError('compression method %d at %d' % (meth, pos))
        if len(payload) != usz:
            raise FormatError('container at %d inflates to %d bytes, declares %d' % (pos, len(payload), usz))
        pad = osz % 4
        if any(b[pos + osz:pos + osz + pad]):
            raise FormatError('non-zero padding after container at %d' % pos)
        if pos + osz + pad > len(b) and pos + osz != len(b):
            raise FormatError('padding after container at %d runs past the end' % pos)
        conts.append({'offset': pos, 'objectSize': osz, 'method': meth, 'uncompressedSize': usz, 'payload': payload,
                      'flevel': flevel, 'stored': stored, 'reserved': (r1, r2, r3)})
        pos += osz + pad
    return hdr, conts

def walk_objects(payload):
    """strict object walk of an uncompressed stream: (offset, type, objectSize) per object; FormatError otherwise.
    pad_types: set of type codes followed by objectSize%4 filler"""
    raise NotImplementedError

def inflate_oracle(comp, usz):
    """what ::uncompress(dest[usz], &usz, comp) followed by the library's two checks yields: payload or None"""
    try:
        d = zlib.decompressobj()
        out = d.decompress(comp, usz + 1)
        if not d.eof:
            return None
        if len(out) != usz:
            return None
        return out
    except zlib.error:
        return None

def zi_tokens(b):
    """inflate answers for every position of the file that could be parsed as a method-2 container"""
    toks = {}
    p = b.find(b'LOBJ')
    while p >= 0:
        if p + 32 <= len(b):
            osz, typ = struct.unpack_from('<II', b, p + 8)
            meth = struct.unpack_from('<H', b, p + 16)[0]
            usz = struct.unpack_from('<I', b, p + 24)[0]
            if typ == 10 and meth == 2 and osz >= 32 and p + osz <= len(b):
                comp = b[p + 32:p + osz]
                r = inflate_oracle(comp, usz) if usz <= 64 * 1024 * 1024 else None
                toks['zi=%s:%d:%s' % (comp.hex(), usz, r.hex() if r is not None and len(r) else ('!' if r is None else ''))] = 1
        p = b.find(b'LOBJ', p + 1)
    return list(toks)
