// Correspondence harness (tie D), monitor protocols: operation sequences on the real UncompressedFile and
// ObjectQueue<ObjectHeaderBase> of the current working tree.  One sequence per line (see Driver/Main.lean).
#include <Vector/BLF.h>
#include <atomic>
#include <chrono>
#include <cstdio>
#include <cstring>
#include <iostream>
#include <memory>
#include <mutex>
#include <condition_variable>
#include <sstream>
#include <string>
#include <thread>
#include <vector>
#include <unistd.h>
#include <sys/wait.h>
using namespace Vector::BLF;

static int hexv(char c) { if (c >= '0' && c <= '9') return c - '0'; if (c >= 'a' && c <= 'f') return c - 'a' + 10; if (c >= 'A' && c <= 'F') return c - 'A' + 10; return -1; }
static std::vector<uint8_t> unhex(const std::string& s) { std::vector<uint8_t> o; for (size_t i = 0; i + 1 < s.size(); i += 2) o.push_back(uint8_t(hexv(s[i]) * 16 + hexv(s[i + 1]))); return o; }
static std::string to_hex(const uint8_t* p, size_t n) { static const char* d = "0123456789abcdef"; std::string s; for (size_t i = 0; i < n; i++) { s.push_back(d[p[i] >> 4]); s.push_back(d[p[i] & 15]); } return s; }
static std::vector<std::string> split(const std::string& s, char c) { std::vector<std::string> o; std::string cur; for (char x : s) { if (x == c) { o.push_back(cur); cur.clear(); } else cur.push_back(x); } o.push_back(cur); return o; }
static int PROBE_MS = 40;

static std::string uobs(UncompressedFile& u) {
    std::ostringstream o;
    o << "tg=" << (long long)u.tellg() << " tp=" << (long long)u.tellp() << " gc=" << (long long)u.gcount() << " fs=" << (long long)u.fileSize()
      << " good=" << (u.good() ? 1 : 0) << " eof=" << (u.eof() ? 1 : 0) << " dlcs=" << u.defaultLogContainerSize();
    return o.str();
}

// run f on a helper thread; report whether it returns within PROBE_MS; if not, release it with `release`
template <class F, class R> static bool probe(F f, R release) {
    std::atomic<bool> done(false);
    std::thread t([&] { f(); done = true; });
    for (int i = 0; i < PROBE_MS && !done; i++) std::this_thread::sleep_for(std::chrono::milliseconds(1));
    bool returned = done;
    if (!returned) release();
    t.join();
    return returned;
}

// run f on a helper thread and wait for it (no polling); if it does not return within HANG_MS the model was wrong about
// the guard (or the implementation blocks for ever): release it and report
static int HANG_MS = 1500;
template <class F, class R> static bool guarded(F f, R release) {
    std::mutex m; std::condition_variable cv; bool done = false;
    std::thread t([&] { f(); std::lock_guard<std::mutex> l(m); done = true; cv.notify_all(); });
    bool ok;
    { std::unique_lock<std::mutex> l(m); ok = cv.wait_for(l, std::chrono::milliseconds(HANG_MS), [&] { return done; }); }
    if (!ok) release();
    t.join();
    return ok;
}

static std::string do_useq(const std::string& ops) {
    UncompressedFile u; std::string out;
    for (const std::string& op : split(ops, ';')) {
        std::vector<std::string> a = split(op, ':');
        std::string r = "u ok ";
        bool pr = a[0].rfind("probe-", 0) == 0; std::string k = pr ? a[0].substr(6) : a[0];
        if (k == "new") { }
        else if (k == "w") { std::vector<uint8_t> b = unhex(a.size() > 1 ? a[1] : "");
            auto f = [&] { u.write(reinterpret_cast<const char*>(b.data()), std::streamsize(b.size())); };
            if (pr) { r = probe(f, [&] { u.abort(); }) ? "u returned" : "u block"; out += (out.empty() ? "" : " | ") + r; break; }
            if (!guarded(f, [&] { u.abort(); })) { out += (out.empty() ? "" : " | ") + std::string("u hang"); break; } }
        else if (k == "wc") { auto lc = std::make_shared<LogContainer>(); std::vector<uint8_t> b = unhex(a.size() > 2 ? a[2] : "");
            lc->uncompressedFile.assign(b.begin(), b.end()); lc->uncompressedFileSize = uint32_t(strtoul(a[1].c_str(), nullptr, 10));
            auto f = [&] { u.write(lc); };
            if (pr) { r = probe(f, [&] { u.abort(); }) ? "u returned" : "u block"; out += (out.empty() ? "" : " | ") + r; break; }
            if (!guarded(f, [&] { u.abort(); })) { out += (out.empty() ? "" : " | ") + std::string("u hang"); break; } }
        else if (k == "r") { long n = strtol(a[1].c_str(), nullptr, 10); std::vector<uint8_t> b(size_t(n > 0 ? n : 0) + 1, 0xCD);
            auto f = [&] { u.read(reinterpret_cast<char*>(b.data()), n); };
            if (pr) { r = probe(f, [&] { u.abort(); }) ? "u returned" : "u block"; out += (out.empty() ? "" : " | ") + r; break; }
            if (!guarded(f, [&] { u.abort(); })) { out += (out.empty() ? "" : " | ") + std::string("u hang"); break; }
            long g = long(u.gcount()); r += "bytes=" + to_hex(b.data(), size_t(g > 0 ? g : 0)) + " "; }
        else if (k == "demand") {   // demand:<n>:w:<hex> | demand:<n>:wc:<size>:<hex> : a read of n blocks, then a write is tried
            long n = strtol(a[1].c_str(), nullptr, 10); std::vector<uint8_t> rb(size_t(n > 0 ? n : 0) + 1, 0xCD);
            std::atomic<bool> rdone(false), wdone(false);
            std::thread tr([&] { u.read(reinterpret_cast<char*>(rb.data()), n); rdone = true; });
            for (int i = 0; i < PROBE_MS && !rdone; i++) std::this_thread::sleep_for(std::chrono::milliseconds(1));
            if (rdone) { tr.join(); out += (out.empty() ? "" : " | ") + std::string("u demand read-returned"); break; }
            std::vector<uint8_t> b = unhex(a.size() > 3 ? a.back() : ""); auto lc = std::make_shared<LogContainer>();
            bool cont = a.size() > 2 && a[2] == "wc";
            if (cont) { lc->uncompressedFile.assign(b.begin(), b.end()); lc->uncompressedFileSize = uint32_t(strtoul(a[3].c_str(), nullptr, 10)); }
            std::thread tw([&] { if (cont) u.write(lc); else u.write(reinterpret_cast<const char*>(b.data()), std::streamsize(b.size())); wdone = true; });
            for (int i = 0; i < PROBE_MS && !wdone; i++) std::this_thread::sleep_for(std::chrono::milliseconds(1));
            bool w = wdone; u.abort(); tr.join(); tw.join();
            out += (out.empty() ? "" : " | ") + std::string(w ? "u demand w returned" : "u demand w block"); break; }
        else if (k == "sk") u.seekg(strtoll(a[1].c_str(), nullptr, 10));
        else if (k == "nlc") u.nextLogContainer();
        else if (k == "drop") u.dropOldData();
        else if (k == "sfs") u.setFileSize(strtoll(a[1].c_str(), nullptr, 10));
        else if (k == "sbs") u.setBufferSize(strtoll(a[1].c_str(), nullptr, 10));
        else if (k == "sdlcs") u.setDefaultLogContainerSize(uint32_t(strtoul(a[1].c_str(), nullptr, 10)));
        else if (k == "abort") u.abort();
        else if (k == "held") {   // the containers held (private member, read with -fno-access-control): position:declared size:vector size
            std::ostringstream o; o << "u held n=" << u.m_data.size() << " c=";
            bool first = true;
            for (auto& lc : u.m_data) { if (!first) o << ","; first = false;
                if (lc) o << (long long)lc->filePosition << ":" << lc->uncompressedFileSize << ":" << lc->uncompressedFile.size(); else o << "null"; }
            out += (out.empty() ? "" : " | ") + o.str(); continue; }
        else { out += (out.empty() ? "" : " | ") + std::string("bad-request"); continue; }
        out += (out.empty() ? "" : " | ") + r + uobs(u);
    }
    return "useq " + out;
}

static std::string qobs(ObjectQueue<ObjectHeaderBase>& q) {
    std::ostringstream o; o << "tg=" << q.tellg() << " tp=" << q.tellp() << " good=" << (q.good() ? 1 : 0) << " eof=" << (q.eof() ? 1 : 0); return o.str();
}
static std::string do_qseq(const std::string& ops) {
    ObjectQueue<ObjectHeaderBase> q; std::string out;
    for (const std::string& op : split(ops, ';')) {
        std::vector<std::string> a = split(op, ':');
        std::string r = "q ok";
        bool pr = a[0].rfind("probe-", 0) == 0; std::string k = pr ? a[0].substr(6) : a[0];
        if (k == "new") { }
        else if (k == "r") { ObjectHeaderBase* o = nullptr; auto f = [&] { o = q.read(); };
            if (pr) { r = probe(f, [&] { q.abort(); }) ? "q returned" : "q block"; delete o; out += (out.empty() ? "" : " | ") + r; break; }
            if (!guarded(f, [&] { q.abort(); })) { out += (out.empty() ? "" : " | ") + std::string("q hang"); break; }
            if (o) { r += " ret=" + std::to_string(o->objectSize); delete o; } else r += " ret=null"; }
        else if (k == "w") { ObjectHeaderBase* o = new ObjectHeaderBase(1, ObjectType::UNKNOWN); o->objectSize = uint32_t(strtoul(a[1].c_str(), nullptr, 10));
            auto f = [&] { q.write(o); };
            if (pr) { r = probe(f, [&] { q.abort(); }) ? "q returned" : "q block"; out += (out.empty() ? "" : " | ") + r; break; }
            if (!guarded(f, [&] { q.abort(); })) { out += (out.empty() ? "" : " | ") + std::string("q hang"); break; } }
        else if (k == "pos") {   // preset the two 32-bit counters (private members, -fno-access-control): sessions close to the wrap-around
            std::lock_guard<std::mutex> l(q.m_mutex);
            q.m_tellg = uint32_t(strtoul(a[1].c_str(), nullptr, 10)); q.m_tellp = uint32_t(strtoul(a[2].c_str(), nullptr, 10)); }
        else if (k == "abort") q.abort();
        else if (k == "sfs") q.setFileSize(uint32_t(strtoul(a[1].c_str(), nullptr, 10)));
        else if (k == "sbs") q.setBufferSize(uint32_t(strtoul(a[1].c_str(), nullptr, 10)));
        else { out += (out.empty() ? "" : " | ") + std::string("bad-request"); continue; }
        out += (out.empty() ? "" : " | ") + r + " " + qobs(q);
    }
    return "qseq " + out;
}

static std::string handle(const std::string& line) {
    std::istringstream is(line); std::string cmd, ops; is >> cmd >> ops;
    if (cmd == "useq") return do_useq(ops);
    if (cmd == "qseq") return do_qseq(ops);
    return "bad-request";
}

int main() {
    if (const char* e = getenv("VERIF_PROBE_MS")) PROBE_MS = atoi(e);
    std::ios::sync_with_stdio(false);
    std::string line;
    while (std::getline(std::cin, line)) {
        if (!line.empty() && line[0] == '!') {
            fflush(stdout); std::cout.flush();
            int fd[2]; if (pipe(fd)) return 3;
            pid_t p = fork();
            if (p == 0) { close(fd[0]); std::string r = handle(line.substr(1)) + "\n"; ssize_t w = write(fd[1], r.data(), r.size()); (void)w; _exit(0); }
            close(fd[1]); std::string r; char buf[65536]; ssize_t n;
            while ((n = read(fd[0], buf, sizeof buf)) > 0) r.append(buf, size_t(n));
            close(fd[0]); int st = 0; waitpid(p, &st, 0);
            if (WIFEXITED(st) && WEXITSTATUS(st) == 0 && !r.empty()) std::cout << r;
            else std::cout << "crash status=" << (WIFSIGNALED(st) ? 1000 + WTERMSIG(st) : WEXITSTATUS(st)) << "\n";
        } else std::cout << handle(line) << "\n";
        std::cout.flush();
    }
    return 0;
}
