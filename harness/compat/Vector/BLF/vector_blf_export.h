
#ifndef VECTOR_BLF_EXPORT_H
#define VECTOR_BLF_EXPORT_H

#ifdef VECTOR_BLF_STATIC_DEFINE
#  define VECTOR_BLF_EXPORT
#  define VECTOR_BLF_NO_EXPORT
#else
#  ifndef VECTOR_BLF_EXPORT
#    ifdef Vector_BLF_EXPORTS
        /* We are building this library */
#      define VECTOR_BLF_EXPORT __attribute__((visibility("default")))
#    else
        /* We are using this library */
#      define VECTOR_BLF_EXPORT __attribute__((visibility("default")))
#    endif
#  endif

#  ifndef VECTOR_BLF_NO_EXPORT
#    define VECTOR_BLF_NO_EXPORT __attribute__((visibility("hidden")))
#  endif
#endif

#ifndef VECTOR_BLF_DEPRECATED
#  define VECTOR_BLF_DEPRECATED __attribute__ ((__deprecated__))
#endif

#ifndef VECTOR_BLF_DEPRECATED_EXPORT
#  define VECTOR_BLF_DEPRECATED_EXPORT VECTOR_BLF_EXPORT VECTOR_BLF_DEPRECATED
#endif

#ifndef VECTOR_BLF_DEPRECATED_NO_EXPORT
#  define VECTOR_BLF_DEPRECATED_NO_EXPORT VECTOR_BLF_NO_EXPORT VECTOR_BLF_DEPRECATED
#endif

/* NOLINTNEXTLINE(readability-avoid-unconditional-preprocessor-if) */
#if 0 /* DEFINE_NO_DEPRECATED */
#  ifndef VECTOR_BLF_NO_DEPRECATED
#    define VECTOR_BLF_NO_DEPRECATED
#  endif
#endif

#endif /* VECTOR_BLF_EXPORT_H */
