// SPDX-FileCopyrightText: 2013-2021 Tobias Lorenz <tobias.lorenz@gmx.net>
//
// SPDX-License-Identifier: GPL-3.0-or-later

#pragma once
