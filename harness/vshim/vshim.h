// Controlled scheduler: force-included (-include) when building the library and the harness for the
// `sched` protocol.  std::mutex, std::condition_variable and std::thread are replaced by scheduler-aware
// types (no change to the library sources).  Exactly one thread runs at a time; scheduling decisions are
// taken at lock acquisition, condition wait, thread start, join and thread end.
#pragma once
#include <algorithm>
#include <array>
#include <atomic>
#include <condition_variable>
#include <cstdint>
#include <cstring>
#include <exception>
#include <fstream>
#include <functional>
#include <ios>
#include <iostream>
#include <limits>
#include <list>
#include <memory>
#include <mutex>
#include <queue>
#include <sstream>
#include <stdexcept>
#include <string>
#include <thread>
#include <vector>
#include <zlib.h>
namespace vshim {
struct vmutex { int owner = -1; void lock(); void unlock(); bool try_lock(); };
struct vcondvar {
    void wait_raw(std::unique_lock<vmutex>& l);
    // between the evaluation of the predicate and the sleep another thread may run (the mutex is still held: a notifier that takes
    // it cannot get in, one that does not take it can - the window of a lost wake-up)
    template <class P> void wait(std::unique_lock<vmutex>& l, P p) { while (!p()) { yield_holding(); wait_raw(l); } }
    static void yield_holding();
    void wait(std::unique_lock<vmutex>& l) { wait_raw(l); }      // the form without a predicate (one sleep, no re-check)
    void notify_all(); void notify_one() { notify_all(); }
};
struct vthread {
    int id = -1; std::thread t; vthread() = default;
    template <class F, class... A> explicit vthread(F&& f, A&&... a) { start(std::bind(std::forward<F>(f), std::forward<A>(a)...)); }
    void start(std::function<void()> body);
    vthread(vthread&& o) : id(o.id), t(std::move(o.t)) { o.id = -1; }
    vthread& operator=(vthread&& o) { id = o.id; t = std::move(o.t); o.id = -1; return *this; }
    bool joinable() const { return t.joinable(); } void join();
};
// configuration / results
void configure(const std::vector<int>& choices, const std::string& policy, unsigned seed, long max_steps);
std::string trace();          // n:chosen:cur;... per decision
long steps();
void on_deadlock(void (*cb)(const char*));
}
namespace std { using vshim_mutex = ::vshim::vmutex; using vshim_condition_variable = ::vshim::vcondvar; using vshim_thread = ::vshim::vthread; }
#define mutex vshim_mutex
#define condition_variable vshim_condition_variable
#define thread vshim_thread
