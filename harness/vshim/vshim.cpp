// compiled WITH -include vshim.h; undo the renaming for the scheduler's own synchronisation
#undef mutex
#undef condition_variable
#undef thread
#include <cstdio>
#include <cstdlib>
#include <random>
#include <unistd.h>
namespace vshim {
enum St { Run, BMutex, BCv, BJoin, Fin };
struct T { St st = Run; const void* on = nullptr; int joinTarget = -1; };
struct Sched {
    std::mutex G; std::condition_variable cv; std::vector<T> th; int cur = 0;
    std::vector<int> choices; size_t ci = 0; std::string policy = "nonpreempt"; std::mt19937 rng{1};
    long nsteps = 0, maxSteps = 2000000; std::string tr; void (*dead)(const char*) = nullptr;
    std::vector<int> prio; long pctChange = -1; int lastPick = -1; long streak = 0; int lowPrio = 0; std::vector<int> lastPicks;
    static thread_local int me;
    Sched() { th.push_back(T()); me = 0; }
    void pick(std::unique_lock<std::mutex>& lk, bool iAmFinished) {
        std::vector<int> r; for (size_t i = 0; i < th.size(); i++) if (th[i].st == Run) r.push_back(int(i));
        if (r.empty()) {
            bool all = true; for (auto& t : th) if (t.st != Fin) all = false;
            if (all) return;
            std::string s = "deadlock"; for (size_t i = 0; i < th.size(); i++) { s += " t" + std::to_string(i) + "=" + std::to_string(int(th[i].st)); }
            if (dead) dead(s.c_str());
            fprintf(stdout, "sched outcome=deadlock steps=%ld %s trace=%s\n", nsteps, s.c_str(), tr.c_str()); fflush(stdout); _exit(42);
        }
        nsteps++;
        if (nsteps > maxSteps) {
            std::string st; for (size_t i = 0; i < th.size(); i++) st += " t" + std::to_string(i) + "=" + std::to_string(int(th[i].st));
            std::string lp; for (int x : lastPicks) lp += std::to_string(x);
            fprintf(stdout, "sched outcome=steplimit steps=%ld%s last=%s\n", nsteps, st.c_str(), lp.c_str()); fflush(stdout); _exit(43); }
        int curIdx = -1; for (size_t i = 0; i < r.size(); i++) if (r[i] == me && !iAmFinished) curIdx = int(i);
        int k = 0;
        if (r.size() > 1) {
            if (ci < choices.size()) { k = choices[ci] % int(r.size()); }
            else if (policy == "random") { k = int(rng() % r.size()); }
            else if (policy == "pct") {
                while (prio.size() < th.size()) prio.push_back(int(rng() % 1000) + 10);
                if (nsteps == pctChange && curIdx >= 0) prio[size_t(r[size_t(curIdx)])] = 1;
                k = 0; for (size_t i = 1; i < r.size(); i++) if (prio[size_t(r[i])] > prio[size_t(r[size_t(k)])]) k = int(i);
            }
            else { k = curIdx >= 0 ? curIdx : 0; }   // nonpreempt
            // weak fairness: the library polls after abort(); a thread that has been chosen 2000 times in a row while
            // others were runnable yields (its priority drops / the next runnable thread is taken)
            if (ci >= choices.size()) {
                if (r[size_t(k)] == lastPick) streak++; else streak = 0;
                if (streak > 2000) {
                    streak = 0;
                    if (policy == "pct") { while (prio.size() < th.size()) prio.push_back(10); prio[size_t(r[size_t(k)])] = --lowPrio; }
                    k = (k + 1) % int(r.size());
                }
            }
            lastPick = r[size_t(k)];
            ci++;
            if (tr.size() < 400000) { tr += std::to_string(r.size()) + ":" + std::to_string(k) + ":" + std::to_string(curIdx) + ";"; }
        }
        cur = r[size_t(k)];
        lastPicks.push_back(cur); if (lastPicks.size() > 120) lastPicks.erase(lastPicks.begin());
        cv.notify_all();
        if (iAmFinished) return;
        int m = me;
        cv.wait(lk, [&] { return cur == m; });
    }
};
thread_local int Sched::me = -1;
static Sched& S() { static Sched s; return s; }
void configure(const std::vector<int>& c, const std::string& policy, unsigned seed, long max_steps) {
    Sched& s = S(); s.choices = c; s.ci = 0; s.policy = policy; s.rng.seed(seed); s.maxSteps = max_steps; s.tr.clear(); s.nsteps = 0;
    s.pctChange = long(s.rng() % 400) + 1; s.prio.clear(); s.lastPick = -1; s.streak = 0; s.lowPrio = 0;
}
std::string trace() { return S().tr; }
long steps() { return S().nsteps; }
void on_deadlock(void (*cb)(const char*)) { S().dead = cb; }
void vmutex::lock() {
    Sched& s = S(); std::unique_lock<std::mutex> lk(s.G); int me = Sched::me;
    s.pick(lk, false);   // yield point before acquiring
    while (owner != -1) { s.th[size_t(me)].st = BMutex; s.th[size_t(me)].on = this; s.pick(lk, false); }
    owner = me;
}
bool vmutex::try_lock() { Sched& s = S(); std::unique_lock<std::mutex> lk(s.G); if (owner != -1) return false; owner = Sched::me; return true; }
void vmutex::unlock() {
    Sched& s = S(); std::unique_lock<std::mutex> lk(s.G); owner = -1; for (auto& t : s.th) if (t.st == BMutex && t.on == this) t.st = Run;
    s.pick(lk, false);   // yield point after every critical section: what follows a hand-over can be interleaved
}
void vcondvar::wait_raw(std::unique_lock<vmutex>& l) {
    Sched& s = S(); vmutex* m = l.mutex();
    std::unique_lock<std::mutex> lk(s.G); int me = Sched::me;
    m->owner = -1; for (auto& t : s.th) if (t.st == BMutex && t.on == m) t.st = Run;
    s.th[size_t(me)].st = BCv; s.th[size_t(me)].on = this; s.pick(lk, false);
    while (m->owner != -1) { s.th[size_t(me)].st = BMutex; s.th[size_t(me)].on = m; s.pick(lk, false); }
    m->owner = me;
}
void vcondvar::yield_holding() { Sched& s = S(); std::unique_lock<std::mutex> lk(s.G); s.pick(lk, false); }
void vcondvar::notify_all() { Sched& s = S(); std::unique_lock<std::mutex> lk(s.G); for (auto& t : s.th) if (t.st == BCv && t.on == this) t.st = Run; }
void vthread::start(std::function<void()> body) {
    Sched& s = S(); int nid;
    { std::unique_lock<std::mutex> lk(s.G); nid = int(s.th.size()); s.th.push_back(T()); }
    id = nid;
    t = std::thread([nid, body] {
        Sched& s = S(); Sched::me = nid;
        { std::unique_lock<std::mutex> lk(s.G); s.cv.wait(lk, [&] { return s.cur == nid; }); }
        body();
        std::unique_lock<std::mutex> lk(s.G); s.th[size_t(nid)].st = Fin;
        for (auto& t : s.th) if (t.st == BJoin && t.joinTarget == nid) t.st = Run;
        s.pick(lk, true);
    });
    std::unique_lock<std::mutex> lk(s.G); s.pick(lk, false);
}
void vthread::join() {
    Sched& s = S();
    { std::unique_lock<std::mutex> lk(s.G); int me = Sched::me;
      if (s.th[size_t(id)].st != Fin) { s.th[size_t(me)].st = BJoin; s.th[size_t(me)].joinTarget = id; s.pick(lk, false); } }
    t.join();
}
}
