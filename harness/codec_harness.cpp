// Correspondence harness (tie D), codec protocol: the same request lines as lean/Driver/Main.lean,
// answered by the real library (current /repo working tree) in-process.
#include <Vector/BLF.h>
#include <cstdio>
#include <cstring>
#include <iostream>
#include <new>
#include <sstream>
#include <string>
#include <vector>
#include <unistd.h>
#include <sys/wait.h>
#include "reflect.h"
using namespace Vector::BLF;

// the allocation cap stands for the machine's memory: it applies to what the library allocates (inside `Capped` scopes),
// not to the harness' own answer strings
static size_t CAP = 268435456;
static bool g_capped = false;
struct Capped { Capped() { g_capped = true; } ~Capped() { g_capped = false; } };
void* operator new(size_t n) { if (g_capped && n > CAP) throw std::bad_alloc(); void* p = malloc(n ? n : 1); if (!p) throw std::bad_alloc(); return p; }
void* operator new[](size_t n) { if (g_capped && n > CAP) throw std::bad_alloc(); void* p = malloc(n ? n : 1); if (!p) throw std::bad_alloc(); return p; }
void operator delete(void* p) noexcept { free(p); }
void operator delete[](void* p) noexcept { free(p); }
void operator delete(void* p, size_t) noexcept { free(p); }
void operator delete[](void* p, size_t) noexcept { free(p); }

static int hexv(char c) { if (c >= '0' && c <= '9') return c - '0'; if (c >= 'a' && c <= 'f') return c - 'a' + 10; if (c >= 'A' && c <= 'F') return c - 'A' + 10; return -1; }
static bool parse_hex(const std::string& s, std::vector<uint8_t>& out) {
    out.clear(); if (s.size() % 2) return false;
    for (size_t i = 0; i < s.size(); i += 2) { int a = hexv(s[i]), b = hexv(s[i + 1]); if (a < 0 || b < 0) return false; out.push_back(uint8_t(a * 16 + b)); }
    return true;
}
static std::string to_hex(const uint8_t* p, size_t n) { static const char* d = "0123456789abcdef"; std::string s; s.reserve(2 * n); for (size_t i = 0; i < n; i++) { s.push_back(d[p[i] >> 4]); s.push_back(d[p[i] & 15]); } return s; }
static const ClassReflect* find_class(const std::string& n) { for (int k = 0; k < g_nchunks; k++) for (int i = 0; i < g_chunk_sizes[k]; i++) if (n == g_chunks[k][i].name) return &g_chunks[k][i]; return nullptr; }
static std::string dump_obj(const ClassReflect* c, ObjectHeaderBase* o) {
    std::string s; std::vector<uint8_t> b;
    for (int i = 0; i < c->nfields; i++) { c->get(o, i, b); if (i) s += " "; s += std::to_string(i) + "=" + to_hex(b.data(), b.size()); }
    return s;
}

// decorator that forwards to the real in-memory stream and records the ghost flag `short`
struct Tracker : AbstractFile {
    UncompressedFile& u; bool short_ = false;
    explicit Tracker(UncompressedFile& x) : u(x) {}
    std::streamsize gcount() const override { return u.gcount(); }
    void read(char* s, std::streamsize n) override { u.read(s, n); if (u.gcount() < n) short_ = true; }
    std::streampos tellg() override { return u.tellg(); }
    void seekg(std::streamoff off, const std::ios_base::seekdir way = std::ios_base::cur) override { u.seekg(off, way); }
    void write(const char* s, std::streamsize n) override { u.write(s, n); }
    std::streampos tellp() override { return u.tellp(); }
    bool good() const override { return u.good(); }
    bool eof() const override { return u.eof(); }
};

static std::string do_enc(std::istringstream& is, bool poison) {
    int pat = 0; if (poison) is >> pat;
    std::string cn; is >> cn; const ClassReflect* c = find_class(cn); if (!c) return "bad-class";
    void* mem = nullptr;
    ObjectHeaderBase* o;
    if (poison) { mem = malloc(c->size); memset(mem, pat, c->size); o = c->make_in(mem); } else o = c->make();
    std::string tok; std::vector<uint8_t> b;
    while (is >> tok) { size_t e = tok.find('='); if (e == std::string::npos) continue; int f = atoi(tok.substr(0, e).c_str()); if (!parse_hex(tok.substr(e + 1), b)) continue; c->set(o, f, b.data(), b.size()); }
    uint32_t s0 = o->calculateObjectSize();
    UncompressedFile uf;
    std::string halt = "none";
    try { Capped cap; o->write(uf); } catch (Exception&) { halt = "exc"; } catch (std::bad_alloc&) { halt = "badalloc"; } catch (std::length_error&) { halt = "badalloc"; }
    std::streamsize n = uf.tellp();
    std::vector<uint8_t> out(size_t(n > 0 ? n : 0));
    if (n > 0) uf.read(reinterpret_cast<char*>(out.data()), n);
    std::string r = "enc halt=" + halt + " size0=" + std::to_string(s0) + " out=" + to_hex(out.data(), out.size()) + " obj " + dump_obj(c, o);
    if (poison) { c->destroy(o); free(mem); } else delete o;
    return r;
}

static std::string do_dec(std::istringstream& is, bool reenc) {
    std::string cn, h; is >> cn >> h; const ClassReflect* c = find_class(cn); std::vector<uint8_t> b;
    if (!c || !parse_hex(h, b)) return "bad-request";
    UncompressedFile uf;
    if (!b.empty()) uf.write(reinterpret_cast<const char*>(b.data()), std::streamsize(b.size()));
    uf.setFileSize(std::streamsize(b.size()));
    ObjectHeaderBase* o = c->make();
    std::string halt = "none";
    Tracker tf(uf);
    try { Capped cap; o->read(tf); } catch (Exception&) { halt = "exc"; } catch (std::bad_alloc&) { halt = "badalloc"; } catch (std::length_error&) { halt = "badalloc"; }
    if (halt == "badalloc") { delete o; return std::string(reenc ? "reenc" : "dec") + " halt=badalloc"; }
    bool good = uf.good(), eof = uf.eof();
    std::vector<char> tmp(b.size() + 8);
    uf.read(tmp.data(), std::streamsize(tmp.size()));
    std::streamsize pos = std::streamsize(b.size()) - uf.gcount();
    std::string r = std::string(reenc ? "reenc" : "dec") + " halt=" + halt + " pos=" + std::to_string(pos) + " good=" + (good ? "true" : "false") + " eof=" + (eof ? "true" : "false") + " short=" + (tf.short_ ? "true" : "false");
    if (!reenc) r += " obj " + dump_obj(c, o);
    else if (halt == "none" && !tf.short_) {
        // decoded completely: encode the decoded object again (`dec`: the object as decoded, before the encoder's pre-processing)
        std::string dec0 = dump_obj(c, o);
        UncompressedFile uo; std::string h2 = "none";
        try { Capped cap; o->write(uo); } catch (Exception&) { h2 = "exc"; } catch (std::bad_alloc&) { h2 = "badalloc"; } catch (std::length_error&) { h2 = "badalloc"; }
        std::streamsize n = uo.tellp(); std::vector<uint8_t> out(size_t(n > 0 ? n : 0));
        if (n > 0) uo.read(reinterpret_cast<char*>(out.data()), n);
        r += " ehalt=" + h2 + " out=" + to_hex(out.data(), out.size()) + " dec " + dec0;
    }
    if (reenc) r += " obj " + dump_obj(c, o);
    delete o;
    return r;
}

static std::string do_dflt(std::istringstream& is) {
    std::string cn; is >> cn; const ClassReflect* c = find_class(cn); if (!c) return "bad-class";
    std::string dumps[3]; uint32_t type = 0;
    const int pats[3] = {0xAA, 0x55, 0xFF};
    for (int k = 0; k < 3; k++) {
        void* mem = malloc(c->size); memset(mem, pats[k], c->size);
        ObjectHeaderBase* o = c->make_in(mem);
        type = uint32_t(o->objectType);
        dumps[k] = dump_obj(c, o);
        c->destroy(o); free(mem);
    }
    // fields whose value depends on the previous memory contents
    std::string indet;
    {
        std::istringstream a(dumps[0]), b(dumps[1]), d(dumps[2]); std::string x, y, z; int i = 0;
        while (a >> x && b >> y && d >> z) { if (x != y || x != z) { if (!indet.empty()) indet += ","; indet += std::to_string(i); } i++; }
    }
    return "dflt type=" + std::to_string(type) + " obj " + dumps[0] + " indet=" + indet;
}

#include <cxxabi.h>
#include <typeinfo>
static std::string do_factory(std::istringstream& is) {
    unsigned long code = 0; is >> code;
    ObjectHeaderBase* o = File::createObject(static_cast<ObjectType>(uint32_t(code)));
    if (!o) return "factory " + std::to_string(code) + " none";
    int st = 0; char* dn = abi::__cxa_demangle(typeid(*o).name(), nullptr, nullptr, &st);
    std::string n = dn ? dn : typeid(*o).name(); free(dn);
    size_t k = n.rfind("::"); if (k != std::string::npos) n = n.substr(k + 2);
    std::string ty = std::to_string(uint32_t(o->objectType));     // the code the freshly constructed object carries
    delete o;
    return "factory " + std::to_string(code) + " " + n + " type=" + ty;
}

static std::string handle(const std::string& line) {
    std::istringstream is(line); std::string cmd; is >> cmd;
    if (cmd == "enc") return do_enc(is, false);
    if (cmd == "encp") return do_enc(is, true);
    if (cmd == "factory") return do_factory(is);
    if (cmd == "dec") return do_dec(is, false);
    if (cmd == "reenc") return do_dec(is, true);
    if (cmd == "dflt") return do_dflt(is);
    return "bad-request";
}

int main() {
    if (const char* e = getenv("VERIF_CAP")) CAP = size_t(strtoull(e, nullptr, 10));
    std::ios::sync_with_stdio(false);
    std::string line;
    while (std::getline(std::cin, line)) {
        if (!line.empty() && line[0] == '!') {
            // run in a child: the request may provoke undefined behaviour in the library (sanitizer abort)
            fflush(stdout); std::cout.flush();
            int fd[2]; if (pipe(fd)) return 3;
            pid_t p = fork();
            if (p == 0) { close(fd[0]); std::string r = handle(line.substr(1)) + "\n"; ssize_t w = write(fd[1], r.data(), r.size()); (void)w; _exit(0); }
            close(fd[1]); std::string r; char buf[65536]; ssize_t n;
            while ((n = read(fd[0], buf, sizeof buf)) > 0) r.append(buf, size_t(n));
            close(fd[0]); int st = 0; waitpid(p, &st, 0);
            if (WIFEXITED(st) && WEXITSTATUS(st) == 0 && !r.empty()) std::cout << r;
            else std::cout << "crash status=" << (WIFSIGNALED(st) ? 1000 + WTERMSIG(st) : WEXITSTATUS(st)) << "\n";
        } else std::cout << handle(line) << "\n";
        std::cout.flush();
    }
    return 0;
}
