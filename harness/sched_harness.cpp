// Controlled-schedule sessions of the real File (tie D `sched` protocol).  Built with -include vshim/vshim.h.
// Every request runs in a child process; a deadlock is detected by the scheduler (all threads blocked), not by a timeout.
#include <Vector/BLF.h>
#include <cstdio>
#include <cxxabi.h>
#include <typeinfo>
#include <unistd.h>
#include <signal.h>
#include <sys/wait.h>
#include "reflect.h"
using namespace Vector::BLF;
static size_t CAP = 268435456;
void* operator new(size_t n) { if (n > CAP) throw std::bad_alloc(); void* p = malloc(n ? n : 1); if (!p) throw std::bad_alloc(); return p; }
void* operator new[](size_t n) { if (n > CAP) throw std::bad_alloc(); void* p = malloc(n ? n : 1); if (!p) throw std::bad_alloc(); return p; }
void operator delete(void* p) noexcept { free(p); }
void operator delete[](void* p) noexcept { free(p); }
void operator delete(void* p, size_t) noexcept { free(p); }
void operator delete[](void* p, size_t) noexcept { free(p); }
static std::string TMPD = "/var/tmp";
static int hexv(char c) { if (c >= '0' && c <= '9') return c - '0'; if (c >= 'a' && c <= 'f') return c - 'a' + 10; if (c >= 'A' && c <= 'F') return c - 'A' + 10; return -1; }
static std::vector<uint8_t> unhex(const std::string& s) { std::vector<uint8_t> o; if (s == "-") return o; for (size_t i = 0; i + 1 < s.size(); i += 2) o.push_back(uint8_t(hexv(s[i]) * 16 + hexv(s[i + 1]))); return o; }
static std::string to_hex(const uint8_t* p, size_t n) { static const char* d = "0123456789abcdef"; std::string s; s.reserve(2 * n); for (size_t i = 0; i < n; i++) { s.push_back(d[p[i] >> 4]); s.push_back(d[p[i] & 15]); } return s; }
static const ClassReflect* find_class(const std::string& n) { for (int k = 0; k < g_nchunks; k++) for (int i = 0; i < g_chunk_sizes[k]; i++) if (n == g_chunks[k][i].name) return &g_chunks[k][i]; return nullptr; }
static std::string class_of(ObjectHeaderBase* o) { int st = 0; char* dn = abi::__cxa_demangle(typeid(*o).name(), nullptr, nullptr, &st); std::string n = dn ? dn : ""; free(dn); size_t k = n.rfind("::"); if (k != std::string::npos) n = n.substr(k + 2); return n; }
static uint64_t fnv(uint64_t h, const std::string& s) { for (unsigned char c : s) { h ^= c; h *= 1099511628211ULL; } return h; }
static std::string dump_obj(const ClassReflect* c, ObjectHeaderBase* o) { std::string s; std::vector<uint8_t> b; for (int i = 0; i < c->nfields; i++) { c->get(o, i, b); s += std::to_string(i) + "=" + to_hex(b.data(), b.size()) + " "; } return s; }

struct Opts { std::vector<int> choices; std::string policy = "nonpreempt"; unsigned seed = 1; long close_after = -1; int level = 1; unsigned cs = 0x20000; int rp = 1; unsigned qcap = 0; long bufsz = -1; };
static void parse_opt(const std::string& t, Opts& o) {
    size_t e = t.find('='); if (e == std::string::npos) return; std::string k = t.substr(0, e), v = t.substr(e + 1);
    if (k == "choices") { std::stringstream ss(v); std::string x; while (std::getline(ss, x, ',')) if (!x.empty()) o.choices.push_back(atoi(x.c_str())); }
    else if (k == "policy") o.policy = v; else if (k == "seed") o.seed = unsigned(strtoul(v.c_str(), nullptr, 10));
    else if (k == "close") o.close_after = atol(v.c_str()); else if (k == "level") o.level = atoi(v.c_str());
    else if (k == "cs") o.cs = unsigned(strtoul(v.c_str(), nullptr, 10)); else if (k == "rp") o.rp = atoi(v.c_str());
}

// read session: open, read until null (or `close` objects), close, destroy
static std::string do_rsess(std::istringstream& is) {
    Opts o; std::string tok, h; std::vector<std::string> toks; while (is >> tok) toks.push_back(tok);
    for (auto& t : toks) { if (t.rfind("file=", 0) == 0) h = t.substr(5); else parse_opt(t, o); }
    std::vector<uint8_t> b = unhex(h);
    std::string path = TMPD + "/vblf-s" + std::to_string(getpid()) + ".blf";
    { std::ofstream f(path, std::ios::binary); f.write(reinterpret_cast<const char*>(b.data()), std::streamsize(b.size())); }
    vshim::configure(o.choices, o.policy, o.seed, getenv("VERIF_MAXSTEPS") ? atol(getenv("VERIF_MAXSTEPS")) : 400000);
    uint64_t hsh = 1469598103934665603ULL; long n = 0; bool nullseen = false; bool good = false, eof = false; uint32_t cnt = 0; long held = 0, heldBytes = 0;
    {
        File f;
        try { f.open(path.c_str(), std::ios_base::in); } catch (Exception&) { unlink(path.c_str()); return "sched outcome=openexc"; }
        while (o.close_after < 0 || n < o.close_after) {
            ObjectHeaderBase* ob = f.read();
            if (!ob) { nullseen = true; break; }
            std::string cn = class_of(ob); const ClassReflect* c = find_class(cn);
            hsh = fnv(hsh, cn + " " + (c ? dump_obj(c, ob) : std::string("?")));
            delete ob; n++;
        }
        good = f.good(); eof = f.eof();
        // what the in-memory stream still holds when the application has seen the end (one thread runs at a time under this scheduler,
        // and none is suspended inside an update of the list): containers, bytes
        held = long(f.m_uncompressedFile.m_data.size()); for (auto& lc : f.m_uncompressedFile.m_data) if (lc) heldBytes += long(lc->uncompressedFile.size());
        f.close();
        cnt = f.currentObjectCount;
    }
    unlink(path.c_str());
    return "sched outcome=done steps=" + std::to_string(vshim::steps()) + " n=" + std::to_string(n) + " null=" + (nullseen ? "1" : "0") + " good=" + (good ? "1" : "0") + " eof=" + (eof ? "1" : "0") +
           " held=" + std::to_string(held) + " heldbytes=" + std::to_string(heldBytes) +
           " count=" + std::to_string(cnt) + " hash=" + std::to_string(hsh) + " trace=" + vshim::trace();
}

// write session: open, write objects (close after `close` of them if given), close; the file bytes are the result
static std::string do_wsess(std::istringstream& is) {
    Opts o; std::string tok; std::vector<std::string> toks; while (is >> tok) toks.push_back(tok);
    size_t i = 0; for (; i < toks.size() && toks[i] != ";;"; i++) parse_opt(toks[i], o);
    std::string path = TMPD + "/vblf-s" + std::to_string(getpid()) + ".blf";
    vshim::configure(o.choices, o.policy, o.seed, getenv("VERIF_MAXSTEPS") ? atol(getenv("VERIF_MAXSTEPS")) : 400000);
    long n = 0;
    {
        File f; f.compressionLevel = o.level; f.writeRestorePoints = (o.rp == 1); f.setDefaultLogContainerSize(o.cs);
        f.open(path.c_str(), std::ios_base::out);
        if (!f.is_open()) return "sched outcome=notopen";
        while (i < toks.size() && (o.close_after < 0 || n < o.close_after)) {
            if (toks[i] == ";;") { i++; continue; }
            const ClassReflect* c = find_class(toks[i]); i++;
            if (!c) { while (i < toks.size() && toks[i] != ";;") i++; continue; }
            ObjectHeaderBase* ob = c->make();
            for (; i < toks.size() && toks[i] != ";;"; i++) { size_t e = toks[i].find('='); if (e == std::string::npos) continue; std::vector<uint8_t> b = unhex(toks[i].substr(e + 1)); c->set(ob, atoi(toks[i].substr(0, e).c_str()), b.data(), b.size()); }
            f.write(ob); n++;
        }
        f.close();
    }
    std::ifstream in(path, std::ios::binary); std::vector<uint8_t> b((std::istreambuf_iterator<char>(in)), std::istreambuf_iterator<char>());
    unlink(path.c_str());
    return "sched outcome=done steps=" + std::to_string(vshim::steps()) + " n=" + std::to_string(n) + " file=" + to_hex(b.data(), b.size()) + " trace=" + vshim::trace();
}

// object queue alone: one producer (n objects, then setFileSize(tellp)), one consumer (this thread) reading until null
static std::string do_qsess(std::istringstream& is) {
    Opts o; std::string tok; long cap = 1, n = 0, abortat = -1, presize = 0, ctl = 0;
    while (is >> tok) { if (tok.rfind("cap=", 0) == 0) cap = atol(tok.c_str() + 4); else if (tok.rfind("n=", 0) == 0) n = atol(tok.c_str() + 2);
        else if (tok.rfind("ctl=", 0) == 0) ctl = atol(tok.c_str() + 4);
        else if (tok.rfind("abortat=", 0) == 0) abortat = atol(tok.c_str() + 8); else if (tok.rfind("presize=", 0) == 0) presize = atol(tok.c_str() + 8); else parse_opt(tok, o); }
    vshim::configure(o.choices, o.policy, o.seed, getenv("VERIF_MAXSTEPS") ? atol(getenv("VERIF_MAXSTEPS")) : 400000);
    std::string got; bool nullseen = false; long cnt = 0;
    {
        ObjectQueue<ObjectHeaderBase> q; q.setBufferSize(uint32_t(cap));
        std::vector<ObjectHeaderBase*> made;
        for (long i = 0; i < n; i++) { CanMessage* m = new CanMessage; m->id = uint32_t(i + 1); made.push_back(m); }
        // presize=1: the number of objects is declared before the first one is written (a consumer asleep on the empty queue is woken
        // by that declaration and has to go back to sleep)
        // ctl=1: the end of the stream is never declared; a third thread calls abort() at some point of the schedule.  Every waiter has
        // to be released: the consumer gets a prefix of the objects, then null.  (Objects still queued belong to the queue.)
        std::thread prod([&] { if (presize) q.setFileSize(uint32_t(n)); for (long i = 0; i < n; i++) q.write(made[size_t(i)]); if (!presize && !ctl) q.setFileSize(q.tellp()); });
        std::thread ctlth; if (ctl) ctlth = std::thread([&] { q.abort(); });
        std::vector<ObjectHeaderBase*> consumed;
        for (;;) {
            if (abortat >= 0 && cnt == abortat) { q.abort(); }
            ObjectHeaderBase* ob = q.read();
            if (!ob) { nullseen = true; break; }
            long idx = -1; for (size_t k = 0; k < made.size(); k++) if (made[k] == ob) idx = long(k) + 1;
            got += (got.empty() ? "" : ",") + std::to_string(idx); cnt++; consumed.push_back(ob);
            if (cnt > n + 2) break;
        }
        prod.join();
        if (ctl) { ctlth.join(); for (auto* m : consumed) delete m; }
        else for (auto* m : made) delete m;
    }
    return "sched outcome=done steps=" + std::to_string(vshim::steps()) + " got=" + (got.empty() ? "-" : got) + " null=" + (nullseen ? "1" : "0") + " trace=" + vshim::trace();
}

// in-memory stream alone: one producer appending containers of the given sizes (bytes 0,1,2,... mod 251), then
// setFileSize(tellp); the consumer (this thread) issues the given reads and calls dropOldData after each
static std::string do_usess(std::istringstream& is) {
    Opts o; std::string tok; long buf = 8, ctl = 0; std::vector<long> conts, reads;
    auto lst = [](const std::string& v, std::vector<long>& out) { std::stringstream ss(v); std::string x; while (std::getline(ss, x, ',')) if (!x.empty()) out.push_back(atol(x.c_str())); };
    while (is >> tok) { if (tok.rfind("buf=", 0) == 0) buf = atol(tok.c_str() + 4); else if (tok.rfind("conts=", 0) == 0) lst(tok.substr(6), conts);
        else if (tok.rfind("reads=", 0) == 0) lst(tok.substr(6), reads); else if (tok.rfind("ctl=", 0) == 0) ctl = atol(tok.c_str() + 4); else parse_opt(tok, o); }
    vshim::configure(o.choices, o.policy, o.seed, getenv("VERIF_MAXSTEPS") ? atol(getenv("VERIF_MAXSTEPS")) : 400000);
    std::string out;
    {
        UncompressedFile u; u.setBufferSize(buf);
        std::thread prod([&] {
            unsigned v = 0;
            for (long c : conts) { auto lc = std::make_shared<LogContainer>(); lc->uncompressedFile.resize(size_t(c)); for (auto& b : lc->uncompressedFile) b = char(v++ % 251);
                lc->uncompressedFileSize = uint32_t(c); u.write(lc); }
            if (!ctl) u.setFileSize(u.tellp());
        });
        // ctl=1: the end is never declared, a third thread calls abort() somewhere in the schedule: both waiters have to be released
        std::thread ctlth; if (ctl) ctlth = std::thread([&] { u.abort(); });
        for (long r : reads) {
            std::vector<uint8_t> b(size_t(r) + 1, 0xCD);
            u.read(reinterpret_cast<char*>(b.data()), r);
            long g = long(u.gcount());
            out += (out.empty() ? "" : ",") + to_hex(b.data(), size_t(g > 0 ? g : 0)) + (u.good() ? "" : "!");
            u.dropOldData();
            if (!u.good()) break;
        }
        u.abort();
        prod.join();
        if (ctl) ctlth.join();
    }
    return "sched outcome=done steps=" + std::to_string(vshim::steps()) + " reads=" + (out.empty() ? "-" : out) + " trace=" + vshim::trace();
}

static std::string handle(const std::string& line) {
    std::istringstream is(line); std::string cmd; is >> cmd;
    if (cmd == "rsess") return do_rsess(is);
    if (cmd == "wsess") return do_wsess(is);
    if (cmd == "qsess") return do_qsess(is);
    if (cmd == "usess") return do_usess(is);
    return "bad-request";
}

int main() {
    if (const char* e = getenv("VERIF_TMPD")) TMPD = e;
    if (const char* e = getenv("VERIF_CAP")) CAP = size_t(strtoull(e, nullptr, 10));
    int wd = 60; if (const char* e = getenv("VERIF_WATCHDOG_S")) wd = atoi(e);
    std::ios::sync_with_stdio(false);
    std::string line;
    while (std::getline(std::cin, line)) {
        fflush(stdout); std::cout.flush();
        int fd[2]; if (pipe(fd)) return 3;
        pid_t p = fork();
        if (p == 0) {
            close(fd[0]); dup2(fd[1], 1); alarm(unsigned(wd));
            std::string r;
            try { r = handle(line) + "\n"; } catch (std::exception& e) { r = std::string("sched outcome=escaped-exception ") + e.what() + "\n"; } catch (...) { r = "sched outcome=escaped-exception\n"; }
            fputs(r.c_str(), stdout); fflush(stdout); _exit(0);
        }
        close(fd[1]); std::string r; char buf[65536]; ssize_t n;
        while ((n = read(fd[0], buf, sizeof buf)) > 0) r.append(buf, size_t(n));
        close(fd[0]); int st = 0; waitpid(p, &st, 0);
        if (!r.empty() && r.back() != '\n') r += "\n";
        if (WIFEXITED(st) && (WEXITSTATUS(st) == 0 || WEXITSTATUS(st) == 42 || WEXITSTATUS(st) == 43) && !r.empty()) std::cout << r;
        else if (WIFSIGNALED(st) && WTERMSIG(st) == SIGALRM) std::cout << "sched outcome=watchdog\n";
        else std::cout << "sched outcome=crash status=" << (WIFSIGNALED(st) ? 1000 + WTERMSIG(st) : WEXITSTATUS(st)) << "\n";
        std::cout.flush();
    }
    return 0;
}
