#pragma once
#include <cstdint>
#include <cstddef>
#include <vector>
namespace Vector { namespace BLF { class ObjectHeaderBase; } }
struct ClassReflect {
    const char* name;
    int nfields;
    void (*set)(Vector::BLF::ObjectHeaderBase*, int, const uint8_t*, size_t);
    void (*get)(Vector::BLF::ObjectHeaderBase*, int, std::vector<uint8_t>&);
    Vector::BLF::ObjectHeaderBase* (*make)();
    Vector::BLF::ObjectHeaderBase* (*make_in)(void*);
    void (*destroy)(Vector::BLF::ObjectHeaderBase*);
    size_t size;
    const char* kinds;
    const int* widths;
};
extern const ClassReflect* const g_chunks[];
extern const int g_chunk_sizes[];
extern const int g_nchunks;
