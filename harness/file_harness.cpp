// Correspondence harness (tie D), file protocol: whole files through the real, threaded File API of the
// current working tree.  Every request runs in a child process under a watchdog: `hang` and sanitizer
// aborts are results, not failures of the harness.
#include <Vector/BLF.h>
#include <cstdio>
#include <cstring>
#include <cxxabi.h>
#include <fstream>
#include <iostream>
#include <new>
#include <sstream>
#include <string>
#include <typeinfo>
#include <vector>
#include <unistd.h>
#include <signal.h>
#include <sys/wait.h>
#include "reflect.h"
using namespace Vector::BLF;

#include <atomic>
#include <malloc.h>
static size_t CAP = 268435456;
static std::atomic<long long> g_live(0), g_peak(0);
static inline void* acct_new(size_t n) {
    if (n > CAP) throw std::bad_alloc();
    void* p = malloc(n ? n : 1); if (!p) throw std::bad_alloc();
    long long l = g_live.fetch_add((long long)malloc_usable_size(p)) + (long long)malloc_usable_size(p);
    long long pk = g_peak.load(); while (l > pk && !g_peak.compare_exchange_weak(pk, l)) {}
    return p;
}
static inline void acct_del(void* p) { if (p) { g_live.fetch_sub((long long)malloc_usable_size(p)); free(p); } }
void* operator new(size_t n) { return acct_new(n); }
void* operator new[](size_t n) { return acct_new(n); }
void operator delete(void* p) noexcept { acct_del(p); }
void operator delete[](void* p) noexcept { acct_del(p); }
void operator delete(void* p, size_t) noexcept { acct_del(p); }
void operator delete[](void* p, size_t) noexcept { acct_del(p); }

static int WATCHDOG_S = 10;
static int PACE_US = 0;
static int HEAP = 0;
static std::string TMPD = "/var/tmp";
static int hexv(char c) { if (c >= '0' && c <= '9') return c - '0'; if (c >= 'a' && c <= 'f') return c - 'a' + 10; if (c >= 'A' && c <= 'F') return c - 'A' + 10; return -1; }
static std::vector<uint8_t> unhex(const std::string& s) { std::vector<uint8_t> o; if (s == "-") return o; for (size_t i = 0; i + 1 < s.size(); i += 2) o.push_back(uint8_t(hexv(s[i]) * 16 + hexv(s[i + 1]))); return o; }
static std::string to_hex(const uint8_t* p, size_t n) { static const char* d = "0123456789abcdef"; std::string s; s.reserve(2 * n); for (size_t i = 0; i < n; i++) { s.push_back(d[p[i] >> 4]); s.push_back(d[p[i] & 15]); } return s; }
static const ClassReflect* find_class(const std::string& n) { for (int k = 0; k < g_nchunks; k++) for (int i = 0; i < g_chunk_sizes[k]; i++) if (n == g_chunks[k][i].name) return &g_chunks[k][i]; return nullptr; }
static std::string class_of(ObjectHeaderBase* o) { int st = 0; char* dn = abi::__cxa_demangle(typeid(*o).name(), nullptr, nullptr, &st); std::string n = dn ? dn : ""; free(dn); size_t k = n.rfind("::"); if (k != std::string::npos) n = n.substr(k + 2); return n; }
static std::string dump_obj(const ClassReflect* c, ObjectHeaderBase* o) { std::string s; std::vector<uint8_t> b; for (int i = 0; i < c->nfields; i++) { c->get(o, i, b); if (i) s += " "; s += std::to_string(i) + "=" + to_hex(b.data(), b.size()); } return s; }
template <class T> static std::string lehex(T v) { return to_hex(reinterpret_cast<const uint8_t*>(&v), sizeof v); }
static std::string dump_stats(const FileStatistics& s) {
    std::ostringstream o;
    o << "0=" << lehex(s.signature) << " 1=" << lehex(s.statisticsSize) << " 2=" << lehex(s.apiNumber) << " 3=" << lehex(s.applicationId)
      << " 4=" << lehex(s.compressionLevel) << " 5=" << lehex(s.applicationMajor) << " 6=" << lehex(s.applicationMinor) << " 7=" << lehex(s.fileSize)
      << " 8=" << lehex(s.uncompressedFileSize) << " 9=" << lehex(s.objectCount) << " 10=" << lehex(s.applicationBuild)
      << " 11=" << to_hex(reinterpret_cast<const uint8_t*>(&s.measurementStartTime), 16) << " 12=" << to_hex(reinterpret_cast<const uint8_t*>(&s.lastObjectTime), 16)
      << " 13=" << lehex(s.restorePointsOffset) << " 14=" << to_hex(reinterpret_cast<const uint8_t*>(s.reservedFileStatistics.data()), 64);
    return o.str();
}

static volatile int g_poll = 0;
static std::string do_readfile(std::istringstream& is) {
    std::string h; is >> h; std::vector<uint8_t> b = unhex(h);
    std::string path = TMPD + "/vblf-h" + std::to_string(getpid()) + ".blf";
    { std::ofstream f(path, std::ios::binary); f.write(reinterpret_cast<const char*>(b.data()), std::streamsize(b.size())); }
    std::string out;
    {
        File f;
        try { f.open(path.c_str(), std::ios_base::in); } catch (Exception&) { unlink(path.c_str()); return "readfile outcome=openexc"; }
        if (!f.is_open()) { unlink(path.c_str()); return "readfile outcome=notopen"; }
        std::string objs; size_t n = 0;
        long long heap0 = g_live; g_peak = (long long)g_live;
        while (true) {
            if (PACE_US > 0 && (n % 3) == 1) usleep(useconds_t(PACE_US));   // consumer pacing (native stress runs)
            ObjectHeaderBase* o = f.read();
            g_poll += int(f.good()) + int(f.eof()) + int(f.is_open());   // an application polls the state after every call
            if (!o) break;
            std::string cn = class_of(o); const ClassReflect* c = find_class(cn);
            if (!HEAP) objs += " | " + cn + " " + (c ? dump_obj(c, o) : std::string("?"));
            delete o; n++;
            if (n > 200000) { _exit(77); }   // unbounded object stream: reported as hang by the parent
        }
        bool good = f.good(), eof = f.eof();
        f.close();
        out = "readfile outcome=ended count=" + std::to_string(uint32_t(f.currentObjectCount)) + " usize=" + std::to_string(f.currentUncompressedFileSize) +
              " n=" + std::to_string(n) + (HEAP ? " peak=" + std::to_string((long long)g_peak - heap0) : std::string()) + " stats " + dump_stats(f.fileStatistics) + (HEAP ? std::string() : objs);
        if (good || !eof) out += " BADEOF";
    }
    unlink(path.c_str());
    return out;
}

static std::string do_writefile(std::istringstream& is) {
    std::string path = TMPD + "/vblf-w" + std::to_string(getpid()) + ".blf";
    std::string tok; std::vector<std::string> toks; while (is >> tok) toks.push_back(tok);
    File* fp = new File; File& f = *fp; size_t i = 0; bool noclose = false;
    for (; i < toks.size() && toks[i] != ";;"; i++) {
        const std::string& t = toks[i]; size_t e = t.find('='); if (e == std::string::npos) continue;
        std::string k = t.substr(0, e), v = t.substr(e + 1);
        if (k == "level") f.compressionLevel = atoi(v.c_str());
        else if (k == "cs") f.setDefaultLogContainerSize(uint32_t(strtoul(v.c_str(), nullptr, 10)));
        else if (k == "rp") f.writeRestorePoints = (v == "1");
        else if (k[0] == 'h') { int id = atoi(k.c_str() + 1); std::vector<uint8_t> b = unhex(v); FileStatistics& s = f.fileStatistics; uint64_t x = 0; memcpy(&x, b.data(), b.size() < 8 ? b.size() : 8);
            switch (id) { case 0: s.signature = uint32_t(x); break; case 1: s.statisticsSize = uint32_t(x); break; case 2: s.apiNumber = uint32_t(x); break; case 3: s.applicationId = uint8_t(x); break;
              case 4: s.compressionLevel = uint8_t(x); break; case 5: s.applicationMajor = uint8_t(x); break; case 6: s.applicationMinor = uint8_t(x); break; case 7: s.fileSize = x; break;
              case 8: s.uncompressedFileSize = x; break; case 9: s.objectCount = uint32_t(x); break; case 10: s.applicationBuild = uint32_t(x); break;
              case 11: memcpy(&s.measurementStartTime, b.data(), b.size() < 16 ? b.size() : 16); break; case 12: memcpy(&s.lastObjectTime, b.data(), b.size() < 16 ? b.size() : 16); break;
              case 13: s.restorePointsOffset = x; break; case 14: memcpy(s.reservedFileStatistics.data(), b.data(), b.size() < 64 ? b.size() : 64); break; default: break; } }
    }
    f.open(path.c_str(), std::ios_base::out);
    if (!f.is_open()) return "writefile notopen";
    while (i < toks.size()) {
        if (toks[i] == ";;") { i++; continue; }
        if (toks[i][0] == '@') {    // pseudo-objects: API calls in the middle of the session
            const std::string& t = toks[i]; i++;
            if (t == "@z") usleep(300000);
            else if (t.rfind("@cs=", 0) == 0) f.setDefaultLogContainerSize(uint32_t(strtoul(t.c_str() + 4, nullptr, 10)));
            else if (t.rfind("@level=", 0) == 0) f.compressionLevel = atoi(t.c_str() + 7);
            else if (t == "@noclose") noclose = true;       // the File is destroyed without an explicit close()
            continue;
        }
        const ClassReflect* c = find_class(toks[i]); i++;
        if (!c) { while (i < toks.size() && toks[i] != ";;") i++; continue; }
        ObjectHeaderBase* o = c->make();
        for (; i < toks.size() && toks[i] != ";;"; i++) { size_t e = toks[i].find('='); if (e == std::string::npos) continue; std::vector<uint8_t> b = unhex(toks[i].substr(e + 1)); c->set(o, atoi(toks[i].substr(0, e).c_str()), b.data(), b.size()); }
        if (PACE_US > 0 && (i % 5) == 2) usleep(useconds_t(PACE_US));   // producer pacing
        f.write(o);
        g_poll += int(f.good()) + int(f.eof()) + int(f.is_open());   // (in a write session the workers change that state concurrently)
    }
    if (!noclose) f.close();
    delete fp;
    std::ifstream in(path, std::ios::binary); std::vector<uint8_t> b((std::istreambuf_iterator<char>(in)), std::istreambuf_iterator<char>());
    unlink(path.c_str());
    return "writefile out=" + to_hex(b.data(), b.size());
}

// heap experiment (C12): write `n` AppText objects of `payload` bytes with container size `cs`, read them back with a
// consumer that stalls, report the peak live heap of each session
static std::string do_heap(std::istringstream& is) {
    long n = 0, payload = 0; unsigned cs = 4096; int level = 0; long stall_every = 0, stall_us = 0; long unknown_every = 0;
    long damage = 0;
    is >> n >> payload >> cs >> level >> stall_every >> stall_us >> unknown_every >> damage;   // unknown_every = k: all but every k-th object carry a type code the reader does not know
    // damage = 1 (level 0 only): the declared size of the first object is zeroed after writing, so that the parser gives up at once;
    // the application notices the end, dawdles for 400 ms and only then closes
    std::string path = TMPD + "/vblf-m" + std::to_string(getpid()) + ".blf";
    long long wpeak = 0, rpeak = 0; long got = 0;
    {
        long long h0 = g_live; g_peak = (long long)g_live;
        File f; f.compressionLevel = level; f.setDefaultLogContainerSize(cs); f.open(path.c_str(), std::ios_base::out);
        for (long i = 0; i < n; i++) { auto* a = new AppText; a->text = std::string(size_t(payload), char('a' + i % 26));
            if (unknown_every > 0 && (i + 1) % unknown_every != 0) a->objectType = static_cast<ObjectType>(200);
            f.write(a); }
        f.close(); wpeak = (long long)g_peak - h0;
    }
    if (damage && level == 0) { std::fstream p(path, std::ios::in | std::ios::out | std::ios::binary); p.seekp(144 + 32 + 8); const char z[4] = {0, 0, 0, 0}; p.write(z, 4); }
    {
        long long h0 = g_live; g_peak = (long long)g_live;
        File f; f.open(path.c_str(), std::ios_base::in);
        while (true) { if (stall_every > 0 && got % stall_every == stall_every - 1) usleep(useconds_t(stall_us)); ObjectHeaderBase* o = f.read(); if (!o) break; delete o; got++; }
        if (damage) usleep(400000);
        f.close(); rpeak = (long long)g_peak - h0;
    }
    unlink(path.c_str());
    return "heap n=" + std::to_string(n) + " got=" + std::to_string(got) + " wpeak=" + std::to_string(wpeak) + " rpeak=" + std::to_string(rpeak);
}

#include <dirent.h>
static int count_threads() { int n = 0; DIR* d = opendir("/proc/self/task"); if (!d) return -1; while (dirent* e = readdir(d)) if (e->d_name[0] != '.') n++; closedir(d); return n; }

// API histories (C13): api <validfile-hex> <op> <op> ...   ops: om ou oi oo r w c d
static std::string do_api(std::istringstream& is) {
    std::string h; is >> h; std::vector<uint8_t> b = unhex(h);
    std::string valid = TMPD + "/vblf-a" + std::to_string(getpid()) + ".blf";
    std::string outp = TMPD + "/vblf-ao" + std::to_string(getpid()) + ".blf";
    { std::ofstream f(valid, std::ios::binary); f.write(reinterpret_cast<const char*>(b.data()), std::streamsize(b.size())); }
    std::string out; std::string op; out.reserve(1 << 16); op.reserve(64);
    long long live0 = g_live; int threads0 = count_threads();
    for (int i = 0; i < 50; i++) { usleep(10000); int t = count_threads(); if (t == threads0) break; threads0 = t; }   // settled (see below)
    long appOwned = 0;
    {
        File* f = new File;
        auto obs = [&](const char* tag, const std::string& extra) { out += std::string(out.empty() ? "" : " | ") + tag + extra + " open=" + (f->is_open() ? "1" : "0") + " good=" + (f->good() ? "1" : "0") + " eof=" + (f->eof() ? "1" : "0"); };
        while (is >> op) {
            if (op == "om") { try { f->open((TMPD + "/no-such-dir/missing.blf").c_str(), std::ios_base::in); obs("om", ""); } catch (Exception&) { obs("om", " exc"); } }
            else if (op == "ou") { try { f->open((TMPD + "/no-such-dir/x/out.blf").c_str(), std::ios_base::out); obs("ou", ""); } catch (Exception&) { obs("ou", " exc"); } }
            else if (op == "oi") { try { f->open(valid.c_str(), std::ios_base::in); obs("oi", ""); } catch (Exception&) { obs("oi", " exc"); } }
            else if (op == "oo") { try { f->open(outp.c_str(), std::ios_base::out); obs("oo", ""); } catch (Exception&) { obs("oo", " exc"); } }
            else if (op == "ob") { try { f->open(outp.c_str(), std::ios_base::out | std::ios_base::binary); obs("ob", ""); } catch (Exception&) { obs("ob", " exc"); } }
            else if (op == "ot") { try { f->open(outp.c_str(), std::ios_base::out | std::ios_base::trunc); obs("ot", ""); } catch (Exception&) { obs("ot", " exc"); } }
            else if (op == "ib") { try { f->open(valid.c_str(), std::ios_base::in | std::ios_base::binary); obs("ib", ""); } catch (Exception&) { obs("ib", " exc"); } }
            else if (op == "r") { ObjectHeaderBase* o = f->read(); if (o) { delete o; obs("r", " obj"); } else obs("r", " null"); }
            else if (op == "w") { auto* a = new AppText; a->text = "history"; f->write(a); obs("w", ""); }
            else if (op == "c") { f->close(); obs("c", ""); }
            else if (op == "z") { usleep(150000); }     // let the workers run into whatever they block on (no observation)
            else if (op == "d") { delete f; f = nullptr; break; }
        }
        if (f) delete f;
    }
    unlink(valid.c_str()); unlink(outp.c_str());
    long long leak = (long long)g_live - live0; int threads1 = count_threads();
    // a thread that has been joined may stay listed in /proc/self/task for a moment (the joiner is released when the kernel
    // clears the tid, before the task is reaped): a thread that was really left behind stays, so look again for up to 2 s
    for (int i = 0; i < 100 && threads1 != threads0; i++) { usleep(20000); threads1 = count_threads(); }
    (void)appOwned;
    return "api " + out + " | end leak=" + std::to_string(leak) + " threads=" + std::to_string(threads1 - threads0);
}

static std::string handle(const std::string& line) {
    std::istringstream is(line); std::string cmd; is >> cmd;
    if (cmd == "heap") return do_heap(is);
    if (cmd == "api") return do_api(is);
    if (cmd == "readfile") return do_readfile(is);
    if (cmd == "writefile") return do_writefile(is);
    return "bad-request";
}

int main() {
    if (const char* e = getenv("VERIF_CAP")) CAP = size_t(strtoull(e, nullptr, 10));
    if (const char* e = getenv("VERIF_WATCHDOG_S")) WATCHDOG_S = atoi(e);
    if (const char* e = getenv("VERIF_TMPD")) TMPD = e;
    if (const char* e = getenv("VERIF_PACE_US")) PACE_US = atoi(e);
    if (const char* e = getenv("VERIF_HEAP")) HEAP = atoi(e);
    std::ios::sync_with_stdio(false);
    std::string line;
    while (std::getline(std::cin, line)) {
        if (!line.empty() && line[0] == '!') line = line.substr(1);
        fflush(stdout); std::cout.flush();
        int fd[2]; if (pipe(fd)) return 3;
        pid_t p = fork();
        if (p == 0) {
            close(fd[0]); alarm(unsigned(WATCHDOG_S));
            std::string r;
            try { r = handle(line) + "\n"; } catch (std::exception& e) { r = std::string("escaped-exception ") + e.what() + "\n"; } catch (...) { r = "escaped-exception\n"; }
            ssize_t w = write(fd[1], r.data(), r.size()); (void)w; _exit(0);
        }
        close(fd[1]); std::string r; char buf[65536]; ssize_t n;
        while ((n = read(fd[0], buf, sizeof buf)) > 0) r.append(buf, size_t(n));
        close(fd[0]); int st = 0; waitpid(p, &st, 0);
        std::string cmd = line.substr(0, line.find(' '));
        if (WIFEXITED(st) && WEXITSTATUS(st) == 0 && !r.empty()) std::cout << r;
        else if ((WIFSIGNALED(st) && WTERMSIG(st) == SIGALRM) || (WIFEXITED(st) && WEXITSTATUS(st) == 77)) std::cout << cmd << " outcome=hang\n";
        else std::cout << cmd << " outcome=crash status=" << (WIFSIGNALED(st) ? 1000 + WTERMSIG(st) : WEXITSTATUS(st)) << "\n";
        std::cout.flush();
    }
    return 0;
}
