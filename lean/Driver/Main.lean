import Blf.Gen.All
import Blf.Codec.Determinacy
import Blf.Spec.ObjectTypes
/-!
# Line-protocol driver for the correspondence harness (tie D)

One request per input line, one answer per output line.  The same lines are fed to the C++ harness,
which calls the real library; the two output streams are diffed by `checks/run.py`.

  enc <Class> <fid>=<hex> ...      encode an object (fields not listed keep constructor defaults)
  dec <Class> <hex>                decode bytes into a default-constructed object
  dflt <Class>                     dump the default-constructed object
-/
open Blf

def hexDigit (c : Char) : Option Nat :=
  if '0' ≤ c ∧ c ≤ '9' then some (c.toNat - '0'.toNat)
  else if 'a' ≤ c ∧ c ≤ 'f' then some (c.toNat - 'a'.toNat + 10)
  else if 'A' ≤ c ∧ c ≤ 'F' then some (c.toNat - 'A'.toNat + 10)
  else none

def parseHex (s : String) : Option Bytes :=
  let rec go : List Char → List UInt8 → Option (List UInt8)
    | [], acc => some acc.reverse
    | [_], _ => none
    | a :: b :: r, acc =>
      match hexDigit a, hexDigit b with
      | some x, some y => go r (UInt8.ofNat (x * 16 + y) :: acc)
      | _, _ => none
  go s.toList []

def hexNib (n : Nat) : Char := if n < 10 then Char.ofNat (48 + n) else Char.ofNat (87 + n)

def toHex (b : Bytes) : String :=
  String.ofList (b.foldr (fun x acc => hexNib (x.toNat / 16) :: hexNib (x.toNat % 16) :: acc) [])

def haltStr : Halt → String
  | .none => "none" | .ret => "none" | .exc => "exc" | .oob => "oob" | .badAlloc => "badalloc"

def dumpObj (c : Codec) (o : Obj) : String :=
  let rec go : List FieldInfo → Nat → List String → List String
    | [], _, acc => acc.reverse
    | fi :: r, i, acc =>
      let v := match fi.kind with
        | .num w => toHex (leBytes w (o.num i))
        | _ => toHex (o.buf i)
      go r (i + 1) ((toString i ++ "=" ++ v) :: acc)
  " ".intercalate (go c.fields 0 [])

def setField (c : Codec) (o : Obj) (i : Nat) (b : Bytes) : Obj :=
  match c.fields[i]? with
  | some fi => match fi.kind with
    | .num w => o.setNum i (leVal (b.take w))
    | _ => o.setBuf i b
  | none => o

def findCodec (n : String) : Option Codec := Gen.allCodecs.find? (·.name == n)


def handle (cfg : Cfg) (line : String) : String :=
  match line.trimAscii.toString.splitOn " " with
  | "enc" :: cn :: rest =>
    match findCodec cn with
    | none => "bad-class"
    | some c =>
      let o := rest.foldl (fun o tok =>
        match tok.splitOn "=" with
        | [i, h] => match i.toNat?, parseHex h with
          | some i, some b => setField c o i b
          | _, _ => o
        | _ => o) c.fresh
      let s0 := c.sizeExpr.eval o
      let st := c.encode cfg o
      "enc halt=" ++ haltStr st.halt ++ " size0=" ++ toString s0 ++ " out=" ++ toHex st.out ++
        (if st.halt == .oob then "" else " obj " ++ dumpObj c st.obj)
  | "dec" :: cn :: hs =>
    match findCodec cn, parseHex (String.join hs) with
    | some c, some b =>
      let st := c.decode cfg c.fresh b
      "dec halt=" ++ haltStr st.halt ++ (if st.halt == .oob || st.halt == .badAlloc then "" else
        " pos=" ++ toString st.pos ++ " good=" ++ toString st.good ++ " eof=" ++ toString st.eof ++
        " short=" ++ toString st.short ++ " obj " ++ dumpObj c st.obj)
    | _, _ => "bad-request"
  | "reenc" :: cn :: hs =>
    match findCodec cn, parseHex (String.join hs) with
    | some c, some b =>
      let st := c.decode cfg c.fresh b
      if st.halt == .oob || st.halt == .badAlloc then "reenc halt=" ++ haltStr st.halt else
      let r := "reenc halt=" ++ haltStr st.halt ++
        " pos=" ++ toString st.pos ++ " good=" ++ toString st.good ++ " eof=" ++ toString st.eof ++
        " short=" ++ toString st.short
      if st.halt == .none && !st.short then
        let e := c.encode cfg st.obj
        r ++ " ehalt=" ++ haltStr e.halt ++ " out=" ++ toHex e.out ++ " obj " ++ dumpObj c e.obj
      else r ++ " obj " ++ dumpObj c st.obj
    | _, _ => "bad-request"
  | ["tables"] =>
    "tables " ++ " ".intercalate (Gen.allCodecs.map fun c =>
      let b (x : Bool) := if x then "1" else "0"
      c.name ++ "=" ++ b c.inputsInit ++ b c.arraysInit ++ b c.allInit ++
        b (Spec.lookupCode Gen.factoryTable c.ctorType == some c.name))
  | ["regcheck"] =>
    "regcheck " ++ " ".intercalate (Gen.regularLayouts.map fun p =>
      p.1.name ++ "=" ++ (if regularCheck p.1 p.2 then "1" else "0"))
  | ["factory", code] =>
    match code.toNat? with
    | some k => "factory " ++ toString k ++ " " ++ (match Spec.lookupCode Gen.factoryTable k with
        | some n => n
        | none => "none")
    | none => "bad-request"
  | ["dflt", cn] =>
    match findCodec cn with
    | some c => "dflt type=" ++ toString c.ctorType ++ " obj " ++ dumpObj c c.fresh
    | none => "bad-class"
  | _ => "bad-request"

partial def loop (cfg : Cfg) (hin : IO.FS.Stream) (hout : IO.FS.Stream) : IO Unit := do
  let line ← hin.getLine
  if line.isEmpty then return ()
  hout.putStrLn (handle cfg line)
  loop cfg hin hout

def main : IO Unit := do
  let hin ← IO.getStdin
  let hout ← IO.getStdout
  let cap := match (← IO.getEnv "VERIF_CAP") with
    | some s => s.toNat?.getD 268435456
    | none => 268435456
  loop { cap := cap } hin hout
