import Blf.Gen.All
import Blf.Codec.Safe
import Blf.Codec.Pos
import Blf.Codec.Determinacy
import Blf.Spec.ObjectTypes
import Blf.UFile
import Blf.Queue
import Blf.Queue32
import Blf.FileSeq
import Blf.Api
/-!
# Line-protocol driver for the correspondence harness (tie D)

One request per input line, one answer per output line.  The same lines are fed to the C++ harness,
which calls the real library; the two output streams are diffed by `checks/run.py`.

  enc <Class> <fid>=<hex> ...      encode an object (fields not listed keep constructor defaults)
  dec <Class> <hex>                decode bytes into a default-constructed object
  dflt <Class>                     dump the default-constructed object
-/
open Blf

def hexDigit (c : Char) : Option Nat :=
  if '0' ≤ c ∧ c ≤ '9' then some (c.toNat - '0'.toNat)
  else if 'a' ≤ c ∧ c ≤ 'f' then some (c.toNat - 'a'.toNat + 10)
  else if 'A' ≤ c ∧ c ≤ 'F' then some (c.toNat - 'A'.toNat + 10)
  else none

def parseHex (s : String) : Option Bytes :=
  let rec go : List Char → List UInt8 → Option (List UInt8)
    | [], acc => some acc.reverse
    | [_], _ => none
    | a :: b :: r, acc =>
      match hexDigit a, hexDigit b with
      | some x, some y => go r (UInt8.ofNat (x * 16 + y) :: acc)
      | _, _ => none
  go s.toList []

def hexNib (n : Nat) : Char := if n < 10 then Char.ofNat (48 + n) else Char.ofNat (87 + n)

def toHex (b : Bytes) : String :=
  String.ofList (b.foldr (fun x acc => hexNib (x.toNat / 16) :: hexNib (x.toNat % 16) :: acc) [])

def haltStr : Halt → String
  | .none => "none" | .ret => "none" | .exc => "exc" | .oob => "oob" | .badAlloc => "badalloc"

def dumpObj (c : Codec) (o : Obj) : String :=
  let rec go : List FieldInfo → Nat → List String → List String
    | [], _, acc => acc.reverse
    | fi :: r, i, acc =>
      let v := match fi.kind with
        | .num w => toHex (leBytes w (o.num i))
        | _ => toHex (o.buf i)
      go r (i + 1) ((toString i ++ "=" ++ v) :: acc)
  " ".intercalate (go c.fields 0 [])

def setField (c : Codec) (o : Obj) (i : Nat) (b : Bytes) : Obj :=
  match c.fields[i]? with
  | some fi => match fi.kind with
    | .num w => o.setNum i (leVal (b.take w))
    | _ => o.setBuf i b
  | none => o

def findCodec (n : String) : Option Codec := Gen.allCodecs.find? (·.name == n)


def handle (cfg : Cfg) (line : String) : String :=
  match line.trimAscii.toString.splitOn " " with
  | "enc" :: cn :: rest =>
    match findCodec cn with
    | none => "bad-class"
    | some c =>
      let o := rest.foldl (fun o tok =>
        match tok.splitOn "=" with
        | [i, h] => match i.toNat?, parseHex h with
          | some i, some b => setField c o i b
          | _, _ => o
        | _ => o) c.fresh
      let s0 := c.sizeExpr.eval o
      let st := c.encode cfg o
      "enc halt=" ++ haltStr st.halt ++ " size0=" ++ toString s0 ++ " out=" ++ toHex st.out ++
        (if st.halt == .oob then "" else " obj " ++ dumpObj c st.obj)
  | "dec" :: cn :: hs =>
    match findCodec cn, parseHex (String.join hs) with
    | some c, some b =>
      let st := c.decode cfg c.fresh b
      "dec halt=" ++ haltStr st.halt ++ (if st.halt == .oob || st.halt == .badAlloc then "" else
        " pos=" ++ toString st.pos ++ " good=" ++ toString st.good ++ " eof=" ++ toString st.eof ++
        " short=" ++ toString st.short ++ " obj " ++ dumpObj c st.obj)
    | _, _ => "bad-request"
  | "reenc" :: cn :: hs =>
    match findCodec cn, parseHex (String.join hs) with
    | some c, some b =>
      let st := c.decode cfg c.fresh b
      if st.halt == .oob || st.halt == .badAlloc then "reenc halt=" ++ haltStr st.halt else
      let r := "reenc halt=" ++ haltStr st.halt ++
        " pos=" ++ toString st.pos ++ " good=" ++ toString st.good ++ " eof=" ++ toString st.eof ++
        " short=" ++ toString st.short
      if st.halt == .none && !st.short then
        let e := c.encode cfg st.obj
        r ++ " ehalt=" ++ haltStr e.halt ++ " out=" ++ toHex e.out ++ " dec " ++ dumpObj c st.obj ++ " obj " ++ dumpObj c e.obj
      else r ++ " obj " ++ dumpObj c st.obj
    | _, _ => "bad-request"
  | ["tables"] =>
    "tables " ++ " ".intercalate (Gen.allCodecs.map fun c =>
      let b (x : Bool) := if x then "1" else "0"
      c.name ++ "=" ++ b c.inputsInit ++ b c.arraysInit ++ b c.allInit ++
        b (Spec.lookupCode Gen.factoryTable c.ctorType == some c.name))
  | ["safecheck"] =>
    "safecheck " ++ " ".intercalate ((Gen.allCodecs ++ [Gen.ObjectHeaderBase]).map fun c =>
      c.name ++ "=" ++ (if readSafe c then "1" else "0") ++ (if c.readProg.syncFirst then "1" else "0"))
  | ["regcheck"] =>
    "regcheck " ++ " ".intercalate (Gen.regularLayouts.map fun p =>
      p.1.name ++ "=" ++ (if regularCheck p.1 p.2 then "1" else "0"))
  | ["factory", code] =>
    match code.toNat? with
    | some k => "factory " ++ toString k ++ " " ++ (match Spec.lookupCode Gen.factoryTable k with
        | some n => n ++ " type=" ++ (match Gen.allCodecs.find? (·.name == n) with
            | some c => toString c.ctorType
            | none => "?")
        | none => "none")
    | none => "bad-request"
  | ["dflt", cn] =>
    match findCodec cn with
    | some c => "dflt type=" ++ toString c.ctorType ++ " obj " ++ dumpObj c c.fresh
    | none => "bad-class"
  | _ => "bad-request"

/-- zlib stands outside the model: the requests carry the answers of the real zlib as tables -/
def mkZlib (toks : List String) : FileSeq.Zlib :=
  let zi := toks.filterMap fun t =>
    if t.startsWith "zi=" then
      match (t.drop 3).toString.splitOn ":" with
      | [c, n, p] => match parseHex c, n.toNat? with
        | some cb, some k => some (cb, k, if p == "!" then none else parseHex p)
        | _, _ => none
      | _ => none
    else none
  let zd := toks.filterMap fun t =>
    if t.startsWith "zd=" then
      match (t.drop 3).toString.splitOn ":" with
      | [l, p, c] => match l.toNat?, parseHex p, parseHex c with
        | some k, some pb, some cb => some (k, pb, cb)
        | _, _, _ => none
      | _ => none
    else none
  { inflate := fun c n => match zi.find? (fun e => e.1 == c && e.2.1 == n) with
      | some e => e.2.2
      | none => none
    deflate := fun l p => match zd.find? (fun e => e.1 == l && e.2.1 == p) with
      | some e => e.2.2
      | none => [] }

def dumpStats (o : Obj) : String :=
  " ".intercalate ((FileSeq.statsScalars.map fun p => toString p.1 ++ "=" ++ toHex (leBytes p.2 (o.num p.1))) ++
    ["11=" ++ toHex (o.buf 11), "12=" ++ toHex (o.buf 12), "13=" ++ toHex (leBytes 8 (o.num 13)), "14=" ++ toHex (o.buf 14)])

def outcomeStr : FileSeq.Outcome → String
  | .ended => "ended" | .openException => "openexc" | .hang => "hang" | .oob => "oob"

/-- the object parser stopped (exception, undecodable object) before the end of the uncompressed stream: in the implementation the
    application then closes the file while the inflater may still be counting containers, so `currentUncompressedFileSize`
    depends on the schedule (anything up to the model's value) -/
def readEarly (Z : FileSeq.Zlib) (cap : Nat) (file : Bytes) : Bool :=
  let s1 := (Stmt.rd 0 4).exec (FileSeq.stickyCfg cap) { obj := FileSeq.statsDefault, inp := file }
  if s1.obj.num 0 ≠ FileSeq.FILESIG then false else
  let s2 := FileSeq.statsReadRest.exec (FileSeq.stickyCfg cap) s1
  let cs := FileSeq.containerLoop Z cap (file.length + 2) { st := s2, usize := s2.obj.num 1 }
  match FileSeq.flattenConts cs.conts.reverse with
  | none => false
  | some B =>
    let ps := FileSeq.objectLoop cap (4 * B.length + 64) { st := { obj := FileSeq.statsDefault, inp := B } }
    decide (ps.st.pos < B.length)

def handleFile (cfg : Cfg) (toks : List String) : String :=
  match toks with
  | "readfile" :: h :: rest =>
    match parseHex (if h == "-" then "" else h) with
    | some file =>
      let r := FileSeq.readFile (mkZlib rest) cfg.cap file
      "readfile outcome=" ++ outcomeStr r.outcome ++
        (if r.outcome == .openException then "" else
         " count=" ++ toString r.objectCount ++ " usize=" ++ toString r.uncompressedSize ++
         (if readEarly (mkZlib rest) cfg.cap file then " early=1" else "") ++ " n=" ++ toString r.objs.length ++
         (if r.outcome == .ended then
            " stats " ++ dumpStats r.stats ++
            String.join (r.objs.map fun p => " | " ++ p.1 ++ " " ++
              (match Gen.allCodecs.find? (·.name == p.1) with
               | some c => dumpObj c p.2
               | none => "?"))
          else ""))
    | none => "bad-request"
  | "writefile" :: rest =>
    -- writefile level=<l> cs=<n> rp=<0|1> [h<id>=<hex> ...] [zd=...] ;; Class f=hex ... ;; Class ...
    let opts := rest.takeWhile (· != ";;")
    let getN (k : String) (d : Nat) : Nat :=
      match opts.find? (·.startsWith (k ++ "=")) with
      | some t => ((t.drop (k.length + 1)).toString.toNat?).getD d
      | none => d
    let hdr := opts.foldl (fun o t =>
      if t.startsWith "h" then
        match (t.drop 1).toString.splitOn "=" with
        | [i, hx] => match i.toNat?, parseHex hx with
          | some i, some b => if i = 11 ∨ i = 12 ∨ i = 14 then o.setBuf i b else o.setNum i (leVal b)
          | _, _ => o
        | _ => o
      else o) FileSeq.statsDefault
    let rec groups (l : List String) (cur : List String) (acc : List (List String)) : List (List String) :=
      match l with
      | [] => (cur.reverse :: acc).reverse
      | ";;" :: r => groups r [] (cur.reverse :: acc)
      | t :: r => groups r (t :: cur) acc
    let gs := (groups (rest.dropWhile (· != ";;")) [] []).filter (· != [])
    let objs := gs.filterMap fun g =>
      match g with
      | cn :: fs =>
        match findCodec cn with
        | some c => some (c, fs.foldl (fun o tok =>
            match tok.splitOn "=" with
            | [i, h] => match i.toNat?, parseHex h with
              | some i, some b => setField c o i b
              | _, _ => o
            | _ => o) c.fresh)
        | none => none
      | [] => none
    let out := FileSeq.writeFile (mkZlib opts) cfg.cap
      { level := getN "level" 1, containerSize := getN "cs" 131072, restorePoints := getN "rp" 1 == 1 } hdr objs
    "writefile out=" ++ toHex out
  | _ => "bad-request"

def handleApi (toks : List String) : String :=
  match toks with
  | n :: ops =>
    let nobjs := n.toNat?.getD 0
    let b (x : Bool) := if x then "1" else "0"
    let r := ops.foldl (fun (acc : Api.S × List String) op =>
      let s := acc.1
      let o : Option Api.Op := match op with
        | "om" => some .openMissing | "ou" => some .openUnwritable | "oi" => some (.openIn nobjs) | "oo" => some .openOut
        | "ob" => some .openOut | "ot" => some .openOut | "ib" => some (.openIn nobjs)      -- the same sessions with further openmode bits
        | "r" => some .read | "w" => some .write | "c" => some .close | "d" => some .destroy | _ => none
      match o with
      | none => acc
      | some .destroy => (Api.step s .destroy, acc.2)
      | some o =>
        if s.destroyed then acc else
        let s' := Api.step s o
        let extra := if op == "r" then (if s.remaining > 0 then " obj" else " null") else ""
        (s', (op ++ extra ++ " open=" ++ b s'.isOpen ++ " good=" ++ b s'.good ++ " eof=" ++ b s'.eof) :: acc.2)) (({} : Api.S), [])
    let fin := Api.step r.1 .destroy
    "api " ++ " | ".intercalate r.2.reverse ++ " | end leak=" ++ toString fin.libOwned ++ " threads=" ++ toString fin.threads
  | _ => "bad-request"

structure Sess where
  uf : UFile.State := {}
  q : Queue.State := {}

def b2s (b : Bool) : String := if b then "1" else "0"

def ufObs (s : UFile.State) : String :=
  "tg=" ++ toString (UFile.tellgObs s) ++ " tp=" ++ toString (UFile.tellpObs s) ++ " gc=" ++ toString s.gcount ++
  " fs=" ++ toString s.fileSize ++ " good=" ++ b2s s.good ++ " eof=" ++ b2s s.eof ++ " dlcs=" ++ toString s.dlcs ++
  (if s.oob then " oob" else "") ++ (if s.hang then " hang" else "")

def handleU (ss : Sess) (args : List String) : Sess × String :=
  let s := ss.uf
  match args with
  | ["new"] => ({ ss with uf := {} }, "u ok " ++ ufObs {})
  | ["w", h] =>
    match parseHex h with
    | some b => if UFile.guardWrite s then let s' := UFile.write s b; ({ ss with uf := s' }, "u ok " ++ ufObs s') else (ss, "u block")
    | none => (ss, "bad-request")
  | "wc" :: sz :: hs =>
    match sz.toNat?, parseHex (String.join hs) with
    | some n, some b =>
      if UFile.guardWriteCont s then let s' := UFile.writeCont s n b; ({ ss with uf := s' }, "u ok " ++ ufObs s') else (ss, "u block")
    | _, _ => (ss, "bad-request")
  | ["r", n] =>
    match n.toNat? with
    | some k =>
      if UFile.guardRead s k then
        let r := UFile.read s k
        ({ ss with uf := r.1 }, "u ok bytes=" ++ toHex r.2 ++ " " ++ ufObs r.1)
      else (ss, "u block")
    | none => (ss, "bad-request")
  | "demand" :: n :: "w" :: _ =>
    match n.toNat? with
    | some k =>
      if UFile.guardRead s k then (ss, "u demand read-returned")
      else (ss, if UFile.guardWrite (UFile.blockRead s k) then "u demand w returned" else "u demand w block")
    | none => (ss, "bad-request")
  | "demand" :: n :: "wc" :: _ =>
    match n.toNat? with
    | some k =>
      if UFile.guardRead s k then (ss, "u demand read-returned")
      else (ss, if UFile.guardWriteCont (UFile.blockRead s k) then "u demand w returned" else "u demand w block")
    | none => (ss, "bad-request")
  | ["sk", off] =>
    match off.toInt? with
    | some k => let s' := UFile.seekg s k; ({ ss with uf := s' }, "u ok " ++ ufObs s')
    | none => (ss, "bad-request")
  | ["nlc"] => let s' := UFile.nextLogContainer s; ({ ss with uf := s' }, "u ok " ++ ufObs s')
  | ["drop"] => let s' := UFile.dropOldData s; ({ ss with uf := s' }, "u ok " ++ ufObs s')
  | ["sfs", n] =>
    match n.toInt? with
    | some k => let s' := UFile.setFileSize s k; ({ ss with uf := s' }, "u ok " ++ ufObs s')
    | none => (ss, "bad-request")
  | ["sbs", n] =>
    match n.toInt? with
    | some k => let s' := UFile.setBufferSize s k; ({ ss with uf := s' }, "u ok " ++ ufObs s')
    | none => (ss, "bad-request")
  | ["sdlcs", n] =>
    match n.toNat? with
    | some k => let s' := UFile.setDlcs s k; ({ ss with uf := s' }, "u ok " ++ ufObs s')
    | none => (ss, "bad-request")
  | ["abort"] => let s' := UFile.doAbort s; ({ ss with uf := s' }, "u ok " ++ ufObs s')
  | ["held"] =>
    (ss, "u held n=" ++ toString s.data.length ++ " c=" ++
      ",".intercalate (s.data.map fun c => toString c.pos ++ ":" ++ toString c.size ++ ":" ++ toString c.data.length))
  | _ => (ss, "bad-request")

def qObs (s : Queue.State) : String :=
  "tg=" ++ toString s.tellg ++ " tp=" ++ toString s.tellp ++ " good=" ++ b2s s.good ++ " eof=" ++ b2s s.eof

def handleQ (ss : Sess) (args : List String) : Sess × String :=
  let s := ss.q
  let run (op : Queue.Op) : Sess × String :=
    -- the machine with the `uint32_t` counters of the code; `Queue.run32_eq_run`: = `Queue.guard` / `Queue.step` below the wrap
    if Queue.guard32 s op then
      let r := Queue.step32 s op
      let ret := match r.2 with
        | some (some x) => " ret=" ++ toString x
        | some none => " ret=null"
        | none => ""
      ({ ss with q := r.1 }, "q ok" ++ ret ++ " " ++ qObs r.1)
    else (ss, "q block")
  match args with
  | ["new"] => ({ ss with q := {} }, "q ok " ++ qObs {})
  | ["r"] => run .read
  | ["w", x] => match x.toNat? with | some k => run (.write k) | none => (ss, "bad-request")
  | ["abort"] => run .abort
  | ["pos", a, b] => match a.toNat?, b.toNat? with
    | some g, some p => let s' := { s with tellg := g % Queue.W, tellp := p % Queue.W }; ({ ss with q := s' }, "q ok " ++ qObs s')
    | _, _ => (ss, "bad-request")
  | ["sfs", n] => match n.toNat? with | some k => run (.setFileSize k) | none => (ss, "bad-request")
  | ["sbs", n] => match n.toNat? with | some k => run (.setBufferSize k) | none => (ss, "bad-request")
  | _ => (ss, "bad-request")

partial def loop (cfg : Cfg) (ss : Sess) (hin : IO.FS.Stream) (hout : IO.FS.Stream) : IO Unit := do
  let line ← hin.getLine
  if line.isEmpty then return ()
  match line.trimAscii.toString.splitOn " " with
  | "u" :: args =>
    let (ss', out) := handleU ss args
    hout.putStrLn out
    loop cfg ss' hin hout
  | "q" :: args =>
    let (ss', out) := handleQ ss args
    hout.putStrLn out
    loop cfg ss' hin hout
  | ["useq", ops] =>
    let outs := (ops.splitOn ";").foldl (fun (acc : Sess × List String) op =>
      let r := handleU acc.1 (op.splitOn ":")
      (r.1, r.2 :: acc.2)) ({ uf := {} }, [])
    hout.putStrLn ("useq " ++ " | ".intercalate outs.2.reverse)
    loop cfg ss hin hout
  | ["qseq", ops] =>
    let outs := (ops.splitOn ";").foldl (fun (acc : Sess × List String) op =>
      let r := handleQ acc.1 (op.splitOn ":")
      (r.1, r.2 :: acc.2)) ({ q := {} }, [])
    hout.putStrLn ("qseq " ++ " | ".intercalate outs.2.reverse)
    loop cfg ss hin hout
  | "api" :: rest =>
    hout.putStrLn (handleApi rest)
    loop cfg ss hin hout
  | "readfile" :: rest =>
    hout.putStrLn (handleFile cfg ("readfile" :: rest))
    loop cfg ss hin hout
  | "writefile" :: rest =>
    hout.putStrLn (handleFile cfg ("writefile" :: rest))
    loop cfg ss hin hout
  | _ =>
    hout.putStrLn (handle cfg line)
    loop cfg ss hin hout

def main : IO Unit := do
  let hin ← IO.getStdin
  let hout ← IO.getStdout
  let cap := match (← IO.getEnv "VERIF_CAP") with
    | some s => s.toNat?.getD 268435456
    | none => 268435456
  loop { cap := cap } {} hin hout
