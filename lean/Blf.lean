-- This module serves as the root of the `Blf` library.
-- Import modules here that should be built as part of the library.
import Blf.Basic
