import Blf.Bytes
import Blf.Codec.Lang
import Blf.Codec.Items
import Blf.Codec.Canon
import Blf.Codec.Linear
import Blf.Codec.Regular
