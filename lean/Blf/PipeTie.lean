import Blf.Pipe
import Blf.UFileRefine
/-!
# The positions of `Blf.UFile` move as `Blf.Pipe` assumes

`Blf.Pipe` represents the in-memory stream by its positions.  Here: the guards of `Blf.UFile` are the guards of
`Blf.Pipe.UP` on the projected state, and each method moves the projected state as the corresponding step of
`Blf.Pipe.Step` does.  (`Blf.UFile` itself is tied to the C++ class by the `useq` correspondence runs.)
-/
namespace Blf.PipeTie
open Blf.UFile Blf.Pipe

def up (s : State) : UP :=
  { tellg := s.tellg, tellp := s.tellp, fileSize := s.fileSize, bufferSize := s.bufferSize, demand := s.readDemand,
    abort := s.abort }

theorem guardRead_up (s : State) (n : Nat) : guardRead s n = (up s).guardRead n := rfl
theorem guardWrite_up (s : State) : guardWrite s = (up s).guardWrite := rfl
theorem guardWriteCont_up (s : State) : guardWriteCont s = (up s).guardWrite := rfl

theorem writeCont_up (s : State) (size : Nat) (d : Bytes) :
    up (writeCont s size d) = { up s with tellp := (up s).tellp + size } := rfl

theorem blockRead_up (s : State) (n : Nat) :
    up (blockRead s n) = { up s with demand := (n : Int) + (up s).tellg } := rfl

theorem seekg_up (s : State) (off : Int) :
    up (seekg s off) = { up s with tellg := min ((up s).tellg + off) (up s).fileSize } := rfl

theorem setFileSize_up (s : State) (n : Int) : up (setFileSize s n) = { up s with fileSize := n } := rfl
theorem doAbort_up (s : State) : up (doAbort s) = { up s with abort := true } := rfl
theorem dropOldData_up (s : State) : up (dropOldData s) = up s := rfl

/-- the copy loop moves the get position forward by at most the requested amount and touches no other position -/
theorem readLoop_up : ∀ (fuel : Nat) (s : State) (n : Int) (acc : Bytes),
    ∃ j : Nat, (j : Int) ≤ max n 0 ∧ up (readLoop fuel s n acc).1 = { up s with tellg := s.tellg + j } := by
  intro fuel
  induction fuel with
  | zero => intro s n acc; exact ⟨0, by omega, by simp [readLoop, up]⟩
  | succ f ih =>
    intro s n acc
    unfold readLoop
    by_cases hn : n ≤ 0
    · rw [if_pos hn]; exact ⟨0, by omega, by simp [up]⟩
    · rw [if_neg hn]
      cases hc : containing s.data s.tellg with
      | none => exact ⟨0, by omega, by simp [up]⟩
      | some ic =>
        obtain ⟨i, c⟩ := ic
        simp only []
        split
        · exact ⟨0, by omega, by simp [up]⟩
        · have hb : min n.toNat (c.size - (s.tellg - c.pos).toNat) ≤ n.toNat := Nat.min_le_left _ _
          generalize min n.toNat (c.size - (s.tellg - c.pos).toNat) = g at hb ⊢
          obtain ⟨j, hj, he⟩ := ih { s with gcount := s.gcount + g, tellg := s.tellg + (g : Int) } (n - (g : Int))
            (acc ++ (c.data.drop (s.tellg - c.pos).toNat).take g)
          refine ⟨g + j, by omega, ?_⟩
          rw [he]; simp [up]; omega

/-- `read(s, n)` moves the get position forward by at most `n`, clears the published demand and touches no other
    position: it is a `Pipe.Step.uread` with that `j` -/
theorem read_up (s : State) (n : Nat) :
    ∃ j : Nat, j ≤ n ∧ up (UFile.read s n).1 = { up s with tellg := (up s).tellg + j, demand := 0 } := by
  unfold UFile.read
  simp only []
  split
  · next h =>
    obtain ⟨j, hj, he⟩ := readLoop_up (n + 1) { s with gcount := 0, readDemand := 0 }
      (if decide ((n : Int) + s.tellg > s.fileSize) = true then s.fileSize - s.tellg else (n : Int)) []
    refine ⟨j, ?_, by rw [he]; simp [up]⟩
    simp at h
    have h2 := h.2; subst h2
    by_cases hs : ((0 : Nat) : Int) + s.tellg > s.fileSize
    · simp only [hs, decide_true, if_true] at hj; omega
    · simp only [hs, decide_false, Bool.false_eq_true, if_false] at hj; omega
  · obtain ⟨j, hj, he⟩ := readLoop_up (n + 1)
      { s with good := !decide ((n : Int) + s.tellg > s.fileSize), eof := decide ((n : Int) + s.tellg > s.fileSize), gcount := 0, readDemand := 0 }
      (if decide ((n : Int) + s.tellg > s.fileSize) = true then s.fileSize - s.tellg else (n : Int)) []
    refine ⟨j, ?_, by rw [he]; simp [up]⟩
    by_cases hs : (n : Int) + s.tellg > s.fileSize
    · simp only [hs, decide_true, if_true] at hj; omega
    · simp only [hs, decide_false, Bool.false_eq_true, if_false] at hj; omega

end Blf.PipeTie
