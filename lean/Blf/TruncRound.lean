import Blf.FileRound
import Blf.FileSafe
import Blf.Codec.Trunc
/-!
# A stream cut off inside an object: the object is not delivered  (C08, stream level)

`objectStep_cut`: if the uncompressed stream ends inside the body of an object (anywhere from its first byte to the byte
before its last field byte), the parser delivers nothing for it and its loop ends.
-/
namespace Blf.TruncRound
open Blf Blf.FileSeq Blf.FileRound Blf.FileSafe

theorem exec_block_single (cfg : Cfg) (s : Stmt) (st : St) : (Stmt.block [s]).exec cfg st = s.exec cfg st := by
  rw [exec_block_cons]
  by_cases h : (s.exec cfg st).halt = .none
  · rw [if_pos h]; rfl
  · rw [if_neg h]

theorem sync_short_flag (cfg : Cfg) (hs : cfg.sticky = false) (f : Nat) (st : St) (h : st.inp.length < st.pos + 4) :
    ((Stmt.sync f).exec cfg st).short = true := by
  simp only [Stmt.exec]
  have hf : st.inp.length - st.pos + 2 = (st.inp.length - st.pos + 1) + 1 := by omega
  rw [hf]
  unfold syncLoop
  have hr : (st.sread cfg 4).2.short = true := by
    unfold St.sread
    simp only [hs, Bool.false_and, Bool.false_eq_true, if_false]
    rw [if_neg (by omega), if_neg (by omega)]
  generalize st.sread cfg 4 = r at hr
  obtain ⟨got, st1⟩ := r
  simp only at hr ⊢
  split
  · exact hr
  · split
    · exact hr
    · apply syncLoop_short_mono
      split
      · simpa [St.sback] using hr
      · split
        · simpa [St.sback] using hr
        · split
          · simpa [St.sback] using hr
          · exact hr

/-- a header read that ran short, or threw, ends the parser's loop -/
theorem afterHeader_none (cap : Nat) (ps : PState) (hd : St) (h : hd.halt ≠ .none ∨ hd.good = false) :
    afterHeader cap ps hd = none := by
  unfold afterHeader
  by_cases hh : hd.halt ≠ .none
  · rw [if_pos hh]
  · rw [if_neg hh]
    rcases h with h | h
    · exact absurd h hh
    · rw [if_pos (by simp [h])]

/-- the decoder of a parsable object, started at its first byte in a stream that ends inside its body, fails:
    it throws `bad_alloc`, or it comes back short and the stream is not good -/
theorem classStep_cut (cap : Nat) (c : Codec) (lay : Layout) (o : Obj) (hp : Parsable cap c lay o)
    (harr : ArrOK c.fresh lay.items) (ps : PState) (st1 : St) (osz m : Nat) (hok : StreamOK st1)
    (hm4 : 4 ≤ m) (hmb : m < 4 + (encItems (pre c lay o) lay.body).length)
    (hin : st1.inp.drop st1.pos = (enc cap c o).take m) :
    classStep cap ps st1 osz c = none := by
  have hs : (memCfg cap).sticky = false := rfl
  have hwf := itemsWF_pre c lay hp.reg o hp.user
  have hsigp : (pre c lay o).num lay.sigF = SIG := by rw [pre_sig c lay hp.reg, hp.sig0]; exact hp.sig
  obtain ⟨_, hout, _, _, _⟩ := regular_frame (memCfg cap) c lay hp.reg o hwf
  have henc : enc cap c o = leBytes 4 SIG ++ encItems (pre c lay o) lay.items := by unfold enc; rw [hout, hsigp]
  have hl4 : (leBytes 4 SIG).length = 4 := by simp
  -- items = body (++ pad)
  have hitems : ∃ tail, lay.items = lay.body ++ tail := by
    have := hp.reg.sp
    unfold Layout.body
    split at this
    · exact ⟨_, this⟩
    · exact ⟨[], by rw [List.append_nil]; exact this⟩
  obtain ⟨tail, hit⟩ := hitems
  have hokb : itemsOK [lay.sigF] [] lay.body = true := itemsOK_prefix _ _ _ tail (by rw [← hit]; exact hp.reg.ok)
  have hwfb : ItemsWF (pre c lay o) lay.body := by
    have := hwf; rw [hit] at this; exact ((itemsWF_append _ _ _).1 this).1
  have hcapp : ∀ f ew len, Item.var f ew len ∈ lay.body → (pre c lay o).num len * ew ≤ cap := by
    intro f ew len hmem
    have hm' : Item.var f ew len ∈ lay.items := by rw [hit]; exact List.mem_append_left _ hmem
    have hb : (pre c lay o).buf f = o.buf f := pre_buf c lay o f
    have hw : ((pre c lay o).buf f).length = (pre c lay o).num len * ew := itemsWF_mem _ _ hwf _ hm'
    rw [← hw, hb]; exact hp.cap f ew len hm'
  -- the stream from the object's first byte: signature, then a strict prefix of the body
  have hT : st1.inp.drop st1.pos = leBytes 4 SIG ++ (encItems (pre c lay o) lay.body).take (m - 4) := by
    rw [hin, henc, hit, encItems_append, List.take_append, hl4]
    rw [List.take_of_length_le (by omega : (leBytes 4 SIG).length ≤ m)]
    congr 1
    rw [List.take_append_of_le_length (by omega)]
  have hlen : st1.pos + 4 ≤ st1.inp.length := by
    have := congrArg List.length hT
    simp only [List.length_drop, List.length_append, hl4] at this
    omega
  have hsafe := codec_safe c (lookupClass_mem _ c hp.fac)
  simp only [readSafe, Bool.and_eq_true] at hsafe
  have hnoob := (safeAux_sound (memCfg cap) (arrsOf c) c.readProg none { st1 with obj := c.fresh, halt := Halt.none }
    hsafe.1.1 hsafe.1.2 rfl (fresh_arrSized c) (knownOK_none _)).1
  have hokF := exec_okOrFailed (memCfg cap) hs c.readProg { st1 with obj := c.fresh, halt := Halt.none }
    (Or.inl ⟨hok.good, hok.eof, hok.pos, hok.short⟩)
  -- the run: signature found, then the canonical reads hit the end of the stream
  have hrun : (c.readProg.exec (memCfg cap) { st1 with obj := c.fresh, halt := Halt.none }).short = true ∨
      (c.readProg.exec (memCfg cap) { st1 with obj := c.fresh, halt := Halt.none }).halt = .badAlloc ∨
      (c.readProg.exec (memCfg cap) { st1 with obj := c.fresh, halt := Halt.none }).halt = .oob := by
    rw [hp.reg.rd, exec_block_cons]
    rw [exec_sync_at_sig (memCfg cap) hs lay.sigF { st1 with obj := c.fresh, halt := Halt.none } hlen
      (by show (st1.inp.drop st1.pos).take 4 = _; rw [hT]; exact (take_append_len _ _ 4 hl4).1)]
    rw [if_pos (by rfl)]
    have hdrop : st1.inp.drop (st1.pos + 4) = (encItems (pre c lay o) lay.body).take (m - 4) := by
      rw [← List.drop_drop, hT]; exact (take_append_len _ _ 4 hl4).2
    have hag : Agree [lay.sigF] [] (c.fresh.setNum lay.sigF SIG) (pre c lay o) := by
      refine ⟨fun g hg => ?_, fun g hg => by simp at hg⟩
      simp only [List.mem_singleton] at hg; subst hg; simp [hsigp]
    have hdt := dec_trunc cap lay.body [lay.sigF] [] (pre c lay o) (c.fresh.setNum lay.sigF SIG) (m - 4) hokb hp.reg.nf hwfb hag
      hcapp (by omega)
    have hdec : decItems cap lay.items (c.fresh.setNum lay.sigF SIG) ((encItems (pre c lay o) lay.body).take (m - 4)) = none := by
      rw [hit, decItems_append, hdt]
    have hrd := exec_canonRd (memCfg cap) hs lay.items [lay.sigF] []
      { st1 with obj := c.fresh.setNum lay.sigF SIG, halt := Halt.none, pos := st1.pos + 4, good := true, eof := false }
      hp.reg.ok rfl (by simp only; omega) (by intro f n h; simpa using harr f n h)
    simp only [hdrop] at hrd
    have hdec' : decItems (memCfg cap).cap lay.items (c.fresh.setNum lay.sigF SIG)
        ((encItems (pre c lay o) lay.body).take (m - 4)) = none := hdec
    rw [hdec'] at hrd
    simp only at hrd
    rcases hrd with h1 | h1
    · exact Or.inl h1
    · rcases exec_plain_halt (memCfg cap) (Stmt.block (canonRd lay.items))
        { st1 with obj := c.fresh.setNum lay.sigF SIG, halt := Halt.none, pos := st1.pos + 4, good := true, eof := false }
        (canonRd_plain lay.items) with h2 | h2 | h2
      · exact absurd h2 h1
      · exact Or.inr (Or.inr h2)
      · exact Or.inr (Or.inl h2)
  unfold classStep
  generalize c.readProg.exec (memCfg cap) { st1 with obj := c.fresh, halt := Halt.none } = r at hrun hnoob hokF
  dsimp only
  by_cases h1 : r.halt = .badAlloc
  · rw [if_pos h1]
  rw [if_neg h1, if_neg hnoob]
  by_cases h3 : r.halt = .exc
  · rw [if_pos h3]
  rw [if_neg h3]
  have hsh : r.short = true := by
    rcases hrun with h | h | h
    · exact h
    · exact absurd h h1
    · exact absurd h hnoob
  have hg : r.good = false := by
    rcases hokF with h | h
    · rw [h.short] at hsh; cases hsh
    · exact h.good
  rw [if_pos (by simp [hg])]

/-- **the stream ends inside the body of an object**: nothing is delivered for it, the parser's loop ends -/
theorem objectStep_cut (cap : Nat) (c : Codec) (lay : Layout) (o : Obj) (hp : Parsable cap c lay o)
    (harr : ArrOK c.fresh lay.items) (B : Bytes) (ps : PState) (hi : PInv B ps) (m : Nat)
    (hmb : m < 4 + (encItems (pre c lay o) lay.body).length)
    (hin : B.drop ps.st.pos = (enc cap c o).take m) :
    objectStep cap ps = none := by
  have hs : (memCfg cap).sticky = false := rfl
  have hwf := itemsWF_pre c lay hp.reg o hp.user
  have hsigp : (pre c lay o).num lay.sigF = SIG := by rw [pre_sig c lay hp.reg, hp.sig0]; exact hp.sig
  have hsig0 : (pre c lay o).num 0 = SIG := by rw [← hp.sig0]; exact hsigp
  obtain ⟨R, hR⟩ := hp.hdr
  obtain ⟨_, hout, _, _, _⟩ := regular_frame (memCfg cap) c lay hp.reg o hwf
  have henc : enc cap c o = leBytes 4 SIG ++ encItems (pre c lay o) lay.items := by unfold enc; rw [hout, hsigp]
  have hl4 : (leBytes 4 SIG).length = 4 := by simp
  have hwf4 : ItemsWF (pre c lay o) hdr4 := by
    have := hwf; rw [hR] at this; exact ((itemsWF_append _ _ _).1 this).1
  have hlen4 : (encItems (pre c lay o) hdr4).length = 12 := by rw [encItems_length _ _ hwf4]; rfl
  have hinp : ps.st.inp = B := hi.inp
  have hok0 : StreamOK ({ ps.st with obj := Gen.ObjectHeaderBase.fresh, halt := Halt.none } : St) :=
    ⟨hi.ok.good, hi.ok.eof, hi.ok.pos, hi.ok.short⟩
  have hlenT : ps.st.inp.length - ps.st.pos = min m (enc cap c o).length := by
    have := congrArg List.length hin
    simp only [List.length_drop, List.length_take] at this
    rw [hinp]; exact this
  unfold objectStep
  by_cases hm4 : m < 4
  · -- not even the signature is complete
    apply afterHeader_none
    right
    apply exec_short_not_good (memCfg cap) hs _ _ hok0
    rw [FileRound.ohb_prog, exec_block_cons]
    have hsf := sync_short_flag (memCfg cap) hs 0 { ps.st with obj := Gen.ObjectHeaderBase.fresh, halt := Halt.none }
      (by simp only; have := hi.ok.pos; omega)
    split
    · exact block_short_mono _ _ _ hsf
    · exact hsf
  · by_cases hm16 : m < 16
    · -- the signature is there, the rest of the base header is cut
      apply afterHeader_none
      have hT : ps.st.inp.drop ps.st.pos = leBytes 4 SIG ++ (encItems (pre c lay o) hdr4).take (m - 4) := by
        rw [hinp, hin, henc, hR, encItems_append, List.take_append, hl4]
        rw [List.take_of_length_le (by omega : (leBytes 4 SIG).length ≤ m)]
        congr 1
        rw [List.take_append_of_le_length (by omega)]
      have hlen : ps.st.pos + 4 ≤ ps.st.inp.length := by
        have := congrArg List.length hT
        simp only [List.length_drop, List.length_append, hl4] at this
        omega
      rw [FileRound.ohb_prog, exec_block_cons]
      rw [exec_sync_at_sig (memCfg cap) hs 0 { ps.st with obj := Gen.ObjectHeaderBase.fresh, halt := Halt.none } hlen
        (by show (ps.st.inp.drop ps.st.pos).take 4 = _; rw [hT]; exact (take_append_len _ _ 4 hl4).1)]
      rw [if_pos (by rfl)]
      have hdrop : ps.st.inp.drop (ps.st.pos + 4) = (encItems (pre c lay o) hdr4).take (m - 4) := by
        rw [← List.drop_drop, hT]; exact (take_append_len _ _ 4 hl4).2
      have hag : Agree [0] [] (Gen.ObjectHeaderBase.fresh.setNum 0 SIG) (pre c lay o) := by
        refine ⟨fun g hg => ?_, fun g hg => by simp at hg⟩
        simp only [List.mem_singleton] at hg; subst hg; simp [hsig0]
      have hdt := dec_trunc cap hdr4 [0] [] (pre c lay o) (Gen.ObjectHeaderBase.fresh.setNum 0 SIG) (m - 4) (by decide) (by decide)
        hwf4 hag (by intro f ew len h; simp [hdr4] at h) (by omega)
      have hrd := exec_canonRd (memCfg cap) hs hdr4 [0] []
        { ps.st with obj := Gen.ObjectHeaderBase.fresh.setNum 0 SIG, halt := Halt.none, pos := ps.st.pos + 4, good := true, eof := false }
        (by decide) rfl (by simp only; omega) (by intro f n h; simp [hdr4] at h)
      simp only [hdrop] at hrd
      have hdt' : decItems (memCfg cap).cap hdr4 (Gen.ObjectHeaderBase.fresh.setNum 0 SIG)
          ((encItems (pre c lay o) hdr4).take (m - 4)) = none := hdt
      rw [hdt'] at hrd
      simp only at hrd
      rcases hrd with h1 | h1
      · right
        refine exec_short_not_good (memCfg cap) hs _ _ ⟨rfl, rfl, ?_, hi.ok.short⟩ h1
        simp only; omega
      · exact Or.inl h1
    · -- the base header is complete: the decoder of the class runs into the end
      have hin1 : ({ ps.st with obj := Gen.ObjectHeaderBase.fresh, halt := Halt.none } : St).inp.drop
          ({ ps.st with obj := Gen.ObjectHeaderBase.fresh, halt := Halt.none } : St).pos =
          leBytes 4 SIG ++ encItems (pre c lay o) hdr4 ++ (encItems (pre c lay o) R).take (m - 16) := by
        show ps.st.inp.drop ps.st.pos = _
        rw [hinp, hin, henc, hR, encItems_append, List.take_append, hl4]
        rw [List.take_of_length_le (by omega : (leBytes 4 SIG).length ≤ m)]
        rw [List.append_assoc]
        congr 1
        rw [List.take_append, hlen4, List.take_of_length_le (by omega)]
        congr 2
      obtain ⟨a1, a2, a3, a4, a5, a6⟩ := syncRd_at (memCfg cap) hs hdr4 0 (pre c lay o)
        { ps.st with obj := Gen.ObjectHeaderBase.fresh, halt := Halt.none } ((encItems (pre c lay o) R).take (m - 16))
        (by decide) hwf4 hsig0 (by intro f n h; simp [hdr4] at h) (by intro f ew len h; simp [hdr4] at h) rfl hin1
      have hgood := (exec_sticky (memCfg cap) hs _ _ hok0 (by rw [a2]; exact hi.ok.short)).2
      rw [FileRound.ohb_prog]
      generalize (Stmt.block (.sync 0 :: canonRd hdr4)).exec (memCfg cap) { ps.st with obj := Gen.ObjectHeaderBase.fresh, halt := Halt.none } = hd
        at a1 a2 a3 a4 a5 a6 hgood
      simp only at a2 a3 a4 a5
      have hos : hd.obj.num 3 = (pre c lay o).num 3 := a6.1 3 (by simp [hdr4, Item.numDef])
      have hty : hd.obj.num 4 = (pre c lay o).num 4 := a6.1 4 (by simp [hdr4, Item.numDef])
      unfold afterHeader
      rw [if_neg (by simp [a1]), if_neg (by simp [hgood.good]), hos, hty, if_neg (by have := hp.size16; omega), hp.fac]
      have hpos1 : (hd.sback 16).pos = ps.st.pos := by simp only [St.sback]; rw [a5, hlen4]; omega
      exact classStep_cut cap c lay o hp harr ps (hd.sback 16) _ m
        ⟨hgood.good, hgood.eof, by rw [hpos1]; show ps.st.pos ≤ hd.inp.length; rw [a3]; exact hi.ok.pos, hgood.short⟩
        (by omega) hmb (by rw [hpos1]; show hd.inp.drop ps.st.pos = _; rw [a3]; show ps.st.inp.drop ps.st.pos = _; rw [hinp, hin])

/-- **the stream ends inside the alignment padding of an object** (its fields are complete): the object is delivered -/
theorem objectStep_object_tail (cap : Nat) (c : Codec) (lay : Layout) (o : Obj) (hp : Parsable cap c lay o)
    (harr : ArrOK c.fresh lay.items) (B z : Bytes) (ps : PState) (hi : PInv B ps)
    (hpad : lay.items = lay.body ++ [.pad lay.osF 4]) (hz : z.length ≤ (pre c lay o).num lay.osF % 4)
    (hin : B.drop ps.st.pos = leBytes 4 SIG ++ encItems (pre c lay o) lay.body ++ z) :
    ∃ ps' ob, objectStep cap ps = some ps' ∧ PInv B ps' ∧ ps'.st.pos = B.length ∧
      ps'.objs = (c.name, ob) :: ps.objs ∧
      Agree (lay.items.filterMap Item.numDef ++ [lay.sigF]) (lay.items.filterMap Item.bufDef) ob (pre c lay o) ∧
      ps'.count = (if (pre c lay o).num 4 = 115 then ps.count else ps.count + 1) := by
  have hs : (memCfg cap).sticky = false := rfl
  have hwf := itemsWF_pre c lay hp.reg o hp.user
  have hsigp : (pre c lay o).num lay.sigF = SIG := by rw [pre_sig c lay hp.reg, hp.sig0]; exact hp.sig
  obtain ⟨R, hR⟩ := hp.hdr
  have hcapp : ∀ f ew len, Item.var f ew len ∈ lay.items → (pre c lay o).num len * ew ≤ (memCfg cap).cap := by
    intro f ew len hm
    have hb : (pre c lay o).buf f = o.buf f := pre_buf c lay o f
    have hw : ((pre c lay o).buf f).length = (pre c lay o).num len * ew := itemsWF_mem _ _ hwf _ hm
    rw [← hw, hb]; exact hp.cap f ew len hm
  obtain ⟨_, hout, _, _, _⟩ := regular_frame (memCfg cap) c lay hp.reg o hwf
  have henc : enc cap c o = leBytes 4 SIG ++ encItems (pre c lay o) lay.items := by
    unfold enc; rw [hout, hsigp]
  obtain ⟨R', hR'⟩ : ∃ R', lay.body = hdr4 ++ R' := by
    rcases List.eq_nil_or_concat R with rfl | ⟨R', x, rfl⟩
    · rw [List.append_nil] at hR
      rw [hR] at hpad
      have := congrArg List.getLast? hpad
      simp [hdr4] at this
    · simp only [List.concat_eq_append] at hR
      rw [hR, ← List.append_assoc] at hpad
      exact ⟨R', (List.append_inj' hpad rfl).1.symm⟩
  have hwfb : ItemsWF (pre c lay o) lay.body := by
    have := hwf; rw [hpad] at this; exact ((itemsWF_append _ _ _).1 this).1
  have hokb : itemsOK [lay.sigF] [] lay.body = true := itemsOK_prefix _ _ _ [.pad lay.osF 4] (by rw [← hpad]; exact hp.reg.ok)
  -- 1. the base header
  have hwf4 : ItemsWF (pre c lay o) hdr4 := by
    have := hwf; rw [hR] at this; exact ((itemsWF_append _ _ _).1 this).1
  have hinp : ps.st.inp = B := hi.inp
  have hin1 : ({ ps.st with obj := Gen.ObjectHeaderBase.fresh, halt := Halt.none } : St).inp.drop
      ({ ps.st with obj := Gen.ObjectHeaderBase.fresh, halt := Halt.none } : St).pos =
      leBytes 4 SIG ++ encItems (pre c lay o) hdr4 ++ (encItems (pre c lay o) R' ++ z) := by
    simp only [hinp, hin, hR', encItems_append, List.append_assoc]
  have hsig0 : (pre c lay o).num 0 = SIG := by rw [← hp.sig0]; exact hsigp
  obtain ⟨a1, a2, a3, a4, a5, a6⟩ := syncRd_at (memCfg cap) hs hdr4 0 (pre c lay o)
    { ps.st with obj := Gen.ObjectHeaderBase.fresh, halt := Halt.none } (encItems (pre c lay o) R' ++ z)
    (by decide) hwf4 hsig0 (by intro f n h; simp [hdr4] at h) (by intro f ew len h; simp [hdr4] at h) rfl hin1
  have hok1 : StreamOK ({ ps.st with obj := Gen.ObjectHeaderBase.fresh, halt := Halt.none } : St) :=
    ⟨hi.ok.good, hi.ok.eof, hi.ok.pos, hi.ok.short⟩
  have hgood := (exec_sticky (memCfg cap) hs _ _ hok1 (by rw [a2]; exact hi.ok.short)).2
  have hlen4 : (encItems (pre c lay o) hdr4).length = 12 := by
    rw [encItems_length _ _ hwf4]; rfl
  unfold objectStep
  rw [FileRound.ohb_prog]
  generalize (Stmt.block (.sync 0 :: canonRd hdr4)).exec (memCfg cap) { ps.st with obj := Gen.ObjectHeaderBase.fresh, halt := Halt.none } = hd
    at a1 a2 a3 a4 a5 a6 hgood
  simp only at a2 a3 a4 a5
  have hos : hd.obj.num 3 = (pre c lay o).num 3 := a6.1 3 (by simp [hdr4, Item.numDef])
  have hty : hd.obj.num 4 = (pre c lay o).num 4 := a6.1 4 (by simp [hdr4, Item.numDef])
  unfold afterHeader
  rw [if_neg (by simp [a1]), if_neg (by simp [hgood.good]), hos, hty, if_neg (by have := hp.size16; omega), hp.fac]
  simp only
  -- 2. the decoder of the class, from the object's first byte
  have hpos1 : (hd.sback 16).pos = ps.st.pos := by simp only [St.sback]; rw [a5, hlen4]; omega
  have hin2 : ({ hd.sback 16 with obj := c.fresh, halt := Halt.none } : St).inp.drop
      ({ hd.sback 16 with obj := c.fresh, halt := Halt.none } : St).pos =
      leBytes 4 SIG ++ encItems (pre c lay o) lay.body ++ z := by
    simp only [hpos1]
    show hd.inp.drop ps.st.pos = _
    rw [a3, hinp, hin]
  obtain ⟨b1, b2, b3, b4, b5, b6⟩ := syncRd_at (memCfg cap) hs lay.body lay.sigF (pre c lay o)
    { hd.sback 16 with obj := c.fresh, halt := Halt.none } z hokb hwfb hsigp
    (by intro f n hm; exact harr f n (by rw [hpad]; exact List.mem_append_left _ hm))
    (by intro f ew len hm; exact hcapp f ew len (by rw [hpad]; exact List.mem_append_left _ hm)) rfl hin2
  have hok2 : StreamOK ({ hd.sback 16 with obj := c.fresh, halt := Halt.none } : St) :=
    ⟨hgood.good, hgood.eof, by simp only [hpos1]; show ps.st.pos ≤ hd.inp.length; rw [a3]; exact hi.ok.pos, hgood.short⟩
  -- the decoder: signature, the body items, then the padding skip (clamped at the end of the stream)
  have hprog : c.readProg = Stmt.block ((.sync lay.sigF :: canonRd lay.body) ++ [.seekg (.mod (.fld lay.osF) (.const 4))]) := by
    rw [hp.reg.rd, hpad]
    simp [canonRd, List.flatMap_append, Item.rdStmts]
  have hgood1 := (exec_sticky (memCfg cap) hs _ _ hok2 (by rw [b2]; exact hgood.short)).2
  have hrun : c.readProg.exec (memCfg cap) { hd.sback 16 with obj := c.fresh, halt := Halt.none } =
      ((Stmt.block (.sync lay.sigF :: canonRd lay.body)).exec (memCfg cap) { hd.sback 16 with obj := c.fresh, halt := Halt.none }).sseek
        (memCfg cap) ((Expr.mod (.fld lay.osF) (.const 4)).eval
          ((Stmt.block (.sync lay.sigF :: canonRd lay.body)).exec (memCfg cap) { hd.sback 16 with obj := c.fresh, halt := Halt.none }).obj) := by
    rw [hprog, exec_block_append _ _ _ _ rfl, if_pos b1, exec_block_single]
    rfl
  unfold classStep
  rw [hrun]
  generalize (Stmt.block (.sync lay.sigF :: canonRd lay.body)).exec (memCfg cap) { hd.sback 16 with obj := c.fresh, halt := Halt.none } = r1
    at b1 b2 b3 b4 b5 b6 hgood1
  simp only at b2 b3 b4 b5
  have hosr : r1.obj.num lay.osF = (pre c lay o).num lay.osF := by
    apply b6.1
    rw [hR', hp.os3]; simp [hdr4, Item.numDef]
  have hinpr : r1.inp = B := by rw [b3]; show hd.inp = B; rw [a3]; exact hinp
  have hlenB : r1.pos + z.length = B.length := by
    have h1 := congrArg List.length hin
    simp only [List.length_drop, List.length_append, leBytes_length] at h1
    have h2 := hi.ok.pos; rw [hinp] at h2
    rw [b5, hpos1]; omega
  have hseek : (r1.sseek (memCfg cap) ((Expr.mod (.fld lay.osF) (.const 4)).eval r1.obj)) =
      { r1 with pos := B.length } := by
    simp only [St.sseek, memCfg, Bool.false_and, Bool.false_eq_true, if_false, Expr.eval, hosr, hinpr]
    congr 1
    omega
  rw [hseek]
  simp only
  rw [if_neg (by simp [b1]), if_neg (by simp [b1]), if_neg (by simp [b1]), if_neg (by simp [hgood1.good]),
    if_neg (by have := hp.noSeekBack; omega)]
  refine ⟨_, r1.obj, rfl, ⟨⟨hgood1.good, hgood1.eof, by simp only; rw [hinpr]; exact Nat.le_refl _, hgood1.short⟩, hinpr, rfl⟩, rfl, rfl, ?_, ?_⟩
  · refine b6.mono (fun g hg => ?_) (fun g hg => ?_)
    · rw [hpad] at hg; simpa [List.filterMap_append, Item.numDef] using hg
    · rw [hpad] at hg; simpa [List.filterMap_append, Item.bufDef] using hg
  · simp only
    have : r1.obj.num 4 = (pre c lay o).num 4 := by
      apply b6.1 4
      rw [hR']; simp [hdr4, Item.numDef]
    rw [this]


/-! ### any prefix of a stream of encodings -/

/-- length of the signature and the fields of an encoded object (without its alignment padding) -/
def bodyLen (x : Codec × Layout × Obj) : Nat := 4 + (encItems (pre x.1 x.2.1 x.2.2) x.2.1.body).length

/-- how many objects of `L` have all their fields inside the first `m` bytes of the stream -/
def jOf (cap : Nat) : List (Codec × Layout × Obj) → Nat → Nat
  | [], _ => 0
  | x :: l, m => if bodyLen x ≤ m then 1 + jOf cap l (m - (enc cap x.1 x.2.2).length) else 0

theorem jOf_zero (cap : Nat) (l : List (Codec × Layout × Obj)) : jOf cap l 0 = 0 := by
  cases l with
  | nil => rfl
  | cons y l => simp [jOf, bodyLen]

/-- a longer prefix never contains fewer complete objects -/
theorem jOf_mono (cap : Nat) : ∀ (L : List (Codec × Layout × Obj)) (m m' : Nat), m ≤ m' → jOf cap L m ≤ jOf cap L m' := by
  intro L
  induction L with
  | nil => intro m m' _; exact Nat.le_refl _
  | cons x l ih =>
    intro m m' h
    simp only [jOf]
    by_cases h1 : bodyLen x ≤ m
    · rw [if_pos h1, if_pos (by omega)]
      have := ih (m - (enc cap x.1 x.2.2).length) (m' - (enc cap x.1 x.2.2).length) (by omega)
      omega
    · rw [if_neg h1]; exact Nat.zero_le _

/-- the encoding of a parsable object: signature, fields, padding -/
theorem enc_shape (cap : Nat) (c : Codec) (lay : Layout) (o : Obj) (hp : Parsable cap c lay o) :
    (enc cap c o = leBytes 4 SIG ++ encItems (pre c lay o) lay.body ∧ lay.items = lay.body) ∨
    (enc cap c o = leBytes 4 SIG ++ encItems (pre c lay o) lay.body ++ zeros ((pre c lay o).num lay.osF % 4) ∧
      lay.items = lay.body ++ [.pad lay.osF 4]) := by
  have hwf := itemsWF_pre c lay hp.reg o hp.user
  have hsigp : (pre c lay o).num lay.sigF = SIG := by rw [pre_sig c lay hp.reg, hp.sig0]; exact hp.sig
  obtain ⟨_, hout, _, _, _⟩ := regular_frame (memCfg cap) c lay hp.reg o hwf
  have henc : enc cap c o = leBytes 4 SIG ++ encItems (pre c lay o) lay.items := by unfold enc; rw [hout, hsigp]
  have hsp := hp.reg.sp
  unfold Layout.body
  split at hsp
  · right
    refine ⟨?_, hsp⟩
    rw [henc]
    conv => lhs; rw [hsp]
    simp [encItems_append, encItems, encItem, List.append_assoc]
  · left
    refine ⟨?_, hsp⟩
    rw [henc]
    conv => lhs; rw [hsp]

/-- **a stream cut off anywhere**: the parser delivers exactly the objects whose fields are completely inside the prefix,
    unmodified and in order, and then ends -/
theorem parse_prefix (cap : Nat) : ∀ (L : List (Codec × Layout × Obj)),
    (∀ x ∈ L, Parsable cap x.1 x.2.1 x.2.2 ∧ ArrOK x.1.fresh x.2.1.items) →
    ∀ (m : Nat) (B : Bytes) (ps : PState) (fuel : Nat), PInv B ps → B.drop ps.st.pos = (flat cap L).take m →
    jOf cap L m + 1 < fuel →
    ∃ ds : List (String × Obj), (objectLoop cap fuel ps).objs = ds.reverse ++ ps.objs ∧
      AllDelivered (L.take (jOf cap L m)) ds ∧ (objectLoop cap fuel ps).outcome = none := by
  intro L
  induction L with
  | nil =>
    intro _ m B ps fuel hi hin hf
    obtain ⟨n, rfl⟩ : ∃ n, fuel = n + 1 := ⟨fuel - 1, by omega⟩
    have hend : ps.st.pos = ps.st.inp.length := by
      have := congrArg List.length hin
      simp [flat] at this
      have := hi.ok.pos
      rw [hi.inp] at this ⊢
      omega
    unfold objectLoop
    rw [objectStep_at_end cap ps hend]
    exact ⟨[], rfl, by simp [jOf]; exact AllDelivered.nil, hi.outcome⟩
  | cons x l ih =>
    intro hL m B ps fuel hi hin hf
    obtain ⟨n, rfl⟩ : ∃ n, fuel = n + 1 := ⟨fuel - 1, by omega⟩
    obtain ⟨hp, harr⟩ := hL x (by simp)
    by_cases hfull : (enc cap x.1 x.2.2).length ≤ m
    · -- the whole encoding is there
      have hin1 : B.drop ps.st.pos = enc cap x.1 x.2.2 ++ (flat cap l).take (m - (enc cap x.1 x.2.2).length) := by
        rw [hin]; simp only [flat]
        rw [List.take_append, List.take_of_length_le hfull]
      obtain ⟨ps', ob, hstep, hi', hpos, hobjs, hag, _⟩ :=
        objectStep_object cap x.1 x.2.1 x.2.2 hp harr B _ ps hi hin1
      have hin' : B.drop ps'.st.pos = (flat cap l).take (m - (enc cap x.1 x.2.2).length) := by
        rw [hpos, ← List.drop_drop, hin1]; simp
      have hb : bodyLen x ≤ m := by
        rcases enc_shape cap x.1 x.2.1 x.2.2 hp with ⟨he, _⟩ | ⟨he, _⟩ <;>
          (have := congrArg List.length he; simp only [List.length_append, leBytes_length, zeros_length] at this;
           unfold bodyLen; omega)
      obtain ⟨ds, h1, h2, h3⟩ := ih (fun y hy => hL y (by simp [hy])) _ B ps' n hi' hin'
        (by simp only [jOf, if_pos hb] at hf; omega)
      unfold objectLoop
      rw [hstep]
      simp only [hi'.outcome, Option.isSome_none, Bool.false_eq_true, if_false, hi'.ok.good, Bool.not_true]
      refine ⟨(x.1.name, ob) :: ds, by rw [h1, hobjs]; simp, ?_, h3⟩
      simp only [jOf, if_pos hb]
      rw [Nat.add_comm, List.take_succ_cons]
      exact AllDelivered.cons _ _ _ _ ⟨rfl, hag⟩ h2
    · by_cases hbody : bodyLen x ≤ m
      · -- the fields are complete, the stream ends inside the padding: delivered, then the end
        rcases enc_shape cap x.1 x.2.1 x.2.2 hp with ⟨he, _⟩ | ⟨he, hpad⟩
        · have := congrArg List.length he
          simp only [List.length_append, leBytes_length] at this
          unfold bodyLen at hbody; omega
        · have hlenE : (enc cap x.1 x.2.2).length = bodyLen x + (pre x.1 x.2.1 x.2.2).num x.2.1.osF % 4 := by
            have := congrArg List.length he
            simp only [List.length_append, leBytes_length, zeros_length] at this
            unfold bodyLen; omega
          have hin1 : B.drop ps.st.pos = leBytes 4 SIG ++ encItems (pre x.1 x.2.1 x.2.2) x.2.1.body ++
              zeros (m - bodyLen x) := by
            rw [hin]; simp only [flat]
            rw [List.take_append_of_le_length (by omega), he]
            have hlb : (leBytes 4 SIG ++ encItems (pre x.1 x.2.1 x.2.2) x.2.1.body).length = bodyLen x := by
              simp [bodyLen, List.length_append]
            rw [List.take_append, List.take_of_length_le (by omega), hlb]
            congr 1
            simp [zeros, List.take_replicate]
            omega
          obtain ⟨ps', ob, hstep, hi', hpos, hobjs, hag, _⟩ :=
            objectStep_object_tail cap x.1 x.2.1 x.2.2 hp harr B (zeros (m - bodyLen x)) ps hi hpad
              (by simp [zeros_length]; omega) hin1
          obtain ⟨n', rfl⟩ : ∃ n', n = n' + 1 := ⟨n - 1, by simp only [jOf, if_pos hbody] at hf; omega⟩
          unfold objectLoop
          rw [hstep]
          simp only [hi'.outcome, Option.isSome_none, Bool.false_eq_true, if_false, hi'.ok.good, Bool.not_true]
          unfold objectLoop
          rw [objectStep_at_end cap ps' (by rw [hpos, hi'.inp])]
          refine ⟨[(x.1.name, ob)], by rw [hobjs]; simp, ?_, hi'.outcome⟩
          simp only [jOf, if_pos hbody]
          have h0 : m - (enc cap x.1 x.2.2).length = 0 := by omega
          rw [h0, jOf_zero, Nat.add_zero, List.take_succ_cons, List.take_zero]
          exact AllDelivered.cons _ _ _ _ ⟨rfl, hag⟩ AllDelivered.nil
      · -- the stream ends inside the fields of the object: not delivered, the end
        have hstep := objectStep_cut cap x.1 x.2.1 x.2.2 hp harr B ps hi m (by unfold bodyLen at hbody; omega)
          (by rw [hin]; simp only [flat]; rw [List.take_append_of_le_length (by omega)])
        unfold objectLoop
        rw [hstep]
        refine ⟨[], rfl, ?_, hi.outcome⟩
        simp only [jOf, if_neg hbody, List.take_zero]
        exact AllDelivered.nil

theorem jOf_le (cap : Nat) : ∀ (L : List (Codec × Layout × Obj)), (∀ x ∈ L, Parsable cap x.1 x.2.1 x.2.2) →
    ∀ (m : Nat), jOf cap L m ≤ L.length ∧ jOf cap L m ≤ m := by
  intro L
  induction L with
  | nil => intro _ m; simp [jOf]
  | cons x l ih =>
    intro hL m
    simp only [jOf]
    by_cases h : bodyLen x ≤ m
    · rw [if_pos h]
      obtain ⟨h1, h2⟩ := ih (fun y hy => hL y (by simp [hy])) (m - (enc cap x.1 x.2.2).length)
      have h4 : 4 ≤ bodyLen x := by unfold bodyLen; omega
      have hle : bodyLen x ≤ (enc cap x.1 x.2.2).length := by
        rcases enc_shape cap x.1 x.2.1 x.2.2 (hL x (by simp)) with ⟨he, _⟩ | ⟨he, _⟩ <;>
          (have := congrArg List.length he; simp only [List.length_append, leBytes_length, zeros_length] at this;
           unfold bodyLen; omega)
      simp only [List.length_cons]
      constructor
      · omega
      · by_cases hc : (enc cap x.1 x.2.2).length ≤ m
        · omega
        · have : m - (enc cap x.1 x.2.2).length = 0 := by omega
          rw [this, jOf_zero]; omega
    · rw [if_neg h]; exact ⟨Nat.zero_le _, Nat.zero_le _⟩

end Blf.TruncRound
