import Blf.Pipe
/-!
# The write pipeline as a concurrent transition system

`File::open(out)` starts two workers.  The application pushes objects into the object queue `q`
(`File::write` → `q.write`) and finally calls `close()`: `q.setFileSize(q.tellp)`, then it joins the
workers.  The *encoder* (`uncompressedFileWriteThread`) pops objects from `q` and writes their encoding
(`sz x` bytes for object `x`) into the in-memory stream `u` (`UncompressedFile::write(s, n)`); when it
pops the null result it declares the size of `u`.  The *compressor* (`compressedFileWriteThread`)
reads `cs` bytes (the log-container size) from `u` again and again until a read comes back short.

Same conventions as `Blf.Pipe`.  Proved for every stream buffer size, every queue capacity ≥ 1, every
container size ≥ 1 — in particular container sizes **above** the stream buffer size —, every object list
and every interleaving: the invariant with *no lost wake-up*, *no deadlock*, *termination of every
schedule*, and the result: the encoder wrote the objects in order, each once, and the compressor cut
the stream into the same containers under every schedule (`outs` = as many full containers as fit, then
the rest).
-/
namespace Blf.WPipe
open Blf.Queue (CV)
open Blf.Pipe (UMeth uNotifies Mon Status wake UP wake_asleep wake_eq_done wake_ne_done guard_read_false_iff guard_write_false_iff
  uguardRead_false_iff uguardWrite_false_iff)

def total (sz : Nat → Nat) (l : List Nat) : Nat := (l.map sz).sum

structure Sys where
  q : Queue.State
  u : UP
  cs : Nat                    -- container size
  toWrite : List Nat          -- objects the application still has to write
  app : Status                -- `done` after it declared the end of the queue (it then only joins)
  pending : Option Nat        -- object the encoder has popped and not yet written
  wr : List Nat               -- objects the encoder has written into the stream, in order
  enc : Status
  outs : List Nat             -- sizes of the containers the compressor has cut
  comp : Status
  deriving Repr

inductive Step (sz : Nat → Nat) : Sys → Sys → Prop
  -- application --------------------------------------------------------------------------------
  | awrite (s : Sys) (x : Nat) (r : List Nat) (h1 : s.app = .running) (h2 : s.toWrite = x :: r)
      (hg : Queue.guard s.q (.write x) = true) :
      Step sz s { s with q := (Queue.step s.q (.write x)).1, toWrite := r,
                         enc := wake .q (Queue.notifies (.write x)) s.enc }
  | awriteBlock (s : Sys) (x : Nat) (r : List Nat) (h1 : s.app = .running) (h2 : s.toWrite = x :: r)
      (hg : Queue.guard s.q (.write x) = false) :
      Step sz s { s with app := .asleep .q .tellg }
  | aEos (s : Sys) (h1 : s.app = .running) (h2 : s.toWrite = []) :
      Step sz s { s with q := (Queue.step s.q (.setFileSize s.q.tellp)).1, app := .done,
                         enc := wake .q (Queue.notifies (.setFileSize 0)) s.enc }
  -- encoder ------------------------------------------------------------------------------------
  | eRecv (s : Sys) (x : Nat) (r : List Nat) (h1 : s.enc = .running) (h0 : s.pending = none)
      (hg : Queue.guard s.q .read = true) (hq : s.q.queue = x :: r) :
      Step sz s { s with q := (Queue.step s.q .read).1, pending := some x,
                         app := wake .q (Queue.notifies .read) s.app }
  | eNull (s : Sys) (h1 : s.enc = .running) (h0 : s.pending = none)
      (hg : Queue.guard s.q .read = true) (hq : s.q.queue = []) :
      Step sz s { s with q := (Queue.step s.q .read).1, u := { s.u with fileSize := s.u.tellp }, enc := .done,
                         app := wake .q (Queue.notifies .read) s.app, comp := wake .u (uNotifies .setFileSize) s.comp }
  | eBlockQ (s : Sys) (h1 : s.enc = .running) (h0 : s.pending = none) (hg : Queue.guard s.q .read = false) :
      Step sz s { s with enc := .asleep .q .tellp }
  | eWrite (s : Sys) (x : Nat) (h1 : s.enc = .running) (h0 : s.pending = some x) (hg : s.u.guardWrite = true) :
      Step sz s { s with u := { s.u with tellp := s.u.tellp + sz x }, pending := none, wr := s.wr ++ [x],
                         comp := wake .u (uNotifies .writeBytes) s.comp }
  | eBlockU (s : Sys) (x : Nat) (h1 : s.enc = .running) (h0 : s.pending = some x) (hg : s.u.guardWrite = false) :
      Step sz s { s with enc := .asleep .u .tellg }
  -- compressor ---------------------------------------------------------------------------------
  | cFull (s : Sys) (h1 : s.comp = .running) (hg : s.u.guardRead s.cs = true)
      (hs : (s.cs : Int) + s.u.tellg ≤ s.u.fileSize) :
      Step sz s { s with u := { s.u with tellg := s.u.tellg + s.cs, demand := 0 }, outs := s.outs ++ [s.cs],
                         enc := wake .u (uNotifies .read) s.enc }
  | cShort (s : Sys) (h1 : s.comp = .running) (hg : s.u.guardRead s.cs = true)
      (hs : (s.cs : Int) + s.u.tellg > s.u.fileSize) :
      Step sz s { s with u := { s.u with tellg := s.u.fileSize, demand := 0 },
                         outs := s.outs ++ [(s.u.fileSize - s.u.tellg).toNat], comp := .done,
                         enc := wake .u (uNotifies .read) s.enc }
  | cBlock (s : Sys) (h1 : s.comp = .running) (hg : s.u.guardRead s.cs = false) :
      Step sz s { s with u := { s.u with demand := (s.cs : Int) + s.u.tellg }, comp := .asleep .u .tellp,
                         enc := wake .u (uNotifies .read) s.enc }

def init (bufU : Int) (capQ : Nat) (cs : Nat) (objs : List Nat) : Sys :=
  { q := { bufferSize := capQ }, u := { bufferSize := bufU }, cs := cs, toWrite := objs, app := .running,
    pending := none, wr := [], enc := .running, outs := [], comp := .running }

def Final (s : Sys) : Prop := s.app = .done ∧ s.enc = .done ∧ s.comp = .done

inductive Reach (sz : Nat → Nat) (bufU : Int) (capQ : Nat) (cs : Nat) (objs : List Nat) : Sys → Prop
  | init : Reach sz bufU capQ cs objs (init bufU capQ cs objs)
  | step (s t : Sys) : Reach sz bufU capQ cs objs s → Step sz s t → Reach sz bufU capQ cs objs t

def pend : Option Nat → List Nat
  | none => []
  | some x => [x]

/-- the invariant; `objs` is everything the application writes -/
structure Inv (sz : Nat → Nat) (objs : List Nat) (s : Sys) : Prop where
  qpos : s.q.tellg + s.q.queue.length = s.q.tellp
  qcap : 0 < s.q.bufferSize
  cspos : 0 < s.cs
  noAbort : s.u.abort = false ∧ s.q.abort = false
  -- no lost wake-up
  appSleep : ∀ m cv, s.app = .asleep m cv → m = .q ∧ cv = .tellg ∧ ∃ x r, s.toWrite = x :: r ∧ Queue.guard s.q (.write x) = false
  encSleep : ∀ m cv, s.enc = .asleep m cv →
    (m = .q ∧ cv = .tellp ∧ s.pending = none ∧ Queue.guard s.q .read = false) ∨
    (m = .u ∧ cv = .tellg ∧ (∃ x, s.pending = some x) ∧ s.u.guardWrite = false)
  compSleep : ∀ m cv, s.comp = .asleep m cv → m = .u ∧ cv = .tellp ∧ s.u.guardRead s.cs = false ∧
    s.u.demand = (s.cs : Int) + s.u.tellg
  -- end-of-stream discipline
  appDone : s.app = .done → s.q.fileSize = s.q.tellp ∧ s.toWrite = []
  appLive : s.app ≠ .done → s.q.fileSize = Queue.U32MAX
  small : s.q.tellp + s.toWrite.length < Queue.U32MAX
  encDone : s.enc = .done → s.u.fileSize = s.u.tellp ∧ s.app = .done ∧ s.q.queue = [] ∧ s.pending = none
  encLive : s.enc ≠ .done → s.u.fileSize = UFile.I64MAX
  compDone : s.comp = .done → s.enc = .done
  -- history and positions
  hist : s.wr ++ pend s.pending ++ s.q.queue ++ s.toWrite = objs
  tp : s.u.tellp = total sz s.wr
  big : (total sz objs : Int) + s.cs < UFile.I64MAX        -- outside: positions beyond 2^63
  -- the containers cut so far
  gle : s.u.tellg ≤ s.u.tellp
  cutLive : s.comp ≠ .done → ∃ k : Nat, s.u.tellg = ((k * s.cs : Nat) : Int) ∧ s.outs = List.replicate k s.cs
  cutDone : s.comp = .done → ∃ k : Nat, s.outs = List.replicate k s.cs ++ [total sz objs - k * s.cs] ∧
    k * s.cs ≤ total sz objs ∧ total sz objs - k * s.cs < s.cs

theorem total_append (sz : Nat → Nat) (a b : List Nat) : total sz (a ++ b) = total sz a + total sz b := by
  simp [total]

theorem total_le_of_hist (sz : Nat → Nat) (a b c d : List Nat) : total sz a ≤ total sz (a ++ b ++ c ++ d) := by
  simp only [total_append]; omega

theorem inv_init (sz : Nat → Nat) (bufU : Int) (capQ : Nat) (hc : 0 < capQ) (cs : Nat) (hcs : 0 < cs) (objs : List Nat)
    (hs : objs.length < Queue.U32MAX) (hb : (total sz objs : Int) + cs < UFile.I64MAX) :
    Inv sz objs (init bufU capQ cs objs) := by
  refine ⟨rfl, hc, hcs, ⟨rfl, rfl⟩, ?_, ?_, ?_, ?_, ?_, ?_, ?_, ?_, ?_, ?_, ?_, hb, ?_, ?_, ?_⟩ <;> simp [init, pend, total]
  · exact hs

/-! ### sleepers and wake-ups -/

theorem app_woken {sz : Nat → Nat} {objs : List Nat} {s : Sys} (hi : Inv sz objs s) (cvs : List CV) (h : CV.tellg ∈ cvs)
    (m : Mon) (cv : CV) : wake .q cvs s.app ≠ .asleep m cv := by
  intro hw
  obtain ⟨h1, h2⟩ := wake_asleep _ _ _ _ _ hw
  obtain ⟨rfl, rfl, _⟩ := hi.appSleep m cv h1
  exact h2 ⟨rfl, h⟩

theorem comp_woken {sz : Nat → Nat} {objs : List Nat} {s : Sys} (hi : Inv sz objs s) (cvs : List CV) (h : CV.tellp ∈ cvs)
    (m : Mon) (cv : CV) : wake .u cvs s.comp ≠ .asleep m cv := by
  intro hw
  obtain ⟨h1, h2⟩ := wake_asleep _ _ _ _ _ hw
  obtain ⟨rfl, rfl, _⟩ := hi.compSleep m cv h1
  exact h2 ⟨rfl, h⟩

theorem enc_woken_q {sz : Nat → Nat} {objs : List Nat} {s : Sys} (hi : Inv sz objs s) (cvs : List CV) (h : CV.tellp ∈ cvs)
    (m : Mon) (cv : CV) (hw : wake .q cvs s.enc = .asleep m cv) :
    m = .u ∧ cv = .tellg ∧ (∃ x, s.pending = some x) ∧ s.u.guardWrite = false := by
  obtain ⟨h1, h2⟩ := wake_asleep _ _ _ _ _ hw
  rcases hi.encSleep m cv h1 with ⟨rfl, rfl, _⟩ | ⟨rfl, rfl, hx⟩
  · exact absurd ⟨rfl, h⟩ h2
  · exact ⟨rfl, rfl, hx⟩

theorem enc_woken_u {sz : Nat → Nat} {objs : List Nat} {s : Sys} (hi : Inv sz objs s) (cvs : List CV) (h : CV.tellg ∈ cvs)
    (m : Mon) (cv : CV) (hw : wake .u cvs s.enc = .asleep m cv) :
    m = .q ∧ cv = .tellp ∧ s.pending = none ∧ Queue.guard s.q .read = false := by
  obtain ⟨h1, h2⟩ := wake_asleep _ _ _ _ _ hw
  rcases hi.encSleep m cv h1 with ⟨rfl, rfl, hx⟩ | ⟨rfl, rfl, _⟩
  · exact ⟨rfl, rfl, hx⟩
  · exact absurd ⟨rfl, h⟩ h2

theorem total_single (sz : Nat → Nat) (x : Nat) : total sz [x] = sz x := by simp [total]

/-- **invariant preservation** (contains *no lost wake-up*) -/
theorem inv_step (sz : Nat → Nat) (objs : List Nat) (s t : Sys) (hi : Inv sz objs s) (hst : Step sz s t) : Inv sz objs t := by
  cases hst with
  | awrite x r h1 h2 hg =>
    have hne : s.app ≠ .done := by rw [h1]; simp
    have he := hi.appLive hne
    have hsm := hi.small
    rw [h2] at hsm; simp only [List.length_cons] at hsm
    refine ⟨?_, ?_, hi.cspos, ?_, ?_, ?_, hi.compSleep, ?_, ?_, ?_, ?_, ?_, ?_, ?_, hi.tp, hi.big, hi.gle, hi.cutLive, hi.cutDone⟩
    · have := hi.qpos; simp [Queue.step]; omega
    · simpa [Queue.step] using hi.qcap
    · simpa [Queue.step] using hi.noAbort
    · intro m cv h; simp only [h1] at h; cases h
    · intro m cv h
      obtain ⟨rfl, rfl, hx⟩ := enc_woken_q hi _ (by simp [Queue.notifies]) m cv h
      exact Or.inr ⟨rfl, rfl, hx⟩
    · intro h; simp only [h1] at h; cases h
    · intro _
      simp only [Queue.step]
      have : ¬ (s.q.tellp + 1 > s.q.fileSize) := by rw [he]; simp only [Queue.U32MAX] at hsm ⊢; omega
      rw [if_neg this]; exact he
    · simp [Queue.step]; omega
    · intro h; have := (hi.encDone ((wake_eq_done _ _ _).1 h)).2.1; rw [h1] at this; cases this
    · intro h; exact hi.encLive ((wake_ne_done _ _ _).1 h)
    · intro h; exact (wake_eq_done _ _ _).2 (hi.compDone h)
    · have := hi.hist; rw [h2] at this; simpa [Queue.step, List.append_assoc] using this
  | awriteBlock x r h1 h2 hg =>
    refine ⟨hi.qpos, hi.qcap, hi.cspos, hi.noAbort, ?_, hi.encSleep, hi.compSleep, ?_, ?_, hi.small, ?_, hi.encLive,
      hi.compDone, hi.hist, hi.tp, hi.big, hi.gle, hi.cutLive, hi.cutDone⟩
    · intro m cv h; injection h with a b; exact ⟨a.symm, b.symm, x, r, h2, hg⟩
    · intro h; cases h
    · intro _; exact hi.appLive (by rw [h1]; simp)
    · intro h; have := (hi.encDone h).2.1; rw [h1] at this; cases this
  | aEos h1 h2 =>
    refine ⟨?_, ?_, hi.cspos, ?_, ?_, ?_, hi.compSleep, ?_, ?_, ?_, ?_, ?_, ?_, ?_, hi.tp, hi.big, hi.gle, hi.cutLive, hi.cutDone⟩
    · simpa [Queue.step] using hi.qpos
    · simpa [Queue.step] using hi.qcap
    · simpa [Queue.step] using hi.noAbort
    · intro m cv h; cases h
    · intro m cv h
      obtain ⟨rfl, rfl, hx⟩ := enc_woken_q hi _ (by simp [Queue.notifies]) m cv h
      exact Or.inr ⟨rfl, rfl, hx⟩
    · intro _; exact ⟨by simp [Queue.step], h2⟩
    · intro h; exact absurd rfl h
    · simpa [Queue.step] using hi.small
    · intro h; have := (hi.encDone ((wake_eq_done _ _ _).1 h)).2.1; rw [h1] at this; cases this
    · intro h; exact hi.encLive ((wake_ne_done _ _ _).1 h)
    · intro h; exact (wake_eq_done _ _ _).2 (hi.compDone h)
    · simpa [Queue.step] using hi.hist
  | eRecv x r h1 h0 hg hq =>
    refine ⟨?_, ?_, hi.cspos, ?_, ?_, ?_, hi.compSleep, ?_, ?_, ?_, ?_, ?_, ?_, ?_, hi.tp, hi.big, hi.gle, hi.cutLive, hi.cutDone⟩
    · have := hi.qpos; rw [hq] at this; simp [Queue.step, hq] at this ⊢; omega
    · simpa [Queue.step, hq] using hi.qcap
    · simpa [Queue.step, hq] using hi.noAbort
    · intro m cv h; exact absurd h (app_woken hi _ (by simp [Queue.notifies]) m cv)
    · intro m cv h; simp only [h1] at h; cases h
    · intro h; have := hi.appDone ((wake_eq_done _ _ _).1 h); simpa [Queue.step, hq] using this
    · intro h; have := hi.appLive ((wake_ne_done _ _ _).1 h); simpa [Queue.step, hq] using this
    · simpa [Queue.step, hq] using hi.small
    · intro h; simp only [h1] at h; cases h
    · intro _; exact hi.encLive (by rw [h1]; simp)
    · intro h; have := hi.compDone h; rw [h1] at this; cases this
    · have := hi.hist; rw [hq, h0] at this; simpa [Queue.step, hq, pend, List.append_assoc] using this
  | eNull h1 h0 hg hq =>
    have happ : s.app = .done := by
      apply Classical.byContradiction
      intro hp
      have he := hi.appLive hp
      have ha := hi.noAbort.2
      have hpos := hi.qpos
      have hsm := hi.small
      simp [Queue.guard, ha, hq, he] at hg
      rw [hq] at hpos; simp at hpos
      omega
    refine ⟨?_, ?_, hi.cspos, ?_, ?_, ?_, ?_, ?_, ?_, ?_, ?_, ?_, ?_, ?_, hi.tp, hi.big, hi.gle, ?_, ?_⟩
    · simpa [Queue.step, hq] using hi.qpos
    · simpa [Queue.step, hq] using hi.qcap
    · simpa [Queue.step, hq] using hi.noAbort
    · intro m cv h; exact absurd h (app_woken hi _ (by simp [Queue.notifies]) m cv)
    · intro m cv h; cases h
    · intro m cv h; exact absurd h (comp_woken hi _ (by simp) m cv)
    · intro h; have := hi.appDone ((wake_eq_done _ _ _).1 h); simpa [Queue.step, hq] using this
    · intro h; have := hi.appLive ((wake_ne_done _ _ _).1 h); simpa [Queue.step, hq] using this
    · simpa [Queue.step, hq] using hi.small
    · intro _; exact ⟨rfl, (wake_eq_done _ _ _).2 happ, by simp [Queue.step, hq], h0⟩
    · intro h; exact absurd rfl h
    · intro _; rfl
    · simpa [Queue.step, hq] using hi.hist
    · intro h; exact hi.cutLive ((wake_ne_done _ _ _).1 h)
    · intro h; exact hi.cutDone ((wake_eq_done _ _ _).1 h)
  | eBlockQ h1 h0 hg =>
    refine ⟨hi.qpos, hi.qcap, hi.cspos, hi.noAbort, hi.appSleep, ?_, hi.compSleep, hi.appDone, hi.appLive, hi.small, ?_, ?_,
      ?_, hi.hist, hi.tp, hi.big, hi.gle, hi.cutLive, hi.cutDone⟩
    · intro m cv h; injection h with a b; exact Or.inl ⟨a.symm, b.symm, h0, hg⟩
    · intro h; cases h
    · intro _; exact hi.encLive (by rw [h1]; simp)
    · intro h; have := hi.compDone h; rw [h1] at this; cases this
  | eWrite x h1 h0 hg =>
    refine ⟨hi.qpos, hi.qcap, hi.cspos, hi.noAbort, hi.appSleep, ?_, ?_, hi.appDone, hi.appLive, hi.small, ?_, ?_, ?_, ?_, ?_,
      hi.big, ?_, ?_, ?_⟩
    · intro m cv h; simp only [h1] at h; cases h
    · intro m cv h; exact absurd h (comp_woken hi _ (by simp) m cv)
    · intro h; simp only [h1] at h; cases h
    · intro _; exact hi.encLive (by rw [h1]; simp)
    · intro h; have := hi.compDone ((wake_eq_done _ _ _).1 h); rw [h1] at this; cases this
    · have := hi.hist; rw [h0] at this; simpa [pend, List.append_assoc] using this
    · have := hi.tp; simp only [total_append, total_single]; omega
    · have := hi.gle; dsimp only; omega
    · intro h; exact hi.cutLive ((wake_ne_done _ _ _).1 h)
    · intro h; exact hi.cutDone ((wake_eq_done _ _ _).1 h)
  | eBlockU x h1 h0 hg =>
    refine ⟨hi.qpos, hi.qcap, hi.cspos, hi.noAbort, hi.appSleep, ?_, hi.compSleep, hi.appDone, hi.appLive, hi.small, ?_, ?_,
      ?_, hi.hist, hi.tp, hi.big, hi.gle, hi.cutLive, hi.cutDone⟩
    · intro m cv h; injection h with a b; exact Or.inr ⟨a.symm, b.symm, ⟨x, h0⟩, hg⟩
    · intro h; cases h
    · intro _; exact hi.encLive (by rw [h1]; simp)
    · intro h; have := hi.compDone h; rw [h1] at this; cases this
  | cFull h1 hg hs =>
    have hle : (s.cs : Int) + s.u.tellg ≤ s.u.tellp := by
      have ha := hi.noAbort.1
      simp [UP.guardRead, ha] at hg
      omega
    refine ⟨hi.qpos, hi.qcap, hi.cspos, hi.noAbort, hi.appSleep, ?_, ?_, hi.appDone, hi.appLive, hi.small, ?_, ?_, ?_,
      hi.hist, hi.tp, hi.big, ?_, ?_, ?_⟩
    · intro m cv h
      obtain ⟨rfl, rfl, hx⟩ := enc_woken_u hi _ (by simp) m cv h
      exact Or.inl ⟨rfl, rfl, hx⟩
    · intro m cv h; simp only [h1] at h; cases h
    · intro h; exact hi.encDone ((wake_eq_done _ _ _).1 h)
    · intro h; exact hi.encLive ((wake_ne_done _ _ _).1 h)
    · intro h; simp only [h1] at h; cases h
    · simp only; omega
    · intro _
      obtain ⟨k, hk, ho⟩ := hi.cutLive (by rw [h1]; simp)
      refine ⟨k + 1, ?_, ?_⟩
      · simp only [hk, Nat.succ_mul]; omega
      · simp only [ho]; exact (List.replicate_succ' ..).symm
    · intro h; simp only [h1] at h; cases h
  | cShort h1 hg hs =>
    have henc : s.enc = .done := by
      apply Classical.byContradiction
      intro hp
      have he := hi.encLive hp
      have h3 := hi.tp
      have h4 := hi.gle
      have h5 := hi.big
      have h6 := total_le_of_hist sz s.wr (pend s.pending) s.q.queue s.toWrite
      rw [hi.hist] at h6
      omega
    obtain ⟨hfs, happ, hq, hpd⟩ := hi.encDone henc
    have htw := (hi.appDone happ).2
    have hwr : s.wr = objs := by
      have := hi.hist; rw [hq, hpd, htw] at this; simpa [pend] using this
    have hfs2 : s.u.fileSize = (total sz objs : Int) := by rw [hfs, hi.tp, hwr]
    refine ⟨hi.qpos, hi.qcap, hi.cspos, hi.noAbort, hi.appSleep, ?_, ?_, hi.appDone, hi.appLive, hi.small, ?_, ?_, ?_,
      hi.hist, hi.tp, hi.big, ?_, ?_, ?_⟩
    · intro m cv h
      obtain ⟨rfl, rfl, hx⟩ := enc_woken_u hi _ (by simp) m cv h
      exact Or.inl ⟨rfl, rfl, hx⟩
    · intro m cv h; cases h
    · intro h; exact hi.encDone ((wake_eq_done _ _ _).1 h)
    · intro h; exact hi.encLive ((wake_ne_done _ _ _).1 h)
    · intro _; exact (wake_eq_done _ _ _).2 henc
    · simp only; omega
    · intro h; exact absurd rfl h
    · intro _
      obtain ⟨k, hk, ho⟩ := hi.cutLive (by rw [h1]; simp)
      have hgle := hi.gle
      have htp := hi.tp
      rw [hwr] at htp
      have hc : ((k * s.cs : Nat) : Int) ≤ (total sz objs : Int) := by omega
      have hc' : k * s.cs ≤ total sz objs := by exact_mod_cast hc
      refine ⟨k, ?_, hc', ?_⟩
      · dsimp only
        rw [ho, hfs2, hk]
        congr 2
        omega
      · dsimp only; omega
  | cBlock h1 hg =>
    refine ⟨hi.qpos, hi.qcap, hi.cspos, hi.noAbort, hi.appSleep, ?_, ?_, hi.appDone, hi.appLive, hi.small, ?_, ?_, ?_,
      hi.hist, hi.tp, hi.big, hi.gle, ?_, ?_⟩
    · intro m cv h
      obtain ⟨rfl, rfl, hx⟩ := enc_woken_u hi _ (by simp) m cv h
      exact Or.inl ⟨rfl, rfl, hx⟩
    · intro m cv h; injection h with a b; exact ⟨a.symm, b.symm, hg, rfl⟩
    · intro h; exact hi.encDone ((wake_eq_done _ _ _).1 h)
    · intro h; exact hi.encLive ((wake_ne_done _ _ _).1 h)
    · intro h; cases h
    · intro _; exact hi.cutLive (by rw [h1]; simp)
    · intro h; cases h

/-! ### progress -/

theorem app_can_step (sz : Nat → Nat) (s : Sys) (h : s.app = .running) : ∃ t, Step sz s t := by
  cases hp : s.toWrite with
  | nil => exact ⟨_, Step.aEos s h hp⟩
  | cons x r =>
    cases hg : Queue.guard s.q (.write x) with
    | true => exact ⟨_, Step.awrite s x r h hp hg⟩
    | false => exact ⟨_, Step.awriteBlock s x r h hp hg⟩

theorem enc_can_step (sz : Nat → Nat) (s : Sys) (h : s.enc = .running) : ∃ t, Step sz s t := by
  cases hp : s.pending with
  | some x =>
    cases hg : s.u.guardWrite with
    | true => exact ⟨_, Step.eWrite s x h hp hg⟩
    | false => exact ⟨_, Step.eBlockU s x h hp hg⟩
  | none =>
    cases hg : Queue.guard s.q .read with
    | false => exact ⟨_, Step.eBlockQ s h hp hg⟩
    | true =>
      cases hq : s.q.queue with
      | nil => exact ⟨_, Step.eNull s h hp hg hq⟩
      | cons x r => exact ⟨_, Step.eRecv s x r h hp hg hq⟩

theorem comp_can_step (sz : Nat → Nat) (s : Sys) (h : s.comp = .running) : ∃ t, Step sz s t := by
  cases hg : s.u.guardRead s.cs with
  | false => exact ⟨_, Step.cBlock s h hg⟩
  | true =>
    by_cases hs : (s.cs : Int) + s.u.tellg ≤ s.u.fileSize
    · exact ⟨_, Step.cFull s h hg hs⟩
    · exact ⟨_, Step.cShort s h hg (by omega)⟩

/-- **no deadlock**: in every state that satisfies the invariant and is not final some thread can take a step; in
    particular `File::write()` and `File::close()` never block for ever — whatever the container size -/
theorem no_deadlock (sz : Nat → Nat) (objs : List Nat) (s : Sys) (hi : Inv sz objs s) (hnf : ¬ Final s) :
    ∃ t, Step sz s t := by
  cases hc : s.comp with
  | running => exact comp_can_step sz s hc
  | done =>
    have he := hi.compDone hc
    have ha := (hi.encDone he).2.1
    exact absurd ⟨ha, he, hc⟩ hnf
  | asleep m cv =>
    obtain ⟨_, _, hg, hd⟩ := hi.compSleep m cv hc
    obtain ⟨_, h2, h3⟩ := (uguardRead_false_iff _ _).1 hg
    cases he : s.enc with
    | running => exact enc_can_step sz s he
    | done => have := (hi.encDone he).1; omega
    | asleep m2 cv2 =>
      rcases hi.encSleep m2 cv2 he with ⟨_, _, _, hgr⟩ | ⟨_, _, _, hgw⟩
      · obtain ⟨_, hq, hlt⟩ := (guard_read_false_iff _).1 hgr
        cases ha : s.app with
        | running => exact app_can_step sz s ha
        | done =>
          have := (hi.appDone ha).1
          have hpos := hi.qpos; rw [hq] at hpos; simp at hpos
          omega
        | asleep m3 cv3 =>
          obtain ⟨_, _, x, r, _, hgw⟩ := hi.appSleep m3 cv3 ha
          obtain ⟨_, hle⟩ := (guard_write_false_iff _ _).1 hgw
          rw [hq] at hle; have := hi.qcap; simp at hle; omega
      · obtain ⟨_, _, h5⟩ := (uguardWrite_false_iff _).1 hgw
        omega

/-! ### termination -/

def wApp : Status → Nat | .running => 4 | .asleep _ _ => 3 | .done => 0
def wEnc : Status → Nat | .running => 6 | .asleep _ _ => 4 | .done => 0
def wComp : Status → Nat | .running => 6 | .asleep _ _ => 3 | .done => 0

def measure (sz : Nat → Nat) (objs : List Nat) (s : Sys) : Nat :=
  9 * s.toWrite.length + 6 * s.q.queue.length + (if s.pending.isSome then 4 else 0) +
  3 * ((total sz objs : Int) - s.u.tellg).toNat + wApp s.app + wEnc s.enc + wComp s.comp

theorem wApp_wake (m : Mon) (cvs : List CV) (st : Status) : wApp (wake m cvs st) ≤ wApp st + 1 := by
  cases st with
  | running => simp [wake, wApp]
  | done => simp [wake, wApp]
  | asleep m2 cv => simp only [wake]; split <;> simp [wApp]

theorem wEnc_wake (m : Mon) (cvs : List CV) (st : Status) : wEnc (wake m cvs st) ≤ wEnc st + 2 := by
  cases st with
  | running => simp [wake, wEnc]
  | done => simp [wake, wEnc]
  | asleep m2 cv => simp only [wake]; split <;> simp [wEnc]

theorem wComp_wake (m : Mon) (cvs : List CV) (st : Status) : wComp (wake m cvs st) ≤ wComp st + 3 := by
  cases st with
  | running => simp [wake, wComp]
  | done => simp [wake, wComp]
  | asleep m2 cv => simp only [wake]; split <;> simp [wComp]

/-- **termination**: the measure strictly decreases on every step from a state that satisfies the invariant, so every
    schedule — fair or not — is finite -/
theorem measure_step (sz : Nat → Nat) (objs : List Nat) (s t : Sys) (hi : Inv sz objs s) (hst : Step sz s t) :
    measure sz objs t < measure sz objs s := by
  cases hst with
  | awrite x r h1 h2 hg =>
    have := wEnc_wake .q (Queue.notifies (.write x)) s.enc
    simp only [measure, h2, List.length_cons, Queue.step, List.length_append, List.length_nil]; omega
  | awriteBlock x r h1 h2 hg => simp only [measure, h1, wApp]; omega
  | aEos h1 h2 =>
    have := wEnc_wake .q (Queue.notifies (.setFileSize 0)) s.enc
    simp only [measure, h1, wApp, Queue.step]; omega
  | eRecv x r h1 h0 hg hq =>
    have := wApp_wake .q (Queue.notifies .read) s.app
    simp only [measure, Queue.step, hq, List.length_cons, h0]; simp; omega
  | eNull h1 h0 hg hq =>
    have := wApp_wake .q (Queue.notifies .read) s.app
    have := wComp_wake .u (uNotifies .setFileSize) s.comp
    simp only [measure, Queue.step, hq, h1, wEnc]; omega
  | eBlockQ h1 h0 hg => simp only [measure, h1, wEnc]; omega
  | eWrite x h1 h0 hg =>
    have := wComp_wake .u (uNotifies .writeBytes) s.comp
    simp only [measure, h0]; simp; omega
  | eBlockU x h1 h0 hg => simp only [measure, h1, wEnc]; omega
  | cFull h1 hg hs =>
    have := wEnc_wake .u (uNotifies .read) s.enc
    have hle : (s.cs : Int) + s.u.tellg ≤ s.u.tellp := by
      have ha := hi.noAbort.1
      simp [UP.guardRead, ha] at hg
      omega
    have h3 := hi.tp
    have h6 := total_le_of_hist sz s.wr (pend s.pending) s.q.queue s.toWrite
    rw [hi.hist] at h6
    have hcs := hi.cspos
    simp only [measure]; omega
  | cShort h1 hg hs =>
    have := wEnc_wake .u (uNotifies .read) s.enc
    have h3 := hi.tp
    have h4 := hi.gle
    have h6 := total_le_of_hist sz s.wr (pend s.pending) s.q.queue s.toWrite
    rw [hi.hist] at h6
    have h5 := hi.big
    have hfs : s.u.tellg ≤ s.u.fileSize := by
      by_cases he : s.enc = .done
      · have := (hi.encDone he).1; omega
      · have := hi.encLive he; omega
    simp only [measure, h1, wComp]; omega
  | cBlock h1 hg =>
    have := wEnc_wake .u (uNotifies .read) s.enc
    simp only [measure, h1, wComp]; omega

/-! ### the result -/

theorem reach_inv (sz : Nat → Nat) (bufU : Int) (capQ : Nat) (hc : 0 < capQ) (cs : Nat) (hcs : 0 < cs) (objs : List Nat)
    (hs : objs.length < Queue.U32MAX) (hb : (total sz objs : Int) + cs < UFile.I64MAX)
    (s : Sys) (h : Reach sz bufU capQ cs objs s) : Inv sz objs s := by
  induction h with
  | init => exact inv_init sz bufU capQ hc cs hcs objs hs hb
  | step s t _ hst ih => exact inv_step sz objs s t ih hst

theorem cs_const (sz : Nat → Nat) (s t : Sys) (h : Step sz s t) : t.cs = s.cs := by cases h <;> rfl

/-- **the stream is the objects in order**: in every reachable state the encoder has written a prefix of the objects,
    in order, each once; when the encoder has ended it has written all of them -/
theorem written_prefix (sz : Nat → Nat) (objs : List Nat) (s : Sys) (hi : Inv sz objs s) :
    (∃ rest, s.wr ++ rest = objs) ∧ (s.enc = .done → s.wr = objs) := by
  refine ⟨⟨pend s.pending ++ s.q.queue ++ s.toWrite, by simpa [List.append_assoc] using hi.hist⟩, ?_⟩
  intro he
  obtain ⟨_, happ, hq, hpd⟩ := hi.encDone he
  have := hi.hist
  rw [hq, hpd, (hi.appDone happ).2] at this
  simpa [pend] using this

/-- **the same containers under every schedule**: in a final state the compressor has cut the stream of
    `total sz objs` bytes into `k` containers of `cs` bytes and one last container with the remaining bytes (fewer
    than `cs`, possibly none) — a function of the objects and the container size alone -/
theorem final_containers (sz : Nat → Nat) (objs : List Nat) (s : Sys) (hi : Inv sz objs s) (hf : Final s) :
    s.wr = objs ∧ s.outs = List.replicate (total sz objs / s.cs) s.cs ++ [total sz objs % s.cs] := by
  refine ⟨(written_prefix sz objs s hi).2 hf.2.1, ?_⟩
  obtain ⟨k, ho, hle, hlt⟩ := hi.cutDone hf.2.2
  have hcs := hi.cspos
  have hk : k = total sz objs / s.cs := by
    have h1 : k ≤ total sz objs / s.cs := (Nat.le_div_iff_mul_le hcs).2 hle
    have h2 : total sz objs / s.cs < k + 1 := by
      rw [Nat.div_lt_iff_lt_mul hcs]
      have : (k + 1) * s.cs = k * s.cs + s.cs := Nat.succ_mul k s.cs
      omega
    omega
  have hr : total sz objs - k * s.cs = total sz objs % s.cs := by
    have := Nat.div_add_mod (total sz objs) s.cs
    rw [← hk, Nat.mul_comm] at this
    omega
  rw [ho, hr, hk]

/-- non-vacuity: container size 8 above a stream buffer of 4: the compressor sleeps with its demand published and the
    encoder is admitted although 6 ≥ 4 bytes are buffered (before fix 54cea87: a deadlock) -/
example : ∃ s, Reach (fun _ => 3) 4 2 8 [1, 2, 3] s ∧ s.comp = .asleep .u .tellp ∧ s.u.tellp = 6 ∧ s.u.guardWrite = true := by
  refine ⟨_, Reach.step _ _ (Reach.step _ _ (Reach.step _ _ (Reach.step _ _ (Reach.step _ _ (Reach.step _ _ (Reach.step _ _
    Reach.init
    (Step.awrite _ 1 [2, 3] rfl rfl (by decide)))
    (Step.eRecv _ 1 [] rfl rfl (by decide) rfl))
    (Step.eWrite _ 1 rfl rfl (by decide)))
    (Step.awrite _ 2 [3] rfl rfl (by decide)))
    (Step.eRecv _ 2 [] rfl rfl (by decide) rfl))
    (Step.eWrite _ 2 rfl rfl (by decide)))
    (Step.cBlock _ rfl (by decide)), rfl, rfl, by decide⟩

end Blf.WPipe
