import Blf.FileTrunc
/-!
# A file cut inside its 144-byte statistics block  (C08, the cut positions `t < 144`)

`std::fstream` keeps its failed state: once a read of the statistics block comes back short every later read fails
(`exec_bad`), the first container header is not read (`containerStep_bad`), no container reaches the in-memory stream and the
read session ends at once with the null result and no object (`readAfterHeader_bad`).  `open()` itself does not throw: the
signature member keeps (or is partly overwritten with a prefix of) the expected value.  `read_truncated_header` proves this
for every cut `t < 144` of every written file; with `FileTrunc.read_truncated_file` (`t ≥ 144`) every cut position is covered.
-/
namespace Blf.HeaderTrunc
open Blf Blf.FileSeq Blf.FileRound Blf.ContainerRound Blf.FileRoundTrip Blf.ContainerTrunc

/-- the sticky stream has failed (and the ghost flag says a read came back short) -/
def Bad (st : St) : Prop := st.good = false ∧ st.short = true

theorem sread_bad (cfg : Cfg) (st : St) (n : Nat) (h : Bad st) : Bad (st.sread cfg.asSticky n).2 ∧ (st.sread cfg.asSticky n).1 = [] := by
  unfold St.sread
  simp only [Cfg.asSticky, Bool.true_and]
  rw [if_pos (by simp [h.1])]
  exact ⟨⟨h.1, by simp [h.2]⟩, rfl⟩

theorem sseek_bad (cfg : Cfg) (st : St) (n : Nat) (h : Bad st) : Bad (st.sseek cfg.asSticky n) := by
  unfold St.sseek
  simp only [Cfg.asSticky, Bool.true_and]
  rw [if_pos (by simp [h.1])]; exact h

theorem syncLoop_bad (cfg : Cfg) (sigF : Nat) : ∀ (fuel tmp : Nat) (st : St), Bad st →
    Bad (syncLoop cfg.asSticky sigF fuel tmp st)
  | 0, _, st, h => h
  | n+1, tmp, st, h => by
    unfold syncLoop
    obtain ⟨h1, hg⟩ := sread_bad cfg st 4 h
    generalize st.sread cfg.asSticky 4 = r at h1 hg
    obtain ⟨got, st1⟩ := r
    simp only at h1 hg ⊢
    subst hg
    have keep : ∀ (o : Obj) (hl : Halt), Bad ({ st1 with obj := o, halt := hl } : St) := fun _ _ => h1
    split
    · exact keep _ _
    · split
      · exact keep _ _
      · next _ h2 => simp at h2

theorem exec_bad (cfg : Cfg) : ∀ (s : Stmt) (st : St), Bad st → Bad (s.exec cfg.asSticky st) := by
  intro s
  have lift : ∀ (st : St) (o : Obj) (hl : Halt) (ou : Bytes), Bad st → Bad ({ st with obj := o, halt := hl, out := ou } : St) :=
    fun _ _ _ _ h => h
  induction s with
  | skip => intro st h; exact h
  | seq a b iha ihb =>
    intro st h
    simp only [Stmt.exec]
    split
    · exact ihb _ (iha st h)
    · exact iha st h
  | sync sigF => intro st h; exact syncLoop_bad cfg sigF _ 0 st h
  | rd f w =>
    intro st h
    have h1 := (sread_bad cfg st w h).1
    simp only [Stmt.exec]
    generalize st.sread cfg.asSticky w = r at h1
    obtain ⟨got, st1⟩ := r
    exact lift st1 _ st1.halt st1.out h1
  | rdBuf f n =>
    intro st h
    simp only [Stmt.exec]
    split
    · exact lift st st.obj .oob st.out h
    · have h1 := (sread_bad cfg st (n.eval st.obj) h).1
      generalize st.sread cfg.asSticky (n.eval st.obj) = r at h1
      obtain ⟨got, st1⟩ := r
      exact lift st1 _ st1.halt st1.out h1
  | resize f ew n =>
    intro st h
    simp only [Stmt.exec]
    split
    · exact lift st st.obj .badAlloc st.out h
    · exact lift st _ st.halt st.out h
  | seekg n => intro st h; exact sseek_bad cfg st _ h
  | wr f w => intro st h; exact lift st st.obj st.halt _ h
  | wrBuf f n =>
    intro st h
    simp only [Stmt.exec]
    split
    · exact lift st st.obj .oob st.out h
    · exact lift st st.obj st.halt _ h
  | skipp n => intro st h; exact lift st st.obj st.halt _ h
  | assign f e => intro st h; exact lift st _ st.halt st.out h
  | ite c t e iht ihe => intro st h; simp only [Stmt.exec]; split; exact iht st h; exact ihe st h
  | ret => intro st h; exact lift st st.obj .ret st.out h

/-- on a failed compressed-file stream the inflater's loop ends without a container -/
theorem containerStep_bad (Z : Zlib) (cap : Nat) (cs : CState) (h : Bad cs.st) : containerStep Z cap cs = none := by
  unfold containerStep
  rw [stickyCfg_eq]
  have hb := exec_bad (memCfg cap) Gen.ObjectHeaderBase.readProg { cs.st with obj := Gen.ObjectHeaderBase.fresh, halt := Halt.none } h
  unfold afterContainerHeader
  split
  · rfl
  · rw [if_pos (by simp [hb.1])]

/-- … and the session delivers nothing and ends normally -/
theorem readAfterHeader_bad (Z : Zlib) (cap n : Nat) (s2 : St) (h : Bad s2) :
    (readAfterHeader Z cap n s2).outcome = .ended ∧ (readAfterHeader Z cap n s2).objs = [] := by
  unfold readAfterHeader
  dsimp only
  have hl : containerLoop Z cap (n + 2) { st := s2, usize := s2.obj.num 1 } = { st := s2, usize := s2.obj.num 1 } := by
    show containerLoop Z cap ((n + 1) + 1) _ = _
    unfold containerLoop
    rw [containerStep_bad Z cap { st := s2, usize := s2.obj.num 1 } h]
  rw [hl]
  simp only [Bool.false_eq_true, if_false, List.reverse_nil, flattenConts]
  unfold parseStream
  dsimp only
  have hstep : objectStep cap { st := { obj := statsDefault, inp := [] } } = none := objectStep_at_end cap _ rfl
  have hloop : objectLoop cap (4 * ([] : Bytes).length + 64) { st := { obj := statsDefault, inp := [] } } =
      { st := { obj := statsDefault, inp := [] } } := by
    show objectLoop cap (63 + 1) _ = _
    unfold objectLoop
    rw [hstep]
  rw [hloop]
  exact ⟨rfl, rfl⟩

/-- a run of scalar / fixed-array reads on a sticky stream that holds fewer bytes than the run asks for ends failed -/
def FlatItem : Item → Prop
  | .scalar _ w => 0 < w
  | .fixed _ n => 0 < n
  | _ => False

theorem itemsSize_flat_eq : ∀ (L : List Item) (o o' : Obj), (∀ i ∈ L, FlatItem i) → itemsSize o L = itemsSize o' L
  | [], _, _, _ => rfl
  | i :: L, o, o', h => by
    have hi := h i (by simp)
    have := itemsSize_flat_eq L o o' (fun j hj => h j (by simp [hj]))
    cases i <;> simp only [FlatItem] at hi <;> simp [itemsSize, Item.size, this]

theorem canonRd_flat_short (cfg : Cfg) : ∀ (L : List Item) (st : St), (∀ i ∈ L, FlatItem i) → ArrOK st.obj L → st.halt = .none →
    (StreamOK st ∧ st.inp.length - st.pos < itemsSize st.obj L) ∨ Bad st →
    Bad ((Stmt.block (canonRd L)).exec cfg.asSticky st)
  | [], st, _, _, _, h => by
    rcases h with ⟨_, h⟩ | h
    · simp [itemsSize] at h
    · exact h
  | i :: L, st, hf, harr, h0, h => by
    have hfi := hf i (by simp)
    cases i with
    | scalar f w =>
      have hw : 0 < w := hfi
      show Bad ((Stmt.block (Stmt.rd f w :: canonRd L)).exec cfg.asSticky st)
      rw [exec_block_cons]
      -- the state after this read
      have hstep : ((Stmt.rd f w).exec cfg.asSticky st).halt = .none ∧
          (∀ g, ((Stmt.rd f w).exec cfg.asSticky st).obj.buf g = st.obj.buf g) ∧
          ((StreamOK ((Stmt.rd f w).exec cfg.asSticky st) ∧
            ((Stmt.rd f w).exec cfg.asSticky st).inp.length - ((Stmt.rd f w).exec cfg.asSticky st).pos < itemsSize st.obj L) ∨
           Bad ((Stmt.rd f w).exec cfg.asSticky st)) := by
        simp only [Stmt.exec]
        unfold St.sread
        simp only [Cfg.asSticky, Bool.true_and, Bool.not_true, Bool.false_eq_true, and_false, if_false]
        rcases h with ⟨hok, hlt⟩ | hb
        · rw [if_neg (by simp [hok.good])]
          by_cases hl : st.pos + w ≤ st.inp.length
          · rw [if_pos hl]
            refine ⟨h0, fun g => rfl, Or.inl ⟨⟨rfl, rfl, hl, hok.short⟩, ?_⟩⟩
            simp only [itemsSize, Item.size] at hlt
            show st.inp.length - (st.pos + w) < _
            omega
          · rw [if_neg hl]
            exact ⟨h0, fun g => rfl, Or.inr ⟨rfl, rfl⟩⟩
        · rw [if_pos (by simp [hb.1])]
          exact ⟨h0, fun g => rfl, Or.inr ⟨hb.1, by simp [hb.2]⟩⟩
      obtain ⟨s0, sb, sn⟩ := hstep
      rw [if_pos s0]
      apply canonRd_flat_short cfg L _ (fun j hj => hf j (by simp [hj]))
      · intro g n hm; rw [sb g]; exact harr g n (by simp [hm])
      · exact s0
      · rcases sn with ⟨a, b⟩ | c
        · left; refine ⟨a, ?_⟩
          have : itemsSize ((Stmt.rd f w).exec cfg.asSticky st).obj L = itemsSize st.obj L := by
            apply itemsSize_flat_eq L _ _ (fun j hj => hf j (by simp [hj]))
          rw [this]; exact b
        · exact Or.inr c
    | fixed f n =>
      have hn : 0 < n := hfi
      show Bad ((Stmt.block (Stmt.rdBuf f (.const n) :: canonRd L)).exec cfg.asSticky st)
      rw [exec_block_cons]
      have hlen : (st.obj.buf f).length = n := harr f n (by simp)
      have hstep : ((Stmt.rdBuf f (.const n)).exec cfg.asSticky st).halt = .none ∧
          (∀ g, (((Stmt.rdBuf f (.const n)).exec cfg.asSticky st).obj.buf g).length = (st.obj.buf g).length) ∧
          ((StreamOK ((Stmt.rdBuf f (.const n)).exec cfg.asSticky st) ∧
            ((Stmt.rdBuf f (.const n)).exec cfg.asSticky st).inp.length - ((Stmt.rdBuf f (.const n)).exec cfg.asSticky st).pos < itemsSize st.obj L) ∨
           Bad ((Stmt.rdBuf f (.const n)).exec cfg.asSticky st)) := by
        have hno : ¬ ((st.obj.buf f).length < n) := by omega
        simp only [Stmt.exec, Expr.eval, hno, if_false]
        unfold St.sread
        simp only [Cfg.asSticky, Bool.true_and, Bool.not_true, Bool.false_eq_true, and_false, if_false]
        rcases h with ⟨hok, hlt⟩ | hb
        · rw [if_neg (by simp [hok.good])]
          by_cases hl : st.pos + n ≤ st.inp.length
          · rw [if_pos hl]
            refine ⟨h0, fun g => ?_, Or.inl ⟨⟨rfl, rfl, hl, hok.short⟩, ?_⟩⟩
            · simp only [Obj.setBuf]
              split
              · rename_i hg; subst hg
                simp only [List.length_append, List.length_take, List.length_drop]; omega
              · rfl
            · simp only [itemsSize, Item.size] at hlt
              show st.inp.length - (st.pos + n) < _
              omega
          · rw [if_neg hl]
            refine ⟨h0, fun g => ?_, Or.inr ⟨rfl, rfl⟩⟩
            simp only [Obj.setBuf]
            split
            · rename_i hg; subst hg
              simp only [List.length_append, List.length_drop]; omega
            · rfl
        · rw [if_pos (by simp [hb.1])]
          refine ⟨h0, fun g => ?_, Or.inr ⟨hb.1, by simp [hb.2]⟩⟩
          simp only [Obj.setBuf]
          split
          · rename_i hg; subst hg; simp
          · rfl
      obtain ⟨s0, sb, sn⟩ := hstep
      rw [if_pos s0]
      apply canonRd_flat_short cfg L _ (fun j hj => hf j (by simp [hj]))
      · intro g k hm; rw [sb g]; exact harr g k (by simp [hm])
      · exact s0
      · rcases sn with ⟨a, b⟩ | c
        · left; refine ⟨a, ?_⟩
          have : itemsSize ((Stmt.rdBuf f (.const n)).exec cfg.asSticky st).obj L = itemsSize st.obj L := by
            apply itemsSize_flat_eq L _ _ (fun j hj => hf j (by simp [hj]))
          rw [this]; exact b
        · exact Or.inr c
    | var f ew len => exact absurd hfi (by simp [FlatItem])
    | pad g k => exact absurd hfi (by simp [FlatItem])
    | skipK n => exact absurd hfi (by simp [FlatItem])

theorem lstats_flat : ∀ i ∈ Lstats, FlatItem i := by
  intro i hi
  simp only [Lstats, List.mem_cons, List.not_mem_nil, or_false] at hi
  rcases hi with h | h | h | h | h | h | h | h | h | h | h | h | h | h <;> subst h <;> simp [FlatItem]

/-- **write, cut off inside the statistics block, then read**: `open()` succeeds, the first `read()` returns null, no object
    is delivered -/
theorem read_truncated_header (Z : Zlib) (cap : Nat) (cfg : WCfg) (hdr : Obj) (objs : List (Codec × Obj))
    (hsig : hdr.num 0 = FILESIG) (hH : ItemsWF (storedHeader Z cap cfg hdr objs) Lfull) (t : Nat) (ht : t < 144) :
    (readFile Z cap ((writeFile Z cap cfg hdr objs).take t)).outcome = .ended ∧
    (readFile Z cap ((writeFile Z cap cfg hdr objs).take t)).objs = [] := by
  generalize hSH : storedHeader Z cap cfg hdr objs = sh at hH
  have hsh0 : sh.num 0 = FILESIG := by
    rw [← hSH]; unfold storedHeader; simp only
    split <;> simp [Obj.setNum, hsig]
  have hl144 : (encItems sh Lfull).length = 144 := by
    rw [encItems_length _ _ hH]; simp [Lfull, Lstats, itemsSize, Item.size]
  have hfile : (writeFile Z cap cfg hdr objs).take t = (encItems sh Lfull).take t := by
    rw [writeFile_eq, hSH, encodeStats_eq cap sh hH, List.take_append_of_le_length (by omega)]
  rw [hfile]
  have hE : encItems sh Lfull = [0x4C, 0x4F, 0x47, 0x47] ++ encItems sh Lstats := by
    have : leBytes 4 FILESIG = [0x4C, 0x4F, 0x47, 0x47] := by decide
    simp only [Lfull, encItems, encItem, hsh0, this]
  have hlS : (encItems sh Lstats).length = 140 := by
    have := hl144; rw [hE] at this; simp only [List.length_append, List.length_cons, List.length_nil] at this; omega
  generalize encItems sh Lstats = S at hE hlS
  rw [hE]
  unfold readFile
  dsimp only
  -- the signature read
  have hs1 : ((Stmt.rd 0 4).exec (stickyCfg cap) { obj := statsDefault, inp := ([0x4C, 0x4F, 0x47, 0x47] ++ S).take t }).obj.num 0 = FILESIG ∧
      ((Stmt.rd 0 4).exec (stickyCfg cap) { obj := statsDefault, inp := ([0x4C, 0x4F, 0x47, 0x47] ++ S).take t }).halt = .none ∧
      (∀ g, ((Stmt.rd 0 4).exec (stickyCfg cap) { obj := statsDefault, inp := ([0x4C, 0x4F, 0x47, 0x47] ++ S).take t }).obj.buf g = statsDefault.buf g) ∧
      ((StreamOK ((Stmt.rd 0 4).exec (stickyCfg cap) { obj := statsDefault, inp := ([0x4C, 0x4F, 0x47, 0x47] ++ S).take t }) ∧
         ((Stmt.rd 0 4).exec (stickyCfg cap) { obj := statsDefault, inp := ([0x4C, 0x4F, 0x47, 0x47] ++ S).take t }).inp.length -
         ((Stmt.rd 0 4).exec (stickyCfg cap) { obj := statsDefault, inp := ([0x4C, 0x4F, 0x47, 0x47] ++ S).take t }).pos < 140) ∨
       Bad ((Stmt.rd 0 4).exec (stickyCfg cap) { obj := statsDefault, inp := ([0x4C, 0x4F, 0x47, 0x47] ++ S).take t })) := by
    simp only [Stmt.exec]
    unfold St.sread
    simp only [stickyCfg, Bool.true_and, Bool.not_true, Bool.false_eq_true, and_false, if_false, Nat.zero_add]
    have hlen : (([0x4C, 0x4F, 0x47, 0x47] ++ S).take t).length = t := by
      simp only [List.length_take, List.length_append, List.length_cons, List.length_nil]; omega
    by_cases h4 : 4 ≤ t
    · rw [if_pos (by rw [hlen]; exact h4)]
      have hgot : ((([0x4C, 0x4F, 0x47, 0x47] ++ S).take t).drop 0).take 4 = [0x4C, 0x4F, 0x47, 0x47] := by
        rw [List.drop_zero, List.take_take, Nat.min_eq_left h4]
        exact (take_append_len _ _ 4 rfl).1
      rw [hgot]
      refine ⟨by show (statsDefault.setNum 0 (scalarMerge 4 (statsDefault.num 0) [76, 79, 71, 71])).num 0 = FILESIG; decide,
        rfl, fun g => rfl, Or.inl ⟨⟨rfl, rfl, by show 4 ≤ _; rw [hlen]; exact h4, rfl⟩, ?_⟩⟩
      show (([0x4C, 0x4F, 0x47, 0x47] ++ S).take t).length - 4 < 140
      rw [hlen]; omega
    · rw [if_neg (by rw [hlen]; omega)]
      have ht4 : t = 0 ∨ t = 1 ∨ t = 2 ∨ t = 3 := by omega
      refine ⟨?_, rfl, fun g => rfl, Or.inr ⟨rfl, rfl⟩⟩
      rcases ht4 with h | h | h | h <;> subst h
      · show (statsDefault.setNum 0 (scalarMerge 4 (statsDefault.num 0) [])).num 0 = FILESIG; decide
      · show (statsDefault.setNum 0 (scalarMerge 4 (statsDefault.num 0) [76])).num 0 = FILESIG; decide
      · show (statsDefault.setNum 0 (scalarMerge 4 (statsDefault.num 0) [76, 79])).num 0 = FILESIG; decide
      · show (statsDefault.setNum 0 (scalarMerge 4 (statsDefault.num 0) [76, 79, 71])).num 0 = FILESIG; decide
  generalize (Stmt.rd 0 4).exec (stickyCfg cap) { obj := statsDefault, inp := ([0x4C, 0x4F, 0x47, 0x47] ++ S).take t } = s1 at hs1
  obtain ⟨hn0, hh0, hbuf, hst⟩ := hs1
  rw [if_neg (by simp [hn0])]
  -- the rest of the statistics: the stream fails
  have harr : ArrOK s1.obj Lstats := by
    intro f n hm; rw [hbuf f]; exact statsDefault_arr f n hm
  have hsz : itemsSize s1.obj Lstats = 140 := by simp [Lstats, itemsSize, Item.size]
  have hbad : Bad (statsReadRest.exec (stickyCfg cap) s1) := by
    rw [stats_rd, stickyCfg_eq]
    exact canonRd_flat_short (memCfg cap) Lstats s1 lstats_flat harr hh0 (by rw [hsz]; exact hst)
  exact readAfterHeader_bad Z cap _ _ hbad

end Blf.HeaderTrunc
