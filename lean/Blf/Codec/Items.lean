import Blf.Codec.Lang
/-!
# Item lists: the layout view of a regular codec, and its pure round-trip theorems

A *regular* codec reads and writes a fixed sequence of items.  This file gives the items a pure
semantics (`encItems`, `decItems`) and proves, for all objects and all byte strings:

* `encItems_length`  : the encoder emits exactly `itemsSize` bytes;
* `dec_enc`          : decoding an encoding (followed by arbitrary bytes) consumes exactly the
                       encoding and reproduces every field of the layout;
* `enc_dec`          : whatever the decoder accepts re-encodes to the consumed bytes (left inverse).

`Blf/Codec/Canon.lean` links these to the generic interpreter run on the canonical programs.
-/
namespace Blf

inductive Item where
  | scalar (f w : Nat)
  | fixed (f n : Nat)
  | var (f ew len : Nat)       -- `len` elements of `ew` bytes; `len` is a scalar field read earlier
  | pad (g k : Nat)            -- `fld g % k` filler bytes (zero on write, skipped on read)
  | skipK (n : Nat)            -- constant filler
  deriving DecidableEq, Repr, Inhabited

def Item.size (o : Obj) : Item → Nat
  | .scalar _ w => w
  | .fixed _ n => n
  | .var _ ew len => o.num len * ew
  | .pad g k => o.num g % k
  | .skipK n => n

def encItem (o : Obj) : Item → Bytes
  | .scalar f w => leBytes w (o.num f)
  | .fixed f n => (o.buf f).take n
  | .var f ew len => (o.buf f).take (o.num len * ew)
  | .pad g k => zeros (o.num g % k)
  | .skipK n => zeros n

def encItems (o : Obj) : List Item → Bytes
  | [] => []
  | i :: l => encItem o i ++ encItems o l

def itemsSize (o : Obj) : List Item → Nat
  | [] => 0
  | i :: l => i.size o + itemsSize o l

/-- the writer never reads outside a container and emits exactly the declared sizes -/
def Item.WF (o : Obj) : Item → Prop
  | .scalar f w => o.num f < 256 ^ w
  | .fixed f n => (o.buf f).length = n
  | .var f ew len => (o.buf f).length = o.num len * ew
  | .pad _ _ => True
  | .skipK _ => True

def ItemsWF (o : Obj) : List Item → Prop
  | [] => True
  | i :: l => i.WF o ∧ ItemsWF o l

theorem encItem_length (o : Obj) (i : Item) (h : i.WF o) : (encItem o i).length = i.size o := by
  cases i <;> simp_all [encItem, Item.size, Item.WF]

theorem encItems_length (o : Obj) (L : List Item) (h : ItemsWF o L) :
    (encItems o L).length = itemsSize o L := by
  induction L with
  | nil => rfl
  | cons i l ih =>
    simp only [encItems, itemsSize, List.length_append]
    rw [encItem_length o i h.1, ih h.2]

/-- pure decoder of one item: `none` = not enough bytes, allocation above the cap, or (fixed) a
    destination array of the wrong size -/
def decItem (cap : Nat) (o : Obj) (s : Bytes) : Item → Option (Obj × Bytes)
  | .scalar f w => if w ≤ s.length then some (o.setNum f (leVal (s.take w)), s.drop w) else none
  | .fixed f n => if n ≤ s.length then some (o.setBuf f (s.take n), s.drop n) else none
  | .var f ew len =>
    if o.num len * ew ≤ cap ∧ o.num len * ew ≤ s.length then
      some (o.setBuf f (s.take (o.num len * ew)), s.drop (o.num len * ew))
    else none
  | .pad g k => some (o, s.drop (o.num g % k))
  | .skipK n => some (o, s.drop n)

def decItems (cap : Nat) : List Item → Obj → Bytes → Option (Obj × Bytes)
  | [], o, s => some (o, s)
  | i :: l, o, s =>
    match decItem cap o s i with
    | some (o', s') => decItems cap l o' s'
    | none => none

/-- field written by an item (numeric / buffer) -/
def Item.numDef : Item → Option Nat
  | .scalar f _ => some f
  | _ => none
def Item.bufDef : Item → Option Nat
  | .fixed f _ => some f
  | .var f _ _ => some f
  | _ => none

/-- numeric fields an item's layout depends on -/
def Item.uses : Item → List Nat
  | .var _ _ len => [len]
  | .pad g _ => [g]
  | _ => []

/-- syntactic side condition: every field is defined by at most one item, and every field an
    item's layout depends on has been read by an earlier scalar item. `known` = scalars so far. -/
def itemsOK : List Nat → List Nat → List Item → Bool
  | _, _, [] => true
  | kn, bf, i :: l =>
    (i.uses.all fun g => kn.contains g) &&
    (match i.numDef with | some f => !kn.contains f | none => true) &&
    (match i.bufDef with | some f => !bf.contains f | none => true) &&
    (match i with | .var _ ew _ => decide (0 < ew) | _ => true) &&
    itemsOK (match i.numDef with | some f => f :: kn | none => kn)
            (match i.bufDef with | some f => f :: bf | none => bf) l

/-- reader state agrees with the writer's object on the numeric fields in `kn`, buffers in `bf` -/
def Agree (kn bf : List Nat) (a b : Obj) : Prop :=
  (∀ f ∈ kn, a.num f = b.num f) ∧ (∀ f ∈ bf, a.buf f = b.buf f)

theorem Agree.mono {kn bf kn' bf' : List Nat} {a b : Obj} (h : Agree kn bf a b)
    (h1 : ∀ f ∈ kn', f ∈ kn) (h2 : ∀ f ∈ bf', f ∈ bf) : Agree kn' bf' a b :=
  ⟨fun f hf => h.1 f (h1 f hf), fun f hf => h.2 f (h2 f hf)⟩

theorem take_append_len {α} (a b : List α) (n : Nat) (h : a.length = n) :
    (a ++ b).take n = a ∧ (a ++ b).drop n = b := by
  subst h; simp

/-- **decode ∘ encode**: for every object `ow` the writer accepts, every start object `o`, every
    trailing byte string `rest`: the decoder succeeds, consumes exactly the encoding, and the result
    agrees with `ow` on all fields known before plus all fields of the layout. -/
theorem dec_enc (cap : Nat) (L : List Item) (kn bf : List Nat) (ow o : Obj) (rest : Bytes)
    (hok : itemsOK kn bf L = true) (hwf : ItemsWF ow L) (hag : Agree kn bf o ow)
    (hcap : ∀ f ew len, Item.var f ew len ∈ L → ow.num len * ew ≤ cap) :
    ∃ o', decItems cap L o (encItems ow L ++ rest) = some (o', rest) ∧
      Agree (L.filterMap Item.numDef ++ kn) (L.filterMap Item.bufDef ++ bf) o' ow := by
  induction L generalizing kn bf o with
  | nil => exact ⟨o, rfl, by simpa using hag⟩
  | cons i l ih =>
    simp only [itemsOK, Bool.and_eq_true] at hok
    obtain ⟨⟨⟨⟨huse, hnd⟩, hbd⟩, hew⟩, hrest⟩ := hok
    obtain ⟨hwi, hwl⟩ := hwf
    have hcapl : ∀ f ew len, Item.var f ew len ∈ l → ow.num len * ew ≤ cap :=
      fun f ew len h => hcap f ew len (List.mem_cons_of_mem _ h)
    cases i with
    | scalar f w =>
      simp only [Item.numDef, Item.bufDef] at hrest hnd
      have h1 := take_append_len (leBytes w (ow.num f)) (encItems ow l ++ rest) w (by simp)
      have hag' : Agree (f :: kn) bf (o.setNum f (leVal (leBytes w (ow.num f)))) ow := by
        refine ⟨?_, ?_⟩
        · intro g hg
          by_cases hgf : g = f
          · subst hgf; simp [leVal_leBytes_of_lt hwi]
          · simp [hgf]; exact hag.1 g (by simpa [hgf] using hg)
        · intro g hg; simpa using hag.2 g hg
      obtain ⟨o', hd, ha⟩ := ih (f :: kn) bf _ hrest hwl hag' hcapl
      refine ⟨o', ?_, ?_⟩
      · simp only [encItems, encItem, List.append_assoc, decItems, decItem]
        have hle : w ≤ (leBytes w (ow.num f) ++ (encItems ow l ++ rest)).length := by simp
        simp only [hle, if_true, h1.1, h1.2]
        exact hd
      · refine ha.mono ?_ ?_ <;> intro g hg <;>
          simp only [List.filterMap_cons, Item.numDef, Item.bufDef, List.mem_append, List.mem_cons] at hg ⊢ <;> grind
    | fixed f n =>
      simp only [Item.numDef, Item.bufDef] at hrest hbd
      simp only [Item.WF] at hwi
      have h1 := take_append_len ((ow.buf f).take n) (encItems ow l ++ rest) n (by simp [hwi])
      have hag' : Agree kn (f :: bf) (o.setBuf f ((ow.buf f).take n)) ow := by
        refine ⟨?_, ?_⟩
        · intro g hg; simpa using hag.1 g hg
        · intro g hg
          by_cases hgf : g = f
          · subst hgf; simp [← hwi]
          · simp [hgf]; exact hag.2 g (by simpa [hgf] using hg)
      obtain ⟨o', hd, ha⟩ := ih kn (f :: bf) _ hrest hwl hag' hcapl
      refine ⟨o', ?_, ?_⟩
      · simp only [encItems, encItem, List.append_assoc, decItems, decItem]
        have hle : n ≤ ((ow.buf f).take n ++ (encItems ow l ++ rest)).length := by simp [hwi]
        simp only [hle, if_true, h1.1, h1.2]
        exact hd
      · refine ha.mono ?_ ?_ <;> intro g hg <;>
          simp only [List.filterMap_cons, Item.numDef, Item.bufDef, List.mem_append, List.mem_cons] at hg ⊢ <;> grind
    | var f ew len =>
      simp only [Item.numDef, Item.bufDef] at hrest hbd
      simp only [Item.WF] at hwi
      simp only [Item.uses, List.all_cons, List.all_nil, Bool.and_true] at huse
      have hlen : o.num len = ow.num len := hag.1 len (by simpa using huse)
      have h1 := take_append_len ((ow.buf f).take (ow.num len * ew)) (encItems ow l ++ rest)
        (ow.num len * ew) (by simp [hwi])
      have hag' : Agree kn (f :: bf) (o.setBuf f ((ow.buf f).take (ow.num len * ew))) ow := by
        refine ⟨?_, ?_⟩
        · intro g hg; simpa using hag.1 g hg
        · intro g hg
          by_cases hgf : g = f
          · subst hgf; simp [← hwi]
          · simp [hgf]; exact hag.2 g (by simpa [hgf] using hg)
      obtain ⟨o', hd, ha⟩ := ih kn (f :: bf) _ hrest hwl hag' hcapl
      refine ⟨o', ?_, ?_⟩
      · simp only [encItems, encItem, List.append_assoc, decItems, decItem, hlen]
        have hc := hcap f ew len (List.mem_cons_self)
        have hle : ow.num len * ew ≤ ((ow.buf f).take (ow.num len * ew) ++ (encItems ow l ++ rest)).length := by
          simp [hwi]
        simp only [hc, hle, and_self, if_true, h1.1, h1.2]
        exact hd
      · refine ha.mono ?_ ?_ <;> intro g hg <;>
          simp only [List.filterMap_cons, Item.numDef, Item.bufDef, List.mem_append, List.mem_cons] at hg ⊢ <;> grind
    | pad g k =>
      simp only [Item.numDef, Item.bufDef] at hrest
      simp only [Item.uses, List.all_cons, List.all_nil, Bool.and_true] at huse
      have hg : o.num g = ow.num g := hag.1 g (by simpa using huse)
      have h1 := take_append_len (zeros (ow.num g % k)) (encItems ow l ++ rest) (ow.num g % k) (by simp)
      obtain ⟨o', hd, ha⟩ := ih kn bf o hrest hwl hag hcapl
      refine ⟨o', ?_, ?_⟩
      · simp only [encItems, encItem, List.append_assoc, decItems, decItem, hg, h1.2]
        exact hd
      · simpa [List.filterMap_cons, Item.numDef, Item.bufDef] using ha
    | skipK n =>
      simp only [Item.numDef, Item.bufDef] at hrest
      have h1 := take_append_len (zeros n) (encItems ow l ++ rest) n (by simp)
      obtain ⟨o', hd, ha⟩ := ih kn bf o hrest hwl hag hcapl
      refine ⟨o', ?_, ?_⟩
      · simp only [encItems, encItem, List.append_assoc, decItems, decItem, h1.2]
        exact hd
      · simpa [List.filterMap_cons, Item.numDef, Item.bufDef] using ha

/-- items without filler (pad / constant skip) -/
def Item.noFill : Item → Bool
  | .pad _ _ => false
  | .skipK _ => false
  | _ => true

/-- frame: decoding `L` does not touch numeric fields in `kn` nor buffers in `bf` -/
theorem dec_frame (cap : Nat) (L : List Item) (kn bf : List Nat) (o o' : Obj) (s rest : Bytes)
    (hok : itemsOK kn bf L = true) (hd : decItems cap L o s = some (o', rest)) :
    Agree kn bf o' o := by
  induction L generalizing kn bf o s with
  | nil => simp only [decItems, Option.some.injEq, Prod.mk.injEq] at hd; rw [hd.1]; exact ⟨fun _ _ => rfl, fun _ _ => rfl⟩
  | cons i l ih =>
    simp only [itemsOK, Bool.and_eq_true] at hok
    obtain ⟨⟨⟨⟨_, hnd⟩, hbd⟩, _⟩, hrest⟩ := hok
    simp only [decItems] at hd
    cases hdi : decItem cap o s i with
    | none => simp [hdi] at hd
    | some p =>
      obtain ⟨o1, s1⟩ := p
      simp only [hdi] at hd
      have hfr := ih _ _ o1 s1 hrest hd
      cases i with
      | scalar f w =>
        simp only [Item.numDef, Item.bufDef] at hrest hnd hfr
        simp only [decItem] at hdi
        split at hdi
        · simp only [Option.some.injEq, Prod.mk.injEq] at hdi
          refine ⟨fun g hg => ?_, fun g hg => ?_⟩
          · have hgf : g ≠ f := by
              intro h; subst h; simp [hg] at hnd
            rw [hfr.1 g (List.mem_cons_of_mem _ hg), ← hdi.1]; simp [hgf]
          · rw [hfr.2 g hg, ← hdi.1]; simp
        · simp at hdi
      | fixed f n =>
        simp only [Item.numDef, Item.bufDef] at hrest hbd hfr
        simp only [decItem] at hdi
        split at hdi
        · simp only [Option.some.injEq, Prod.mk.injEq] at hdi
          refine ⟨fun g hg => ?_, fun g hg => ?_⟩
          · rw [hfr.1 g hg, ← hdi.1]; simp
          · have hgf : g ≠ f := by
              intro h; subst h; simp [hg] at hbd
            rw [hfr.2 g (List.mem_cons_of_mem _ hg), ← hdi.1]; simp [hgf]
        · simp at hdi
      | var f ew len =>
        simp only [Item.numDef, Item.bufDef] at hrest hbd hfr
        simp only [decItem] at hdi
        split at hdi
        · simp only [Option.some.injEq, Prod.mk.injEq] at hdi
          refine ⟨fun g hg => ?_, fun g hg => ?_⟩
          · rw [hfr.1 g hg, ← hdi.1]; simp
          · have hgf : g ≠ f := by
              intro h; subst h; simp [hg] at hbd
            rw [hfr.2 g (List.mem_cons_of_mem _ hg), ← hdi.1]; simp [hgf]
        · simp at hdi
      | pad g k =>
        simp only [Item.numDef, Item.bufDef] at hfr
        simp only [decItem, Option.some.injEq, Prod.mk.injEq] at hdi
        rw [← hdi.1] at hfr; exact hfr
      | skipK n =>
        simp only [Item.numDef, Item.bufDef] at hfr
        simp only [decItem, Option.some.injEq, Prod.mk.injEq] at hdi
        rw [← hdi.1] at hfr; exact hfr

/-- **encode ∘ decode** (left inverse): whatever byte string the decoder accepts for a filler-free
    layout is exactly the encoding of the decoded object followed by the unconsumed rest. -/
theorem enc_dec (cap : Nat) (L : List Item) (kn bf : List Nat) (o o' : Obj) (s rest : Bytes)
    (hok : itemsOK kn bf L = true) (hnf : L.all Item.noFill = true)
    (hd : decItems cap L o s = some (o', rest)) :
    s = encItems o' L ++ rest := by
  induction L generalizing kn bf o s with
  | nil => simp only [decItems, Option.some.injEq, Prod.mk.injEq] at hd; simp [encItems, hd.2]
  | cons i l ih =>
    have hok0 := hok
    simp only [itemsOK, Bool.and_eq_true] at hok
    obtain ⟨⟨⟨⟨huse, hnd⟩, hbd⟩, _⟩, hrest⟩ := hok
    simp only [List.all_cons, Bool.and_eq_true] at hnf
    simp only [decItems] at hd
    cases hdi : decItem cap o s i with
    | none => simp [hdi] at hd
    | some p =>
      obtain ⟨o1, s1⟩ := p
      simp only [hdi] at hd
      have hs1 := ih _ _ o1 s1 hrest hnf.2 hd
      have hfr := dec_frame cap l _ _ o1 o' s1 rest hrest hd
      simp only [encItems, List.append_assoc, ← hs1]
      cases i with
      | scalar f w =>
        simp only [Item.numDef, Item.bufDef] at hfr
        simp only [decItem] at hdi
        split at hdi
        · rename_i hw
          simp only [Option.some.injEq, Prod.mk.injEq] at hdi
          have : o'.num f = leVal (s.take w) := by
            rw [hfr.1 f (List.mem_cons_self), ← hdi.1]; simp
          simp only [encItem, this]
          have hl : (s.take w).length = w := by simp [hw]
          have := leBytes_leVal (s.take w)
          rw [hl] at this
          rw [this, ← hdi.2, List.take_append_drop]
        · simp at hdi
      | fixed f n =>
        simp only [Item.numDef, Item.bufDef] at hfr
        simp only [decItem] at hdi
        split at hdi
        · simp only [Option.some.injEq, Prod.mk.injEq] at hdi
          have : o'.buf f = s.take n := by
            rw [hfr.2 f (List.mem_cons_self), ← hdi.1]; simp
          simp only [encItem, this, List.take_take, Nat.min_self]
          rw [← hdi.2, List.take_append_drop]
        · simp at hdi
      | var f ew len =>
        simp only [Item.numDef, Item.bufDef] at hfr
        simp only [Item.uses, List.all_cons, List.all_nil, Bool.and_true] at huse
        simp only [decItem] at hdi
        split at hdi
        · simp only [Option.some.injEq, Prod.mk.injEq] at hdi
          have hb : o'.buf f = s.take (o.num len * ew) := by
            rw [hfr.2 f (List.mem_cons_self), ← hdi.1]; simp
          have hl : o'.num len = o.num len := by
            rw [hfr.1 len (by simpa using huse), ← hdi.1]; simp
          simp only [encItem, hb, hl, List.take_take, Nat.min_self]
          rw [← hdi.2, List.take_append_drop]
        · simp at hdi
      | pad g k => simp [Item.noFill] at hnf
      | skipK n => simp [Item.noFill] at hnf

end Blf
