import Blf.Codec.Lang
/-!
# Decoding inside a larger stream

Executing a program on a stream that has `pre` in front of it, at a position behind `pre`, is executing it on the
stream without `pre` — the result is the same with the position shifted.  This lets the per-object theorems (stated
for an input that *starts* with the object) be used at any position of the uncompressed stream.
-/
namespace Blf

def St.shift (pre : Bytes) (st : St) : St := { st with inp := pre ++ st.inp, pos := pre.length + st.pos }

@[simp] theorem St.shift_obj (pre : Bytes) (st : St) : (st.shift pre).obj = st.obj := rfl
@[simp] theorem St.shift_halt (pre : Bytes) (st : St) : (st.shift pre).halt = st.halt := rfl
@[simp] theorem St.shift_good (pre : Bytes) (st : St) : (st.shift pre).good = st.good := rfl
@[simp] theorem St.shift_pos (pre : Bytes) (st : St) : (st.shift pre).pos = pre.length + st.pos := rfl
@[simp] theorem St.shift_inp (pre : Bytes) (st : St) : (st.shift pre).inp = pre ++ st.inp := rfl

theorem sread_shift (cfg : Cfg) (pre : Bytes) (st : St) (n : Nat) :
    (st.shift pre).sread cfg n = ((st.sread cfg n).1, (st.sread cfg n).2.shift pre) := by
  have e2 : (pre ++ st.inp).drop (pre.length + st.pos) = st.inp.drop st.pos := by
    rw [List.drop_append]; simp
  by_cases h1 : (cfg.sticky && !st.good) = true
  · simp [St.sread, St.shift, h1]
  · by_cases h2 : n = 0 ∧ (!cfg.sticky) = true
    · have h2'' : n = 0 ∧ cfg.sticky = false := by simpa using h2
      simp [St.sread, St.shift, h1, h2'']
    · have h2' : ¬ (n = 0 ∧ cfg.sticky = false) := by simpa using h2
      by_cases h : st.pos + n ≤ st.inp.length
      · have h' : pre.length + st.pos + n ≤ pre.length + st.inp.length := by omega
        simp [St.sread, St.shift, h1, h2', h, h', e2, Nat.add_assoc]
      · have h' : ¬ (pre.length + st.pos + n ≤ pre.length + st.inp.length) := by omega
        simp [St.sread, St.shift, h1, h2', h, h', e2]

theorem sseek_shift (cfg : Cfg) (pre : Bytes) (st : St) (n : Nat) :
    (st.shift pre).sseek cfg n = (st.sseek cfg n).shift pre := by
  by_cases h1 : (cfg.sticky && !st.good) = true
  · simp [St.sseek, St.shift, h1]
  · simp [St.sseek, St.shift, h1]
    omega

theorem syncLoop_shift (cfg : Cfg) (sigF : Nat) (pre : Bytes) : ∀ (fuel tmp : Nat) (st : St),
    syncLoop cfg sigF fuel tmp (st.shift pre) = (syncLoop cfg sigF fuel tmp st).shift pre := by
  intro fuel
  induction fuel with
  | zero => intro tmp st; rfl
  | succ n ih =>
    intro tmp st
    unfold syncLoop
    rw [sread_shift]
    -- the read delivers either four bytes (position + 4) or fewer (and the loop ends)
    have hfull : (st.sread cfg 4).1.length < 4 ∨ 4 ≤ (st.sread cfg 4).2.pos := by
      unfold St.sread
      split
      · left; simp
      · split
        · left; simp
        · split
          · right; simp
          · next h => left; simp; omega
    generalize st.sread cfg 4 = r at hfull
    obtain ⟨got, st1⟩ := r
    simp only at hfull ⊢
    split
    · rfl
    · split
      · next h1 h2 => simp only [St.shift] at h2 ⊢; rw [if_pos h2]
      · next h1 h2 =>
        simp only [St.shift] at h2
        rw [if_neg h2]
        have hp : 4 ≤ st1.pos := by
          rcases hfull with h | h
          · simp [h] at h2
          · exact h
        have hb : ∀ k, k ≤ 3 → (st1.shift pre).sback k = (st1.sback k).shift pre := by
          intro k hk; simp only [St.sback, St.shift]; congr 1; omega
        split
        · rw [hb 3 (by omega)]; exact ih _ _
        · split
          · rw [hb 2 (by omega)]; exact ih _ _
          · split
            · rw [hb 1 (by omega)]; exact ih _ _
            · exact ih _ _

/-- **shift**: a prefix in front of the stream does not change what a program does -/
theorem exec_shift (cfg : Cfg) (pre : Bytes) : ∀ (s : Stmt) (st : St),
    s.exec cfg (st.shift pre) = (s.exec cfg st).shift pre := by
  intro s
  induction s with
  | skip => intro st; rfl
  | seq a b iha ihb =>
    intro st
    simp only [Stmt.exec]
    rw [iha]
    by_cases h : (a.exec cfg st).halt = .none
    · have h' : ((a.exec cfg st).shift pre).halt = .none := h
      rw [if_pos h', if_pos h]; exact ihb _
    · have h' : ¬ ((a.exec cfg st).shift pre).halt = .none := h
      rw [if_neg h', if_neg h]
  | sync sigF =>
    intro st
    simp only [Stmt.exec]
    have : (st.shift pre).inp.length - (st.shift pre).pos + 2 = st.inp.length - st.pos + 2 := by
      simp only [St.shift_pos, St.shift_inp, List.length_append]; omega
    rw [this]
    exact syncLoop_shift cfg sigF pre _ 0 st
  | rd f w =>
    intro st
    simp only [Stmt.exec]
    rw [sread_shift]
    rfl
  | rdBuf f n =>
    intro st
    simp only [Stmt.exec]
    by_cases h : (st.obj.buf f).length < n.eval st.obj
    · have h' : ((st.shift pre).obj.buf f).length < n.eval (st.shift pre).obj := h
      rw [if_pos h', if_pos h]; rfl
    · have h' : ¬ ((st.shift pre).obj.buf f).length < n.eval (st.shift pre).obj := h
      rw [if_neg h', if_neg h, sread_shift]; rfl
  | resize f ew n =>
    intro st
    simp only [Stmt.exec]
    by_cases h : cfg.cap < n.eval st.obj * ew
    · have h' : cfg.cap < n.eval (st.shift pre).obj * ew := h
      rw [if_pos h', if_pos h]; rfl
    · have h' : ¬ cfg.cap < n.eval (st.shift pre).obj * ew := h
      rw [if_neg h', if_neg h]; rfl
  | seekg n => intro st; simp only [Stmt.exec]; exact sseek_shift cfg pre st _
  | wr f w => intro st; rfl
  | wrBuf f n =>
    intro st
    simp only [Stmt.exec]
    by_cases h : (st.obj.buf f).length < n.eval st.obj
    · have h' : ((st.shift pre).obj.buf f).length < n.eval (st.shift pre).obj := h
      rw [if_pos h', if_pos h]; rfl
    · have h' : ¬ ((st.shift pre).obj.buf f).length < n.eval (st.shift pre).obj := h
      rw [if_neg h', if_neg h]; rfl
  | skipp n => intro st; rfl
  | assign f e => intro st; rfl
  | ite c t e iht ihe =>
    intro st
    simp only [Stmt.exec]
    by_cases h : c.eval st.obj ≠ 0
    · have h' : c.eval (st.shift pre).obj ≠ 0 := h
      rw [if_pos h', if_pos h]; exact iht st
    · have h' : ¬ c.eval (st.shift pre).obj ≠ 0 := h
      rw [if_neg h', if_neg h]; exact ihe st
  | ret => intro st; rfl

end Blf
