import Blf.Codec.Regular
/-!
# The write-side pre-processing, characterised

`pre c lay o` is the object after the leading assignment block of `write`.  This file shows what it
is in closed form (under the checker's side conditions `preOK`, `preOK2`):

* buffers are untouched;
* a numeric field that is no assignment target is untouched;
* the length field of every `var` item becomes `buffer length / element width` truncated to the
  field's width;

and derives the writer's well-formedness `ItemsWF (pre o)` from a condition on the *caller's* object
(`UserWF`): array members have their static size, every payload is a whole number of elements and its
count fits the width of its length field, scalars that the library does not recompute fit their width.
-/
namespace Blf

theorem runAssigns_num_notin (o : Obj) (as : List (Nat × Expr)) (g : Nat) (h : g ∉ as.map (·.1)) :
    (runAssigns o as).num g = o.num g := by
  induction as generalizing o with
  | nil => rfl
  | cons p as ih =>
    simp only [List.map_cons, List.mem_cons, not_or] at h
    simp only [runAssigns]
    rw [ih _ h.2]
    exact Obj.setNum_num_ne _ _ h.1

def bufOnly (e : Expr) : Prop := ∀ o1 o2 : Obj, o1.buf = o2.buf → e.eval o1 = e.eval o2

theorem bufOnly_const (k : Nat) : bufOnly (.const k) := fun _ _ _ => rfl
theorem bufOnly_castBsize (w f ew : Nat) : bufOnly (.cast w (.bsize f ew)) := by
  intro o1 o2 h; simp [Expr.eval, h]

theorem runAssigns_num_mem (o : Obj) (as : List (Nat × Expr)) (hnd : (as.map (·.1)).Nodup)
    (hbo : ∀ p ∈ as, bufOnly p.2) (g : Nat) (e : Expr) (hm : (g, e) ∈ as) :
    (runAssigns o as).num g = e.eval o := by
  induction as generalizing o with
  | nil => simp at hm
  | cons p as ih =>
    simp only [List.map_cons, List.nodup_cons] at hnd
    simp only [runAssigns]
    rcases List.mem_cons.mp hm with rfl | hm'
    · rw [runAssigns_num_notin _ _ _ hnd.1]; simp
    · rw [ih _ hnd.2 (fun q hq => hbo q (List.mem_cons_of_mem _ hq)) hm']
      exact hbo (g, e) hm _ _ rfl

/-! ## facts extracted from the checker's side conditions -/

theorem lensOf_mem (L : List Item) (f ew len : Nat) : Item.var f ew len ∈ L ↔ (len, f, ew) ∈ lensOf L := by
  induction L with
  | nil => simp [lensOf]
  | cons i l ih =>
    cases i <;> simp [lensOf, ih]
    constructor <;> rintro (⟨a, b, c⟩ | h) <;> simp [*]


theorem widthOf_of_mem (kn bf : List Nat) (L : List Item) (hok : itemsOK kn bf L = true) (f w : Nat)
    (hm : Item.scalar f w ∈ L) : widthOf L f = w ∧ f ∉ kn := by
  induction L generalizing kn bf with
  | nil => simp at hm
  | cons i l ih =>
    simp only [itemsOK, Bool.and_eq_true] at hok
    obtain ⟨⟨⟨⟨_, hnd⟩, _⟩, _⟩, hrest⟩ := hok
    rcases List.mem_cons.mp hm with rfl | hm'
    · simp only [Item.numDef] at hnd
      exact ⟨by simp [widthOf], by simpa using hnd⟩
    · have := ih _ _ hrest hm'
      cases i with
      | scalar g v =>
        simp only [Item.numDef] at this
        have hne : g ≠ f := by
          intro e; subst e; exact this.2 List.mem_cons_self
        refine ⟨by simp [widthOf, hne, this.1], fun hk => this.2 (List.mem_cons_of_mem _ hk)⟩
      | fixed g n => simp only [Item.numDef] at this; exact ⟨by simp [widthOf, this.1], this.2⟩
      | var g ew len => simp only [Item.numDef] at this; exact ⟨by simp [widthOf, this.1], this.2⟩
      | pad g k => simp only [Item.numDef] at this; exact ⟨by simp [widthOf, this.1], this.2⟩
      | skipK n => simp only [Item.numDef] at this; exact ⟨by simp [widthOf, this.1], this.2⟩

structure PreFacts (c : Codec) (lay : Layout) : Prop where
  nodup : (lay.pre.map (·.1)).Nodup
  noSig : lay.sigF ∉ lay.pre.map (·.1)
  noHs : lay.hsF ∉ lay.pre.map (·.1)
  noOs : lay.osF ∉ lay.pre.map (·.1)
  shape : ∀ p ∈ lay.pre, (∃ k, p.2 = .const k ∧ ∀ q ∈ lensOf lay.items, q.1 ≠ p.1) ∨ isLenAssign lay.items p.1 p.2 = true
  lens : ∀ q ∈ lensOf lay.items, ∃ p ∈ lay.pre, p.1 = q.1 ∧ isLenAssign lay.items p.1 p.2 = true

theorem preFacts_of (c : Codec) (lay : Layout) (h : preOK lay = true) : PreFacts c lay := by
  simp only [preOK, Bool.and_eq_true, Bool.not_eq_eq_eq_not, Bool.not_true, decide_eq_true_eq,
    List.all_eq_true, List.any_eq_true, Bool.or_eq_true, beq_iff_eq] at h
  obtain ⟨⟨⟨⟨⟨h1, h2⟩, h3⟩, h4⟩, h5⟩, h6⟩ := h
  refine ⟨h1, by simpa using h2, by simpa using h3, by simpa using h4, ?_, ?_⟩
  · intro p hp
    rcases h5 p hp with ⟨hc, hn⟩ | hl
    · left
      cases hpe : p.2 <;> simp [isConstExpr, hpe] at hc
      rename_i k
      refine ⟨k, rfl, ?_⟩
      intro q hq hqe
      simp only [List.any_eq_false, beq_iff_eq] at hn
      exact hn q hq hqe
    · right; exact hl
  · intro q hq
    obtain ⟨p, hp, he, hl⟩ := h6 q hq
    exact ⟨p, hp, he, hl⟩

theorem isLenAssign_bufOnly (L : List Item) (g : Nat) (e : Expr) (h : isLenAssign L g e = true) : bufOnly e := by
  simp only [isLenAssign, List.any_eq_true, Bool.and_eq_true, beq_iff_eq] at h
  obtain ⟨q, _, _, he⟩ := h
  subst he
  exact bufOnly_castBsize _ _ _

theorem pre_bufOnly (c : Codec) (lay : Layout) (pf : PreFacts c lay) : ∀ p ∈ lay.pre, bufOnly p.2 := by
  intro p hp
  rcases pf.shape p hp with ⟨k, hk, _⟩ | hl
  · rw [hk]; exact bufOnly_const k
  · exact isLenAssign_bufOnly _ _ _ hl

/-- closed form of `pre` -/
theorem pre_eq (c : Codec) (lay : Layout) (o : Obj) :
    pre c lay o =
      ((runAssigns o lay.pre).setNum lay.hsF (c.hdrSizeExpr.eval (runAssigns o lay.pre))).setNum lay.osF
        (c.sizeExpr.eval ((runAssigns o lay.pre).setNum lay.hsF (c.hdrSizeExpr.eval (runAssigns o lay.pre)))) := by
  unfold pre preAssigns
  generalize lay.pre = as
  induction as generalizing o with
  | nil => simp [runAssigns]
  | cons p as ih => simp only [List.cons_append, runAssigns]; exact ih _

theorem pre_buf (c : Codec) (lay : Layout) (o : Obj) (f : Nat) : (pre c lay o).buf f = o.buf f := by
  unfold pre; exact runAssigns_buf _ _ _

/-- a field that is neither headerSize/objectSize nor a target of the pre-processing block is untouched -/
theorem pre_num_untouched (c : Codec) (lay : Layout) (o : Obj) (g : Nat)
    (h1 : g ≠ lay.hsF) (h2 : g ≠ lay.osF) (h3 : g ∉ lay.pre.map (·.1)) :
    (pre c lay o).num g = o.num g := by
  rw [pre_eq, Obj.setNum_num_ne _ _ h2, Obj.setNum_num_ne _ _ h1, runAssigns_num_notin _ _ _ h3]

/-- the length field of a `var` item after pre-processing -/
theorem pre_num_len (c : Codec) (lay : Layout) (pf : PreFacts c lay)
    (hnd : ((lensOf lay.items).map (·.1)).Nodup) (o : Obj) (f ew len : Nat)
    (hm : Item.var f ew len ∈ lay.items) :
    (pre c lay o).num len = ((o.buf f).length / ew) % 256 ^ widthOf lay.items len := by
  have hq := (lensOf_mem _ _ _ _).mp hm
  obtain ⟨p, hp, hpe, hl⟩ := pf.lens _ hq
  simp only at hpe
  have hpl : p.1 = len := hpe
  simp only [isLenAssign, List.any_eq_true, Bool.and_eq_true, beq_iff_eq] at hl
  obtain ⟨q', hq', hq1, he⟩ := hl
  -- q' = (len, f, ew) by distinctness of length fields
  have hqq : q' = (len, f, ew) := by
    have : ∀ (l : List (Nat × Nat × Nat)) (a b : Nat × Nat × Nat), (l.map (·.1)).Nodup → a ∈ l → b ∈ l → a.1 = b.1 → a = b := by
      intro l
      induction l with
      | nil => intro a b _ ha; simp at ha
      | cons x l ih =>
        intro a b hn ha hb hab
        simp only [List.map_cons, List.nodup_cons, List.mem_map, not_exists, not_and] at hn
        rcases List.mem_cons.mp ha with rfl | ha' <;> rcases List.mem_cons.mp hb with rfl | hb'
        · rfl
        · exact absurd hab.symm (hn.1 b hb')
        · exact absurd hab (hn.1 a ha')
        · exact ih a b hn.2 ha' hb' hab
    exact this _ _ _ hnd hq' hq (by rw [hq1, hpl])
  subst hqq
  have hlen_ne_hs : len ≠ lay.hsF := by
    intro e; apply pf.noHs; rw [← e, ← hpl]; exact List.mem_map_of_mem hp
  have hlen_ne_os : len ≠ lay.osF := by
    intro e; apply pf.noOs; rw [← e, ← hpl]; exact List.mem_map_of_mem hp
  rw [pre_eq, Obj.setNum_num_ne _ _ hlen_ne_os, Obj.setNum_num_ne _ _ hlen_ne_hs]
  have hmem : (len, p.2) ∈ lay.pre := by rw [← hpl]; exact hp
  rw [runAssigns_num_mem o lay.pre pf.nodup (pre_bufOnly c lay pf) len p.2 hmem, he, hpl]
  simp [Expr.eval]

/-- what the caller must guarantee: static array sizes, whole elements, counts that fit the length
    field, and scalars that fit their width unless the library recomputes them -/
def UserWF (lay : Layout) (o : Obj) : Prop :=
  ∀ i ∈ lay.items, match i with
    | .scalar f w => f = lay.hsF ∨ f = lay.osF ∨ f ∈ lay.pre.map (·.1) ∨ o.num f < 256 ^ w
    | .fixed f n => (o.buf f).length = n
    | .var f ew len => (o.buf f).length % ew = 0 ∧ (o.buf f).length / ew < 256 ^ widthOf lay.items len
    | _ => True

theorem itemsWF_of_forall (o : Obj) (L : List Item) (h : ∀ i ∈ L, i.WF o) : ItemsWF o L := by
  induction L with
  | nil => trivial
  | cons i l ih => exact ⟨h i List.mem_cons_self, ih fun j hj => h j (List.mem_cons_of_mem _ hj)⟩

/-- **`UserWF → ItemsWF (pre o)`**: the pre-processing makes every caller-level well-formed object
    acceptable to the writer. -/
theorem itemsWF_pre (c : Codec) (lay : Layout) (hreg : Reg c lay) (o : Obj)
    (hu : UserWF lay o) : ItemsWF (pre c lay o) lay.items := by
  have pf := preFacts_of c lay hreg.pre
  have h2 := hreg.pre2
  simp only [preOK2, Bool.and_eq_true, decide_eq_true_eq, List.all_eq_true, List.contains_iff_mem] at h2
  obtain ⟨⟨⟨⟨⟨⟨hnd, hconst⟩, hhs⟩, hcast⟩, hhsm⟩, hosm⟩, hne⟩ := h2
  apply itemsWF_of_forall
  intro i hi
  have hui := hu i hi
  cases i with
  | scalar f w =>
    simp only [Item.WF]
    have hw := (widthOf_of_mem _ _ _ hreg.ok f w hi).1
    by_cases hfo : f = lay.osF
    · -- objectSize := cast 4 _
      subst hfo
      have hw4 := (widthOf_of_mem _ _ _ hreg.ok _ 4 hosm).1
      have : w = 4 := by rw [← hw, hw4]
      subst this
      rw [pre_eq, Obj.setNum_num_same]
      exact isCast4_lt _ hcast _
    · by_cases hfh : f = lay.hsF
      · subst hfh
        have hw2 := (widthOf_of_mem _ _ _ hreg.ok _ 2 hhsm).1
        have : w = 2 := by rw [← hw, hw2]
        subst this
        rw [pre_eq, Obj.setNum_num_ne _ _ hfo, Obj.setNum_num_same, hreg.hdr]
        simp only [Expr.eval]
        exact hhs
      · by_cases hft : f ∈ lay.pre.map (·.1)
        · obtain ⟨p, hp, hpf⟩ := List.mem_map.mp hft
          have hmem : (f, p.2) ∈ lay.pre := by rw [← hpf]; exact hp
          rw [pre_eq, Obj.setNum_num_ne _ _ hfo, Obj.setNum_num_ne _ _ hfh,
            runAssigns_num_mem o lay.pre pf.nodup (pre_bufOnly c lay pf) f p.2 hmem]
          rcases pf.shape p hp with ⟨k, hk, _⟩ | hl
          · have := hconst p hp
            rw [hk] at this ⊢
            simp only [decide_eq_true_eq] at this
            rw [hpf, hw] at this
            exact this
          · simp only [isLenAssign, List.any_eq_true, Bool.and_eq_true, beq_iff_eq] at hl
            obtain ⟨q, _, _, he⟩ := hl
            rw [he, hpf, hw]
            simp only [Expr.eval]
            exact Nat.mod_lt _ (Nat.pow_pos (by decide))
        · rcases hui with h | h | h | h
          · exact absurd h hfh
          · exact absurd h hfo
          · exact absurd h hft
          · rw [pre_num_untouched c lay o f hfh hfo hft]; exact h
  | fixed f n => simp only [Item.WF, pre_buf]; exact hui
  | var f ew len =>
    simp only [Item.WF, pre_buf]
    rw [pre_num_len c lay pf hnd o f ew len hi, Nat.mod_eq_of_lt hui.2]
    exact (Nat.div_mul_cancel (Nat.dvd_of_mod_eq_zero hui.1)).symm
  | pad g k => trivial
  | skipK n => trivial

/-! ## what a successful decode establishes -/

/-- a successful decode leaves an object the writer accepts as it is -/
theorem dec_itemsWF (cap : Nat) (L : List Item) (kn bf : List Nat) (o o' : Obj) (s r : Bytes)
    (hok : itemsOK kn bf L = true) (hd : decItems cap L o s = some (o', r)) : ItemsWF o' L := by
  induction L generalizing kn bf o s with
  | nil => trivial
  | cons i l ih =>
    simp only [itemsOK, Bool.and_eq_true] at hok
    obtain ⟨⟨⟨⟨huse, _⟩, _⟩, _⟩, hrest⟩ := hok
    simp only [decItems] at hd
    cases hdi : decItem cap o s i with
    | none => simp [hdi] at hd
    | some p =>
      obtain ⟨o1, s1⟩ := p
      simp only [hdi] at hd
      refine ⟨?_, ih _ _ o1 s1 hrest hd⟩
      have hfr := dec_frame cap l _ _ o1 o' s1 r hrest hd
      cases i with
      | scalar f w =>
        simp only [Item.numDef, Item.bufDef] at hfr
        simp only [decItem] at hdi
        split at hdi
        · rename_i hw
          simp only [Option.some.injEq, Prod.mk.injEq] at hdi
          simp only [Item.WF]
          rw [hfr.1 f List.mem_cons_self, ← hdi.1, Obj.setNum_num_same]
          have := leVal_lt (s.take w)
          simpa [Nat.min_eq_left hw] using this
        · simp at hdi
      | fixed f n =>
        simp only [Item.numDef, Item.bufDef] at hfr
        simp only [decItem] at hdi
        split at hdi
        · rename_i hw
          simp only [Option.some.injEq, Prod.mk.injEq] at hdi
          simp only [Item.WF]
          rw [hfr.2 f List.mem_cons_self, ← hdi.1, Obj.setBuf_buf_same]
          simp [Nat.min_eq_left hw]
        · simp at hdi
      | var f ew len =>
        simp only [Item.numDef, Item.bufDef] at hfr
        simp only [Item.uses, List.all_cons, List.all_nil, Bool.and_true] at huse
        simp only [decItem] at hdi
        split at hdi
        · rename_i hw
          simp only [Option.some.injEq, Prod.mk.injEq] at hdi
          simp only [Item.WF]
          rw [hfr.2 f List.mem_cons_self, hfr.1 len (by simpa using huse), ← hdi.1, Obj.setBuf_buf_same,
            Obj.setBuf_num]
          simp [Nat.min_eq_left hw.2]
        · simp at hdi
      | pad g k => trivial
      | skipK n => trivial

/-- a field used by an item was read by an earlier scalar item (or is initially known) -/
theorem uses_scalar (kn bf : List Nat) (L : List Item) (hok : itemsOK kn bf L = true)
    (i : Item) (hi : i ∈ L) (g : Nat) (hg : g ∈ i.uses) : g ∈ kn ∨ ∃ w, Item.scalar g w ∈ L := by
  induction L generalizing kn bf with
  | nil => simp at hi
  | cons j l ih =>
    simp only [itemsOK, Bool.and_eq_true] at hok
    obtain ⟨⟨⟨⟨huse, _⟩, _⟩, _⟩, hrest⟩ := hok
    rcases List.mem_cons.mp hi with rfl | hil
    · left
      have := List.all_eq_true.mp huse g hg
      simpa using this
    · rcases ih _ _ hrest hil with h | ⟨w, hw⟩
      · cases j with
        | scalar f v =>
          simp only [Item.numDef, List.mem_cons] at h
          rcases h with rfl | h
          · exact Or.inr ⟨v, List.mem_cons_self⟩
          · exact Or.inl h
        | fixed _ _ => exact Or.inl h
        | var _ _ _ => exact Or.inl h
        | pad _ _ => exact Or.inl h
        | skipK _ => exact Or.inl h
      · exact Or.inr ⟨w, List.mem_cons_of_mem _ hw⟩

theorem itemsWF_mem (o : Obj) (L : List Item) (h : ItemsWF o L) (i : Item) (hi : i ∈ L) : i.WF o := by
  induction L with
  | nil => simp at hi
  | cons j l ih =>
    rcases List.mem_cons.mp hi with rfl | hil
    · exact h.1
    · exact ih h.2 hil

/-- an object the writer accepts as it is, is caller-level well-formed -/
theorem userWF_of_itemsWF (c : Codec) (lay : Layout) (hreg : Reg c lay) (o : Obj) (h : ItemsWF o lay.items) :
    UserWF lay o := by
  have pf := preFacts_of c lay hreg.pre
  intro i hi
  have hw := itemsWF_mem o _ h i hi
  cases i with
  | scalar f w => exact Or.inr (Or.inr (Or.inr hw))
  | fixed f n => exact hw
  | var f ew len =>
    simp only [Item.WF] at hw
    have hew := var_ew_pos _ _ _ hreg.ok f ew len hi
    refine ⟨by rw [hw]; exact Nat.mul_mod_left _ _, ?_⟩
    rw [hw, Nat.mul_div_cancel _ hew]
    rcases uses_scalar _ _ _ hreg.ok _ hi len (by simp [Item.uses]) with hk | ⟨w, hsw⟩
    · -- len = sigF is excluded: length fields are pre-processing targets, the signature is not
      exfalso
      simp only [List.mem_singleton] at hk
      obtain ⟨p, hp, hpe, _⟩ := pf.lens _ ((lensOf_mem _ _ _ _).mp hi)
      apply pf.noSig
      rw [← hk]
      have hpe' : p.1 = len := hpe
      rw [← hpe']
      exact List.mem_map_of_mem hp
    · rw [(widthOf_of_mem _ _ _ hreg.ok len w hsw).1]
      exact itemsWF_mem o _ h _ hsw
  | pad g k => trivial
  | skipK n => trivial

/-- for an object the writer accepts as it is, the pre-processing changes nothing but
    headerSize, objectSize and constant-assigned fields -/
theorem pre_fixes_lens (c : Codec) (lay : Layout) (hreg : Reg c lay) (o : Obj) (h : ItemsWF o lay.items)
    (g : Nat) (h1 : g ≠ lay.hsF) (h2 : g ≠ lay.osF)
    (h3 : ∀ p ∈ lay.pre, p.1 = g → isLenAssign lay.items p.1 p.2 = true) :
    (pre c lay o).num g = o.num g := by
  have pf := preFacts_of c lay hreg.pre
  have hp2 := hreg.pre2
  simp only [preOK2, Bool.and_eq_true, decide_eq_true_eq] at hp2
  have hnd := hp2.1.1.1.1.1.1
  by_cases hg : g ∈ lay.pre.map (·.1)
  · obtain ⟨p, hp, hpg⟩ := List.mem_map.mp hg
    have hl := h3 p hp hpg
    simp only [isLenAssign, List.any_eq_true, Bool.and_eq_true, beq_iff_eq] at hl
    obtain ⟨q, hq, hq1, _⟩ := hl
    obtain ⟨len, f, ew⟩ := q
    simp only at hq1
    have hmem : Item.var f ew len ∈ lay.items := (lensOf_mem _ _ _ _).mpr hq
    have hlen : len = g := by rw [hq1, hpg]
    subst hlen
    rw [pre_num_len c lay pf hnd o f ew len hmem]
    have hu := userWF_of_itemsWF c lay hreg o h _ hmem
    have hw : (o.buf f).length = o.num len * ew := itemsWF_mem o _ h _ hmem
    have hew := var_ew_pos _ _ _ hreg.ok f ew len hmem
    rw [Nat.mod_eq_of_lt hu.2, hw, Nat.mul_div_cancel _ hew]
  · exact pre_num_untouched c lay o g h1 h2 hg

/-! ## caller-level theorems -/

theorem regular_frame_user (cfg : Cfg) (c : Codec) (lay : Layout) (hreg : Reg c lay) (o : Obj)
    (hu : UserWF lay o) :
    (c.encode cfg o).halt = .none ∧
    (c.encode cfg o).out = leBytes 4 ((pre c lay o).num lay.sigF) ++ encItems (pre c lay o) lay.items ∧
    (c.encode cfg o).out.length = 4 + itemsSize (pre c lay o) lay.body +
        (if lay.padded then (pre c lay o).num lay.osF % 4 else 0) ∧
    (c.sizeExpr.eval (pre c lay o)) % M32 = (4 + itemsSize (pre c lay o) lay.body) % M32 ∧
    c.hdrSizeExpr.eval (pre c lay o) = 4 + itemsConst (lay.items.take lay.nHdr) :=
  regular_frame cfg c lay hreg o (itemsWF_pre c lay hreg o hu)

theorem sig_ne (c : Codec) (lay : Layout) (hreg : Reg c lay) : lay.sigF ≠ lay.hsF ∧ lay.sigF ≠ lay.osF := by
  have hp2 := hreg.pre2
  simp only [preOK2, Bool.and_eq_true, decide_eq_true_eq, List.contains_iff_mem] at hp2
  have h1 := (widthOf_of_mem _ _ _ hreg.ok _ 2 hp2.1.1.2).2
  have h2 := (widthOf_of_mem _ _ _ hreg.ok _ 4 hp2.1.2).2
  simp only [List.mem_singleton] at h1 h2
  exact ⟨fun e => h1 e.symm, fun e => h2 e.symm⟩

theorem pre_sig (c : Codec) (lay : Layout) (hreg : Reg c lay) (o : Obj) :
    (pre c lay o).num lay.sigF = o.num lay.sigF :=
  pre_num_untouched c lay o _ (sig_ne c lay hreg).1 (sig_ne c lay hreg).2 (preFacts_of c lay hreg.pre).noSig

theorem regular_roundtrip_user (cfg : Cfg) (hs : cfg.sticky = false) (c : Codec) (lay : Layout) (hreg : Reg c lay)
    (o o0 : Obj) (rest : Bytes)
    (hu : UserWF lay o) (hsig : o.num lay.sigF = SIG) (harr : ArrOK o0 lay.items)
    (hcap : ∀ f ew len, Item.var f ew len ∈ lay.items → (o.buf f).length ≤ cfg.cap) :
    (c.decode cfg o0 ((c.encode cfg o).out ++ rest)).halt = .none ∧
    (c.decode cfg o0 ((c.encode cfg o).out ++ rest)).short = false ∧
    (c.decode cfg o0 ((c.encode cfg o).out ++ rest)).pos = (c.encode cfg o).out.length ∧
    Agree (lay.items.filterMap Item.numDef ++ [lay.sigF]) (lay.items.filterMap Item.bufDef)
      (c.decode cfg o0 ((c.encode cfg o).out ++ rest)).obj (pre c lay o) := by
  have hwf := itemsWF_pre c lay hreg o hu
  refine regular_roundtrip cfg hs c lay hreg o o0 rest hwf (by rw [pre_sig c lay hreg]; exact hsig) harr ?_
  intro f ew len hm
  have : (pre c lay o).buf f = o.buf f := pre_buf c lay o f
  have hw : ((pre c lay o).buf f).length = (pre c lay o).num len * ew := itemsWF_mem _ _ hwf _ hm
  rw [← hw, this]
  exact hcap f ew len hm

/-- a complete decode of a byte string that starts with the signature is a success of the pure item decoder -/
theorem decode_complete (cfg : Cfg) (hs : cfg.sticky = false) (c : Codec) (lay : Layout) (hreg : Reg c lay)
    (o0 : Obj) (b : Bytes) (harr : ArrOK o0 lay.items)
    (h4 : 4 ≤ b.length) (hb : b.take 4 = leBytes 4 SIG)
    (hh : (c.decode cfg o0 b).halt = .none) (hsh : (c.decode cfg o0 b).short = false) :
    ∃ r, decItems cfg.cap lay.items (o0.setNum lay.sigF SIG) (b.drop 4) = some ((c.decode cfg o0 b).obj, r) := by
  unfold Codec.decode at hh hsh ⊢
  rw [hreg.rd, exec_block_cons] at hh hsh ⊢
  rw [exec_sync_at_sig cfg hs _ _ (by simpa using h4) (by simpa using hb)] at hh hsh ⊢
  simp only [if_true] at hh hsh ⊢
  have hrd := exec_canonRd cfg hs lay.items [lay.sigF] []
    { obj := o0.setNum lay.sigF SIG, inp := b, pos := 0 + 4, good := true, eof := false } hreg.ok rfl
    (by simpa using h4) (by intro f n h; simpa using harr f n h)
  cases hdi : decItems cfg.cap lay.items (o0.setNum lay.sigF SIG) (b.drop (0 + 4)) with
  | none =>
    simp only [hdi] at hrd
    rcases hrd with h | h
    · rw [h] at hsh; simp at hsh
    · exact absurd hh h
  | some p =>
    obtain ⟨o', r'⟩ := p
    simp only [hdi] at hrd
    refine ⟨r', ?_⟩
    rw [hrd.obj]

/-- **Re-encoding a decoded object (C02).**  If the decoder processes a byte string that starts with the
    signature completely, then (1) the string is the signature, the item encoding of the decoded object's
    body, and a rest; (2) encoding the decoded object does not stop and emits the signature and the items
    of its pre-processed image; (3) the pre-processing leaves every buffer and every numeric field
    unchanged, except headerSize, objectSize and fields the writer sets to constants by design. -/
theorem regular_reencode (cfg : Cfg) (hs : cfg.sticky = false) (c : Codec) (lay : Layout) (hreg : Reg c lay)
    (o0 : Obj) (b : Bytes) (harr : ArrOK o0 lay.items)
    (h4 : 4 ≤ b.length) (hb : b.take 4 = leBytes 4 SIG)
    (hh : (c.decode cfg o0 b).halt = .none) (hsh : (c.decode cfg o0 b).short = false) :
    (∃ rest, b = leBytes 4 SIG ++ encItems (c.decode cfg o0 b).obj lay.body ++ rest) ∧
    (c.encode cfg (c.decode cfg o0 b).obj).halt = .none ∧
    (c.encode cfg (c.decode cfg o0 b).obj).out =
      leBytes 4 SIG ++ encItems (pre c lay (c.decode cfg o0 b).obj) lay.items ∧
    (∀ f, (pre c lay (c.decode cfg o0 b).obj).buf f = (c.decode cfg o0 b).obj.buf f) ∧
    (∀ g, g ≠ lay.hsF → g ≠ lay.osF →
      (∀ p ∈ lay.pre, p.1 = g → isLenAssign lay.items p.1 p.2 = true) →
      (pre c lay (c.decode cfg o0 b).obj).num g = (c.decode cfg o0 b).obj.num g) := by
  obtain ⟨r, hd⟩ := decode_complete cfg hs c lay hreg o0 b harr h4 hb hh hsh
  have hwf := dec_itemsWF cfg.cap lay.items _ _ _ _ _ _ hreg.ok hd
  have hfr := dec_frame cfg.cap lay.items _ _ _ _ _ _ hreg.ok hd
  have hsig : (c.decode cfg o0 b).obj.num lay.sigF = SIG := by
    rw [hfr.1 lay.sigF (by simp)]; simp
  have hu := userWF_of_itemsWF c lay hreg _ hwf
  have hf := regular_frame_user cfg c lay hreg _ hu
  refine ⟨regular_leftinv cfg hs c lay hreg o0 b harr h4 hb hh hsh, hf.1, ?_, fun f => pre_buf c lay _ f, ?_⟩
  · rw [hf.2.1, pre_sig c lay hreg, hsig]
  · intro g h1 h2 h3
    exact pre_fixes_lens c lay hreg _ hwf g h1 h2 h3

end Blf
