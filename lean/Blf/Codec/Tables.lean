import Blf.Codec.Regular
/-!
# Table-level predicates over generated codecs (padding, fields touched, determinacy)
-/
namespace Blf

def Stmt.toList : Stmt → List Stmt
  | .seq a b => a.toList ++ b.toList
  | .skip => []
  | s => [s]

def Codec.fieldId (c : Codec) (n : String) : Option Nat := c.fields.findIdx? (fun fi => fi.name == n)

/-- does `write` end with `skipp(objectSize % 4)` and `read` with `seekg(objectSize % 4)` ? -/
def Codec.pads (c : Codec) : Bool :=
  match c.fieldId "objectSize" with
  | some g =>
    (c.writeProg.toList.getLast? == some (.skipp (.mod (.fld g) (.const 4)))) &&
    (c.readProg.toList.getLast? == some (.seekg (.mod (.fld g) (.const 4))))
  | none => false

/-- neither side pads -/
def Codec.padFree (c : Codec) : Bool :=
  (c.writeProg.toList.all fun s => match s with | .skipp (.mod _ _) => false | _ => true) &&
  (c.readProg.toList.all fun s => match s with | .seekg (.mod _ _) => false | _ => true)

def Expr.flds : Expr → List Nat
  | .const _ => []
  | .fld f => [f]
  | .bsize f _ => [f]
  | .add a b | .mul a b | .div a b | .mod a b | .band a b | .bor a b
  | .lt a b | .le a b | .eq a b | .ne a b | .and a b | .or a b => a.flds ++ b.flds
  | .sub _ a b => a.flds ++ b.flds
  | .bnot _ a | .cast _ a | .not a => a.flds
  | .ite c a b => c.flds ++ a.flds ++ b.flds

/-- fields whose value a program reads (emits or evaluates) -/
def Stmt.reads : Stmt → List Nat
  | .skip | .ret | .sync _ | .rd _ _ => []
  | .seq a b => a.reads ++ b.reads
  | .rdBuf _ n => n.flds
  | .resize _ _ n => n.flds
  | .seekg n => n.flds
  | .wr f _ => [f]
  | .wrBuf f n => f :: n.flds
  | .skipp n => n.flds
  | .assign _ e => e.flds
  | .ite c t e => c.flds ++ t.reads ++ e.reads

/-- fields assigned by the leading assignment block of a program -/
def leadingAssigns : List Stmt → List Nat
  | .assign f _ :: l => f :: leadingAssigns l
  | _ => []

def Codec.hasInit (c : Codec) (f : Nat) : Bool :=
  match c.fields[f]? with
  | some fi => fi.hasInit
  | none => false

/-- every field the writer reads is initialised by the constructor or assigned by the writer's
    pre-processing block before anything is emitted -/
def Codec.writeDetermined (c : Codec) : Bool :=
  c.writeProg.reads.all fun f => c.hasInit f || (leadingAssigns c.writeProg.toList).contains f

def Codec.allInit (c : Codec) : Bool := c.fields.all (·.hasInit)

instance Item.decWF (o : Obj) : (i : Item) → Decidable (i.WF o)
  | .scalar f w => inferInstanceAs (Decidable (o.num f < 256 ^ w))
  | .fixed f n => inferInstanceAs (Decidable ((o.buf f).length = n))
  | .var f ew len => inferInstanceAs (Decidable ((o.buf f).length = o.num len * ew))
  | .pad _ _ => isTrue trivial
  | .skipK _ => isTrue trivial

instance ItemsWF.dec (o : Obj) : (L : List Item) → Decidable (ItemsWF o L)
  | [] => isTrue trivial
  | i :: l =>
    have := ItemsWF.dec o l
    inferInstanceAs (Decidable (i.WF o ∧ ItemsWF o l))

def arrOKb (o : Obj) (L : List Item) : Bool :=
  L.all fun i => match i with
    | .fixed f n => (o.buf f).length == n
    | _ => true

theorem arrOK_of_b (o : Obj) (L : List Item) (h : arrOKb o L = true) : ArrOK o L := by
  intro f n hm
  have := List.all_eq_true.mp h _ hm
  simpa using this

end Blf
