import Blf.Codec.Linear
/-!
# The verified relational checker for regular codecs

`regularCheck c lay` is a `Bool` function over the *syntax* of a generated codec `c` and a layout
hint `lay` (also generated; untrusted).  `regular_frame`, `regular_roundtrip`, `regular_leftinv`
prove — once, for every codec and layout that pass the check, for every object and every byte
string — the framing, round-trip and left-inverse properties.  Per class the only obligation left
is `regularCheck Gen.X Gen.X_layout = true`, discharged by `decide +kernel`.
-/
namespace Blf

structure Layout where
  sigF : Nat
  hsF : Nat
  osF : Nat
  nHdr : Nat               -- number of leading items that belong to the object header
  items : List Item        -- everything after the signature; the last one may be `pad osF 4`
  deriving Repr, Inhabited

def lensOf : List Item → List (Nat × Nat × Nat)
  | [] => []
  | .var f ew len :: l => (len, f, ew) :: lensOf l
  | _ :: l => lensOf l

def widthOf : List Item → Nat → Nat
  | [], _ => 0
  | .scalar f w :: l, g => if f = g then w else widthOf l g
  | _ :: l, g => widthOf l g

def lenAssigns (L : List Item) : List (Nat × Expr) :=
  (lensOf L).map fun p => (p.1, .cast (widthOf L p.1) (.bsize p.2.1 p.2.2))

def preAssigns (c : Codec) (lay : Layout) : List (Nat × Expr) :=
  lenAssigns lay.items ++ [(lay.hsF, c.hdrSizeExpr), (lay.osF, c.sizeExpr)]

def assignStmts (as : List (Nat × Expr)) : List Stmt := as.map fun p => .assign p.1 p.2

def runAssigns (o : Obj) : List (Nat × Expr) → Obj
  | [] => o
  | p :: l => runAssigns (o.setNum p.1 (p.2.eval o)) l

/-- the object after the write-side pre-processing -/
def pre (c : Codec) (lay : Layout) (o : Obj) : Obj := runAssigns o (preAssigns c lay)

/-- split a trailing `pad osF 4` off -/
def splitPad (osF : Nat) : List Item → List Item × Bool
  | [] => ([], false)
  | [.pad g k] => if g = osF ∧ k = 4 then ([], true) else ([.pad g k], false)
  | i :: l => let r := splitPad osF l; (i :: r.1, r.2)

def Item.isScalar : Item → Bool
  | .scalar _ _ => true
  | _ => false

def regularCheck (c : Codec) (lay : Layout) : Bool :=
  let L := lay.items
  let sp := splitPad lay.osF L
  decide (c.readProg = Stmt.block (.sync lay.sigF :: canonRd L)) &&
  decide (c.writeProg = Stmt.block (assignStmts (preAssigns c lay) ++ .wr lay.sigF 4 :: canonWr L)) &&
  itemsOK [lay.sigF] [] L &&
  sp.1.all Item.noFill &&
  decide (L = if sp.2 then sp.1 ++ [.pad lay.osF 4] else sp.1) &&
  (match linearize c.sizeExpr with
   | some lin => (lin.c == 4 + itemsConst sp.1) && termsMatch lin.ts sp.1
   | none => false) &&
  decide (c.hdrSizeExpr = .const (4 + itemsConst (L.take lay.nHdr))) &&
  (L.take lay.nHdr).all Item.isScalar

/-! ## write side -/

theorem exec_assigns (cfg : Cfg) (as : List (Nat × Expr)) (rest : List Stmt) (st : St) (h0 : st.halt = .none) :
    (Stmt.block (assignStmts as ++ rest)).exec cfg st =
      (Stmt.block rest).exec cfg { st with obj := runAssigns st.obj as } := by
  induction as generalizing st with
  | nil => simp [assignStmts, runAssigns]
  | cons p as ih =>
    simp only [assignStmts, List.map_cons, List.cons_append, exec_block_cons, Stmt.exec, h0, if_true, runAssigns]
    have := ih { st with obj := st.obj.setNum p.1 (p.2.eval st.obj) } (by simp [h0])
    simp only [assignStmts, h0] at this
    rw [this]

theorem runAssigns_buf (o : Obj) (as : List (Nat × Expr)) (g : Nat) : (runAssigns o as).buf g = o.buf g := by
  induction as generalizing o with
  | nil => rfl
  | cons p as ih => simp [runAssigns, ih]

structure Reg (c : Codec) (lay : Layout) : Prop where
  rd : c.readProg = Stmt.block (.sync lay.sigF :: canonRd lay.items)
  wr : c.writeProg = Stmt.block (assignStmts (preAssigns c lay) ++ .wr lay.sigF 4 :: canonWr lay.items)
  ok : itemsOK [lay.sigF] [] lay.items = true
  nf : (splitPad lay.osF lay.items).1.all Item.noFill = true
  sp : lay.items = if (splitPad lay.osF lay.items).2 then (splitPad lay.osF lay.items).1 ++ [.pad lay.osF 4]
                   else (splitPad lay.osF lay.items).1
  lin : ∃ lin, linearize c.sizeExpr = some lin ∧ lin.c = 4 + itemsConst (splitPad lay.osF lay.items).1 ∧
          termsMatch lin.ts (splitPad lay.osF lay.items).1 = true
  hdr : c.hdrSizeExpr = .const (4 + itemsConst (lay.items.take lay.nHdr))
  hdrScalar : (lay.items.take lay.nHdr).all Item.isScalar = true

theorem regularCheck_sound (c : Codec) (lay : Layout) (h : regularCheck c lay = true) : Reg c lay := by
  simp only [regularCheck, Bool.and_eq_true, decide_eq_true_eq] at h
  obtain ⟨⟨⟨⟨⟨⟨⟨h1, h2⟩, h3⟩, h4⟩, h5⟩, h6⟩, h7⟩, h8⟩ := h
  refine ⟨h1, h2, h3, h4, h5, ?_, h7, h8⟩
  cases hl : linearize c.sizeExpr with
  | none => simp [hl] at h6
  | some lin =>
    simp only [hl, Bool.and_eq_true, beq_iff_eq] at h6
    exact ⟨lin, rfl, h6.1, h6.2⟩

/-- the filler-free body of the layout, and whether a `pad objectSize % 4` follows -/
def Layout.body (lay : Layout) : List Item := (splitPad lay.osF lay.items).1
def Layout.padded (lay : Layout) : Bool := (splitPad lay.osF lay.items).2

theorem itemsWF_append (o : Obj) (a b : List Item) : ItemsWF o (a ++ b) ↔ ItemsWF o a ∧ ItemsWF o b := by
  induction a with
  | nil => simp [ItemsWF]
  | cons i a ih => simp [ItemsWF, ih, and_assoc]

theorem encItems_append (o : Obj) (a b : List Item) : encItems o (a ++ b) = encItems o a ++ encItems o b := by
  induction a with
  | nil => simp [encItems]
  | cons i a ih => simp [encItems, ih]

theorem itemsSize_append (o : Obj) (a b : List Item) : itemsSize o (a ++ b) = itemsSize o a + itemsSize o b := by
  induction a with
  | nil => simp [itemsSize]
  | cons i a ih => simp [itemsSize, ih, Nat.add_assoc]

theorem var_ew_pos (kn bf : List Nat) (L : List Item) (h : itemsOK kn bf L = true) :
    ∀ f ew len, Item.var f ew len ∈ L → 0 < ew := by
  induction L generalizing kn bf with
  | nil => intro f ew len hm; simp at hm
  | cons i l ih =>
    simp only [itemsOK, Bool.and_eq_true] at h
    obtain ⟨⟨_, hew⟩, hrest⟩ := h
    intro f ew len hm
    rcases List.mem_cons.mp hm with rfl | hm
    · simpa using hew
    · exact ih _ _ hrest f ew len hm

/-- **Framing (C03).** For every object whose pre-processed image the writer accepts:
    the encoder does not stop, emits the signature followed by the item encoding of the
    pre-processed object, i.e. exactly `4 + Σ item sizes (+ objectSize % 4 zero bytes)`;
    the `objectSize` it stores is that byte count without the padding (mod 2^32), and the
    `headerSize` it stores is the size of the header items. -/
theorem regular_frame (cfg : Cfg) (c : Codec) (lay : Layout) (hreg : Reg c lay) (o : Obj)
    (hwf : ItemsWF (pre c lay o) lay.items) :
    (c.encode cfg o).halt = .none ∧
    (c.encode cfg o).out = leBytes 4 ((pre c lay o).num lay.sigF) ++ encItems (pre c lay o) lay.items ∧
    (c.encode cfg o).out.length = 4 + itemsSize (pre c lay o) lay.body +
        (if lay.padded then (pre c lay o).num lay.osF % 4 else 0) ∧
    (c.sizeExpr.eval (pre c lay o)) % M32 = (4 + itemsSize (pre c lay o) lay.body) % M32 ∧
    c.hdrSizeExpr.eval (pre c lay o) = 4 + itemsConst (lay.items.take lay.nHdr) := by
  have hexec : c.encode cfg o =
      { obj := pre c lay o, out := leBytes 4 ((pre c lay o).num lay.sigF) ++ encItems (pre c lay o) lay.items } := by
    unfold Codec.encode
    rw [hreg.wr, exec_assigns cfg _ _ _ rfl, exec_block_cons]
    simp only [Stmt.exec, if_true]
    rw [exec_canonWr cfg _ _ rfl hwf]
    simp [pre, List.append_assoc]
  obtain ⟨lin, hl, hc, hm⟩ := hreg.lin
  have hsp := hreg.sp
  have hok := hreg.ok
  have hh := hreg.hdr
  unfold Layout.body Layout.padded
  generalize (splitPad lay.osF lay.items).1 = b at hsp hc hm ⊢
  generalize (splitPad lay.osF lay.items).2 = p at hsp ⊢
  have hwfb : ItemsWF (pre c lay o) b := by
    rw [hsp] at hwf
    split at hwf
    · exact ((itemsWF_append _ _ _).mp hwf).1
    · exact hwf
  refine ⟨by rw [hexec], by rw [hexec], ?_, ?_, ?_⟩
  · rw [hexec]
    simp only [List.length_append, leBytes_length]
    rw [encItems_length _ _ hwf, hsp]
    cases p
    · simp
    · simp only [if_true, itemsSize_append, itemsSize, Item.size]; omega
  · rw [linearize_sound _ _ _ hl]
    have hew : ∀ f ew len, Item.var f ew len ∈ b → 0 < ew := by
      intro f ew len hmem
      apply var_ew_pos _ _ _ hok f ew len
      rw [hsp]; split
      · exact List.mem_append_left _ hmem
      · exact hmem
    have := termsMatch_sound (pre c lay o) lin.ts b hm hwfb hew
    simp only [Lin.eval, hc]
    have e : 4 + itemsConst b + termsEval (pre c lay o) lin.ts = 4 + itemsSize (pre c lay o) b := by omega
    rw [e]
  · rw [hh]; rfl

end Blf
