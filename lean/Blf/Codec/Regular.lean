import Blf.Codec.Linear
/-!
# The verified relational checker for regular codecs

`regularCheck c lay` is a `Bool` function over the *syntax* of a generated codec `c` and a layout
hint `lay` (also generated; untrusted).  `regular_frame`, `regular_roundtrip`, `regular_leftinv`
prove — once, for every codec and layout that pass the check, for every object and every byte
string — the framing, round-trip and left-inverse properties.  Per class the only obligation left
is `regularCheck Gen.X Gen.X_layout = true`, discharged by `decide +kernel`.
-/
namespace Blf

structure Layout where
  sigF : Nat
  hsF : Nat
  osF : Nat
  nHdr : Nat               -- number of leading items that belong to the object header
  items : List Item        -- everything after the signature; the last one may be `pad osF 4`
  pre : List (Nat × Expr)  -- write-side pre-processing assignments before headerSize/objectSize
  deriving Repr, Inhabited, DecidableEq

def lensOf : List Item → List (Nat × Nat × Nat)
  | [] => []
  | .var f ew len :: l => (len, f, ew) :: lensOf l
  | _ :: l => lensOf l

def widthOf : List Item → Nat → Nat
  | [], _ => 0
  | .scalar f w :: l, g => if f = g then w else widthOf l g
  | _ :: l, g => widthOf l g

def lenAssigns (L : List Item) : List (Nat × Expr) :=
  (lensOf L).map fun p => (p.1, .cast (widthOf L p.1) (.bsize p.2.1 p.2.2))

def preAssigns (c : Codec) (lay : Layout) : List (Nat × Expr) :=
  lay.pre ++ [(lay.hsF, c.hdrSizeExpr), (lay.osF, c.sizeExpr)]

/-- is `(g, e)` the length pre-assignment of some `var` item of `L` ? -/
def isLenAssign (L : List Item) (g : Nat) (e : Expr) : Bool :=
  (lensOf L).any fun p => p.1 == g && e == .cast (widthOf L g) (.bsize p.2.1 p.2.2)

def isConstExpr : Expr → Bool
  | .const _ => true
  | _ => false

/-- the pre-processing block: targets pairwise distinct and different from signature / headerSize /
    objectSize; every entry is a constant or the length assignment of a `var` item; every `var` item has
    its length assignment. -/
def preOK (lay : Layout) : Bool :=
  let tg := lay.pre.map (·.1)
  tg.Nodup && !tg.contains lay.sigF && !tg.contains lay.hsF && !tg.contains lay.osF &&
  (lay.pre.all fun p => (isConstExpr p.2 && !(lensOf lay.items).any (·.1 == p.1)) || isLenAssign lay.items p.1 p.2) &&
  ((lensOf lay.items).all fun q => lay.pre.any fun p => p.1 == q.1 && isLenAssign lay.items p.1 p.2)

def assignStmts (as : List (Nat × Expr)) : List Stmt := as.map fun p => .assign p.1 p.2

def runAssigns (o : Obj) : List (Nat × Expr) → Obj
  | [] => o
  | p :: l => runAssigns (o.setNum p.1 (p.2.eval o)) l

/-- the object after the write-side pre-processing -/
def pre (c : Codec) (lay : Layout) (o : Obj) : Obj := runAssigns o (preAssigns c lay)

def isCast4 : Expr → Bool
  | .cast 4 _ => true
  | .const k => decide (k < 256 ^ 4)
  | _ => false

theorem isCast4_lt (e : Expr) (h : isCast4 e = true) (o : Obj) : e.eval o < 256 ^ 4 := by
  unfold isCast4 at h
  split at h
  · simp only [Expr.eval]; exact Nat.mod_lt _ (by decide)
  · simpa [Expr.eval] using h
  · simp at h

/-- second group of side conditions on the pre-processing block (needed only for `UserWF → ItemsWF`):
    length fields of distinct `var` items are distinct; constant assignments fit their field; the header
    size constant fits 16 bits; `calculateObjectSize` ends in a cast to 32 bits; headerSize/objectSize
    are scalars of the layout with widths 2 and 4. -/
def preOK2 (c : Codec) (lay : Layout) : Bool :=
  ((lensOf lay.items).map (·.1)).Nodup &&
  (lay.pre.all fun p => match p.2 with
    | .const k => decide (k < 256 ^ widthOf lay.items p.1)
    | _ => true) &&
  decide (4 + itemsConst (lay.items.take lay.nHdr) < 65536) &&
  isCast4 c.sizeExpr &&
  lay.items.contains (.scalar lay.hsF 2) && lay.items.contains (.scalar lay.osF 4) &&
  decide (lay.hsF ≠ lay.osF)


/-- split a trailing `pad osF 4` off -/
def splitPad (osF : Nat) : List Item → List Item × Bool
  | [] => ([], false)
  | [.pad g k] => if g = osF ∧ k = 4 then ([], true) else ([.pad g k], false)
  | i :: l => let r := splitPad osF l; (i :: r.1, r.2)

def Item.isScalar : Item → Bool
  | .scalar _ _ => true
  | _ => false

def regularCheck (c : Codec) (lay : Layout) : Bool :=
  let L := lay.items
  let sp := splitPad lay.osF L
  decide (c.readProg = Stmt.block (.sync lay.sigF :: canonRd L)) &&
  decide (c.writeProg = Stmt.block (assignStmts (preAssigns c lay) ++ .wr lay.sigF 4 :: canonWr L)) &&
  itemsOK [lay.sigF] [] L &&
  preOK lay &&
  preOK2 c lay &&
  sp.1.all Item.noFill &&
  decide (L = if sp.2 then sp.1 ++ [.pad lay.osF 4] else sp.1) &&
  (match linearize c.sizeExpr with
   | some lin => (lin.c == 4 + itemsConst sp.1) && termsMatch lin.ts sp.1
   | none => false) &&
  decide (c.hdrSizeExpr = .const (4 + itemsConst (L.take lay.nHdr))) &&
  (L.take lay.nHdr).all Item.isScalar

/-! ## write side -/

theorem exec_assigns (cfg : Cfg) (as : List (Nat × Expr)) (rest : List Stmt) (st : St) (h0 : st.halt = .none) :
    (Stmt.block (assignStmts as ++ rest)).exec cfg st =
      (Stmt.block rest).exec cfg { st with obj := runAssigns st.obj as } := by
  induction as generalizing st with
  | nil => simp [assignStmts, runAssigns]
  | cons p as ih =>
    simp only [assignStmts, List.map_cons, List.cons_append, exec_block_cons, Stmt.exec, h0, if_true, runAssigns]
    have := ih { st with obj := st.obj.setNum p.1 (p.2.eval st.obj) } (by simp [h0])
    simp only [assignStmts, h0] at this
    rw [this]

theorem runAssigns_buf (o : Obj) (as : List (Nat × Expr)) (g : Nat) : (runAssigns o as).buf g = o.buf g := by
  induction as generalizing o with
  | nil => rfl
  | cons p as ih => simp [runAssigns, ih]

structure Reg (c : Codec) (lay : Layout) : Prop where
  rd : c.readProg = Stmt.block (.sync lay.sigF :: canonRd lay.items)
  wr : c.writeProg = Stmt.block (assignStmts (preAssigns c lay) ++ .wr lay.sigF 4 :: canonWr lay.items)
  ok : itemsOK [lay.sigF] [] lay.items = true
  pre : preOK lay = true
  pre2 : preOK2 c lay = true
  nf : (splitPad lay.osF lay.items).1.all Item.noFill = true
  sp : lay.items = if (splitPad lay.osF lay.items).2 then (splitPad lay.osF lay.items).1 ++ [.pad lay.osF 4]
                   else (splitPad lay.osF lay.items).1
  lin : ∃ lin, linearize c.sizeExpr = some lin ∧ lin.c = 4 + itemsConst (splitPad lay.osF lay.items).1 ∧
          termsMatch lin.ts (splitPad lay.osF lay.items).1 = true
  hdr : c.hdrSizeExpr = .const (4 + itemsConst (lay.items.take lay.nHdr))
  hdrScalar : (lay.items.take lay.nHdr).all Item.isScalar = true

theorem regularCheck_sound (c : Codec) (lay : Layout) (h : regularCheck c lay = true) : Reg c lay := by
  simp only [regularCheck, Bool.and_eq_true, decide_eq_true_eq] at h
  obtain ⟨⟨⟨⟨⟨⟨⟨⟨⟨h1, h2⟩, h3⟩, hp⟩, hp2⟩, h4⟩, h5⟩, h6⟩, h7⟩, h8⟩ := h
  refine ⟨h1, h2, h3, hp, hp2, h4, h5, ?_, h7, h8⟩
  cases hl : linearize c.sizeExpr with
  | none => simp [hl] at h6
  | some lin =>
    simp only [hl, Bool.and_eq_true, beq_iff_eq] at h6
    exact ⟨lin, rfl, h6.1, h6.2⟩

/-- the filler-free body of the layout, and whether a `pad objectSize % 4` follows -/
def Layout.body (lay : Layout) : List Item := (splitPad lay.osF lay.items).1
def Layout.padded (lay : Layout) : Bool := (splitPad lay.osF lay.items).2

theorem itemsWF_append (o : Obj) (a b : List Item) : ItemsWF o (a ++ b) ↔ ItemsWF o a ∧ ItemsWF o b := by
  induction a with
  | nil => simp [ItemsWF]
  | cons i a ih => simp [ItemsWF, ih, and_assoc]

theorem encItems_append (o : Obj) (a b : List Item) : encItems o (a ++ b) = encItems o a ++ encItems o b := by
  induction a with
  | nil => simp [encItems]
  | cons i a ih => simp [encItems, ih]

theorem itemsSize_append (o : Obj) (a b : List Item) : itemsSize o (a ++ b) = itemsSize o a + itemsSize o b := by
  induction a with
  | nil => simp [itemsSize]
  | cons i a ih => simp [itemsSize, ih, Nat.add_assoc]

theorem itemsOK_prefix (kn bf : List Nat) (a b : List Item) (h : itemsOK kn bf (a ++ b) = true) :
    itemsOK kn bf a = true := by
  induction a generalizing kn bf with
  | nil => simp [itemsOK]
  | cons i a ih =>
    simp only [List.cons_append, itemsOK, Bool.and_eq_true] at h ⊢
    exact ⟨h.1, ih _ _ h.2⟩

theorem var_ew_pos (kn bf : List Nat) (L : List Item) (h : itemsOK kn bf L = true) :
    ∀ f ew len, Item.var f ew len ∈ L → 0 < ew := by
  induction L generalizing kn bf with
  | nil => intro f ew len hm; simp at hm
  | cons i l ih =>
    simp only [itemsOK, Bool.and_eq_true] at h
    obtain ⟨⟨_, hew⟩, hrest⟩ := h
    intro f ew len hm
    rcases List.mem_cons.mp hm with rfl | hm
    · simpa using hew
    · exact ih _ _ hrest f ew len hm

/-- **Framing (C03).** For every object whose pre-processed image the writer accepts:
    the encoder does not stop, emits the signature followed by the item encoding of the
    pre-processed object, i.e. exactly `4 + Σ item sizes (+ objectSize % 4 zero bytes)`;
    the `objectSize` it stores is that byte count without the padding (mod 2^32), and the
    `headerSize` it stores is the size of the header items. -/
theorem regular_frame (cfg : Cfg) (c : Codec) (lay : Layout) (hreg : Reg c lay) (o : Obj)
    (hwf : ItemsWF (pre c lay o) lay.items) :
    (c.encode cfg o).halt = .none ∧
    (c.encode cfg o).out = leBytes 4 ((pre c lay o).num lay.sigF) ++ encItems (pre c lay o) lay.items ∧
    (c.encode cfg o).out.length = 4 + itemsSize (pre c lay o) lay.body +
        (if lay.padded then (pre c lay o).num lay.osF % 4 else 0) ∧
    (c.sizeExpr.eval (pre c lay o)) % M32 = (4 + itemsSize (pre c lay o) lay.body) % M32 ∧
    c.hdrSizeExpr.eval (pre c lay o) = 4 + itemsConst (lay.items.take lay.nHdr) := by
  have hexec : c.encode cfg o =
      { obj := pre c lay o, out := leBytes 4 ((pre c lay o).num lay.sigF) ++ encItems (pre c lay o) lay.items } := by
    unfold Codec.encode
    rw [hreg.wr, exec_assigns cfg _ _ _ rfl, exec_block_cons]
    simp only [Stmt.exec, if_true]
    rw [exec_canonWr cfg _ _ rfl hwf]
    simp [pre, List.append_assoc]
  obtain ⟨lin, hl, hc, hm⟩ := hreg.lin
  have hsp := hreg.sp
  have hok := hreg.ok
  have hh := hreg.hdr
  unfold Layout.body Layout.padded
  generalize (splitPad lay.osF lay.items).1 = b at hsp hc hm ⊢
  generalize (splitPad lay.osF lay.items).2 = p at hsp ⊢
  have hwfb : ItemsWF (pre c lay o) b := by
    rw [hsp] at hwf
    split at hwf
    · exact ((itemsWF_append _ _ _).mp hwf).1
    · exact hwf
  refine ⟨by rw [hexec], by rw [hexec], ?_, ?_, ?_⟩
  · rw [hexec]
    simp only [List.length_append, leBytes_length]
    rw [encItems_length _ _ hwf, hsp]
    cases p
    · simp
    · simp only [if_true, itemsSize_append, itemsSize, Item.size]; omega
  · rw [linearize_sound _ _ _ hl]
    have hew : ∀ f ew len, Item.var f ew len ∈ b → 0 < ew := by
      intro f ew len hmem
      apply var_ew_pos _ _ _ hok f ew len
      rw [hsp]; split
      · exact List.mem_append_left _ hmem
      · exact hmem
    have := termsMatch_sound (pre c lay o) lin.ts b hm hwfb hew
    simp only [Lin.eval, hc]
    have e : 4 + itemsConst b + termsEval (pre c lay o) lin.ts = 4 + itemsSize (pre c lay o) b := by omega
    rw [e]
  · rw [hh]; rfl

/-! ## read side -/

theorem SIG_lt : SIG < 256 ^ 4 := by decide

/-- positioned on a signature, the search loop reads exactly these four bytes -/
theorem exec_sync_at_sig (cfg : Cfg) (hs : cfg.sticky = false) (f : Nat) (st : St)
    (hlen : st.pos + 4 ≤ st.inp.length) (hsig : (st.inp.drop st.pos).take 4 = leBytes 4 SIG) :
    (Stmt.sync f).exec cfg st =
      { st with obj := st.obj.setNum f SIG, pos := st.pos + 4, good := true, eof := false } := by
  simp only [Stmt.exec]
  have hf : st.inp.length - st.pos + 2 = (st.inp.length - st.pos + 1) + 1 := by omega
  rw [hf]
  simp only [syncLoop, St.sread, hs, Bool.false_and, Bool.false_eq_true, if_false, hlen, if_true, hsig]
  have : scalarMerge 4 0 (leBytes 4 SIG) = SIG := by
    rw [scalarMerge_full 4 0 _ (by simp), leVal_leBytes_of_lt SIG_lt]
  simp [this]

theorem decItems_append (cap : Nat) (a b : List Item) (o : Obj) (s : Bytes) :
    decItems cap (a ++ b) o s =
      match decItems cap a o s with
      | some (o1, s1) => decItems cap b o1 s1
      | none => none := by
  induction a generalizing o s with
  | nil => simp [decItems]
  | cons i a ih =>
    simp only [List.cons_append, decItems]
    cases decItem cap o s i with
    | none => rfl
    | some p => obtain ⟨o1, s1⟩ := p; simp only; exact ih o1 s1

theorem drop_eq_pos (l r : Bytes) (p : Nat) (hp : p ≤ l.length) (h : l.drop p = r) : p = l.length - r.length := by
  have := congrArg List.length h
  simp at this; omega

/-- **Round trip (C01, per object).** Decoding the encoding of any writer-accepted object, followed by
    arbitrary bytes, from any start object with correctly sized arrays: no stop, no short read,
    consumes exactly the encoding, and every field of the layout equals the pre-processed original. -/
theorem regular_roundtrip (cfg : Cfg) (hs : cfg.sticky = false) (c : Codec) (lay : Layout) (hreg : Reg c lay)
    (o o0 : Obj) (rest : Bytes)
    (hwf : ItemsWF (pre c lay o) lay.items) (hsig : (pre c lay o).num lay.sigF = SIG)
    (harr : ArrOK o0 lay.items)
    (hcap : ∀ f ew len, Item.var f ew len ∈ lay.items → (pre c lay o).num len * ew ≤ cfg.cap) :
    (c.decode cfg o0 ((c.encode cfg o).out ++ rest)).halt = .none ∧
    (c.decode cfg o0 ((c.encode cfg o).out ++ rest)).short = false ∧
    (c.decode cfg o0 ((c.encode cfg o).out ++ rest)).pos = (c.encode cfg o).out.length ∧
    Agree (lay.items.filterMap Item.numDef ++ [lay.sigF]) (lay.items.filterMap Item.bufDef)
      (c.decode cfg o0 ((c.encode cfg o).out ++ rest)).obj (pre c lay o) := by
  obtain ⟨_, hout, _, _, _⟩ := regular_frame cfg c lay hreg o hwf
  rw [hout, hsig]
  unfold Codec.decode
  rw [hreg.rd, exec_block_cons]
  have hl4 : (leBytes 4 SIG).length = 4 := by simp
  rw [exec_sync_at_sig cfg hs _ _ (by simp) (by simp [List.take_append_of_le_length, hl4])]
  simp only [if_true]
  have hdrop : (leBytes 4 SIG ++ encItems (pre c lay o) lay.items ++ rest).drop (0 + 4) =
      encItems (pre c lay o) lay.items ++ rest := by
    rw [List.append_assoc]; exact (take_append_len _ _ 4 hl4).2
  have hag : Agree [lay.sigF] [] (({ obj := o0 } : St).obj.setNum lay.sigF SIG) (pre c lay o) := by
    refine ⟨fun g hg => ?_, fun g hg => by simp at hg⟩
    simp only [List.mem_singleton] at hg; subst hg; simp [hsig]
  obtain ⟨o', hd, ha⟩ := dec_enc cfg.cap lay.items [lay.sigF] [] (pre c lay o) _ rest hreg.ok hwf hag hcap
  have hrd := exec_canonRd cfg hs lay.items [lay.sigF] []
    { obj := o0.setNum lay.sigF SIG, inp := leBytes 4 SIG ++ encItems (pre c lay o) lay.items ++ rest,
      pos := 0 + 4, good := true, eof := false } hreg.ok rfl (by simp) (by intro f n h; simpa using harr f n h)
  simp only [hdrop] at hrd
  simp only at hd
  rw [hd] at hrd
  refine ⟨hrd.halt, hrd.short, ?_, ?_⟩
  · have := drop_eq_pos _ _ _ hrd.pos hrd.rest
    rw [this]; simp; omega
  · rw [hrd.obj]
    exact ha.mono (fun g hg => hg) (fun g hg => by simpa using hg)

/-- **Left inverse (C02).** Any byte string that starts with the signature and that the decoder
    processes without stopping and without a short read is the signature, followed by the item
    encoding of the decoded object's filler-free body, followed by the rest (padding and beyond). -/
theorem regular_leftinv (cfg : Cfg) (hs : cfg.sticky = false) (c : Codec) (lay : Layout) (hreg : Reg c lay)
    (o0 : Obj) (b : Bytes) (harr : ArrOK o0 lay.items)
    (h4 : 4 ≤ b.length) (hb : b.take 4 = leBytes 4 SIG)
    (hh : (c.decode cfg o0 b).halt = .none) (hsh : (c.decode cfg o0 b).short = false) :
    ∃ rest, b = leBytes 4 SIG ++ encItems (c.decode cfg o0 b).obj lay.body ++ rest := by
  unfold Codec.decode at hh hsh ⊢
  rw [hreg.rd, exec_block_cons] at hh hsh ⊢
  rw [exec_sync_at_sig cfg hs _ _ (by simpa using h4) (by simpa using hb)] at hh hsh ⊢
  simp only [if_true] at hh hsh ⊢
  have hrd := exec_canonRd cfg hs lay.items [lay.sigF] []
    { obj := o0.setNum lay.sigF SIG, inp := b, pos := 0 + 4, good := true, eof := false } hreg.ok rfl
    (by simpa using h4) (by intro f n h; simpa using harr f n h)
  cases hdi : decItems cfg.cap lay.items (o0.setNum lay.sigF SIG) (b.drop (0 + 4)) with
  | none =>
    simp only [hdi] at hrd
    rcases hrd with h | h
    · rw [h] at hsh; simp at hsh
    · exact absurd hh h
  | some p =>
    obtain ⟨o', r'⟩ := p
    simp only [hdi] at hrd
    rw [hrd.obj]
    have hsp := hreg.sp
    have hnf := hreg.nf
    have hok := hreg.ok
    unfold Layout.body
    generalize (splitPad lay.osF lay.items).1 = body at hsp hnf ⊢
    generalize (splitPad lay.osF lay.items).2 = pd at hsp
    have hb4 : b = leBytes 4 SIG ++ b.drop (0 + 4) := by
      rw [← hb]; simp
    cases pd with
    | false =>
      simp only [Bool.false_eq_true, if_false] at hsp
      rw [hsp] at hdi hok
      have := enc_dec cfg.cap body _ _ _ _ _ _ hok hnf hdi
      exact ⟨r', by rw [List.append_assoc, ← this]; exact hb4⟩
    | true =>
      simp only [if_true] at hsp
      rw [hsp, decItems_append] at hdi
      rw [hsp] at hok
      cases hd1 : decItems cfg.cap body (o0.setNum lay.sigF SIG) (b.drop (0 + 4)) with
      | none => simp [hd1] at hdi
      | some q =>
        obtain ⟨o1, r1⟩ := q
        simp only [hd1, decItems, decItem, Option.some.injEq, Prod.mk.injEq] at hdi
        have hok1 : itemsOK [lay.sigF] [] body = true := itemsOK_prefix _ _ _ _ hok
        have := enc_dec cfg.cap body _ _ _ _ _ _ hok1 hnf hd1
        rw [← hdi.1]
        exact ⟨r1, by rw [List.append_assoc, ← this]; exact hb4⟩

end Blf
