import Blf.Codec.Sticky
import Blf.Codec.Safe
/-!
# Short reads: once the in-memory stream has failed it stays failed

On the non-sticky stream a read that comes back short leaves the position at the end of the input and the stream not good;
every later read of at least one byte is short again, and no seek moves the position.  So a decoder run ends either
without any short read and with a good stream, or *failed*: not good, at the end of the input.  The parser tests
`good()` after the decoder — a truncated object is therefore never delivered.
-/
namespace Blf

/-- the stream has failed: not good, positioned at the end of the input, and the ghost flag is set -/
structure Failed (st : St) : Prop where
  good : st.good = false
  pos : st.pos = st.inp.length
  short : st.short = true

def OkOrFailed (st : St) : Prop := StreamOK st ∨ Failed st

theorem sread_okOrFailed (cfg : Cfg) (hs : cfg.sticky = false) (st : St) (n : Nat) (h : OkOrFailed st) :
    OkOrFailed (st.sread cfg n).2 ∧ (st.sread cfg n).2.halt = st.halt ∧ (st.sread cfg n).2.inp = st.inp := by
  unfold St.sread
  simp only [hs, Bool.false_and, Bool.false_eq_true, if_false, Bool.not_false, and_true]
  by_cases h0 : n = 0
  · rw [if_pos h0]; exact ⟨h, rfl, rfl⟩
  · rw [if_neg h0]
    by_cases hl : st.pos + n ≤ st.inp.length
    · rw [if_pos hl]
      rcases h with h | h
      · exact ⟨Or.inl ⟨rfl, rfl, hl, h.short⟩, rfl, rfl⟩
      · have := h.pos; omega
    · rw [if_neg hl]; exact ⟨Or.inr ⟨rfl, rfl, rfl⟩, rfl, rfl⟩

theorem sseek_okOrFailed (cfg : Cfg) (hs : cfg.sticky = false) (st : St) (n : Nat) (h : OkOrFailed st) :
    OkOrFailed (st.sseek cfg n) := by
  unfold St.sseek
  simp only [hs, Bool.false_and, Bool.false_eq_true, if_false]
  rcases h with h | h
  · exact Or.inl ⟨h.good, h.eof, by simp only; omega, h.short⟩
  · exact Or.inr ⟨h.good, by simp only; have := h.pos; omega, h.short⟩

theorem syncLoop_okOrFailed (cfg : Cfg) (hs : cfg.sticky = false) (sigF : Nat) : ∀ (fuel tmp : Nat) (st : St),
    OkOrFailed st → OkOrFailed (syncLoop cfg sigF fuel tmp st) := by
  intro fuel
  induction fuel with
  | zero => intro tmp st h; rcases h with h | h; exact Or.inl ⟨h.good, h.eof, h.pos, h.short⟩; exact Or.inr ⟨h.good, h.pos, h.short⟩
  | succ n ih =>
    intro tmp st h
    unfold syncLoop
    obtain ⟨h1, _, _⟩ := sread_okOrFailed cfg hs st 4 h
    -- a complete read leaves at least four bytes behind the position
    have hfull : (st.sread cfg 4).1.length < 4 ∨ (StreamOK (st.sread cfg 4).2 ∧ 4 ≤ (st.sread cfg 4).2.pos) := by
      unfold St.sread
      simp only [hs, Bool.false_and, Bool.false_eq_true, if_false]
      rw [if_neg (by omega)]
      by_cases hl : st.pos + 4 ≤ st.inp.length
      · rw [if_pos hl]
        rcases h with h | h
        · exact Or.inr ⟨⟨rfl, rfl, hl, h.short⟩, by simp⟩
        · have := h.pos; omega
      · rw [if_neg hl]; left; simp; omega
    generalize st.sread cfg 4 = r at h1 hfull
    obtain ⟨got, st1⟩ := r
    simp only at h1 hfull ⊢
    have keep : ∀ (o : Obj) (hl : Halt), OkOrFailed ({ st1 with obj := o, halt := hl } : St) := by
      intro o hl
      rcases h1 with h1 | h1
      · exact Or.inl ⟨h1.good, h1.eof, h1.pos, h1.short⟩
      · exact Or.inr ⟨h1.good, h1.pos, h1.short⟩
    split
    · rcases h1 with h1 | h1
      · exact Or.inl ⟨h1.good, h1.eof, h1.pos, h1.short⟩
      · exact Or.inr ⟨h1.good, h1.pos, h1.short⟩
    · split
      · rcases h1 with h1 | h1
        · exact Or.inl ⟨h1.good, h1.eof, h1.pos, h1.short⟩
        · exact Or.inr ⟨h1.good, h1.pos, h1.short⟩
      · next _ h2 =>
        have hok : StreamOK st1 ∧ 4 ≤ st1.pos := by
          rcases hfull with hf | hf
          · simp [hf] at h2
          · exact hf
        have hb : ∀ k, k ≤ 3 → OkOrFailed (st1.sback k) := fun k hk =>
          Or.inl ⟨hok.1.good, hok.1.eof, by simp only [St.sback]; have := hok.1.pos; omega, hok.1.short⟩
        split
        · exact ih _ _ (hb 3 (by omega))
        · split
          · exact ih _ _ (hb 2 (by omega))
          · split
            · exact ih _ _ (hb 1 (by omega))
            · exact ih _ _ (Or.inl hok.1)

/-- **every run ends with the stream OK (no short read so far) or failed** -/
theorem exec_okOrFailed (cfg : Cfg) (hs : cfg.sticky = false) : ∀ (s : Stmt) (st : St), OkOrFailed st → OkOrFailed (s.exec cfg st) := by
  intro s
  have lift : ∀ (st : St) (o : Obj) (hl : Halt) (ou : Bytes), OkOrFailed st → OkOrFailed ({ st with obj := o, halt := hl, out := ou } : St) := by
    intro st o hl ou h
    rcases h with h | h
    · exact Or.inl ⟨h.good, h.eof, h.pos, h.short⟩
    · exact Or.inr ⟨h.good, h.pos, h.short⟩
  induction s with
  | skip => intro st h; exact h
  | seq a b iha ihb =>
    intro st h
    simp only [Stmt.exec]
    split
    · exact ihb _ (iha st h)
    · exact iha st h
  | sync sigF => intro st h; exact syncLoop_okOrFailed cfg hs sigF _ 0 st h
  | rd f w =>
    intro st h
    obtain ⟨h1, _, _⟩ := sread_okOrFailed cfg hs st w h
    simp only [Stmt.exec]
    generalize st.sread cfg w = r at h1
    obtain ⟨got, st1⟩ := r
    exact lift st1 _ st1.halt st1.out h1
  | rdBuf f n =>
    intro st h
    simp only [Stmt.exec]
    split
    · exact lift st st.obj .oob st.out h
    · obtain ⟨h1, _, _⟩ := sread_okOrFailed cfg hs st (n.eval st.obj) h
      generalize st.sread cfg (n.eval st.obj) = r at h1
      obtain ⟨got, st1⟩ := r
      exact lift st1 _ st1.halt st1.out h1
  | resize f ew n =>
    intro st h
    simp only [Stmt.exec]
    split
    · exact lift st st.obj .badAlloc st.out h
    · exact lift st _ st.halt st.out h
  | seekg n => intro st h; exact sseek_okOrFailed cfg hs st _ h
  | wr f w => intro st h; exact lift st st.obj st.halt _ h
  | wrBuf f n =>
    intro st h
    simp only [Stmt.exec]
    split
    · exact lift st st.obj .oob st.out h
    · exact lift st st.obj st.halt _ h
  | skipp n => intro st h; exact lift st st.obj st.halt _ h
  | assign f e => intro st h; exact lift st _ st.halt st.out h
  | ite c t e iht ihe => intro st h; simp only [Stmt.exec]; split; exact iht st h; exact ihe st h
  | ret => intro st h; exact lift st st.obj .ret st.out h

/-- a run from a good stream that ends with the ghost flag set ends not good: the parser drops the object -/
theorem exec_short_not_good (cfg : Cfg) (hs : cfg.sticky = false) (s : Stmt) (st : St) (h : StreamOK st)
    (hsh : (s.exec cfg st).short = true) : (s.exec cfg st).good = false := by
  rcases exec_okOrFailed cfg hs s st (Or.inl h) with h1 | h1
  · rw [h1.short] at hsh; cases hsh
  · exact h1.good

/-! ### a strict prefix of an encoding does not decode -/

theorem decItems_singleton (cap : Nat) (i : Item) (o : Obj) (s : Bytes) :
    decItems cap [i] o s = decItem cap o s i := by
  simp only [decItems]
  cases decItem cap o s i with
  | none => rfl
  | some p => rfl

/-- **truncation**: the pure decoder of a filler-free item list rejects every strict prefix of an encoding -/
theorem dec_trunc (cap : Nat) : ∀ (L : List Item) (kn bf : List Nat) (ow o : Obj) (m : Nat),
    itemsOK kn bf L = true → L.all Item.noFill = true → ItemsWF ow L → Agree kn bf o ow →
    (∀ f ew len, Item.var f ew len ∈ L → ow.num len * ew ≤ cap) → m < (encItems ow L).length →
    decItems cap L o ((encItems ow L).take m) = none := by
  intro L
  induction L with
  | nil => intro kn bf ow o m _ _ _ _ _ hm; simp [encItems] at hm
  | cons i l ih =>
    intro kn bf ow o m hok hnf hwf hag hcap hm
    have hok0 := hok
    simp only [itemsOK, Bool.and_eq_true] at hok
    obtain ⟨⟨⟨⟨huse, _⟩, _⟩, _⟩, hrest⟩ := hok
    simp only [List.all_cons, Bool.and_eq_true] at hnf
    obtain ⟨hwi, hwl⟩ := hwf
    have ha : (encItem ow i).length = i.size ow := encItem_length ow i hwi
    simp only [encItems, List.length_append] at hm
    by_cases hma : m < (encItem ow i).length
    · -- the first item is cut
      have hlen : ((encItems ow (i :: l)).take m).length = m := by
        simp only [encItems, List.length_take, List.length_append]; omega
      simp only [decItems]
      have : decItem cap o ((encItems ow (i :: l)).take m) i = none := by
        cases i with
        | scalar f w =>
          simp only [decItem, hlen]
          rw [if_neg]; simp only [encItem, leBytes_length] at hma; omega
        | fixed f n =>
          simp only [decItem, hlen]
          rw [if_neg]; simp only [Item.size] at ha; omega
        | var f ew len =>
          simp only [Item.uses, List.all_cons, List.all_nil, Bool.and_true] at huse
          have hl : o.num len = ow.num len := hag.1 len (by simpa using huse)
          simp only [decItem, hlen, hl]
          rw [if_neg]; simp only [Item.size] at ha; omega
        | pad g k => simp [Item.noFill] at hnf
        | skipK n => simp [Item.noFill] at hnf
      rw [this]
    · -- the first item is complete: decode it, the rest is cut
      have hsplit : (encItems ow (i :: l)).take m = encItem ow i ++ (encItems ow l).take (m - (encItem ow i).length) := by
        simp only [encItems]
        rw [List.take_append]
        rw [List.take_of_length_le (by omega)]
      have h1 := dec_enc cap [i] kn bf ow o ((encItems ow l).take (m - (encItem ow i).length))
        (by
          simp only [itemsOK, Bool.and_eq_true] at hok0 ⊢
          exact ⟨hok0.1, trivial⟩)
        ⟨hwi, trivial⟩ hag (fun f ew len hmem => hcap f ew len (by
          simp only [List.mem_singleton] at hmem; rw [hmem]; exact List.mem_cons_self))
      obtain ⟨o', hd, hagr⟩ := h1
      simp only [encItems, List.append_nil, decItems_singleton] at hd
      rw [hsplit]
      simp only [decItems, hd]
      refine ih _ _ ow o' _ hrest hnf.2 hwl ?_ (fun f ew len hmem => hcap f ew len (List.mem_cons_of_mem _ hmem)) (by omega)
      cases i <;> simpa [List.filterMap_cons, Item.numDef, Item.bufDef] using hagr

/-! ### the canonical reads never throw the library's exception and never return early -/

def Stmt.plain : Stmt → Bool
  | .sync _ => false
  | .ret => false
  | .seq a b => a.plain && b.plain
  | .ite _ t e => t.plain && e.plain
  | _ => true

theorem exec_plain_halt (cfg : Cfg) : ∀ (s : Stmt) (st : St), s.plain = true →
    (s.exec cfg st).halt = st.halt ∨ (s.exec cfg st).halt = .oob ∨ (s.exec cfg st).halt = .badAlloc := by
  intro s
  induction s with
  | skip => intro st _; exact Or.inl rfl
  | seq a b iha ihb =>
    intro st h
    simp only [Stmt.plain, Bool.and_eq_true] at h
    simp only [Stmt.exec]
    split
    · next hn =>
      rcases ihb (a.exec cfg st) h.2 with h1 | h1
      · rcases iha st h.1 with h2 | h2
        · exact Or.inl (by rw [h1, h2])
        · exact Or.inr (by rw [h1]; exact h2)
      · exact Or.inr h1
    · exact iha st h.1
  | sync f => intro st h; simp [Stmt.plain] at h
  | rd f w => intro st _; simp only [Stmt.exec]; exact Or.inl (sread_obj cfg st w).2
  | rdBuf f n =>
    intro st _
    simp only [Stmt.exec]
    split
    · exact Or.inr (Or.inl rfl)
    · exact Or.inl (sread_obj cfg st _).2
  | resize f ew n => intro st _; simp only [Stmt.exec]; split; exact Or.inr (Or.inr rfl); exact Or.inl rfl
  | seekg n => intro st _; simp only [Stmt.exec]; exact Or.inl (sseek_obj cfg st _).2
  | wr f w => intro st _; exact Or.inl rfl
  | wrBuf f n => intro st _; simp only [Stmt.exec]; split; exact Or.inr (Or.inl rfl); exact Or.inl rfl
  | skipp n => intro st _; exact Or.inl rfl
  | assign f e => intro st _; exact Or.inl rfl
  | ite c t e iht ihe =>
    intro st h
    simp only [Stmt.plain, Bool.and_eq_true] at h
    simp only [Stmt.exec]; split; exact iht st h.1; exact ihe st h.2
  | ret => intro st h; simp [Stmt.plain] at h

theorem block_plain (l : List Stmt) (h : ∀ s ∈ l, s.plain = true) : (Stmt.block l).plain = true := by
  induction l with
  | nil => rfl
  | cons s l ih =>
    simp only [Stmt.block, Stmt.plain, Bool.and_eq_true]
    exact ⟨h s (by simp), ih (fun t ht => h t (by simp [ht]))⟩

theorem canonRd_plain (L : List Item) : (Stmt.block (canonRd L)).plain = true := by
  apply block_plain
  intro s hs
  simp only [canonRd, List.mem_flatMap] at hs
  obtain ⟨i, _, hi⟩ := hs
  cases i <;> simp [Item.rdStmts] at hi <;> (try rcases hi with rfl | rfl) <;> (try subst hi) <;> rfl

end Blf
