import Blf.Codec.Items
/-!
# Canonical programs of an item list, and their link to the generic interpreter

`canonRd L` / `canonWr L` are the statement lists a regular codec's `read` / `write` consist of.
`exec_canonWr` and `exec_canonRd` show that the generic interpreter (`Stmt.exec`) run on them
computes exactly the pure item semantics of `Items.lean`.
-/
namespace Blf

def cntExpr (ew len : Nat) : Expr := if ew = 1 then .fld len else .mul (.fld len) (.const ew)

theorem cntExpr_eval (o : Obj) (ew len : Nat) : (cntExpr ew len).eval o = o.num len * ew := by
  unfold cntExpr; split
  · next h => subst h; simp [Expr.eval]
  · simp [Expr.eval]

def Item.rdStmts : Item → List Stmt
  | .scalar f w => [.rd f w]
  | .fixed f n => [.rdBuf f (.const n)]
  | .var f ew len => [.resize f ew (.fld len), .rdBuf f (cntExpr ew len)]
  | .pad g k => [.seekg (.mod (.fld g) (.const k))]
  | .skipK n => [.seekg (.const n)]

def Item.wrStmts : Item → List Stmt
  | .scalar f w => [.wr f w]
  | .fixed f n => [.wrBuf f (.const n)]
  | .var f ew len => [.wrBuf f (cntExpr ew len)]
  | .pad g k => [.skipp (.mod (.fld g) (.const k))]
  | .skipK n => [.skipp (.const n)]

def canonRd (L : List Item) : List Stmt := L.flatMap Item.rdStmts
def canonWr (L : List Item) : List Stmt := L.flatMap Item.wrStmts

@[simp] theorem exec_block_nil (cfg : Cfg) (st : St) : (Stmt.block []).exec cfg st = st := rfl

theorem exec_block_cons (cfg : Cfg) (s : Stmt) (l : List Stmt) (st : St) :
    (Stmt.block (s :: l)).exec cfg st =
      if (s.exec cfg st).halt = .none then (Stmt.block l).exec cfg (s.exec cfg st) else s.exec cfg st := rfl

theorem exec_block_append (cfg : Cfg) (a b : List Stmt) (st : St) (h0 : st.halt = .none) :
    (Stmt.block (a ++ b)).exec cfg st =
      if ((Stmt.block a).exec cfg st).halt = .none then (Stmt.block b).exec cfg ((Stmt.block a).exec cfg st)
      else (Stmt.block a).exec cfg st := by
  induction a generalizing st with
  | nil => simp [h0]
  | cons s a ih =>
    simp only [List.cons_append, exec_block_cons]
    by_cases h : (s.exec cfg st).halt = .none
    · simp only [h, if_true]; exact ih _ h
    · simp [h]

/-- the writer on a canonical program appends exactly the item encoding -/
theorem exec_canonWr (cfg : Cfg) (L : List Item) (st : St) (h0 : st.halt = .none)
    (hwf : ItemsWF st.obj L) :
    (Stmt.block (canonWr L)).exec cfg st = { st with out := st.out ++ encItems st.obj L } := by
  induction L generalizing st with
  | nil => simp [canonWr, encItems]
  | cons i l ih =>
    obtain ⟨hwi, hwl⟩ := hwf
    simp only [canonWr, List.flatMap_cons] at ih ⊢
    cases i with
    | scalar f w =>
      simp only [Item.wrStmts, List.cons_append, List.nil_append, exec_block_cons, Stmt.exec, h0, if_true]
      rw [ih _ (by simp [h0]) (by simpa using hwl)]; simp [encItems, encItem, h0]
    | fixed f n =>
      simp only [Item.WF] at hwi
      simp only [Item.wrStmts, List.cons_append, List.nil_append, exec_block_cons, Stmt.exec, Expr.eval, hwi,
        Nat.lt_irrefl, if_false, h0, if_true]
      rw [ih _ (by simp [h0]) (by simpa using hwl)]; simp [encItems, encItem, h0]
    | var f ew len =>
      simp only [Item.WF] at hwi
      simp only [Item.wrStmts, List.cons_append, List.nil_append, exec_block_cons, Stmt.exec, cntExpr_eval, hwi,
        Nat.lt_irrefl, if_false, h0, if_true]
      rw [ih _ (by simp [h0]) (by simpa using hwl)]; simp [encItems, encItem, hwi, h0]
    | pad g k =>
      simp only [Item.wrStmts, List.cons_append, List.nil_append, exec_block_cons, Stmt.exec, Expr.eval, h0, if_true]
      rw [ih _ (by simp [h0]) (by simpa using hwl)]; simp [encItems, encItem, h0]
    | skipK n =>
      simp only [Item.wrStmts, List.cons_append, List.nil_append, exec_block_cons, Stmt.exec, Expr.eval, h0, if_true]
      rw [ih _ (by simp [h0]) (by simpa using hwl)]; simp [encItems, encItem, h0]

/-! ## reader side -/

theorem sread_short_mono (cfg : Cfg) (st : St) (n : Nat) (h : st.short = true) :
    (st.sread cfg n).2.short = true := by
  unfold St.sread; split
  · simp [h]
  · split
    · exact h
    · split <;> simp [h]

/-- a complete read on the in-memory stream: the bytes, and the state with only the position advanced
    (flags aside) -/
theorem sread_ok (cfg : Cfg) (hs : cfg.sticky = false) (st : St) (n : Nat) (h : st.pos + n ≤ st.inp.length) :
    (st.sread cfg n).1 = (st.inp.drop st.pos).take n ∧ (st.sread cfg n).2.obj = st.obj ∧
    (st.sread cfg n).2.inp = st.inp ∧ (st.sread cfg n).2.pos = st.pos + n ∧ (st.sread cfg n).2.halt = st.halt ∧
    (st.sread cfg n).2.short = st.short ∧ (st.sread cfg n).2.out = st.out := by
  unfold St.sread
  simp only [hs, Bool.false_and, Bool.false_eq_true, if_false, Bool.not_false, and_true]
  split
  · rename_i h0; subst h0; simp
  · simp [h]

theorem sread_fail (cfg : Cfg) (hs : cfg.sticky = false) (st : St) (n : Nat) (hpos : st.pos ≤ st.inp.length)
    (h : ¬ st.pos + n ≤ st.inp.length) :
    (st.sread cfg n).2.short = true ∧ (st.sread cfg n).2.halt = st.halt ∧ (st.sread cfg n).2.obj = st.obj := by
  unfold St.sread
  simp only [hs, Bool.false_and, Bool.false_eq_true, if_false, Bool.not_false, and_true]
  split
  · rename_i h0; subst h0; omega
  · simp [h]

theorem syncLoop_short_mono (cfg : Cfg) (sigF fuel tmp : Nat) (st : St) (h : st.short = true) :
    (syncLoop cfg sigF fuel tmp st).short = true := by
  induction fuel generalizing tmp st with
  | zero => simp [syncLoop, h]
  | succ fuel ih =>
    simp only [syncLoop]
    have h1 := sread_short_mono cfg st 4 h
    split
    · exact h1
    · split
      · exact h1
      · apply ih
        split
        · simpa [St.sback] using h1
        · split
          · simpa [St.sback] using h1
          · split
            · simpa [St.sback] using h1
            · exact h1

theorem exec_short_mono (cfg : Cfg) (s : Stmt) (st : St) (h : st.short = true) :
    (s.exec cfg st).short = true := by
  induction s generalizing st with
  | skip => exact h
  | seq a b iha ihb =>
    simp only [Stmt.exec]
    split
    · exact ihb _ (iha _ h)
    · exact iha _ h
  | sync f => exact syncLoop_short_mono cfg f _ _ st h
  | rd f w => simp only [Stmt.exec]; exact sread_short_mono cfg st w h
  | rdBuf f n =>
    simp only [Stmt.exec]; split
    · exact h
    · exact sread_short_mono cfg st _ h
  | resize f ew n => simp only [Stmt.exec]; split <;> exact h
  | seekg n => simp only [Stmt.exec, St.sseek]; split <;> exact h
  | wr f w => exact h
  | wrBuf f n => simp only [Stmt.exec]; split <;> exact h
  | skipp n => exact h
  | assign f e => exact h
  | ite c t e iht ihe => simp only [Stmt.exec]; split; exact iht _ h; exact ihe _ h
  | ret => exact h

theorem block_short_mono (cfg : Cfg) (l : List Stmt) (st : St) (h : st.short = true) :
    ((Stmt.block l).exec cfg st).short = true := exec_short_mono cfg _ st h

theorem drop_min_add (l : Bytes) (p off : Nat) :
    l.drop (min (p + off) l.length) = (l.drop p).drop off := by
  rw [List.drop_drop]
  by_cases h : p + off ≤ l.length
  · rw [Nat.min_eq_left h]
  · have h' : l.length ≤ p + off := by omega
    rw [Nat.min_eq_right h', List.drop_length, List.drop_eq_nil_of_le h']

theorem merge_full (got old : Bytes) (h : old.length ≤ got.length) : got ++ old.drop got.length = got := by
  rw [List.drop_eq_nil_of_le h, List.append_nil]

theorem scalarMerge_full (w old : Nat) (got : Bytes) (h : got.length = w) : scalarMerge w old got = leVal got := by
  unfold scalarMerge
  rw [List.take_of_length_le (by omega), merge_full _ _ (by simp [h])]

theorem take_drop_length (l : Bytes) (p n : Nat) (h : p + n ≤ l.length) : ((l.drop p).take n).length = n := by
  simp; omega

/-- `is.read(f.data(), n)` into a buffer of exactly `n` bytes -/
theorem exec_rdBuf (cfg : Cfg) (hs : cfg.sticky = false) (f : Nat) (e : Expr) (nb : Nat) (st : St)
    (he : e.eval st.obj = nb) (hbl : (st.obj.buf f).length = nb) (h0 : st.halt = .none)
    (hpos : st.pos ≤ st.inp.length) :
    if st.pos + nb ≤ st.inp.length then
      ((Stmt.rdBuf f e).exec cfg st).obj = st.obj.setBuf f ((st.inp.drop st.pos).take nb) ∧
      ((Stmt.rdBuf f e).exec cfg st).inp = st.inp ∧ ((Stmt.rdBuf f e).exec cfg st).pos = st.pos + nb ∧
      ((Stmt.rdBuf f e).exec cfg st).halt = .none ∧ ((Stmt.rdBuf f e).exec cfg st).short = st.short ∧
      ((Stmt.rdBuf f e).exec cfg st).out = st.out
    else ((Stmt.rdBuf f e).exec cfg st).short = true := by
  simp only [Stmt.exec, he, hbl, Nat.lt_irrefl, if_false]
  split
  · rename_i hw
    obtain ⟨h1, h2, h3, h4, h5, h6, h7⟩ := sread_ok cfg hs st nb hw
    refine ⟨?_, h3, h4, by rw [h5, h0], h6, h7⟩
    simp only [h1, h2]
    rw [merge_full _ _ (by rw [take_drop_length _ _ _ hw, hbl]; exact Nat.le_refl _)]
  · rename_i hw
    exact (sread_fail cfg hs st nb hpos hw).1

/-- what the reader's outcome for a successfully decoded prefix looks like -/
structure RdOk (st st1 : St) (o1 : Obj) (s1 : Bytes) : Prop where
  obj : st1.obj = o1
  inp : st1.inp = st.inp
  pos : st1.pos ≤ st.inp.length
  rest : st.inp.drop st1.pos = s1
  halt : st1.halt = .none
  short : st1.short = st.short
  out : st1.out = st.out

theorem exec_item_rd (cfg : Cfg) (hs : cfg.sticky = false) (i : Item) (st : St)
    (h0 : st.halt = .none) (hpos : st.pos ≤ st.inp.length)
    (harr : ∀ f n, i = .fixed f n → (st.obj.buf f).length = n) :
    match decItem cfg.cap st.obj (st.inp.drop st.pos) i with
    | some (o1, s1) => RdOk st ((Stmt.block i.rdStmts).exec cfg st) o1 s1
    | none => ((Stmt.block i.rdStmts).exec cfg st).short = true ∨
              ((Stmt.block i.rdStmts).exec cfg st).halt ≠ .none := by
  cases i with
  | scalar f w =>
    simp only [decItem, Item.rdStmts, exec_block_cons, exec_block_nil, Stmt.exec, List.length_drop]
    by_cases hw : st.pos + w ≤ st.inp.length
    · have hw' : w ≤ st.inp.length - st.pos := by omega
      obtain ⟨h1, h2, h3, h4, h5, h6, h7⟩ := sread_ok cfg hs st w hw
      simp only [hw', if_true, h5, h0]
      refine ⟨?_, h3, by rw [h4]; exact hw, ?_, by simp [h5, h0], h6, h7⟩
      · simp only [h1, h2, scalarMerge_full w _ _ (take_drop_length _ _ _ hw)]
      · simp [h4, List.drop_drop]
    · have hw' : ¬ w ≤ st.inp.length - st.pos := by omega
      obtain ⟨h1, h2, _⟩ := sread_fail cfg hs st w hpos hw
      simp only [hw', if_false, h2, h0, if_true]
      exact Or.inl h1
  | fixed f n =>
    have hl := harr f n rfl
    simp only [decItem, Item.rdStmts, exec_block_cons, exec_block_nil, Stmt.exec, List.length_drop, Expr.eval, hl,
      Nat.lt_irrefl, if_false]
    by_cases hw : st.pos + n ≤ st.inp.length
    · have hw' : n ≤ st.inp.length - st.pos := by omega
      obtain ⟨h1, h2, h3, h4, h5, h6, h7⟩ := sread_ok cfg hs st n hw
      simp only [hw', if_true, h5, h0]
      refine ⟨?_, h3, by rw [h4]; exact hw, ?_, by simp [h5, h0], h6, h7⟩
      · simp only [h1, h2, merge_full _ (st.obj.buf f) (by rw [take_drop_length _ _ _ hw]; omega)]
      · simp [h4, List.drop_drop]
    · have hw' : ¬ n ≤ st.inp.length - st.pos := by omega
      obtain ⟨h1, h2, _⟩ := sread_fail cfg hs st n hpos hw
      simp only [hw', if_false, h2, h0, if_true]
      exact Or.inl h1
  | var f ew len =>
    obtain ⟨sobj, sinp, spos, sgood, seof, sshort, sout, shalt⟩ := st
    simp only at h0 hpos
    subst h0
    simp only [decItem, Item.rdStmts, exec_block_cons, exec_block_nil, List.length_drop]
    by_cases hc : sobj.num len * ew ≤ cfg.cap
    · have hc' : ¬ cfg.cap < sobj.num len * ew := by omega
      have hres : (Stmt.resize f ew (.fld len)).exec cfg ⟨sobj, sinp, spos, sgood, seof, sshort, sout, .none⟩ =
          { (⟨sobj, sinp, spos, sgood, seof, sshort, sout, .none⟩ : St) with obj := sobj.setBuf f (List.take (sobj.num len * ew) (sobj.buf f) ++
              zeros (sobj.num len * ew - (sobj.buf f).length)) } := by
        simp [Stmt.exec, Expr.eval, hc']
      rw [hres]
      have hbl : ((sobj.setBuf f (List.take (sobj.num len * ew) (sobj.buf f) ++
          zeros (sobj.num len * ew - (sobj.buf f).length))).buf f).length = sobj.num len * ew := by
        simp; omega
      have hr := exec_rdBuf cfg hs f (cntExpr ew len) (sobj.num len * ew)
        { (⟨sobj, sinp, spos, sgood, seof, sshort, sout, .none⟩ : St) with obj := sobj.setBuf f (List.take (sobj.num len * ew) (sobj.buf f) ++
            zeros (sobj.num len * ew - (sobj.buf f).length)) }
        (by simp [cntExpr_eval]) hbl rfl hpos
      simp only [if_true, hc, true_and]
      by_cases hw : spos + sobj.num len * ew ≤ sinp.length
      · have hw' : sobj.num len * ew ≤ sinp.length - spos := by omega
        simp only [hw, if_true] at hr
        simp only [hw', if_true, hr.2.2.2.1]
        refine ⟨?_, hr.2.1, by rw [hr.2.2.1]; exact hw, ?_, hr.2.2.2.1, hr.2.2.2.2.1, hr.2.2.2.2.2⟩
        · rw [hr.1]
          simp only [Obj.setBuf]
          congr 1
          funext g; split <;> rfl
        · rw [hr.2.2.1]; simp [List.drop_drop]
      · have hw' : ¬ sobj.num len * ew ≤ sinp.length - spos := by omega
        simp only [hw, if_false] at hr
        simp only [hw', if_false]
        by_cases hh : ((Stmt.rdBuf f (cntExpr ew len)).exec cfg { (⟨sobj, sinp, spos, sgood, seof, sshort, sout, .none⟩ : St) with obj := sobj.setBuf f (List.take (sobj.num len * ew) (sobj.buf f) ++
            zeros (sobj.num len * ew - (sobj.buf f).length)) }).halt = .none
        · simp only [hh, if_true]; exact Or.inl hr
        · simp only [hh, if_false]; exact Or.inr hh
    · have hc' : cfg.cap < sobj.num len * ew := by omega
      simp [Stmt.exec, Expr.eval, hc, hc']
  | pad g k =>
    simp only [decItem, Item.rdStmts, exec_block_cons, exec_block_nil, Stmt.exec, Expr.eval, St.sseek, hs,
      Bool.false_and, Bool.false_eq_true, if_false, h0, if_true]
    exact ⟨rfl, rfl, Nat.min_le_right _ _, drop_min_add _ _ _, by simp [h0], rfl, rfl⟩
  | skipK n =>
    simp only [decItem, Item.rdStmts, exec_block_cons, exec_block_nil, Stmt.exec, Expr.eval, St.sseek, hs,
      Bool.false_and, Bool.false_eq_true, if_false, h0, if_true]
    exact ⟨rfl, rfl, Nat.min_le_right _ _, drop_min_add _ _ _, by simp [h0], rfl, rfl⟩

def ArrOK (o : Obj) (L : List Item) : Prop := ∀ f n, Item.fixed f n ∈ L → (o.buf f).length = n

theorem decItem_buf_frame (cap : Nat) (o o1 : Obj) (s s1 : Bytes) (i : Item)
    (h : decItem cap o s i = some (o1, s1)) (g : Nat) (hg : i.bufDef ≠ some g) : o1.buf g = o.buf g := by
  cases i <;> simp only [decItem] at h
  · split at h
    · simp only [Option.some.injEq, Prod.mk.injEq] at h; rw [← h.1]; rfl
    · simp at h
  · rename_i f n
    split at h
    · simp only [Option.some.injEq, Prod.mk.injEq] at h; rw [← h.1]
      have : g ≠ f := by intro e; subst e; simp [Item.bufDef] at hg
      simp [this]
    · simp at h
  · rename_i f ew len
    split at h
    · simp only [Option.some.injEq, Prod.mk.injEq] at h; rw [← h.1]
      have : g ≠ f := by intro e; subst e; simp [Item.bufDef] at hg
      simp [this]
    · simp at h
  · simp only [Option.some.injEq, Prod.mk.injEq] at h; rw [← h.1]
  · simp only [Option.some.injEq, Prod.mk.injEq] at h; rw [← h.1]

theorem itemsOK_bufDef_notin (kn bf : List Nat) (L : List Item) (h : itemsOK kn bf L = true)
    (i : Item) (hi : i ∈ L) (g : Nat) (hg : i.bufDef = some g) : g ∉ bf := by
  induction L generalizing kn bf with
  | nil => simp at hi
  | cons j l ih =>
    simp only [itemsOK, Bool.and_eq_true] at h
    obtain ⟨⟨⟨⟨_, _⟩, hbd⟩, _⟩, hrest⟩ := h
    rcases List.mem_cons.mp hi with rfl | hil
    · simp only [hg] at hbd; simpa using hbd
    · have := ih _ _ hrest hil
      intro hgb
      apply this
      cases hj : j.bufDef <;> simp [hgb]

theorem RdOk.trans {st st1 st2 : St} {o1 o2 : Obj} {s1 s2 : Bytes}
    (a : RdOk st st1 o1 s1) (b : RdOk st1 st2 o2 s2) : RdOk st st2 o2 s2 :=
  ⟨b.obj, b.inp.trans a.inp, by have := b.pos; rw [a.inp] at this; exact this,
   by have := b.rest; rw [a.inp] at this; exact this, b.halt, b.short.trans a.short, b.out.trans a.out⟩

/-- the reader on a canonical program computes exactly the pure item decoder -/
theorem exec_canonRd (cfg : Cfg) (hs : cfg.sticky = false) (L : List Item) (kn bf : List Nat) (st : St)
    (hok : itemsOK kn bf L = true) (h0 : st.halt = .none) (hpos : st.pos ≤ st.inp.length)
    (harr : ArrOK st.obj L) :
    match decItems cfg.cap L st.obj (st.inp.drop st.pos) with
    | some (o', rest) => RdOk st ((Stmt.block (canonRd L)).exec cfg st) o' rest
    | none => ((Stmt.block (canonRd L)).exec cfg st).short = true ∨
              ((Stmt.block (canonRd L)).exec cfg st).halt ≠ .none := by
  induction L generalizing kn bf st with
  | nil => simp only [decItems, canonRd, List.flatMap_nil, exec_block_nil]; exact ⟨rfl, rfl, hpos, rfl, h0, rfl, rfl⟩
  | cons i l ih =>
    have hok0 := hok
    simp only [itemsOK, Bool.and_eq_true] at hok
    obtain ⟨_, hrest⟩ := hok
    have hitem := exec_item_rd cfg hs i st h0 hpos (fun f n e => harr f n (by rw [e]; exact List.mem_cons_self))
    simp only [canonRd, List.flatMap_cons, exec_block_append cfg _ _ st h0, decItems]
    cases hdi : decItem cfg.cap st.obj (st.inp.drop st.pos) i with
    | none =>
      simp only [hdi] at hitem ⊢
      by_cases hh : ((Stmt.block i.rdStmts).exec cfg st).halt = .none
      · simp only [hh, if_true]
        rcases hitem with hsh | hne
        · exact Or.inl (block_short_mono cfg _ _ hsh)
        · exact absurd hh hne
      · simp only [hh, if_false]; exact Or.inr hh
    | some p =>
      obtain ⟨o1, s1⟩ := p
      simp only [hdi] at hitem ⊢
      simp only [hitem.halt, if_true]
      have harr1 : ArrOK ((Stmt.block i.rdStmts).exec cfg st).obj l := by
        intro g n hgl
        rw [hitem.obj]
        have hne : i.bufDef ≠ some g := by
          intro hbd
          have hnot := itemsOK_bufDef_notin _ _ l hrest (.fixed g n) hgl g rfl
          simp [hbd] at hnot
        rw [decItem_buf_frame cfg.cap _ _ _ _ i hdi g hne]
        exact harr g n (List.mem_cons_of_mem _ hgl)
      have hpos1 : ((Stmt.block i.rdStmts).exec cfg st).pos ≤ ((Stmt.block i.rdStmts).exec cfg st).inp.length := by
        rw [hitem.inp]; exact hitem.pos
      have := ih _ _ ((Stmt.block i.rdStmts).exec cfg st) hrest hitem.halt hpos1 harr1
      rw [hitem.obj, hitem.inp, hitem.rest] at this
      simp only [canonRd] at this
      cases hdl : decItems cfg.cap l o1 s1 with
      | none =>
        simp only [hdl] at this ⊢
        exact this
      | some q =>
        obtain ⟨o2, s2⟩ := q
        simp only [hdl] at this ⊢
        exact hitem.trans this

end Blf
