import Blf.Codec.Canon
/-!
# Linear normal form of size expressions

`calculateObjectSize()` of a regular class is a sum of `sizeof` constants and container sizes,
possibly scaled by an element width, with casts to `uint32_t`/`size_t` in between.  `linearize`
normalises such an expression to `const + Σ kᵢ·termᵢ`; `linearize_sound` shows that the
expression's value agrees with the normal form modulo 2^32 (so intermediate 32/64-bit
truncations do not matter), for every object.
-/
namespace Blf

inductive LTerm where
  | fld (g : Nat)
  | bsz (f ew : Nat)
  deriving DecidableEq, Repr, Inhabited

def LTerm.eval (o : Obj) : LTerm → Nat
  | .fld g => o.num g
  | .bsz f ew => (o.buf f).length / ew

structure Lin where
  c : Nat
  ts : List (Nat × LTerm)
  deriving DecidableEq, Repr, Inhabited

def termsEval (o : Obj) : List (Nat × LTerm) → Nat
  | [] => 0
  | (k, t) :: l => k * t.eval o + termsEval o l

def Lin.eval (o : Obj) (l : Lin) : Nat := l.c + termsEval o l.ts

def Lin.add (a b : Lin) : Lin := ⟨a.c + b.c, a.ts ++ b.ts⟩
def scaleTerms (k : Nat) : List (Nat × LTerm) → List (Nat × LTerm)
  | [] => []
  | (j, t) :: l => (k * j, t) :: scaleTerms k l
def Lin.scale (k : Nat) (a : Lin) : Lin := ⟨k * a.c, scaleTerms k a.ts⟩

theorem termsEval_append (o : Obj) (a b : List (Nat × LTerm)) :
    termsEval o (a ++ b) = termsEval o a + termsEval o b := by
  induction a with
  | nil => simp [termsEval]
  | cons x a ih => obtain ⟨k, t⟩ := x; simp [termsEval, ih, Nat.add_assoc]

theorem termsEval_scale (o : Obj) (k : Nat) (a : List (Nat × LTerm)) :
    termsEval o (scaleTerms k a) = k * termsEval o a := by
  induction a with
  | nil => simp [termsEval, scaleTerms]
  | cons x a ih => obtain ⟨j, t⟩ := x; simp [termsEval, scaleTerms, ih, Nat.mul_add, Nat.mul_assoc]

theorem Lin.eval_add (o : Obj) (a b : Lin) : (a.add b).eval o = a.eval o + b.eval o := by
  simp [Lin.eval, Lin.add, termsEval_append]; omega

theorem Lin.eval_scale (o : Obj) (k : Nat) (a : Lin) : (a.scale k).eval o = k * a.eval o := by
  simp [Lin.eval, Lin.scale, termsEval_scale, Nat.mul_add]

def linearize : Expr → Option Lin
  | .const n => some ⟨n, []⟩
  | .fld g => some ⟨0, [(1, .fld g)]⟩
  | .bsize f ew => some ⟨0, [(1, .bsz f ew)]⟩
  | .add a b =>
    match linearize a, linearize b with
    | some x, some y => some (x.add y)
    | _, _ => none
  | .mul a (.const k) =>
    match linearize a with
    | some x => some (x.scale k)
    | none => none
  | .cast w a => if 4 ≤ w then linearize a else none
  | _ => none

def M32 : Nat := 4294967296

theorem pow256_dvd (w : Nat) (h : 4 ≤ w) : M32 ∣ 256 ^ w := by
  have : 256 ^ w = 256 ^ 4 * 256 ^ (w - 4) := by
    rw [← Nat.pow_add]; congr 1; omega
  rw [this]; exact ⟨256 ^ (w - 4), by simp [M32]⟩

theorem linearize_sound (o : Obj) (e : Expr) (l : Lin) (h : linearize e = some l) :
    e.eval o % M32 = l.eval o % M32 := by
  induction e generalizing l with
  | const n => simp only [linearize, Option.some.injEq] at h; subst h; simp [Expr.eval, Lin.eval, termsEval]
  | fld g => simp only [linearize, Option.some.injEq] at h; subst h; simp [Expr.eval, Lin.eval, termsEval, LTerm.eval]
  | bsize f ew => simp only [linearize, Option.some.injEq] at h; subst h; simp [Expr.eval, Lin.eval, termsEval, LTerm.eval]
  | add a b iha ihb =>
    simp only [linearize] at h
    cases ha : linearize a <;> cases hb : linearize b <;> simp [ha, hb] at h
    subst h
    rw [Expr.eval, Lin.eval_add, Nat.add_mod, iha _ ha, ihb _ hb, ← Nat.add_mod]
  | mul a b iha _ =>
    cases b <;> simp only [linearize] at h <;> try (simp at h)
    rename_i k
    cases ha : linearize a <;> simp [ha] at h
    subst h
    rw [Expr.eval, Lin.eval_scale, Expr.eval, Nat.mul_comm, Nat.mul_mod, iha _ ha, ← Nat.mul_mod]
  | cast w a iha =>
    simp only [linearize] at h
    split at h
    · rename_i hw
      rw [Expr.eval, Nat.mod_mod_of_dvd _ (pow256_dvd w hw)]
      exact iha _ h
    · simp at h
  | _ => simp [linearize] at h

/-- the linear form a filler-free item list prescribes: constant part -/
def itemsConst : List Item → Nat
  | [] => 0
  | .scalar _ w :: l => w + itemsConst l
  | .fixed _ n :: l => n + itemsConst l
  | .skipK n :: l => n + itemsConst l
  | _ :: l => itemsConst l

/-- do the variable terms of a linear form match the `var` items, in order?
    A `var f ew len` item may be counted as `ew * len` or as `ew * (f.size())`. -/
def termsMatch : List (Nat × LTerm) → List Item → Bool
  | ts, [] => ts.isEmpty
  | ts, .scalar _ _ :: l => termsMatch ts l
  | ts, .fixed _ _ :: l => termsMatch ts l
  | ts, .skipK _ :: l => termsMatch ts l
  | _, .pad _ _ :: _ => false
  | [], .var _ _ _ :: _ => false
  | (k, t) :: ts, .var f ew len :: l =>
    (k == ew) && (t == .fld len || t == .bsz f ew) && termsMatch ts l

theorem termsMatch_sound (o : Obj) (ts : List (Nat × LTerm)) (L : List Item)
    (hm : termsMatch ts L = true) (hwf : ItemsWF o L) (hew : ∀ f ew len, Item.var f ew len ∈ L → 0 < ew) :
    itemsConst L + termsEval o ts = itemsSize o L := by
  induction L generalizing ts with
  | nil =>
    cases ts with
    | nil => simp [itemsConst, termsEval, itemsSize]
    | cons _ _ => simp [termsMatch] at hm
  | cons i l ih =>
    have hew' : ∀ f ew len, Item.var f ew len ∈ l → 0 < ew := fun f ew len h => hew f ew len (List.mem_cons_of_mem _ h)
    cases i with
    | scalar f w => simp only [termsMatch] at hm; simp only [itemsConst, itemsSize, Item.size]; have := ih ts hm hwf.2 hew'; omega
    | fixed f n => simp only [termsMatch] at hm; simp only [itemsConst, itemsSize, Item.size]; have := ih ts hm hwf.2 hew'; omega
    | skipK n => simp only [termsMatch] at hm; simp only [itemsConst, itemsSize, Item.size]; have := ih ts hm hwf.2 hew'; omega
    | pad g k => simp [termsMatch] at hm
    | var f ew len =>
      cases ts with
      | nil => simp [termsMatch] at hm
      | cons x ts =>
        obtain ⟨k, t⟩ := x
        simp only [termsMatch, Bool.and_eq_true, beq_iff_eq, Bool.or_eq_true] at hm
        obtain ⟨⟨hk, ht⟩, hrest⟩ := hm
        have hwi : (o.buf f).length = o.num len * ew := hwf.1
        have hpos := hew f ew len List.mem_cons_self
        have hte : t.eval o = o.num len := by
          rcases ht with h | h <;> subst h
          · rfl
          · simp only [LTerm.eval, hwi]; exact Nat.mul_div_cancel _ hpos
        simp only [itemsConst, itemsSize, Item.size, termsEval, hte, hk]
        have := ih ts hrest hwf.2 hew'
        rw [Nat.mul_comm ew]; omega

end Blf
