import Blf.Codec.Lang
/-!
# Memory safety of the generated decoders: a verified checker

`rdBuf f n` models `is.read(f.data(), n)`; it is undefined behaviour in C++ when the container `f` holds fewer than
`n` bytes (`halt := oob`).  `readSafe c` is a syntactic check of a decoder: every `rdBuf f n` either

* reads exactly what the container holds, whatever that is — `n = f.size()` or `n = f.size() * sizeof(element)`;
* follows *immediately* on `f.resize(e)` and reads `e` elements (`n = e` for bytes, `n = e * sizeof(element)`), where
  `e` does not mention any container size; or
* reads a constant number of bytes into a `std::array` that is at least as large and is never resized.

`readSafe_sound`: if the check passes, then for **every** input, allocation cap and stream kind, decoding into an
object whose arrays have their declared sizes (e.g. the default-constructed one) never reaches `oob`.  The check is
run on the decoders generated from the current source (`Blf/Gen/Checks.lean`, `decide +kernel`).
-/
namespace Blf

/-- no subterm reads a container size -/
def Expr.noBsize : Expr → Bool
  | .const _ => true
  | .fld _ => true
  | .bsize _ _ => false
  | .add a b | .mul a b | .div a b | .mod a b | .band a b | .bor a b
  | .lt a b | .le a b | .eq a b | .ne a b | .and a b | .or a b => a.noBsize && b.noBsize
  | .sub _ a b => a.noBsize && b.noBsize
  | .bnot _ a | .cast _ a | .not a => a.noBsize
  | .ite c a b => c.noBsize && a.noBsize && b.noBsize

theorem Expr.eval_setBuf (e : Expr) (h : e.noBsize = true) (o : Obj) (f : Nat) (b : Bytes) :
    e.eval (o.setBuf f b) = e.eval o := by
  induction e with
  | const n => rfl
  | fld g => rfl
  | bsize g ew => simp [Expr.noBsize] at h
  | add a b iha ihb | mul a b iha ihb | div a b iha ihb | mod a b iha ihb | band a b iha ihb | bor a b iha ihb
  | lt a b iha ihb | le a b iha ihb | eq a b iha ihb | ne a b iha ihb | and a b iha ihb | or a b iha ihb =>
    simp only [Expr.noBsize, Bool.and_eq_true] at h
    simp only [Expr.eval, iha h.1, ihb h.2]
  | sub w a b iha ihb =>
    simp only [Expr.noBsize, Bool.and_eq_true] at h
    simp only [Expr.eval, iha h.1, ihb h.2]
  | bnot w a iha | cast w a iha | not a iha =>
    simp only [Expr.noBsize] at h
    simp only [Expr.eval, iha h]
  | ite c a b ihc iha ihb =>
    simp only [Expr.noBsize, Bool.and_eq_true] at h
    simp only [Expr.eval, ihc h.1.1, iha h.1.2, ihb h.2]

/-- what the checker knows about the statement just executed: `f.resize(e)` with element width `ew` -/
abbrev Known := Option (FieldId × Nat × Expr)

/-- `n` reads what `f` holds, whatever it is -/
def selfSafe (f : FieldId) (n : Expr) : Bool :=
  match n with
  | .bsize g ew => decide (g = f) && decide (ew = 1)
  | .mul (.bsize g ew) (.const k) => decide (g = f) && decide (k = ew)
  | _ => false

/-- `n` reads what the preceding `resize` made room for -/
def knownSafe (k : Known) (f : FieldId) (n : Expr) : Bool :=
  match k with
  | some (g, ew, e) =>
    decide (g = f) && ((decide (ew = 1) && decide (n = e)) || decide (n = .mul e (.const ew)))
  | none => false

/-- `n` is a constant that fits into the array `f` -/
def arrSafe (arrs : FieldId → Option Nat) (f : FieldId) (n : Expr) : Bool :=
  match arrs f, n with
  | some k, .const m => decide (m ≤ k)
  | _, _ => false

/-- the checker: returns whether the statement is safe, and what is known after it -/
def safeAux (arrs : FieldId → Option Nat) : Known → Stmt → Bool × Known
  | _, .skip => (true, none)
  | k, .seq a b =>
    let r1 := safeAux arrs k a
    let r2 := safeAux arrs r1.2 b
    (r1.1 && r2.1, r2.2)
  | _, .sync _ => (true, none)
  | _, .rd _ _ => (true, none)
  | k, .rdBuf f n => (selfSafe f n || knownSafe k f n || arrSafe arrs f n, none)
  | _, .resize f ew n => ((arrs f).isNone, if n.noBsize then some (f, ew, n) else none)
  | _, .seekg _ => (true, none)
  | _, .wr _ _ => (true, none)
  | _, .wrBuf _ _ => (true, none)      -- (the write side is not the subject here; a decoder has none)
  | _, .skipp _ => (true, none)
  | _, .assign _ _ => (true, none)
  | _, .ite _ t e => ((safeAux arrs none t).1 && (safeAux arrs none e).1, none)
  | _, .ret => (true, none)

/-- decoders contain no `wrBuf` (which could also set `oob`) -/
def Stmt.noWrBuf : Stmt → Bool
  | .wrBuf _ _ => false
  | .seq a b => a.noWrBuf && b.noWrBuf
  | .ite _ t e => t.noWrBuf && e.noWrBuf
  | _ => true

def arrsOf (c : Codec) : FieldId → Option Nat := fun f =>
  match c.fields[f]? with
  | some fi => match fi.kind with
    | .arr n _ => some n
    | _ => none
  | none => none

def readSafe (c : Codec) : Bool := (safeAux (arrsOf c) none c.readProg).1 && c.readProg.noWrBuf

/-- arrays have their declared sizes -/
def ArrSized (arrs : FieldId → Option Nat) (o : Obj) : Prop := ∀ f k, arrs f = some k → (o.buf f).length = k

def KnownOK (k : Known) (o : Obj) : Prop :=
  ∀ f ew e, k = some (f, ew, e) → (o.buf f).length = e.eval o * ew ∧ e.noBsize = true

theorem knownOK_none (o : Obj) : KnownOK none o := by intro f ew e h; cases h

/-! ### the stream primitives do not touch the object or the halt flag -/

theorem sread_obj (cfg : Cfg) (st : St) (n : Nat) : (st.sread cfg n).2.obj = st.obj ∧ (st.sread cfg n).2.halt = st.halt := by
  unfold St.sread
  split
  · exact ⟨rfl, rfl⟩
  · split
    · exact ⟨rfl, rfl⟩
    · split <;> exact ⟨rfl, rfl⟩

theorem sread_len (cfg : Cfg) (st : St) (n : Nat) : (st.sread cfg n).1.length ≤ n := by
  unfold St.sread
  split
  · simp
  · split
    · simp
    · split
      · simp; omega
      · simp; omega

theorem sseek_obj (cfg : Cfg) (st : St) (n : Nat) : (st.sseek cfg n).obj = st.obj ∧ (st.sseek cfg n).halt = st.halt := by
  unfold St.sseek; split <;> exact ⟨rfl, rfl⟩

theorem syncLoop_safe (cfg : Cfg) (sigF : Nat) : ∀ (fuel tmp : Nat) (st : St),
    (syncLoop cfg sigF fuel tmp st).obj.buf = st.obj.buf ∧
    ((syncLoop cfg sigF fuel tmp st).halt = st.halt ∨ (syncLoop cfg sigF fuel tmp st).halt = .exc) := by
  intro fuel
  induction fuel with
  | zero => intro tmp st; exact ⟨rfl, Or.inr rfl⟩
  | succ n ih =>
    intro tmp st
    unfold syncLoop
    have hs := sread_obj cfg st 4
    generalize st.sread cfg 4 = r at hs
    obtain ⟨got, st1⟩ := r
    simp only at hs ⊢
    split
    · exact ⟨by simp [Obj.setNum, hs.1], Or.inl hs.2⟩
    · split
      · exact ⟨by rw [hs.1], Or.inr rfl⟩
      · have key : ∀ st2 : St, st2.obj = st1.obj → st2.halt = st1.halt →
            (syncLoop cfg sigF n (scalarMerge 4 tmp got) st2).obj.buf = st.obj.buf ∧
            ((syncLoop cfg sigF n (scalarMerge 4 tmp got) st2).halt = st.halt ∨
             (syncLoop cfg sigF n (scalarMerge 4 tmp got) st2).halt = .exc) := by
          intro st2 ho hh
          obtain ⟨a, b⟩ := ih (scalarMerge 4 tmp got) st2
          exact ⟨by rw [a, ho, hs.1], by rw [hh, hs.2] at b; exact b⟩
        split
        · exact key _ rfl rfl
        · split
          · exact key _ rfl rfl
          · split
            · exact key _ rfl rfl
            · exact key _ rfl rfl

/-- **soundness of the checker**, statement level -/
theorem safeAux_sound (cfg : Cfg) (arrs : FieldId → Option Nat) : ∀ (s : Stmt) (k : Known) (st : St),
    (safeAux arrs k s).1 = true → s.noWrBuf = true → st.halt = .none → ArrSized arrs st.obj → KnownOK k st.obj →
    (s.exec cfg st).halt ≠ .oob ∧
    ((s.exec cfg st).halt = .none → ArrSized arrs (s.exec cfg st).obj ∧ KnownOK (safeAux arrs k s).2 (s.exec cfg st).obj) := by
  intro s
  induction s with
  | skip => intro k st _ _ h0 ha _; exact ⟨by simp [Stmt.exec, h0], fun _ => ⟨ha, knownOK_none _⟩⟩
  | seq a b iha ihb =>
    intro k st hs hw h0 ha hk
    simp only [safeAux, Bool.and_eq_true] at hs
    simp only [Stmt.noWrBuf, Bool.and_eq_true] at hw
    obtain ⟨h1, h2⟩ := iha k st hs.1 hw.1 h0 ha hk
    simp only [Stmt.exec]
    split
    · next hn =>
      obtain ⟨ha1, hk1⟩ := h2 hn
      exact ihb _ _ hs.2 hw.2 hn ha1 hk1
    · next hn => exact ⟨h1, fun h => absurd h hn⟩
  | sync sigF =>
    intro k st _ _ h0 ha _
    obtain ⟨hb, hh⟩ := syncLoop_safe cfg sigF (st.inp.length - st.pos + 2) 0 st
    simp only [Stmt.exec]
    refine ⟨?_, fun _ => ⟨?_, knownOK_none _⟩⟩
    · rcases hh with hh | hh <;> rw [hh] <;> simp [h0]
    · intro f n hf; rw [hb]; exact ha f n hf
  | rd f w =>
    intro k st _ _ h0 ha _
    have hs := sread_obj cfg st w
    simp only [Stmt.exec]
    generalize st.sread cfg w = r at hs
    obtain ⟨got, st1⟩ := r
    simp only at hs ⊢
    refine ⟨by rw [hs.2, h0]; simp, fun _ => ⟨?_, knownOK_none _⟩⟩
    intro g n hg; simp only [Obj.setNum_buf, hs.1]; exact ha g n hg
  | rdBuf f n =>
    intro k st hs _ h0 ha hk
    simp only [safeAux, Bool.or_eq_true] at hs
    -- the container holds at least the requested number of bytes
    have hfit : n.eval st.obj ≤ (st.obj.buf f).length := by
      rcases hs with (hs | hs) | hs
      · -- self-safe
        unfold selfSafe at hs
        split at hs
        · next g ew => simp at hs; obtain ⟨rfl, rfl⟩ := hs; simp [Expr.eval]
        · next g ew m => simp at hs; obtain ⟨rfl, rfl⟩ := hs; simp only [Expr.eval]; exact Nat.div_mul_le_self _ _
        · cases hs
      · -- follows the resize
        unfold knownSafe at hs
        split at hs
        · next g ew e =>
          simp at hs
          obtain ⟨rfl, hs⟩ := hs
          obtain ⟨hl, _⟩ := hk g ew e rfl
          rcases hs with ⟨rfl, rfl⟩ | rfl
          · rw [hl]; simp
          · rw [hl]; simp [Expr.eval]
        · cases hs
      · -- constant into an array
        unfold arrSafe at hs
        split at hs
        · next kk m hf _ => simp at hs; rw [ha f kk hf]; simpa [Expr.eval] using hs
        · cases hs
    have hsr := sread_obj cfg st (n.eval st.obj)
    have hsl := sread_len cfg st (n.eval st.obj)
    simp only [Stmt.exec]
    rw [if_neg (by omega)]
    generalize st.sread cfg (n.eval st.obj) = r at hsr hsl
    obtain ⟨got, st1⟩ := r
    simp only at hsr hsl ⊢
    refine ⟨by rw [hsr.2, h0]; simp, fun _ => ⟨?_, knownOK_none _⟩⟩
    intro g m hg
    by_cases hgf : g = f
    · subst hgf
      simp only [Obj.setBuf_buf_same, hsr.1, List.length_append, List.length_drop]
      have := ha g m hg
      omega
    · simp only [Obj.setBuf_buf_ne _ _ hgf, hsr.1]; exact ha g m hg
  | resize f ew n =>
    intro k st hs _ h0 ha _
    simp only [safeAux, Option.isNone_iff_eq_none] at hs
    simp only [Stmt.exec]
    split
    · exact ⟨by simp, fun h => by simp at h⟩
    · refine ⟨by simp [h0], fun _ => ⟨?_, ?_⟩⟩
      · intro g m hg
        have hgf : g ≠ f := by intro h; subst h; rw [hs] at hg; cases hg
        simp only [Obj.setBuf_buf_ne _ _ hgf]; exact ha g m hg
      · intro g ew' e hke
        simp only [safeAux] at hke
        split at hke
        · next hnb =>
          injection hke with hke; injection hke with h1 h2; injection h2 with h2 h3
          subst h1; subst h2; subst h3
          refine ⟨?_, hnb⟩
          rw [Expr.eval_setBuf _ hnb]
          simp only [Obj.setBuf_buf_same, List.length_append, List.length_take, zeros_length]
          omega
        · cases hke
  | seekg n =>
    intro k st _ _ h0 ha _
    have hs := sseek_obj cfg st (n.eval st.obj)
    simp only [Stmt.exec]
    exact ⟨by rw [hs.2, h0]; simp, fun _ => ⟨by rw [hs.1]; exact ha, knownOK_none _⟩⟩
  | wr f w => intro k st _ _ h0 ha _; exact ⟨by simp [Stmt.exec, h0], fun _ => ⟨ha, knownOK_none _⟩⟩
  | wrBuf f n => intro k st _ hw; simp [Stmt.noWrBuf] at hw
  | skipp n => intro k st _ _ h0 ha _; exact ⟨by simp [Stmt.exec, h0], fun _ => ⟨ha, knownOK_none _⟩⟩
  | assign f e =>
    intro k st _ _ h0 ha _
    exact ⟨by simp [Stmt.exec, h0], fun _ => ⟨fun g m hg => by simp only [Stmt.exec, Obj.setNum_buf]; exact ha g m hg, knownOK_none _⟩⟩
  | ite c t e iht ihe =>
    intro k st hs hw h0 ha _
    simp only [safeAux, Bool.and_eq_true] at hs
    simp only [Stmt.noWrBuf, Bool.and_eq_true] at hw
    simp only [Stmt.exec]
    split
    · obtain ⟨h1, h2⟩ := iht none st hs.1 hw.1 h0 ha (knownOK_none _)
      exact ⟨h1, fun h => ⟨(h2 h).1, knownOK_none _⟩⟩
    · obtain ⟨h1, h2⟩ := ihe none st hs.2 hw.2 h0 ha (knownOK_none _)
      exact ⟨h1, fun h => ⟨(h2 h).1, knownOK_none _⟩⟩
  | ret => intro k st _ _ h0 ha _; exact ⟨by simp [Stmt.exec], fun h => by simp [Stmt.exec] at h⟩

theorem fresh_arrSized (c : Codec) : ArrSized (arrsOf c) c.fresh := by
  intro f k h
  unfold arrsOf at h
  unfold Codec.fresh
  simp only
  cases hf : c.fields[f]? with
  | none => rw [hf] at h; cases h
  | some fi =>
    rw [hf] at h
    simp only at h ⊢
    cases hk : fi.kind with
    | num w => rw [hk] at h; cases h
    | vec w => rw [hk] at h; cases h
    | arr n ew => rw [hk] at h; injection h with h; subst h; simp [zeros_length]

/-- **memory safety of a checked decoder**: for every input, cap and stream kind, decoding into an object whose arrays
    have their declared sizes never performs an out-of-bounds access, and leaves the arrays at their sizes -/
theorem readSafe_sound (c : Codec) (h : readSafe c = true) (cfg : Cfg) (o0 : Obj) (ha : ArrSized (arrsOf c) o0) (inp : Bytes) :
    (c.decode cfg o0 inp).halt ≠ .oob := by
  simp only [readSafe, Bool.and_eq_true] at h
  exact (safeAux_sound cfg (arrsOf c) c.readProg none { obj := o0, inp := inp } h.1 h.2 rfl ha (knownOK_none _)).1

/-- ... in particular into the default-constructed object, which is what the object factory hands to `read` -/
theorem readSafe_fresh (c : Codec) (h : readSafe c = true) (cfg : Cfg) (inp : Bytes) :
    (c.decode cfg c.fresh inp).halt ≠ .oob :=
  readSafe_sound c h cfg c.fresh (fresh_arrSized c) inp

end Blf
