import Blf.Codec.Lang
import Blf.Codec.Safe
/-!
# The stream position under the codec language

No statement moves the get position backwards — the signature search backs off by at most three bytes after
having read four — and no statement changes the input or moves the position behind its end.  A decoder that
starts with the signature search and ends without an exception has consumed at least four bytes.
These are the facts behind *progress* of the object parser on arbitrary input (`Blf.FileSafe`).
-/
namespace Blf

/-- position facts relating a state (whose position lies inside its input) to a later one -/
structure PosLe (st r : St) : Prop where
  inp : r.inp = st.inp
  pos : st.pos ≤ st.inp.length → st.pos ≤ r.pos
  bound : st.pos ≤ st.inp.length → r.pos ≤ r.inp.length

theorem PosLe.of_eq {st r : St} (hp : r.pos = st.pos) (hi : r.inp = st.inp) : PosLe st r :=
  ⟨hi, fun _ => by omega, fun h => by rw [hp, hi]; exact h⟩

theorem PosLe.refl (st : St) : PosLe st st := PosLe.of_eq rfl rfl

theorem PosLe.trans {a b c : St} (h1 : PosLe a b) (h2 : PosLe b c) : PosLe a c := by
  refine ⟨by rw [h2.inp, h1.inp], fun h => ?_, fun h => ?_⟩
  · have hb := h1.bound h
    exact Nat.le_trans (h1.pos h) (h2.pos hb)
  · exact h2.bound (h1.bound h)

theorem sread_posLe (cfg : Cfg) (st : St) (n : Nat) : PosLe st (st.sread cfg n).2 := by
  unfold St.sread
  split
  · exact PosLe.of_eq rfl rfl
  · split
    · exact PosLe.refl st
    · split
      · next h => exact ⟨rfl, fun _ => by simp, fun _ => h⟩
      · next h => exact ⟨rfl, fun hb => hb, fun _ => Nat.le_refl _⟩

theorem sseek_posLe (cfg : Cfg) (st : St) (n : Nat) : PosLe st (st.sseek cfg n) := by
  unfold St.sseek
  split
  · exact PosLe.refl st
  · exact ⟨rfl, fun hb => by simp only; omega, fun _ => by simp only; omega⟩

/-- a non-sticky read of `n > 0` bytes that leaves the stream good has delivered all `n` bytes -/
theorem sread_good (cfg : Cfg) (hs : cfg.sticky = false) (st : St) (n : Nat) (hn : 0 < n)
    (hg : (st.sread cfg n).2.good = true) :
    (st.sread cfg n).2.pos = st.pos + n ∧ (st.sread cfg n).1.length = n ∧ st.pos + n ≤ st.inp.length := by
  unfold St.sread at hg ⊢
  simp only [hs, Bool.false_and, Bool.false_eq_true, if_false] at hg ⊢
  rw [if_neg (by omega)] at hg ⊢
  split
  · next h => exact ⟨rfl, by simp; omega, h⟩
  · next h => rw [if_neg h] at hg; simp at hg

/-- a non-sticky read of `n > 0` bytes at the end of the input fails -/
theorem sread_at_end (cfg : Cfg) (hs : cfg.sticky = false) (st : St) (n : Nat) (hn : 0 < n) (he : st.inp.length ≤ st.pos) :
    (st.sread cfg n).2.good = false ∧ (st.sread cfg n).2.pos = st.inp.length ∧ (st.sread cfg n).2.inp = st.inp := by
  unfold St.sread
  simp only [hs, Bool.false_and, Bool.false_eq_true, if_false]
  rw [if_neg (by omega), if_neg (by omega)]
  exact ⟨rfl, rfl, rfl⟩

theorem sback_le3 (st : St) (k : Nat) : (st.sback k).inp = st.inp ∧ (st.sback k).pos = st.pos - k ∧ (st.sback k).halt = st.halt := ⟨rfl, rfl, rfl⟩

/-- the signature search: never backwards over all; when it ends without an exception it has moved at least four bytes
    forward, or it stands at the end of the input (the quirk: a short last read can complete a signature with bytes left
    over from the previous window; every following read then fails) -/
theorem syncLoop_pos (cfg : Cfg) (hs : cfg.sticky = false) (sigF : Nat) : ∀ (fuel tmp : Nat) (st : St),
    PosLe st (syncLoop cfg sigF fuel tmp st) ∧
    (st.halt = .none → (syncLoop cfg sigF fuel tmp st).halt = .none →
      st.pos + 4 ≤ (syncLoop cfg sigF fuel tmp st).pos ∨
      (syncLoop cfg sigF fuel tmp st).pos = (syncLoop cfg sigF fuel tmp st).inp.length) := by
  intro fuel
  induction fuel with
  | zero => intro tmp st; exact ⟨PosLe.of_eq rfl rfl, fun _ h => by simp [syncLoop] at h⟩
  | succ n ih =>
    intro tmp st
    unfold syncLoop
    have hp := sread_posLe cfg st 4
    have hlen : (st.sread cfg 4).2.pos = st.pos + 4 ∨
        ((st.sread cfg 4).2.pos = st.inp.length ∧ (st.sread cfg 4).1.length < 4) := by
      unfold St.sread
      simp only [hs, Bool.false_and, Bool.false_eq_true, if_false]
      rw [if_neg (by omega)]
      split
      · exact Or.inl rfl
      · next h => right; simp; omega
    have hhalt : (st.sread cfg 4).2.halt = st.halt := by
      unfold St.sread; split <;> (try split) <;> (try split) <;> rfl
    generalize st.sread cfg 4 = r at hp hlen hhalt
    obtain ⟨got, st1⟩ := r
    simp only at hp hlen hhalt ⊢
    split
    · -- signature found
      refine ⟨⟨hp.inp, hp.pos, hp.bound⟩, fun _ _ => ?_⟩
      rcases hlen with hl | ⟨hl, _⟩
      · left; simp only; omega
      · right; simp only; rw [hp.inp]; exact hl
    · split
      · exact ⟨⟨hp.inp, hp.pos, hp.bound⟩, fun _ h => by simp at h⟩
      · next hne hnx =>
        have hfull : st1.pos = st.pos + 4 := by
          rcases hlen with hl | ⟨_, hl⟩
          · exact hl
          · simp [hl] at hnx
        have key : ∀ st2 : St, st2.inp = st1.inp → st.pos + 1 ≤ st2.pos → st2.pos ≤ st1.pos → st2.halt = st1.halt →
            PosLe st (syncLoop cfg sigF n (scalarMerge 4 tmp got) st2) ∧
            (st.halt = .none → (syncLoop cfg sigF n (scalarMerge 4 tmp got) st2).halt = .none →
              st.pos + 4 ≤ (syncLoop cfg sigF n (scalarMerge 4 tmp got) st2).pos ∨
              (syncLoop cfg sigF n (scalarMerge 4 tmp got) st2).pos = (syncLoop cfg sigF n (scalarMerge 4 tmp got) st2).inp.length) := by
          intro st2 hi hlo hhi hh
          obtain ⟨a, b⟩ := ih (scalarMerge 4 tmp got) st2
          refine ⟨⟨by rw [a.inp, hi, hp.inp], fun hb => ?_, fun hb => ?_⟩, fun h0 h1 => ?_⟩
          · have h1 := hp.bound hb
            have := a.pos (by rw [hi]; omega)
            omega
          · have h1 := hp.bound hb
            exact a.bound (by rw [hi]; omega)
          · rcases b (by rw [hh, hhalt]; exact h0) h1 with b | b
            · left; omega
            · right; exact b
        split
        · exact key _ rfl (by simp [St.sback]; omega) (by simp [St.sback]) rfl
        · split
          · exact key _ rfl (by simp [St.sback]; omega) (by simp [St.sback]) rfl
          · split
            · exact key _ rfl (by simp [St.sback]; omega) (by simp [St.sback]) rfl
            · exact key _ rfl (by omega) (Nat.le_refl _) rfl

/-- **no statement moves the get position backwards, changes the input or leaves it** (non-sticky stream) -/
theorem exec_posLe (cfg : Cfg) (hs : cfg.sticky = false) : ∀ (s : Stmt) (st : St), PosLe st (s.exec cfg st) := by
  intro s
  induction s with
  | skip => intro st; exact PosLe.refl st
  | seq a b iha ihb =>
    intro st
    simp only [Stmt.exec]
    split
    · exact (iha st).trans (ihb _)
    · exact iha st
  | sync sigF => intro st; exact (syncLoop_pos cfg hs sigF _ 0 st).1
  | rd f w =>
    intro st
    have := sread_posLe cfg st w
    simp only [Stmt.exec]
    generalize st.sread cfg w = r at this
    obtain ⟨got, st1⟩ := r
    exact ⟨this.inp, this.pos, this.bound⟩
  | rdBuf f n =>
    intro st
    simp only [Stmt.exec]
    split
    · exact PosLe.of_eq rfl rfl
    · have := sread_posLe cfg st (n.eval st.obj)
      generalize st.sread cfg (n.eval st.obj) = r at this
      obtain ⟨got, st1⟩ := r
      exact ⟨this.inp, this.pos, this.bound⟩
  | resize f ew n => intro st; simp only [Stmt.exec]; split <;> exact PosLe.of_eq rfl rfl
  | seekg n => intro st; exact sseek_posLe cfg st _
  | wr f w => intro st; exact PosLe.of_eq rfl rfl
  | wrBuf f n => intro st; simp only [Stmt.exec]; split <;> exact PosLe.of_eq rfl rfl
  | skipp n => intro st; exact PosLe.of_eq rfl rfl
  | assign f e => intro st; exact PosLe.of_eq rfl rfl
  | ite c t e iht ihe => intro st; simp only [Stmt.exec]; split; exact iht st; exact ihe st
  | ret => intro st; exact PosLe.of_eq rfl rfl

/-- the decoder begins with the signature search (possibly after assignments to members) -/
def Stmt.syncFirst : Stmt → Bool
  | .seq (.sync _) _ => true
  | .seq (.assign _ _) rest => rest.syncFirst
  | _ => false

/-- a decoder that begins with the signature search and does not end with the library's exception has consumed at least
    four bytes, provided four bytes were there -/
theorem exec_syncFirst (cfg : Cfg) (hs : cfg.sticky = false) : ∀ (s : Stmt) (_ : s.syncFirst = true) (st : St)
    (_ : st.halt = .none) (_ : st.pos + 4 ≤ st.inp.length) (_ : (s.exec cfg st).halt ≠ .exc),
    st.pos + 4 ≤ (s.exec cfg st).pos := by
  intro s
  induction s with
  | seq a rest iha ihr =>
    intro h st h0 h4 hn
    cases a with
    | sync f =>
      have e : (Stmt.seq (.sync f) rest).exec cfg st =
          if ((Stmt.sync f).exec cfg st).halt = .none then rest.exec cfg ((Stmt.sync f).exec cfg st)
          else (Stmt.sync f).exec cfg st := by rw [Stmt.exec]
      have hsync := syncLoop_pos cfg hs f (st.inp.length - st.pos + 2) 0 st
      have hsafe := (syncLoop_safe cfg f (st.inp.length - st.pos + 2) 0 st).2
      have e2 : (Stmt.sync f).exec cfg st = syncLoop cfg f (st.inp.length - st.pos + 2) 0 st := by rw [Stmt.exec]
      rw [← e2] at hsync hsafe
      rw [e] at hn ⊢
      generalize (Stmt.sync f).exec cfg st = y at hsync hsafe hn ⊢
      by_cases hh : y.halt = .none
      · rw [if_pos hh] at hn ⊢
        have h1 := hsync.2 h0 hh
        have hb : st.pos ≤ st.inp.length := by omega
        have h3 := hsync.1.inp
        have h2 := (exec_posLe cfg hs rest y).pos (hsync.1.bound hb)
        rcases h1 with h1 | h1
        · omega
        · rw [h3] at h1; omega
      · rw [if_neg hh] at hn
        rcases hsafe with h5 | h5
        · rw [h0] at h5; exact absurd h5 hh
        · exact absurd h5 hn
    | assign f e =>
      simp only [Stmt.syncFirst] at h
      have e1 : (Stmt.seq (.assign f e) rest).exec cfg st = rest.exec cfg { st with obj := st.obj.setNum f (e.eval st.obj) } := by
        simp only [Stmt.exec, h0, if_true]
      rw [e1] at hn ⊢
      exact ihr h { st with obj := st.obj.setNum f (e.eval st.obj) } h0 h4 hn
    | _ => simp [Stmt.syncFirst] at h
  | _ => intro h; simp [Stmt.syncFirst] at h

end Blf
