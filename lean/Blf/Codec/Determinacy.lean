import Blf.Codec.Tables
/-!
# Determinacy of encoding

`block_congr`: the bytes a write program emits (and whether it stops) depend only on the buffers and
on the numeric fields in `needs prog []` — the fields whose incoming value is read before a top-level
assignment overwrites it.  Together with the table check `Codec.inputsInit` (every such field has an
initialiser) this gives: the encoding of an object does not depend on memory the caller never set.
-/
namespace Blf

/-- two objects have the same buffers everywhere and agree on the numeric fields in `R` -/
def AgreeOn (R : List Nat) (a b : Obj) : Prop := a.buf = b.buf ∧ ∀ f ∈ R, a.num f = b.num f

theorem Expr.eval_congr (e : Expr) (a b : Obj) (R : List Nat) (hR : ∀ f ∈ e.flds, f ∈ R) (h : AgreeOn R a b) :
    e.eval a = e.eval b := by
  induction e with
  | const n => rfl
  | fld f => exact h.2 f (hR f (by simp [Expr.flds]))
  | bsize f ew => simp only [Expr.eval]; rw [h.1]
  | add x y ihx ihy | mul x y ihx ihy | div x y ihx ihy | mod x y ihx ihy | band x y ihx ihy | bor x y ihx ihy
  | lt x y ihx ihy | le x y ihx ihy | eq x y ihx ihy | ne x y ihx ihy | and x y ihx ihy | or x y ihx ihy =>
    simp only [Expr.eval]
    rw [ihx (fun f hf => hR f (by simp [Expr.flds, hf])), ihy (fun f hf => hR f (by simp [Expr.flds, hf]))]
  | sub w x y ihx ihy =>
    simp only [Expr.eval]
    rw [ihx (fun f hf => hR f (by simp [Expr.flds, hf])), ihy (fun f hf => hR f (by simp [Expr.flds, hf]))]
  | bnot w x ih | cast w x ih =>
    simp only [Expr.eval]; rw [ih (fun f hf => hR f (by simp [Expr.flds, hf]))]
  | not x ih =>
    simp only [Expr.eval]; rw [ih (fun f hf => hR f (by simp [Expr.flds, hf]))]
  | ite c x y ihc ihx ihy =>
    simp only [Expr.eval]
    rw [ihc (fun f hf => hR f (by simp [Expr.flds, hf])), ihx (fun f hf => hR f (by simp [Expr.flds, hf])),
      ihy (fun f hf => hR f (by simp [Expr.flds, hf]))]

/-- statements that do not touch the input stream -/
def Stmt.writeOnly : Stmt → Bool
  | .skip | .ret | .wr _ _ | .wrBuf _ _ | .skipp _ | .assign _ _ => true
  | .seq a b => a.writeOnly && b.writeOnly
  | .ite _ t e => t.writeOnly && e.writeOnly
  | _ => false

theorem AgreeOn.setNum {R : List Nat} {a b : Obj} (h : AgreeOn R a b) (g v : Nat) :
    AgreeOn (g :: R) (a.setNum g v) (b.setNum g v) := by
  refine ⟨by funext f; simpa using congrFun h.1 f, ?_⟩
  intro f hf
  by_cases e : f = g
  · subst e; simp
  · rcases List.mem_cons.mp hf with h' | h'
    · exact absurd h' e
    · simp [e, h.2 f h']

theorem AgreeOn.mono {R R' : List Nat} {a b : Obj} (h : AgreeOn R a b) (hs : ∀ f ∈ R', f ∈ R) : AgreeOn R' a b :=
  ⟨h.1, fun f hf => h.2 f (hs f hf)⟩

/-- **determinacy of a write statement** -/
theorem write_congr (cfg : Cfg) (s : Stmt) (hw : s.writeOnly = true) (R : List Nat) (hR : ∀ f ∈ s.reads, f ∈ R)
    (st1 st2 : St) (hag : AgreeOn R st1.obj st2.obj) (hout : st1.out = st2.out) (hh : st1.halt = st2.halt) :
    (s.exec cfg st1).out = (s.exec cfg st2).out ∧ (s.exec cfg st1).halt = (s.exec cfg st2).halt ∧
    AgreeOn R (s.exec cfg st1).obj (s.exec cfg st2).obj := by
  induction s generalizing st1 st2 with
  | skip => exact ⟨hout, hh, hag⟩
  | ret => exact ⟨hout, rfl, hag⟩
  | seq a b iha ihb =>
    simp only [Stmt.writeOnly, Bool.and_eq_true] at hw
    have ha := iha hw.1 (fun f hf => hR f (by simp [Stmt.reads, hf])) st1 st2 hag hout hh
    simp only [Stmt.exec]
    rw [ha.2.1]
    split
    · exact ihb hw.2 (fun f hf => hR f (by simp [Stmt.reads, hf])) _ _ ha.2.2 ha.1 ha.2.1
    · exact ha
  | wr f w =>
    simp only [Stmt.exec]
    refine ⟨?_, hh, hag⟩
    rw [hout, hag.2 f (hR f (by simp [Stmt.reads]))]
  | wrBuf f n =>
    simp only [Stmt.exec]
    have hn := Expr.eval_congr n st1.obj st2.obj R (fun g hg => hR g (by simp [Stmt.reads, hg])) hag
    rw [hn, hag.1]
    split
    · exact ⟨hout, rfl, hag⟩
    · exact ⟨by rw [hout], hh, hag⟩
  | skipp n =>
    simp only [Stmt.exec]
    have hn := Expr.eval_congr n st1.obj st2.obj R (fun g hg => hR g (by simp [Stmt.reads, hg])) hag
    exact ⟨by rw [hout, hn], hh, hag⟩
  | assign f e =>
    simp only [Stmt.exec]
    have he := Expr.eval_congr e st1.obj st2.obj R (fun g hg => hR g (by simp [Stmt.reads, hg])) hag
    rw [he]
    exact ⟨hout, hh, (hag.setNum f _).mono (fun g hg => List.mem_cons_of_mem _ hg)⟩
  | ite c t e iht ihe =>
    simp only [Stmt.writeOnly, Bool.and_eq_true] at hw
    simp only [Stmt.exec]
    have hc := Expr.eval_congr c st1.obj st2.obj R (fun g hg => hR g (by simp [Stmt.reads, hg])) hag
    rw [hc]
    split
    · exact iht hw.1 (fun f hf => hR f (by simp [Stmt.reads, hf])) st1 st2 hag hout hh
    · exact ihe hw.2 (fun f hf => hR f (by simp [Stmt.reads, hf])) st1 st2 hag hout hh
  | sync _ | rd _ _ | rdBuf _ _ | resize _ _ _ | seekg _ => simp [Stmt.writeOnly] at hw

/-- fields whose *incoming* value a statement list depends on: read before being assigned by a
    top-level assignment (`D` = fields assigned so far) -/
def needs : List Stmt → List Nat → List Nat
  | [], _ => []
  | .assign f e :: l, D => (e.flds.filter fun g => !D.contains g) ++ needs l (f :: D)
  | s :: l, D => (s.reads.filter fun g => !D.contains g) ++ needs l D

theorem mem_filter_or {l D : List Nat} {g : Nat} (h : g ∈ l) : g ∈ D ∨ g ∈ l.filter (fun x => !D.contains x) := by
  by_cases hd : g ∈ D
  · exact Or.inl hd
  · exact Or.inr (List.mem_filter.mpr ⟨h, by simpa using hd⟩)

theorem needs_head (s : Stmt) (l : List Stmt) (D : List Nat) (g : Nat) (hg : g ∈ s.reads) :
    g ∈ D ∨ g ∈ needs (s :: l) D := by
  rcases mem_filter_or (D := D) hg with h | h
  · exact Or.inl h
  · right
    cases s <;> simp only [needs, List.mem_append] <;> exact Or.inl h

/-- the tail's needs are needs of the whole list (w.r.t. the extended assigned set) -/
theorem needs_tail (s : Stmt) (l : List Stmt) (D : List Nat) (g : Nat) :
    (∀ f e, s = .assign f e → g ∈ needs l (f :: D) → g ∈ needs (s :: l) D) ∧
    ((∀ f e, s ≠ .assign f e) → g ∈ needs l D → g ∈ needs (s :: l) D) := by
  constructor
  · intro f e hs hg; subst hs; simp only [needs, List.mem_append]; exact Or.inr hg
  · intro hs hg
    cases s <;> simp only [needs, List.mem_append] <;> first | exact Or.inr hg | skip
    exact absurd rfl (hs _ _)

/-- **order-sensitive determinacy**: a statement list's output depends only on the buffers, on the fields
    in `D` (on which the two runs already agree) and on `needs l D` -/
theorem block_congr (cfg : Cfg) (l : List Stmt) (hw : l.all Stmt.writeOnly = true) (D : List Nat)
    (st1 st2 : St) (hA : AgreeOn (D ++ needs l D) st1.obj st2.obj)
    (hout : st1.out = st2.out) (hh : st1.halt = st2.halt) :
    ((Stmt.block l).exec cfg st1).out = ((Stmt.block l).exec cfg st2).out ∧
    ((Stmt.block l).exec cfg st1).halt = ((Stmt.block l).exec cfg st2).halt := by
  induction l generalizing D st1 st2 with
  | nil => exact ⟨hout, hh⟩
  | cons s l ih =>
    simp only [List.all_cons, Bool.and_eq_true] at hw
    have hsub : ∀ f ∈ s.reads, f ∈ D ++ needs (s :: l) D := by
      intro f hf
      rcases needs_head s l D f hf with h | h
      · exact List.mem_append_left _ h
      · exact List.mem_append_right _ h
    have h1 := write_congr cfg s hw.1 _ hsub st1 st2 hA hout hh
    rw [exec_block_cons, exec_block_cons, h1.2.1]
    split
    · by_cases hs : ∃ f e, s = .assign f e
      · obtain ⟨f, e, rfl⟩ := hs
        refine ih hw.2 (f :: D) _ _ ?_ h1.1 h1.2.1
        simp only [Stmt.exec]
        have he := Expr.eval_congr e st1.obj st2.obj _ (fun x hx => hsub x (by simpa [Stmt.reads] using hx)) hA
        rw [he]
        refine (hA.setNum f _).mono ?_
        intro g hg
        rcases List.mem_append.mp hg with h | h
        · rcases List.mem_cons.mp h with rfl | h'
          · exact List.mem_cons_self
          · exact List.mem_cons_of_mem _ (List.mem_append_left _ h')
        · exact List.mem_cons_of_mem _ (List.mem_append_right _ ((needs_tail _ l D g).1 f e rfl h))
      · refine ih hw.2 D _ _ (h1.2.2.mono ?_) h1.1 h1.2.1
        intro g hg
        rcases List.mem_append.mp hg with h | h
        · exact List.mem_append_left _ h
        · exact List.mem_append_right _ ((needs_tail s l D g).2 (fun f e he => hs ⟨f, e, he⟩) h)
    · exact ⟨h1.1, h1.2.1⟩

/-- the numeric fields whose constructor-time value the encoder depends on -/
def Codec.inputs (c : Codec) : List Nat := needs c.writeProg.toList []

/-- every input field has an initialiser, the write program is a flat block of write-only statements -/
def Codec.inputsInit (c : Codec) : Bool :=
  decide (c.writeProg = Stmt.block c.writeProg.toList) && c.writeProg.toList.all Stmt.writeOnly &&
  c.inputs.all fun f => c.hasInit f

/-- arrays (the only buffers that can be indeterminate) all have initialisers -/
def Codec.arraysInit (c : Codec) : Bool :=
  c.fields.all fun fi => match fi.kind with
    | .arr _ _ => fi.hasInit
    | _ => true

/-- **C14 core**: two objects with equal buffers that agree on the encoder's input fields encode to the
    same bytes, whatever their other (possibly indeterminate) numeric members hold. -/
theorem encode_deterministic (cfg : Cfg) (c : Codec) (h : c.inputsInit = true) (a b : Obj)
    (hb : a.buf = b.buf) (hn : ∀ f ∈ c.inputs, a.num f = b.num f) :
    (c.encode cfg a).out = (c.encode cfg b).out ∧ (c.encode cfg a).halt = (c.encode cfg b).halt := by
  simp only [Codec.inputsInit, Bool.and_eq_true, decide_eq_true_eq] at h
  unfold Codec.encode
  rw [h.1.1]
  exact block_congr cfg _ h.1.2 [] { obj := a } { obj := b } ⟨hb, by simpa [Codec.inputs] using hn⟩ rfl rfl

end Blf
