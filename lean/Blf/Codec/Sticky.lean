import Blf.Codec.Canon
/-!
# Reads that are all complete: the kind of stream does not matter

`std::fstream` keeps its failed state (`sticky`), the in-memory stream resets it on every read.  As long as no read
comes back short the two behave alike: a program run on a good stream that ends with the ghost flag `short` still false
produces the same state under both configurations, and leaves the stream good.  This carries the per-object theorems
(proved for the in-memory stream) over to the compressed file, where the log containers are read.
-/
namespace Blf

/-- the stream is good, not at eof, and its position lies inside the input -/
structure StreamOK (st : St) : Prop where
  good : st.good = true
  eof : st.eof = false
  pos : st.pos ≤ st.inp.length
  short : st.short = false

def Cfg.asSticky (cfg : Cfg) : Cfg := { cfg with sticky := true }

theorem sread_sticky (cfg : Cfg) (hs : cfg.sticky = false) (st : St) (n : Nat) (h : StreamOK st)
    (hn : (st.sread cfg n).2.short = false) :
    st.sread cfg.asSticky n = st.sread cfg n ∧ StreamOK (st.sread cfg n).2 := by
  obtain ⟨hg, he, hp, hsh⟩ := h
  unfold St.sread at hn ⊢
  simp only [Cfg.asSticky, hs, hg, Bool.not_true, Bool.and_false, Bool.false_eq_true, if_false, Bool.not_false, and_true,
    Bool.true_and, Bool.false_and, and_false] at hn ⊢
  by_cases h0 : n = 0
  · subst h0
    simp only [if_true, Nat.add_zero] at hn ⊢
    rw [if_pos hp]
    refine ⟨?_, ⟨hg, he, hp, hsh⟩⟩
    simp [List.take_zero]
    cases st
    simp_all
  · rw [if_neg h0] at hn ⊢
    by_cases hl : st.pos + n ≤ st.inp.length
    · rw [if_pos hl] at hn ⊢
      exact ⟨rfl, ⟨rfl, rfl, hl, hsh⟩⟩
    · rw [if_neg hl] at hn; simp at hn

theorem sseek_sticky (cfg : Cfg) (hs : cfg.sticky = false) (st : St) (n : Nat) (h : StreamOK st) :
    st.sseek cfg.asSticky n = st.sseek cfg n ∧ StreamOK (st.sseek cfg n) := by
  obtain ⟨hg, he, hp, hsh⟩ := h
  unfold St.sseek
  rw [if_neg (by simp [hg]), if_neg (by simp [hs])]
  exact ⟨rfl, ⟨hg, he, by simp only; omega, hsh⟩⟩

theorem syncLoop_sticky (cfg : Cfg) (hs : cfg.sticky = false) (sigF : Nat) : ∀ (fuel tmp : Nat) (st : St), StreamOK st →
    (syncLoop cfg sigF fuel tmp st).short = false →
    syncLoop cfg.asSticky sigF fuel tmp st = syncLoop cfg sigF fuel tmp st ∧ StreamOK (syncLoop cfg sigF fuel tmp st) := by
  intro fuel
  induction fuel with
  | zero => intro tmp st h _; exact ⟨rfl, ⟨h.good, h.eof, h.pos, h.short⟩⟩
  | succ n ih =>
    intro tmp st h hn
    unfold syncLoop at hn ⊢
    -- the four-byte read was complete, otherwise `short` would be set for good
    have hr : (st.sread cfg 4).2.short = false := by
      cases hc : (st.sread cfg 4).2.short with
      | false => rfl
      | true =>
        exfalso
        generalize st.sread cfg 4 = r at hn hc
        obtain ⟨got, st1⟩ := r
        simp only at hn hc
        have key : ∀ x : St, x.short = true → (syncLoop cfg sigF n (scalarMerge 4 tmp got) x).short = true :=
          fun x hx => syncLoop_short_mono cfg sigF n _ x hx
        split at hn
        · simp [hc] at hn
        · split at hn
          · simp [hc] at hn
          · split at hn
            · rw [key _ (by simp [St.sback, hc])] at hn; cases hn
            · split at hn
              · rw [key _ (by simp [St.sback, hc])] at hn; cases hn
              · split at hn
                · rw [key _ (by simp [St.sback, hc])] at hn; cases hn
                · rw [key _ hc] at hn; cases hn
    obtain ⟨e1, ok1⟩ := sread_sticky cfg hs st 4 h hr
    rw [e1]
    have hpos4 : 4 ≤ (st.sread cfg 4).2.pos := by
      unfold St.sread at hr ⊢
      simp only [hs, Bool.false_and, Bool.false_eq_true, if_false] at hr ⊢
      rw [if_neg (by omega)] at hr ⊢
      split
      · simp
      · next hl => rw [if_neg hl] at hr; simp at hr
    generalize st.sread cfg 4 = r at hn ok1 hpos4
    obtain ⟨got, st1⟩ := r
    simp only at hn ok1 hpos4 ⊢
    have okb : ∀ k, k ≤ 3 → StreamOK (st1.sback k) := by
      intro k hk
      exact ⟨ok1.good, ok1.eof, by simp only [St.sback]; have := ok1.pos; omega, ok1.short⟩
    split
    · exact ⟨rfl, ⟨ok1.good, ok1.eof, ok1.pos, ok1.short⟩⟩
    · split
      · exact ⟨rfl, ⟨ok1.good, ok1.eof, ok1.pos, ok1.short⟩⟩
      · next h1 h2 =>
        rw [if_neg h1, if_neg h2] at hn
        split
        · next c1 => rw [if_pos c1] at hn; exact ih _ _ (okb 3 (by omega)) hn
        · next c1 =>
          rw [if_neg c1] at hn
          split
          · next c2 => rw [if_pos c2] at hn; exact ih _ _ (okb 2 (by omega)) hn
          · next c2 =>
            rw [if_neg c2] at hn
            split
            · next c3 => rw [if_pos c3] at hn; exact ih _ _ (okb 1 (by omega)) hn
            · next c3 => rw [if_neg c3] at hn; exact ih _ _ ok1 hn

/-- **a run without a short read is the same on both kinds of stream, and leaves the stream good** -/
theorem exec_sticky (cfg : Cfg) (hs : cfg.sticky = false) : ∀ (s : Stmt) (st : St), StreamOK st →
    (s.exec cfg st).short = false →
    s.exec cfg.asSticky st = s.exec cfg st ∧ StreamOK (s.exec cfg st) := by
  intro s
  induction s with
  | skip => intro st h _; exact ⟨rfl, h⟩
  | seq a b iha ihb =>
    intro st h hn
    simp only [Stmt.exec] at hn ⊢
    have ha : (a.exec cfg st).short = false := by
      cases hc : (a.exec cfg st).short with
      | false => rfl
      | true =>
        exfalso
        split at hn
        · rw [exec_short_mono cfg b _ hc] at hn; cases hn
        · rw [hc] at hn; cases hn
    obtain ⟨e1, ok1⟩ := iha st h ha
    rw [e1]
    by_cases hh : (a.exec cfg st).halt = .none
    · rw [if_pos hh] at hn; rw [if_pos hh, if_pos hh]; exact ihb _ ok1 hn
    · rw [if_neg hh, if_neg hh]; exact ⟨rfl, ok1⟩
  | sync sigF => intro st h hn; exact syncLoop_sticky cfg hs sigF _ 0 st h hn
  | rd f w =>
    intro st h hn
    simp only [Stmt.exec] at hn ⊢
    obtain ⟨e1, ok1⟩ := sread_sticky cfg hs st w h hn
    rw [e1]
    exact ⟨rfl, ⟨ok1.good, ok1.eof, ok1.pos, ok1.short⟩⟩
  | rdBuf f n =>
    intro st h hn
    simp only [Stmt.exec] at hn ⊢
    by_cases hl : (st.obj.buf f).length < n.eval st.obj
    · rw [if_pos hl, if_pos hl]; exact ⟨rfl, ⟨h.good, h.eof, h.pos, h.short⟩⟩
    · rw [if_neg hl] at hn; rw [if_neg hl, if_neg hl]
      obtain ⟨e1, ok1⟩ := sread_sticky cfg hs st _ h hn
      rw [e1]
      exact ⟨rfl, ⟨ok1.good, ok1.eof, ok1.pos, ok1.short⟩⟩
  | resize f ew n =>
    intro st h _
    refine ⟨rfl, ?_⟩
    simp only [Stmt.exec]
    split <;> exact ⟨h.good, h.eof, h.pos, h.short⟩
  | seekg n => intro st h _; simp only [Stmt.exec]; exact sseek_sticky cfg hs st _ h
  | wr f w => intro st h _; exact ⟨rfl, ⟨h.good, h.eof, h.pos, h.short⟩⟩
  | wrBuf f n =>
    intro st h _
    refine ⟨rfl, ?_⟩
    simp only [Stmt.exec]
    split <;> exact ⟨h.good, h.eof, h.pos, h.short⟩
  | skipp n => intro st h _; exact ⟨rfl, ⟨h.good, h.eof, h.pos, h.short⟩⟩
  | assign f e => intro st h _; exact ⟨rfl, ⟨h.good, h.eof, h.pos, h.short⟩⟩
  | ite c t e iht ihe =>
    intro st h hn
    simp only [Stmt.exec] at hn ⊢
    by_cases hc : c.eval st.obj ≠ 0
    · rw [if_pos hc] at hn; rw [if_pos hc, if_pos hc]; exact iht st h hn
    · rw [if_neg hc] at hn; rw [if_neg hc, if_neg hc]; exact ihe st h hn
  | ret => intro st h _; exact ⟨rfl, ⟨h.good, h.eof, h.pos, h.short⟩⟩

/-! ### the ghost flag agrees on both kinds of stream; a sticky stream that came back short is not good -/

theorem sread_sticky_good (cfg : Cfg) (hs : cfg.sticky = false) (st : St) (n : Nat) (hn : 0 < n) (hg : st.good = true) :
    st.sread cfg.asSticky n = st.sread cfg n := by
  unfold St.sread
  have hn0 : n ≠ 0 := by omega
  simp [Cfg.asSticky, hs, hg, hn0]

theorem syncLoop_sticky_eq (cfg : Cfg) (hs : cfg.sticky = false) (sigF : Nat) : ∀ (fuel tmp : Nat) (st : St), StreamOK st →
    syncLoop cfg.asSticky sigF fuel tmp st = syncLoop cfg sigF fuel tmp st := by
  intro fuel
  induction fuel with
  | zero => intro tmp st _; rfl
  | succ n ih =>
    intro tmp st h
    unfold syncLoop
    rw [sread_sticky_good cfg hs st 4 (by omega) h.good]
    have hfull : (st.sread cfg 4).1.length < 4 ∨ (StreamOK (st.sread cfg 4).2 ∧ 4 ≤ (st.sread cfg 4).2.pos) := by
      unfold St.sread
      simp only [hs, Bool.false_and, Bool.false_eq_true, if_false]
      rw [if_neg (by omega)]
      by_cases hl : st.pos + 4 ≤ st.inp.length
      · rw [if_pos hl]; exact Or.inr ⟨⟨rfl, rfl, hl, h.short⟩, by simp⟩
      · rw [if_neg hl]; left; simp; omega
    generalize st.sread cfg 4 = r at hfull
    obtain ⟨got, st1⟩ := r
    simp only at hfull ⊢
    split
    · rfl
    · split
      · rfl
      · next _ h2 =>
        have hok : StreamOK st1 ∧ 4 ≤ st1.pos := by
          rcases hfull with hf | hf
          · simp [hf] at h2
          · exact hf
        have hb : ∀ k, k ≤ 3 → StreamOK (st1.sback k) := fun k hk =>
          ⟨hok.1.good, hok.1.eof, by simp only [St.sback]; have := hok.1.pos; omega, hok.1.short⟩
        split
        · exact ih _ _ (hb 3 (by omega))
        · split
          · exact ih _ _ (hb 2 (by omega))
          · split
            · exact ih _ _ (hb 1 (by omega))
            · exact ih _ _ hok.1

/-- from a good stream, a run sets the ghost flag on the sticky stream iff it sets it on the in-memory stream -/
theorem exec_sticky_short (cfg : Cfg) (hs : cfg.sticky = false) : ∀ (s : Stmt) (st : St), StreamOK st →
    (s.exec cfg.asSticky st).short = (s.exec cfg st).short := by
  intro s
  induction s with
  | skip => intro st _; rfl
  | seq a b iha ihb =>
    intro st h
    cases hsa : (a.exec cfg st).short with
    | false =>
      obtain ⟨e1, ok1⟩ := exec_sticky cfg hs a st h hsa
      simp only [Stmt.exec]
      rw [e1]
      by_cases hh : (a.exec cfg st).halt = .none
      · rw [if_pos hh, if_pos hh]; exact ihb _ ok1
      · rw [if_neg hh, if_neg hh]
    | true =>
      have hs2 : (a.exec cfg.asSticky st).short = true := by rw [iha st h, hsa]
      have r1 : ((Stmt.seq a b).exec cfg st).short = true := by
        simp only [Stmt.exec]; split
        · exact exec_short_mono cfg b _ hsa
        · exact hsa
      have r2 : ((Stmt.seq a b).exec cfg.asSticky st).short = true := by
        simp only [Stmt.exec]; split
        · exact exec_short_mono _ b _ hs2
        · exact hs2
      rw [r1, r2]
  | sync sigF => intro st h; simp only [Stmt.exec]; rw [syncLoop_sticky_eq cfg hs sigF _ 0 st h]
  | rd f w =>
    intro st h
    simp only [Stmt.exec]
    by_cases hw : w = 0
    · subst hw
      unfold St.sread
      simp [Cfg.asSticky, hs, h.good, h.pos]
    · rw [sread_sticky_good cfg hs st w (by omega) h.good]
  | rdBuf f n =>
    intro st h
    simp only [Stmt.exec]
    by_cases hl : (st.obj.buf f).length < n.eval st.obj
    · rw [if_pos hl, if_pos hl]
    · rw [if_neg hl, if_neg hl]
      by_cases hw : n.eval st.obj = 0
      · rw [hw]
        unfold St.sread
        simp [Cfg.asSticky, hs, h.good, h.pos]
      · rw [sread_sticky_good cfg hs st _ (by omega) h.good]
  | resize f ew n => intro st _; rfl
  | seekg n =>
    intro st h
    simp only [Stmt.exec]
    rw [(sseek_sticky cfg hs st _ h).1]
  | wr f w => intro st _; rfl
  | wrBuf f n => intro st _; rfl
  | skipp n => intro st _; rfl
  | assign f e => intro st _; rfl
  | ite c t e iht ihe =>
    intro st h
    simp only [Stmt.exec]
    by_cases hc : c.eval st.obj ≠ 0
    · rw [if_pos hc, if_pos hc]; exact iht st h
    · rw [if_neg hc, if_neg hc]; exact ihe st h
  | ret => intro st _; rfl

/-- on the sticky stream: OK, or not good with the ghost flag set -/
def OkOrBad (st : St) : Prop := StreamOK st ∨ (st.good = false ∧ st.short = true)

theorem sread_okOrBad (cfg : Cfg) (st : St) (n : Nat) (h : OkOrBad st) : OkOrBad (st.sread cfg.asSticky n).2 := by
  unfold St.sread
  simp only [Cfg.asSticky, Bool.true_and, Bool.not_true, Bool.false_eq_true, and_false, if_false]
  rcases h with h | h
  · rw [if_neg (by simp [h.good])]
    by_cases hl : st.pos + n ≤ st.inp.length
    · rw [if_pos hl]; exact Or.inl ⟨rfl, rfl, hl, h.short⟩
    · rw [if_neg hl]; exact Or.inr ⟨rfl, rfl⟩
  · rw [if_pos (by simp [h.1])]; exact Or.inr ⟨h.1, by simp [h.2]⟩

theorem sseek_okOrBad (cfg : Cfg) (st : St) (n : Nat) (h : OkOrBad st) : OkOrBad (st.sseek cfg.asSticky n) := by
  unfold St.sseek
  simp only [Cfg.asSticky, Bool.true_and]
  rcases h with h | h
  · rw [if_neg (by simp [h.good])]; exact Or.inl ⟨h.good, h.eof, by simp only; omega, h.short⟩
  · rw [if_pos (by simp [h.1])]; exact Or.inr h

theorem syncLoop_okOrBad (cfg : Cfg) (sigF : Nat) : ∀ (fuel tmp : Nat) (st : St), OkOrBad st →
    OkOrBad (syncLoop cfg.asSticky sigF fuel tmp st) := by
  intro fuel
  induction fuel with
  | zero =>
    intro tmp st h
    rcases h with h | h
    · exact Or.inl ⟨h.good, h.eof, h.pos, h.short⟩
    · exact Or.inr h
  | succ n ih =>
    intro tmp st h
    unfold syncLoop
    have h1 := sread_okOrBad cfg st 4 h
    have hfull : (st.sread cfg.asSticky 4).1.length < 4 ∨
        (StreamOK (st.sread cfg.asSticky 4).2 ∧ 4 ≤ (st.sread cfg.asSticky 4).2.pos) := by
      unfold St.sread
      simp only [Cfg.asSticky, Bool.true_and, Bool.not_true, Bool.false_eq_true, and_false, if_false]
      rcases h with h | h
      · rw [if_neg (by simp [h.good])]
        by_cases hl : st.pos + 4 ≤ st.inp.length
        · rw [if_pos hl]; exact Or.inr ⟨⟨rfl, rfl, hl, h.short⟩, by simp⟩
        · rw [if_neg hl]; left; simp; omega
      · rw [if_pos (by simp [h.1])]; left; simp
    generalize st.sread cfg.asSticky 4 = r at h1 hfull
    obtain ⟨got, st1⟩ := r
    simp only at h1 hfull ⊢
    have keep : ∀ (o : Obj) (hl : Halt), OkOrBad ({ st1 with obj := o, halt := hl } : St) := by
      intro o hl
      rcases h1 with h1 | h1
      · exact Or.inl ⟨h1.good, h1.eof, h1.pos, h1.short⟩
      · exact Or.inr h1
    split
    · exact keep _ _
    · split
      · exact keep _ _
      · next _ h2 =>
        have hok : StreamOK st1 ∧ 4 ≤ st1.pos := by
          rcases hfull with hf | hf
          · simp [hf] at h2
          · exact hf
        have hb : ∀ k, k ≤ 3 → OkOrBad (st1.sback k) := fun k hk =>
          Or.inl ⟨hok.1.good, hok.1.eof, by simp only [St.sback]; have := hok.1.pos; omega, hok.1.short⟩
        split
        · exact ih _ _ (hb 3 (by omega))
        · split
          · exact ih _ _ (hb 2 (by omega))
          · split
            · exact ih _ _ (hb 1 (by omega))
            · exact ih _ _ (Or.inl hok.1)

theorem exec_okOrBad (cfg : Cfg) : ∀ (s : Stmt) (st : St), OkOrBad st → OkOrBad (s.exec cfg.asSticky st) := by
  intro s
  have lift : ∀ (st : St) (o : Obj) (hl : Halt) (ou : Bytes), OkOrBad st → OkOrBad ({ st with obj := o, halt := hl, out := ou } : St) := by
    intro st o hl ou h
    rcases h with h | h
    · exact Or.inl ⟨h.good, h.eof, h.pos, h.short⟩
    · exact Or.inr h
  induction s with
  | skip => intro st h; exact h
  | seq a b iha ihb =>
    intro st h
    simp only [Stmt.exec]
    split
    · exact ihb _ (iha st h)
    · exact iha st h
  | sync sigF => intro st h; exact syncLoop_okOrBad cfg sigF _ 0 st h
  | rd f w =>
    intro st h
    have h1 := sread_okOrBad cfg st w h
    simp only [Stmt.exec]
    generalize st.sread cfg.asSticky w = r at h1
    obtain ⟨got, st1⟩ := r
    exact lift st1 _ st1.halt st1.out h1
  | rdBuf f n =>
    intro st h
    simp only [Stmt.exec]
    split
    · exact lift st st.obj .oob st.out h
    · have h1 := sread_okOrBad cfg st (n.eval st.obj) h
      generalize st.sread cfg.asSticky (n.eval st.obj) = r at h1
      obtain ⟨got, st1⟩ := r
      exact lift st1 _ st1.halt st1.out h1
  | resize f ew n =>
    intro st h
    simp only [Stmt.exec]
    split
    · exact lift st st.obj .badAlloc st.out h
    · exact lift st _ st.halt st.out h
  | seekg n => intro st h; exact sseek_okOrBad cfg st _ h
  | wr f w => intro st h; exact lift st st.obj st.halt _ h
  | wrBuf f n =>
    intro st h
    simp only [Stmt.exec]
    split
    · exact lift st st.obj .oob st.out h
    · exact lift st st.obj st.halt _ h
  | skipp n => intro st h; exact lift st st.obj st.halt _ h
  | assign f e => intro st h; exact lift st _ st.halt st.out h
  | ite c t e iht ihe => intro st h; simp only [Stmt.exec]; split; exact iht st h; exact ihe st h
  | ret => intro st h; exact lift st st.obj .ret st.out h

/-- **a run that comes back short on the in-memory stream leaves the sticky stream not good** -/
theorem exec_sticky_short_not_good (cfg : Cfg) (hs : cfg.sticky = false) (s : Stmt) (st : St) (h : StreamOK st)
    (hsh : (s.exec cfg st).short = true) : (s.exec cfg.asSticky st).good = false := by
  have h1 := exec_sticky_short cfg hs s st h
  rw [hsh] at h1
  rcases exec_okOrBad cfg s st (Or.inl h) with h2 | h2
  · rw [h2.short] at h1; cases h1
  · exact h2.1

end Blf
