import Blf.Bytes
/-!
# The codec language

A deeply embedded language for the bodies of `read(AbstractFile&)`, `write(AbstractFile&)` and
`calculateObjectSize()` of the object classes of vector_blf.  Programs of this language are
*generated* from the clang AST of `/repo` on every run (`Blf/Gen/*.lean`); this file is the
hand-written, executable semantics.

Faithfulness notes (each is exercised by the correspondence harness):
* scalar read of a short read keeps the unread high bytes of the old value;
* the stream's good/eof flags are NOT sticky in `ufile` mode (`UncompressedFile::read` resets
  `m_rdstate` on every call that requests at least one byte) and sticky in `fstream` mode;
* `rdBuf f n` into a buffer smaller than `n` bytes is undefined behaviour in C++: `halt := oob`;
* `wrBuf f n` with `n` larger than the buffer reads outside the caller's container: `halt := oob`;
* `resize` above `cap` bytes throws (`halt := badAlloc`);
* `sub w` wraps at `w` bytes, `cast w` truncates, everything else is exact on `Nat`
  (the translator places `cast` wherever the C++ type narrows).
* `short` is a ghost flag (sticky): some stream read returned fewer bytes than requested.
-/
namespace Blf

abbrev FieldId := Nat

structure Obj where
  num : FieldId → Nat
  buf : FieldId → Bytes

def Obj.setNum (o : Obj) (f v : Nat) : Obj := { o with num := fun g => if g = f then v else o.num g }
def Obj.setBuf (o : Obj) (f : Nat) (b : Bytes) : Obj := { o with buf := fun g => if g = f then b else o.buf g }

@[simp] theorem Obj.setNum_num_same (o : Obj) (f v : Nat) : (o.setNum f v).num f = v := by simp [Obj.setNum]
@[simp] theorem Obj.setNum_num_ne (o : Obj) {f g : Nat} (v : Nat) (h : g ≠ f) : (o.setNum f v).num g = o.num g := by
  simp [Obj.setNum, h]
@[simp] theorem Obj.setNum_buf (o : Obj) (f v g : Nat) : (o.setNum f v).buf g = o.buf g := rfl
@[simp] theorem Obj.setBuf_num (o : Obj) (f : Nat) (b : Bytes) (g : Nat) : (o.setBuf f b).num g = o.num g := rfl
@[simp] theorem Obj.setBuf_buf_same (o : Obj) (f : Nat) (b : Bytes) : (o.setBuf f b).buf f = b := by simp [Obj.setBuf]
@[simp] theorem Obj.setBuf_buf_ne (o : Obj) {f g : Nat} (b : Bytes) (h : g ≠ f) : (o.setBuf f b).buf g = o.buf g := by
  simp [Obj.setBuf, h]

inductive Expr where
  | const (n : Nat)
  | fld (f : FieldId)
  | bsize (f : FieldId) (ew : Nat)          -- container.size() in elements of `ew` bytes
  | add (a b : Expr)
  | mul (a b : Expr)
  | sub (w : Nat) (a b : Expr)              -- wraps at `w` bytes
  | div (a b : Expr)
  | mod (a b : Expr)
  | band (a b : Expr)
  | bor (a b : Expr)
  | bnot (w : Nat) (a : Expr)
  | cast (w : Nat) (a : Expr)
  | ite (c a b : Expr)
  | lt (a b : Expr) | le (a b : Expr) | eq (a b : Expr) | ne (a b : Expr)
  | and (a b : Expr) | or (a b : Expr) | not (a : Expr)
  deriving DecidableEq, Repr, Inhabited

def b2n (b : Bool) : Nat := if b then 1 else 0

def Expr.eval (o : Obj) : Expr → Nat
  | .const n => n
  | .fld f => o.num f
  | .bsize f ew => (o.buf f).length / ew
  | .add a b => a.eval o + b.eval o
  | .mul a b => a.eval o * b.eval o
  | .sub w a b => (a.eval o % 256 ^ w + 256 ^ w - b.eval o % 256 ^ w) % 256 ^ w
  | .div a b => a.eval o / b.eval o
  | .mod a b => a.eval o % b.eval o
  | .band a b => a.eval o &&& b.eval o
  | .bor a b => a.eval o ||| b.eval o
  | .bnot w a => (256 ^ w - 1) ^^^ (a.eval o % 256 ^ w)
  | .cast w a => a.eval o % 256 ^ w
  | .ite c a b => if c.eval o ≠ 0 then a.eval o else b.eval o
  | .lt a b => b2n (a.eval o < b.eval o)
  | .le a b => b2n (a.eval o ≤ b.eval o)
  | .eq a b => b2n (a.eval o = b.eval o)
  | .ne a b => b2n (a.eval o ≠ b.eval o)
  | .and a b => b2n (a.eval o ≠ 0 ∧ b.eval o ≠ 0)
  | .or a b => b2n (a.eval o ≠ 0 ∨ b.eval o ≠ 0)
  | .not a => b2n (a.eval o = 0)

inductive Stmt where
  | skip
  | seq (a b : Stmt)
  | sync (sigF : FieldId)                        -- ObjectHeaderBase::read's signature search
  | rd (f : FieldId) (w : Nat)                   -- is.read(&f, w)
  | rdBuf (f : FieldId) (n : Expr)               -- is.read(f.data(), n)
  | resize (f : FieldId) (ew : Nat) (n : Expr)   -- f.resize(n)   (elements of ew bytes)
  | seekg (n : Expr)                             -- is.seekg(n, cur)
  | wr (f : FieldId) (w : Nat)
  | wrBuf (f : FieldId) (n : Expr)
  | skipp (n : Expr)
  | assign (f : FieldId) (e : Expr)
  | ite (c : Expr) (t e : Stmt)
  | ret
  deriving DecidableEq, Repr, Inhabited

/-- right-nested sequence of a statement list -/
def Stmt.block : List Stmt → Stmt
  | [] => .skip
  | s :: l => .seq s (Stmt.block l)

inductive Halt where
  | none | ret | exc | oob | badAlloc
  deriving DecidableEq, Repr, Inhabited

structure Cfg where
  cap : Nat := 268435456      -- allocation cap in bytes
  sticky : Bool := false      -- std::fstream-like flags (CompressedFile) instead of UncompressedFile

structure St where
  obj : Obj
  inp : Bytes := []
  pos : Nat := 0
  good : Bool := true
  eof : Bool := false
  short : Bool := false       -- ghost: some read came back short
  out : Bytes := []
  halt : Halt := .none

def SIG : Nat := 0x4A424F4C   -- "LOBJ"

/-- the stream's `read(s, n)`: returns the bytes obtained -/
def St.sread (cfg : Cfg) (st : St) (n : Nat) : Bytes × St :=
  if cfg.sticky && !st.good then ([], { st with short := st.short || decide (0 < n) })
  else if n = 0 ∧ !cfg.sticky then ([], st)     -- UncompressedFile::read(s, 0) leaves the state as it is
  else if st.pos + n ≤ st.inp.length then
    ((st.inp.drop st.pos).take n, { st with pos := st.pos + n, good := true, eof := false })
  else
    (st.inp.drop st.pos, { st with pos := st.inp.length, good := false, eof := true, short := true })

/-- `seekg(off, cur)` for `off ≥ 0` -/
def St.sseek (cfg : Cfg) (st : St) (off : Nat) : St :=
  if cfg.sticky && !st.good then st
  else { st with pos := min (st.pos + off) st.inp.length }

/-- seek back by `k` (only used by `sync`, after a complete 4-byte read) -/
def St.sback (st : St) (k : Nat) : St := { st with pos := st.pos - k }

/-- overwrite the low bytes of a `w`-byte scalar with the bytes obtained -/
def scalarMerge (w old : Nat) (got : Bytes) : Nat :=
  leVal (got.take w ++ (leBytes w old).drop got.length)

/-- The `while (tmp != ObjectSignature)` loop of `ObjectHeaderBase::read`, with `tmp` carried. -/
def syncLoop (cfg : Cfg) (sigF : FieldId) : Nat → Nat → St → St
  | 0, _, st => { st with halt := .exc }
  | fuel+1, tmp, st =>
    let (got, st1) := st.sread cfg 4
    let tmp1 := scalarMerge 4 tmp got
    if tmp1 = SIG then { st1 with obj := st1.obj.setNum sigF tmp1 }
    else if st1.eof || decide (got.length < 4) then { st1 with halt := .exc }   -- is.eof() || is.gcount() < 4
    else
      let st2 :=
        if tmp1 / 256 % 16777216 = 0x424F4C then st1.sback 3        -- (0xffffff00 & tmp) == 0x424f4c00
        else if tmp1 / 65536 % 65536 = 0x4F4C then st1.sback 2      -- (0xffff0000 & tmp) == 0x4f4c0000
        else if tmp1 / 16777216 % 256 = 0x4C then st1.sback 1       -- (0xff000000 & tmp) == 0x4c000000
        else st1
      syncLoop cfg sigF fuel tmp1 st2

def Stmt.exec (cfg : Cfg) : Stmt → St → St
  | .skip, st => st
  | .seq a b, st =>
    let st1 := a.exec cfg st
    if st1.halt = .none then b.exec cfg st1 else st1
  | .sync sigF, st => syncLoop cfg sigF (st.inp.length - st.pos + 2) 0 st
  | .rd f w, st =>
    let (got, st1) := st.sread cfg w
    { st1 with obj := st1.obj.setNum f (scalarMerge w (st.obj.num f) got) }
  | .rdBuf f n, st =>
    let nb := n.eval st.obj
    if (st.obj.buf f).length < nb then { st with halt := .oob }
    else
      let (got, st1) := st.sread cfg nb
      { st1 with obj := st1.obj.setBuf f (got ++ (st.obj.buf f).drop got.length) }
  | .resize f ew n, st =>
    let nb := n.eval st.obj * ew
    if cfg.cap < nb then { st with halt := .badAlloc }
    else { st with obj := st.obj.setBuf f ((st.obj.buf f).take nb ++ zeros (nb - (st.obj.buf f).length)) }
  | .seekg n, st => st.sseek cfg (n.eval st.obj)
  | .wr f w, st => { st with out := st.out ++ leBytes w (st.obj.num f) }
  | .wrBuf f n, st =>
    let nb := n.eval st.obj
    if (st.obj.buf f).length < nb then { st with halt := .oob }
    else { st with out := st.out ++ (st.obj.buf f).take nb }
  | .skipp n, st => { st with out := st.out ++ zeros (n.eval st.obj) }
  | .assign f e, st => { st with obj := st.obj.setNum f (e.eval st.obj) }
  | .ite c t e, st => if c.eval st.obj ≠ 0 then t.exec cfg st else e.exec cfg st
  | .ret, st => { st with halt := .ret }

/-- kinds of fields of a class, as the translator sees them -/
inductive FKind where
  | num (w : Nat)          -- scalar of w bytes
  | arr (n : Nat) (ew : Nat)   -- std::array, n bytes in total, element width ew
  | vec (ew : Nat)         -- std::vector / std::string / std::u16string, element width ew
  deriving DecidableEq, Repr, Inhabited

structure FieldInfo where
  name : String
  kind : FKind
  hasInit : Bool           -- has a default member initialiser / constructor initialiser
  dflt : Nat := 0          -- default value (scalars)
  deriving Repr, Inhabited, DecidableEq

structure Codec where
  name : String
  fields : List FieldInfo      -- field id = index in this list
  readProg : Stmt
  writeProg : Stmt
  sizeExpr : Expr              -- calculateObjectSize()
  hdrSizeExpr : Expr           -- calculateHeaderSize()
  ctorType : Nat               -- ObjectType passed by the default constructor
  deriving Repr, Inhabited, DecidableEq

/-- the object a default constructor produces (indeterminate members read as their `dflt`, which the
    translator sets to 0; determinacy is a separate obligation, C17) -/
def Codec.fresh (c : Codec) : Obj where
  num := fun f => match c.fields[f]? with
    | some fi => fi.dflt
    | none => 0
  buf := fun f => match c.fields[f]? with
    | some fi => match fi.kind with
      | .arr n _ => zeros n
      | _ => []
    | none => []

def Codec.encode (cfg : Cfg) (c : Codec) (o : Obj) : St := c.writeProg.exec cfg { obj := o }
def Codec.decode (cfg : Cfg) (c : Codec) (o0 : Obj) (b : Bytes) : St := c.readProg.exec cfg { obj := o0, inp := b }

end Blf
