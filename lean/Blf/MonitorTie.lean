import Blf.Queue
import Blf.Queue32
import Blf.Pipe
import Blf.Gen.Monitors
import Blf.Gen.Guards
/-!
# The notify / wait tables of the models are the tables of the source  (tie T for the monitors)

`Blf.Gen.Monitors` is regenerated from the clang AST on every run: for each method of `ObjectQueue<T>` and
`UncompressedFile`, which condition variables it notifies — a notification behind an `if`, a loop or an early `return`
is marked `?` — and which one it waits on.  The theorems below state that these are the tables the models use
(`Blf.Queue.notifies`, `Blf.Queue.waitsOn`, `Blf.Pipe.uNotifies`, `Blf.Pipe.uWaitsOn`): the *no lost wake-up* invariants
of `Blf.QueueConc`, `Blf.Pipe` and `Blf.WPipe` are proved about exactly these tables.

The wait predicates: `Blf.Gen.Guards` holds the predicate of every `wait` call translated from the AST into a Boolean
function of the model state (mathematical integers; a cast to an unsigned type is a reduction modulo 2^width).  The
`*_guard` theorems state that these are the guards of the models (`Queue.guard`, `UFile.guardRead`, `UFile.guardWrite`,
`UFile.guardWriteCont`, and through `Pipe.up_guard*` the guards `Pipe`/`WPipe` step on) — for the object queue under the
hypothesis that fewer than 2^32 objects are queued (the code casts `m_queue.size()` to `uint32_t`), and without any hypothesis
against `Queue.guard32`, the guards of the machine with the code's 32-bit arithmetic (`queue_*_guard32`).  A
rewrite of a predicate that keeps its meaning keeps these theorems provable (they are closed by case analysis and `omega`,
not by syntactic identity); a change of meaning breaks them.  Dynamically the guards are exercised by the blocking and
`demand` probes of the `qseq` / `useq` correspondence.
-/
namespace Blf.MonitorTie
open Blf.Queue (CV)

def cvName : CV → String
  | .tellg => "tellgChanged"
  | .tellp => "tellpChanged"

def lookup (k : String) : List (String × List String) → Option (List String)
  | [] => none
  | (a, b) :: l => if a = k then some b else lookup k l

def qName : Queue.Op → String
  | .read => "read"
  | .write _ => "write"
  | .abort => "abort"
  | .setFileSize _ => "setFileSize"
  | .setBufferSize _ => "setBufferSize"

/-- `ObjectQueue<T>`: every method notifies, unconditionally, exactly the condition variables of `Queue.notifies` -/
theorem queue_notifies (op : Queue.Op) : lookup (qName op) Gen.queueNotifies = some ((Queue.notifies op).map cvName) := by
  cases op <;> simp only [qName, Queue.notifies, Queue.waitsOn] <;> decide

theorem queue_waits (op : Queue.Op) :
    lookup (qName op) Gen.queueWaits = some ((Queue.waitsOn op).toList.map cvName) := by
  cases op <;> simp only [qName, Queue.notifies, Queue.waitsOn] <;> decide

def uName : Pipe.UMeth → String
  | .read => "read"
  | .seekg => "seekg"
  | .writeBytes => "write"
  | .writeCont => "write#1"
  | .setFileSize => "setFileSize"
  | .abort => "abort"
  | .dropOldData => "dropOldData"

/-- `UncompressedFile`: likewise for `Pipe.uNotifies` -/
theorem ufile_notifies (m : Pipe.UMeth) : lookup (uName m) Gen.ufileNotifies = some ((Pipe.uNotifies m).map cvName) := by
  cases m <;> decide

theorem ufile_waits (m : Pipe.UMeth) : lookup (uName m) Gen.ufileWaits = some ((Pipe.uWaitsOn m).toList.map cvName) := by
  cases m <;> decide

/-! ## the wait predicates -/

/-- equality of two guards: Boolean structure by `simp`, the arithmetic by `omega` (independent of the order of the disjuncts and of
    how a comparison is written) -/
macro "guard_eq" : tactic => `(tactic| (
  rw [Bool.eq_iff_iff]
  try simp only [Bool.or_eq_true, Bool.and_eq_true, Bool.not_eq_true', decide_eq_true_eq, decide_eq_false_iff_not,
    Bool.false_eq_true, Bool.true_eq_false, false_or, or_false, true_or, or_true, false_and, and_false, true_and, and_true,
    Bool.not_true, Bool.not_false, iff_self, not_true_eq_false, not_false_eq_true]
  first | done | omega))

theorem queue_read_guard (s : Queue.State) : Gen.queueGuard_read s = Queue.guard s .read := by
  unfold Gen.queueGuard_read Queue.guard
  cases s.abort <;> cases s.queue.isEmpty <;> guard_eq

theorem queue_write_guard (s : Queue.State) (x : Nat) (h : s.queue.length < 4294967296) :
    Gen.queueGuard_write s = Queue.guard s (.write x) := by
  unfold Gen.queueGuard_write Queue.guard
  cases s.abort <;> guard_eq

/-- the same two predicates against the machine with the code's `uint32_t` arithmetic (`Blf/Queue32.lean`, the one the driver
    executes): no hypothesis on the number of queued objects — the translated cast *is* the reduction `guard32` applies -/
theorem queue_write_guard32 (s : Queue.State) (x : Nat) : Gen.queueGuard_write s = Queue.guard32 s (.write x) := by
  unfold Gen.queueGuard_write Queue.guard32 Queue.W
  cases s.abort <;> guard_eq

theorem queue_read_guard32 (s : Queue.State) : Gen.queueGuard_read s = Queue.guard32 s .read := by
  unfold Gen.queueGuard_read Queue.guard32
  cases s.abort <;> cases s.queue.isEmpty <;> guard_eq

theorem ufile_read_guard (s : UFile.State) (n : Nat) : Gen.ufileGuard_read s (n : Int) = UFile.guardRead s n := by
  unfold Gen.ufileGuard_read UFile.guardRead
  cases s.abort <;> guard_eq

theorem ufile_write_guard (s : UFile.State) : Gen.ufileGuard_write s = UFile.guardWrite s := by
  unfold Gen.ufileGuard_write UFile.guardWrite
  cases s.abort <;> guard_eq

theorem ufile_writeCont_guard (s : UFile.State) : Gen.ufileGuard_write1 s = UFile.guardWriteCont s := by
  unfold Gen.ufileGuard_write1 UFile.guardWriteCont
  cases s.abort <;> guard_eq

end Blf.MonitorTie
