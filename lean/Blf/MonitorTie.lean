import Blf.Queue
import Blf.Pipe
import Blf.Gen.Monitors
/-!
# The notify / wait tables of the models are the tables of the source  (tie T for the monitors)

`Blf.Gen.Monitors` is regenerated from the clang AST on every run: for each method of `ObjectQueue<T>` and
`UncompressedFile`, which condition variables it notifies — a notification behind an `if`, a loop or an early `return`
is marked `?` — and which one it waits on.  The theorems below state that these are the tables the models use
(`Blf.Queue.notifies`, `Blf.Queue.waitsOn`, `Blf.Pipe.uNotifies`, `Blf.Pipe.uWaitsOn`): the *no lost wake-up* invariants
of `Blf.QueueConc`, `Blf.Pipe` and `Blf.WPipe` are proved about exactly these tables.  The wait predicates themselves are
compared as shapes with a recorded hash (`spec/monitors_golden.json`) and dynamically (`qseq`, `useq`, `demand` probes).
-/
namespace Blf.MonitorTie
open Blf.Queue (CV)

def cvName : CV → String
  | .tellg => "tellgChanged"
  | .tellp => "tellpChanged"

def lookup (k : String) : List (String × List String) → Option (List String)
  | [] => none
  | (a, b) :: l => if a = k then some b else lookup k l

def qName : Queue.Op → String
  | .read => "read"
  | .write _ => "write"
  | .abort => "abort"
  | .setFileSize _ => "setFileSize"
  | .setBufferSize _ => "setBufferSize"

/-- `ObjectQueue<T>`: every method notifies, unconditionally, exactly the condition variables of `Queue.notifies` -/
theorem queue_notifies (op : Queue.Op) : lookup (qName op) Gen.queueNotifies = some ((Queue.notifies op).map cvName) := by
  cases op <;> simp only [qName, Queue.notifies, Queue.waitsOn] <;> decide

theorem queue_waits (op : Queue.Op) :
    lookup (qName op) Gen.queueWaits = some ((Queue.waitsOn op).toList.map cvName) := by
  cases op <;> simp only [qName, Queue.notifies, Queue.waitsOn] <;> decide

def uName : Pipe.UMeth → String
  | .read => "read"
  | .seekg => "seekg"
  | .writeBytes => "write"
  | .writeCont => "write#1"
  | .setFileSize => "setFileSize"
  | .abort => "abort"
  | .dropOldData => "dropOldData"

/-- `UncompressedFile`: likewise for `Pipe.uNotifies` -/
theorem ufile_notifies (m : Pipe.UMeth) : lookup (uName m) Gen.ufileNotifies = some ((Pipe.uNotifies m).map cvName) := by
  cases m <;> decide

theorem ufile_waits (m : Pipe.UMeth) : lookup (uName m) Gen.ufileWaits = some ((Pipe.uWaitsOn m).toList.map cvName) := by
  cases m <;> decide

end Blf.MonitorTie
