import Blf.UFileWrite
/-!
# The byte writer refines a flat byte queue (C15, write sessions)

`BW D b s w`: `w` is the ghost string of every byte written so far; the containers held (`WInvAt`) spell `w` from the start
`b` of the held data up to the put position (behind it the pre-allocated zeros), no model flag (`oob`, `hang`) is raised.
`write` appends exactly its argument (`write_bw`, which also shows that the fuel of the copy loop suffices and that the loop
never touches a vector outside its bounds), `read` of bytes that are there returns exactly `w[tellg, tellg+n)` (`read_bw`),
`dropOldData` keeps everything from `min tellg tellp` on (`drop_bw`).  `session_fifo`: in every session of writes, admitted
reads and drops the reads return, one after the other, the bytes written, in order, whatever the chunking and the container
size.
-/
namespace Blf.UFile

theorem chain_split : ∀ (a r : List Cont) (b e : Int), Chain (a ++ r) b e → ∃ m, Chain a b m ∧ Chain r m e
  | [], r, b, e, h => ⟨b, rfl, h⟩
  | c :: a, r, b, e, h => by
    obtain ⟨m, h1, h2⟩ := chain_split a r _ e h.2.2
    exact ⟨m, ⟨h.1, h.2.1, h1⟩, h2⟩

theorem chain_join : ∀ (a r : List Cont) (b m e : Int), Chain a b m → Chain r m e → Chain (a ++ r) b e
  | [], r, b, m, e, h1, h2 => by simp only [Chain] at h1; subst h1; exact h2
  | c :: a, r, b, m, e, h1, h2 => ⟨h1.1, h1.2.1, chain_join a r _ m e h1.2.2 h2⟩

/-- the container found for a position in a chain splits the list -/
theorem go_split (p : Int) : ∀ (l : List Cont) (b e : Int) (i j : Nat) (c : Cont), Chain l b e →
    containing.go p l i = some (j, c) →
    ∃ pre post, l = pre ++ c :: post ∧ j - i = pre.length ∧ i ≤ j ∧ Chain pre b c.pos ∧ Chain post (c.pos + c.size) e ∧
      c.data.length = c.size ∧ c.pos ≤ p ∧ p < c.pos + c.size
  | [], _, _, _, _, _, _, hg => by simp [containing.go] at hg
  | d :: l, b, e, i, j, c, h, hg => by
    simp only [containing.go] at hg
    by_cases hc : d.contains p = true
    · simp only [hc, if_true, Option.some.injEq, Prod.mk.injEq] at hg
      obtain ⟨rfl, rfl⟩ := hg
      simp only [Cont.contains, Bool.and_eq_true, decide_eq_true_eq] at hc
      exact ⟨[], l, rfl, by simp, Nat.le_refl _, h.1.symm, by rw [h.1]; exact h.2.2, h.2.1, hc.1, by omega⟩
    · simp only [hc, Bool.false_eq_true, if_false] at hg
      obtain ⟨pre, post, hl, hj, hij, h1, h2, h3, h4, h5⟩ := go_split p l _ e (i + 1) j c h.2.2 hg
      refine ⟨d :: pre, post, by rw [hl]; rfl, by simp only [List.length_cons]; omega, by omega, ⟨h.1, h.2.1, h1⟩, h2, h3, h4, h5⟩

theorem take_len_add {α : Type} : ∀ (l₁ l₂ : List α) (i : Nat), (l₁ ++ l₂).take (l₁.length + i) = l₁ ++ l₂.take i
  | [], _, _ => by simp
  | x :: l₁, l₂, i => by
    have := take_len_add l₁ l₂ i
    simp only [List.cons_append, List.length_cons, Nat.succ_add, List.take_succ_cons, this]

theorem take_left_len {α : Type} (l₁ l₂ : List α) {n : Nat} (h : l₁.length = n) : (l₁ ++ l₂).take n = l₁ := by
  subst h; simp

theorem replaceAt_append_last (l : List Cont) (c0 c1 : Cont) : replaceAt (l ++ [c0]) l.length c1 = l ++ [c1] := by
  simp only [replaceAt]
  rw [List.set_append_right _ _ (Nat.le_refl _)]
  simp

theorem replaceAt_mid (pre post : List Cont) (c c' : Cont) : replaceAt (pre ++ c :: post) pre.length c' = pre ++ c' :: post := by
  simp only [replaceAt]
  rw [List.set_append_right _ _ (Nat.le_refl _)]
  simp

structure BW (D : Nat) (b : Int) (s : State) (w : Bytes) : Prop where
  inv : WInvAt D b s
  bnn : 0 ≤ b
  tp : s.tellp = w.length
  content : (flat s.data).take (s.tellp - b).toNat = w.drop b.toNat
  noOob : s.oob = false
  noHang : s.hang = false

theorem bw_init (D : Nat) (hD : 0 < D) : BW D 0 { dlcs := D } [] :=
  ⟨winv_init D hD, Int.le_refl _, rfl, rfl, rfl, rfl⟩

/-- the copy loop of `write`, with fuel for one iteration per byte, appends exactly `bs` -/
theorem writeLoop_bw (D : Nat) (hD : 0 < D) (b : Int) : ∀ (fuel : Nat) (s : State) (bs w : Bytes), BW D b s w →
    bs.length < fuel → BW D b (writeLoop fuel s bs) (w ++ bs)
  | 0, _, _, _, _, hf => by omega
  | fuel+1, s, bs, w, h, hf => by
    obtain ⟨⟨hdl, e, hch, hb, h1, h2, hsz⟩, hbn, htp, hcont, ho, hh⟩ := h
    simp only [writeLoop]
    split
    · rename_i hemp
      have : bs = [] := by cases bs with | nil => rfl | cons x xs => simp at hemp
      subst this
      simp only [List.append_nil]
      exact ⟨⟨hdl, e, hch, hb, h1, h2, hsz⟩, hbn, htp, hcont, ho, hh⟩
    · rename_i hne
      have hlen : 0 < bs.length := by
        cases bs with
        | nil => simp at hne
        | cons x xs => simp
      have hfl := chain_flat_length s.data b e hch
      split
      · rename_i hnone
        have hte : s.tellp = e := by
          by_cases hlt : s.tellp < e
          · obtain ⟨j, c, rest, hg, _⟩ := go_chain s.tellp s.data b e 0 hch hb hlt
            simp only [containing] at hnone
            rw [hg] at hnone; cases hnone
          · omega
        have hbe : backEnd s.data = none ∨ backEnd s.data = some s.tellp := by
          by_cases hem : s.data = []
          · left; rw [hem]; rfl
          · right; rw [chain_backEnd s.data b e hch hem, hte]
        rcases hbe with hbe | hbe
        all_goals
          simp only [hbe, Int.sub_self]
          have hpc : min (bs.length : Int) ((s.dlcs : Int) - 0) > 0 := by
            rw [hdl]; omega
          rw [if_pos hpc, if_neg (by omega)]
          have hk : (min (bs.length : Int) ((s.dlcs : Int) - 0)).toNat = min bs.length D := by rw [hdl]; omega
          have hw : w ++ bs = (w ++ bs.take (min bs.length D)) ++ bs.drop (min bs.length D) := by
            rw [List.append_assoc, List.take_append_drop]
          rw [hw, hk]
          apply writeLoop_bw D hD b fuel
          · rw [replaceAt_append_last]
            simp only [Int.toNat_zero, List.take_zero, List.nil_append, Nat.zero_add]
            have hclen : (List.take (min bs.length D) bs ++ List.drop (min bs.length D) (zeros s.dlcs)).length = s.dlcs := by
              simp only [List.length_append, List.length_take, List.length_drop, zeros, List.length_replicate]
              omega
            refine ⟨⟨hdl, e + D, ?_, ?_, ?_, ?_, ?_⟩, hbn, ?_, ?_, ho, hh⟩
            · have hca := chain_append s.data b e { pos := s.tellp, size := s.dlcs, data := List.take (min bs.length D) bs ++ List.drop (min bs.length D) (zeros s.dlcs) } hch hte hclen
              simp only [hdl] at hca ⊢
              exact hca
            · show b ≤ s.tellp + ((min bs.length D : Nat) : Int); omega
            · show s.tellp + ((min bs.length D : Nat) : Int) ≤ e + D; omega
            · show e + (D : Int) < s.tellp + ((min bs.length D : Nat) : Int) + D; omega
            · intro c hc
              simp only [List.mem_append, List.mem_singleton] at hc
              rcases hc with hc | hc
              · exact hsz c hc
              · rw [hc]; exact hdl
            · show s.tellp + ((min bs.length D : Nat) : Int) = ((w ++ bs.take (min bs.length D)).length : Nat)
              simp only [List.length_append, List.length_take]
              omega
            · show (flat (s.data ++ [_])).take (s.tellp + ((min bs.length D : Nat) : Int) - b).toNat = _
              rw [flat_append]
              have hfl' : (flat s.data).length = (s.tellp - b).toNat := by omega
              have e1 : (s.tellp + ((min bs.length D : Nat) : Int) - b).toNat = (flat s.data).length + min bs.length D := by omega
              have hc0 : flat s.data = w.drop b.toNat := by
                rw [← hcont, ← hfl', List.take_length]
              simp only [flat, List.append_nil]
              rw [e1, take_len_add, take_left_len _ _ (by simp only [List.length_take]; omega), hc0]
              rw [List.drop_append_of_le_length (by omega)]
          · simp only [List.length_drop]; omega
      · rename_i i c hsome
        simp only [containing] at hsome
        obtain ⟨pre, post, hl, hj, _, hpre, hpost, hcl, hcp, hcq⟩ := go_split s.tellp s.data b e 0 i c hch hsome
        have hpl := chain_flat_length pre b c.pos hpre
        have hpe := chain_le post _ _ hpost
        have hk0 : 0 < min bs.length (c.size - (s.tellp - c.pos).toNat) := by omega
        rw [if_pos hk0, if_neg (by rw [hcl]; omega)]
        generalize hk : min bs.length (c.size - (s.tellp - c.pos).toNat) = k at *
        generalize hoff : (s.tellp - c.pos).toNat = off at *
        have hw : w ++ bs = (w ++ bs.take k) ++ bs.drop k := by rw [List.append_assoc, List.take_append_drop]
        rw [hw]
        apply writeLoop_bw D hD b fuel
        · have hi : i = pre.length := by omega
          rw [hl, hi, replaceAt_mid]
          have hclen : (c.data.take off ++ bs.take k ++ c.data.drop (off + k)).length = c.size := by
            simp only [List.length_append, List.length_take, List.length_drop]
            omega
          refine ⟨⟨hdl, e, ?_, ?_, ?_, ?_, ?_⟩, hbn, ?_, ?_, ho, hh⟩
          · exact chain_join pre _ b c.pos e hpre ⟨rfl, hclen, hpost⟩
          · show b ≤ s.tellp + (k : Int); omega
          · show s.tellp + (k : Int) ≤ e; omega
          · show e < s.tellp + (k : Int) + D; omega
          · intro x hx
            simp only [List.mem_append, List.mem_cons] at hx
            rcases hx with hx | hx | hx
            · exact hsz x (by rw [hl]; simp [hx])
            · rw [hx]; exact hsz c (by rw [hl]; simp)
            · exact hsz x (by rw [hl]; simp [hx])
          · show s.tellp + (k : Int) = ((w ++ bs.take k).length : Nat)
            simp only [List.length_append, List.length_take]
            omega
          · show (flat (pre ++ _ :: post)).take (s.tellp + (k : Int) - b).toNat = _
            have hold : (flat pre ++ c.data.take off) = w.drop b.toNat := by
              rw [← hcont, hl, flat_append]
              have e1 : (s.tellp - b).toNat = (flat pre).length + off := by omega
              simp only [flat]
              rw [e1, take_len_add, List.take_append_of_le_length (by omega)]
            rw [flat_append]
            have e2 : (s.tellp + (k : Int) - b).toNat = (flat pre).length + (off + k) := by omega
            simp only [flat]
            rw [e2, take_len_add]
            have e3 : (c.data.take off ++ bs.take k ++ c.data.drop (off + k) ++ flat post).take (off + k) =
                c.data.take off ++ bs.take k := by
              rw [List.append_assoc]
              exact take_left_len _ _ (by simp only [List.length_append, List.length_take]; omega)
            rw [e3, ← List.append_assoc, hold]
            rw [List.drop_append_of_le_length (by omega)]
        · simp only [List.length_drop]; omega

/-- **`write` appends exactly its argument** (the fuel of the model's copy loop suffices, no vector is touched outside its
    bounds, the held containers stay a contiguous run that spells the bytes written) -/
theorem write_bw (D : Nat) (hD : 0 < D) (b : Int) (s : State) (bs w : Bytes) (h : BW D b s w) :
    BW D b (write s bs) (w ++ bs) := by
  have key := writeLoop_bw D hD b (2 * bs.length + (if s.dlcs = 0 then 0 else s.tellp.toNat / s.dlcs) + 4) s bs w h (by omega)
  unfold write
  generalize (2 * bs.length + (if s.dlcs = 0 then 0 else s.tellp.toNat / s.dlcs) + 4) = fuel at key
  dsimp only
  split
  · exact ⟨key.inv, key.bnn, key.tp, key.content, key.noOob, key.noHang⟩
  · exact key

/-- the copy loop of `read` on a state that differs from `s` in flags only -/
theorem readLoop_bw (D : Nat) (b : Int) (s s1 : State) (w : Bytes) (h : BW D b s w) (hd : s1.data = s.data)
    (htg : s1.tellg = s.tellg) (hg : b ≤ s.tellg) (n : Nat) (hn : (n : Int) + s.tellg ≤ s.tellp) :
    readLoop (n + 1) s1 (n : Int) [] =
      ({ s1 with gcount := s1.gcount + n, tellg := s.tellg + (n : Nat) }, (w.drop s.tellg.toNat).take n) := by
  obtain ⟨⟨hdl, e, hch, hb, h1, h2, hsz⟩, hbn, htp, hcont, ho, hh⟩ := h
  have := readLoop_spec b e (n + 1) s1 (n : Int) [] (by rw [hd]; exact hch) (by rw [htg]; exact hg) (by rw [htg]; omega) (by omega)
  rw [this, htg, hd]
  have hm : min (n : Int).toNat (e - s.tellg).toNat = n := by omega
  rw [hm]
  simp only [List.nil_append]
  congr 1
  -- the bytes
  have e1 : ((flat s.data).drop (s.tellg - b).toNat).take n =
      (((flat s.data).take (s.tellp - b).toNat).drop (s.tellg - b).toNat).take n := by
    rw [List.drop_take, List.take_take]
    congr 1
    omega
  rw [e1, hcont, List.drop_drop]
  congr 2
  omega

/-- **a read of bytes that are there returns exactly the next `n` bytes written**, advances the get position by `n`, and
    keeps the invariant -/
theorem read_bw (D : Nat) (b : Int) (s : State) (w : Bytes) (h : BW D b s w) (hg : b ≤ s.tellg) (n : Nat)
    (hn : (n : Int) + s.tellg ≤ s.tellp) (hfs : s.tellp ≤ s.fileSize) :
    (read s n).2 = (w.drop s.tellg.toNat).take n ∧ (read s n).1.tellg = s.tellg + (n : Nat) ∧
    (read s n).1.gcount = n ∧ (read s n).1.fileSize = s.fileSize ∧ BW D b (read s n).1 w := by
  have hs : ¬ ((n : Int) + s.tellg > s.fileSize) := by omega
  unfold read
  simp only [hs, decide_false, Bool.not_false, Bool.true_and, Bool.false_eq_true, if_false]
  split
  · rw [readLoop_bw D b s { s with gcount := 0, readDemand := 0 } w h rfl rfl hg n hn]
    refine ⟨rfl, rfl, by simp, rfl, ?_⟩
    exact ⟨h.inv, h.bnn, h.tp, h.content, h.noOob, h.noHang⟩
  · rw [readLoop_bw D b s { s with good := true, eof := false, gcount := 0, readDemand := 0 } w h rfl rfl hg n hn]
    refine ⟨rfl, rfl, by simp, rfl, ?_⟩
    exact ⟨h.inv, h.bnn, h.tp, h.content, h.noOob, h.noHang⟩

theorem mem_takeWhile_true {α : Type} (p : α → Bool) : ∀ (l : List α) (x : α), x ∈ l.takeWhile p → p x = true
  | [], _, h => by simp at h
  | a :: l, x, h => by
    simp only [List.takeWhile] at h
    cases hp : p a with
    | true =>
      rw [hp] at h
      simp only [List.mem_cons] at h
      rcases h with h | h
      · rw [h]; exact hp
      · exact mem_takeWhile_true p l x h
    | false => rw [hp] at h; simp at h

/-- dropping leading containers keeps the content from the new start on -/
theorem dropWhile_chain (s : State) : ∀ (l : List Cont) (b e : Int), Chain l b e → b ≤ s.tellp → s.tellp ≤ e →
    ∃ b' dropped, l = dropped ++ l.dropWhile (droppable s) ∧ Chain dropped b b' ∧ Chain (l.dropWhile (droppable s)) b' e ∧
      b ≤ b' ∧ b' ≤ s.tellp
  | [], b, e, h, h1, h2 => ⟨b, [], rfl, rfl, h, Int.le_refl _, h1⟩
  | c :: l, b, e, h, h1, h2 => by
    simp only [List.dropWhile]
    by_cases hd : droppable s c = true
    · simp only [hd]
      have hd' := hd
      simp only [droppable, Bool.not_eq_true', Bool.or_eq_false_iff, decide_eq_false_iff_not, Int.not_lt] at hd'
      obtain ⟨b', dr, hl, hc1, hc2, ha, hb⟩ := dropWhile_chain s l (b + c.size) e h.2.2 (by rw [← h.1]; omega) h2
      exact ⟨b', c :: dr, by rw [List.cons_append, ← hl], ⟨h.1, h.2.1, hc1⟩, hc2, by omega, hb⟩
    · simp only [hd]
      exact ⟨b, [], rfl, rfl, h, Int.le_refl _, h1⟩

theorem drop_bw (D : Nat) (b : Int) (s : State) (w : Bytes) (h : BW D b s w) :
    ∃ b', BW D b' (dropOldData s) w ∧ b ≤ b' ∧ (b' ≤ s.tellg ∨ b' = b) := by
  obtain ⟨⟨hdl, e, hch, hb, h1, h2, hsz⟩, hbn, htp, hcont, ho, hh⟩ := h
  obtain ⟨b', dr, hl, hc1, hc2, hbb, hb'⟩ := dropWhile_chain s s.data b e hch hb h1
  have hsz' : ∀ c ∈ s.data.dropWhile (droppable s), c.size = D := fun c hc' => hsz c (List.dropWhile_sublist _ |>.subset hc')
  refine ⟨b', ⟨⟨hdl, e, hc2, hb', h1, h2, hsz'⟩, by omega, htp, ?_, ho, hh⟩, hbb, ?_⟩
  · show (flat (s.data.dropWhile (droppable s))).take (s.tellp - b').toNat = w.drop b'.toNat
    have hdl' := chain_flat_length dr b b' hc1
    rw [hl, flat_append] at hcont
    have e1 : (s.tellp - b).toNat = (flat dr).length + (s.tellp - b').toNat := by omega
    rw [e1, take_len_add] at hcont
    have : w.drop b'.toNat = (w.drop b.toNat).drop (flat dr).length := by
      rw [List.drop_drop]; congr 1; omega
    rw [this, ← hcont, List.drop_left]
  · -- the new start is behind the old one only if a container was dropped, and a dropped container ends at or before tellg
    cases dr with
    | nil => right; simp only [Chain] at hc1; omega
    | cons c dr' =>
      left
      -- every dropped container is droppable: its end is ≤ tellg; the last one ends at b'
      have : ∀ (l : List Cont) (x y : Int), Chain l x y → (∀ c ∈ l, droppable s c = true) → l ≠ [] → y ≤ s.tellg := by
        intro l
        induction l with
        | nil => intro x y _ _ hne; exact absurd rfl hne
        | cons d l ih =>
          intro x y hc hall _
          cases l with
          | nil =>
            have hd := hall d (by simp)
            simp only [droppable, Bool.not_eq_true', Bool.or_eq_false_iff, decide_eq_false_iff_not, Int.not_lt] at hd
            have := hc.2.2; simp only [Chain] at this
            have := hc.1; omega
          | cons d2 l2 => exact ih _ y hc.2.2 (fun c hc' => hall c (by simp [hc'])) (by simp)
      refine this (c :: dr') b b' hc1 ?_ (by simp)
      intro x hx
      have hx' : x ∈ s.data.takeWhile (droppable s) := by
        have htw := List.takeWhile_append_dropWhile (p := droppable s) (l := s.data)
        have : (c :: dr') = s.data.takeWhile (droppable s) := by
          have h3 : (c :: dr') ++ s.data.dropWhile (droppable s) = s.data.takeWhile (droppable s) ++ s.data.dropWhile (droppable s) := by
            rw [htw, ← hl]
          exact List.append_cancel_right h3
        rw [← this]; exact hx
      exact mem_takeWhile_true _ _ _ hx'

/-! ## every write session is a byte FIFO -/

theorem writeLoop_tellg : ∀ (fuel : Nat) (s : State) (bs : Bytes), (writeLoop fuel s bs).tellg = s.tellg
  | 0, s, bs => by simp only [writeLoop]; split <;> rfl
  | fuel+1, s, bs => by
    simp only [writeLoop]
    repeat' split
    all_goals first | rfl | rw [writeLoop_tellg fuel]

theorem write_tellg (s : State) (bs : Bytes) : (write s bs).tellg = s.tellg := by
  unfold write
  generalize (2 * bs.length + (if s.dlcs = 0 then 0 else s.tellp.toNat / s.dlcs) + 4) = fuel
  dsimp only
  split
  · exact writeLoop_tellg fuel s bs
  · exact writeLoop_tellg fuel s bs

inductive BOp where
  | write (bs : Bytes)
  | read (n : Nat)      -- admitted by its guard only when the bytes are there; a read that would block does not happen
  | drop

/-- state, bytes returned by the reads so far, bytes written so far -/
def bstep (x : State × Bytes × Bytes) : BOp → State × Bytes × Bytes
  | .write bs => (write x.1 bs, x.2.1, x.2.2 ++ bs)
  | .read n => if (n : Int) + x.1.tellg ≤ x.1.tellp then ((read x.1 n).1, x.2.1 ++ (read x.1 n).2, x.2.2) else x
  | .drop => (dropOldData x.1, x.2.1, x.2.2)

structure SInv (D : Nat) (x : State × Bytes × Bytes) : Prop where
  bw : ∃ b, BW D b x.1 x.2.2 ∧ b ≤ x.1.tellg
  gnn : 0 ≤ x.1.tellg
  gp : x.1.tellg ≤ x.1.tellp
  fs : x.1.tellp ≤ x.1.fileSize
  out : x.2.1 = x.2.2.take x.1.tellg.toNat

theorem sinv_step (D : Nat) (hD : 0 < D) (x : State × Bytes × Bytes) (op : BOp) (h : SInv D x) : SInv D (bstep x op) := by
  obtain ⟨⟨b, hbw, hbg⟩, hgnn, hgp, hfs, hout⟩ := h
  cases op with
  | write bs =>
    have hw := write_bw D hD b x.1 bs x.2.2 hbw
    have htg := write_tellg x.1 bs
    have htp : (write x.1 bs).tellp = ((x.2.2 ++ bs).length : Nat) := hw.tp
    have htp0 : x.1.tellp = (x.2.2.length : Nat) := hbw.tp
    refine ⟨⟨b, hw, by show b ≤ (write x.1 bs).tellg; rw [htg]; exact hbg⟩, by show 0 ≤ (write x.1 bs).tellg; rw [htg]; exact hgnn, ?_, write_fs x.1 bs hfs, ?_⟩
    · show (write x.1 bs).tellg ≤ (write x.1 bs).tellp
      rw [htg, htp]; simp only [List.length_append]; omega
    · show x.2.1 = (x.2.2 ++ bs).take (write x.1 bs).tellg.toNat
      rw [htg, hout, List.take_append_of_le_length (by omega)]
  | read n =>
    simp only [bstep]
    split
    · rename_i hn
      obtain ⟨hbytes, htg, _, hfsz, hbw'⟩ := read_bw D b x.1 x.2.2 hbw hbg n hn hfs
      have htp : (read x.1 n).1.tellp = x.1.tellp := by rw [hbw'.tp, hbw.tp]
      refine ⟨⟨b, hbw', by rw [htg]; omega⟩, by rw [htg]; omega, by rw [htg, htp]; omega, by rw [htp, hfsz]; exact hfs, ?_⟩
      show x.2.1 ++ (read x.1 n).2 = x.2.2.take (read x.1 n).1.tellg.toNat
      rw [hbytes, htg, hout]
      have : (x.1.tellg + (n : Nat)).toNat = x.1.tellg.toNat + n := by omega
      rw [this, List.take_add]
    · exact ⟨⟨b, hbw, hbg⟩, hgnn, hgp, hfs, hout⟩
  | drop =>
    obtain ⟨b', hbw', hbb, hor⟩ := drop_bw D b x.1 x.2.2 hbw
    have e1 : (dropOldData x.1).tellg = x.1.tellg := rfl
    exact ⟨⟨b', hbw', by show b' ≤ (dropOldData x.1).tellg; rw [e1]; rcases hor with h | h <;> omega⟩, hgnn, hgp, hfs, hout⟩

/-- **C15, write sessions**: whatever the chunking of writes and reads, the container size and the points at which consumed
    data is dropped, the reads return — one after the other — exactly the bytes written, in order: the bytes read so far
    are the first `tellg` bytes of the bytes written so far; the model raises neither `oob` nor `hang` -/
theorem session_fifo (D : Nat) (hD : 0 < D) (ops : List BOp) :
    let x := ops.foldl bstep (({ dlcs := D } : State), [], [])
    x.2.1 = x.2.2.take x.1.tellg.toNat ∧ x.1.tellp = x.2.2.length ∧ x.1.oob = false ∧ x.1.hang = false := by
  have key : ∀ (ops : List BOp) (x : State × Bytes × Bytes), SInv D x → SInv D (ops.foldl bstep x) := by
    intro ops
    induction ops with
    | nil => exact fun x h => h
    | cons op ops ih => exact fun x h => ih _ (sinv_step D hD x op h)
  have h0 : SInv D (({ dlcs := D } : State), [], []) :=
    ⟨⟨0, bw_init D hD, Int.le_refl _⟩, Int.le_refl _, Int.le_refl _, by simp [I64MAX], rfl⟩
  have h := key ops _ h0
  obtain ⟨b, hb, _⟩ := h.bw
  exact ⟨h.out, hb.tp, hb.noOob, hb.noHang⟩

end Blf.UFile
