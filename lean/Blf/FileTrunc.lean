import Blf.FileRoundTrip
import Blf.ContainerTrunc
/-!
# Write, cut the file off anywhere, read  (C08 at file level)

`read_truncated_file`: for every cut position `t ≥ 144` (behind the statistics block) a read session on the first `t` bytes of a
written file ends with the null result and delivers exactly the first `deliveredAt … t` objects written, unmodified and in order;
`deliveredAt_mono`: that number never decreases when `t` grows.
-/
namespace Blf.FileTrunc
open Blf Blf.FileSeq Blf.FileRound Blf.ContainerRound Blf.FileRoundTrip Blf.ContainerTrunc

/-- the first `k` payloads, concatenated, are a prefix of all payloads concatenated -/
theorem flattenB_take : ∀ (P : List Bytes) (k : Nat), flattenB (P.take k) = (flattenB P).take (flattenB (P.take k)).length := by
  intro P
  induction P with
  | nil => intro k; simp [flattenB]
  | cons p l ih =>
    intro k
    cases k with
    | zero => simp [flattenB]
    | succ n =>
      show p ++ flattenB (l.take n) = (p ++ flattenB l).take ((p ++ flattenB (l.take n)).length)
      rw [List.length_append, List.take_append]
      have hp : p.take (p.length + (flattenB (l.take n)).length) = p := List.take_of_length_le (by omega)
      rw [hp, Nat.add_sub_cancel_left, ← ih n]

/-- how many objects a read session on the first `t` bytes of the written file delivers: the objects whose fields lie
    inside the payloads of the containers whose header and stored bytes lie inside the first `t` bytes -/
def deliveredAt (Z : Zlib) (cap : Nat) (cfg : WCfg) (L : List (Codec × Layout × Obj)) (t : Nat) : Nat :=
  TruncRound.jOf cap L (flattenB ((payloads cap cfg (L.map fun x => (x.1, x.2.2))).take
    (kOf Z cap cfg.level (payloads cap cfg (L.map fun x => (x.1, x.2.2))) (t - 144)))).length

theorem flattenB_take_length_mono : ∀ (P : List Bytes) (k k' : Nat), k ≤ k' →
    (flattenB (P.take k)).length ≤ (flattenB (P.take k')).length := by
  intro P
  induction P with
  | nil => intro k k' _; simp [flattenB]
  | cons p l ih =>
    intro k k' h
    cases k with
    | zero => simp [flattenB]
    | succ n =>
      cases k' with
      | zero => omega
      | succ n' =>
        simp only [List.take_succ_cons, flattenB, List.length_append]
        have := ih n n' (by omega)
        omega

/-- **a longer prefix of the file never yields fewer objects** -/
theorem deliveredAt_mono (Z : Zlib) (cap : Nat) (cfg : WCfg) (L : List (Codec × Layout × Obj)) (t t' : Nat) (h : t ≤ t') :
    deliveredAt Z cap cfg L t ≤ deliveredAt Z cap cfg L t' := by
  unfold deliveredAt
  apply TruncRound.jOf_mono
  apply flattenB_take_length_mono
  exact kOf_mono Z cap cfg.level _ _ _ (by omega)

/-- **write, cut off anywhere behind the statistics block, then read** -/
theorem read_truncated_file (Z : Zlib) (hZ : ZRT Z) (cap : Nat) (cfg : WCfg) (hdr : Obj) (L : List (Codec × Layout × Obj))
    (hL : ∀ x ∈ L, Parsable cap x.1 x.2.1 x.2.2 ∧ ArrOK x.1.fresh x.2.1.items)
    (hsig : hdr.num 0 = FILESIG)
    (hH : ItemsWF (storedHeader Z cap cfg hdr (L.map fun x => (x.1, x.2.2))) Lfull)
    (hP : ∀ p ∈ payloads cap cfg (L.map fun x => (x.1, x.2.2)), PayloadOK Z cap cfg.level p) (t : Nat) (ht : 144 ≤ t) :
    ∃ ds, (readFile Z cap ((writeFile Z cap cfg hdr (L.map fun x => (x.1, x.2.2))).take t)).outcome = .ended ∧
      (readFile Z cap ((writeFile Z cap cfg hdr (L.map fun x => (x.1, x.2.2))).take t)).objs = ds ∧
      AllDelivered (L.take (deliveredAt Z cap cfg L t)) ds := by
  have hs : (memCfg cap).sticky = false := rfl
  generalize hobjs : (L.map fun x => (x.1, x.2.2)) = objs at hH hP ⊢
  generalize hSH : storedHeader Z cap cfg hdr objs = sh at hH
  have hsh0 : sh.num 0 = FILESIG := by
    rw [← hSH]; unfold storedHeader; simp only
    split <;> simp [Obj.setNum, hsig]
  have hfile : writeFile Z cap cfg hdr objs = encItems sh Lfull ++
      flattenB ((payloads cap cfg objs).map (encodeContainer Z cap cfg.level)) := by
    rw [writeFile_eq, hSH, encodeStats_eq cap sh hH]
  have hl144 : (encItems sh Lfull).length = 144 := by
    rw [encItems_length _ _ hH]; simp [Lfull, Lstats, itemsSize, Item.size]
  have hfile' : (writeFile Z cap cfg hdr objs).take t = encItems sh Lfull ++
      (flattenB ((payloads cap cfg objs).map (encodeContainer Z cap cfg.level))).take (t - 144) := by
    rw [hfile, List.take_append, hl144, List.take_of_length_le (by omega)]
  have hdel : deliveredAt Z cap cfg L t = TruncRound.jOf cap L (flattenB ((payloads cap cfg objs).take
      (kOf Z cap cfg.level (payloads cap cfg objs) (t - 144)))).length := by
    unfold deliveredAt; rw [hobjs]
  rw [hdel]
  generalize hC : (flattenB ((payloads cap cfg objs).map (encodeContainer Z cap cfg.level))).take (t - 144) = C at hfile'
  rw [hfile']
  -- 1. the signature
  have hwf0 : ItemsWF sh [.scalar 0 4] := ⟨hH.1, trivial⟩
  have hwfS : ItemsWF sh Lstats := hH.2
  have hin0 : ({ obj := statsDefault, inp := encItems sh Lfull ++ C } : St).inp.drop 0 =
      encItems sh [.scalar 0 4] ++ (encItems sh Lstats ++ C) := by
    simp [Lfull, encItems, List.append_assoc]
  obtain ⟨a1, a2, a3, a4, a5, a6, _, a8⟩ := canonRd_at (memCfg cap) hs [.scalar 0 4] [] [] sh
    { obj := statsDefault, inp := encItems sh Lfull ++ C } (encItems sh Lstats ++ C) (by decide) hwf0
    ⟨by intro g hg; simp at hg, by intro g hg; simp at hg⟩ (by intro f n hm; simp at hm) (by intro f ew len hm; simp at hm)
    rfl (Nat.zero_le _) hin0
  obtain ⟨e1, ok1⟩ := exec_sticky (memCfg cap) hs _ _ (⟨rfl, rfl, Nat.zero_le _, rfl⟩ : StreamOK
    ({ obj := statsDefault, inp := encItems sh Lfull ++ C } : St)) (by rw [a2])
  have hrd0 : (Stmt.rd 0 4).exec (stickyCfg cap) { obj := statsDefault, inp := encItems sh Lfull ++ C } =
      (Stmt.block (canonRd [.scalar 0 4])).exec (memCfg cap) { obj := statsDefault, inp := encItems sh Lfull ++ C } := by
    rw [← e1]
    show _ = (Stmt.block [Stmt.rd 0 4]).exec (stickyCfg cap) _
    rw [exec_block_cons]
    split <;> rfl
  unfold readFile
  dsimp only
  rw [hrd0]
  generalize (Stmt.block (canonRd [.scalar 0 4])).exec (memCfg cap) { obj := statsDefault, inp := encItems sh Lfull ++ C } = s1
    at a1 a2 a3 a4 a5 a6 a8 ok1
  simp only at a2 a3 a4 a5 a8
  have hn0 : s1.obj.num 0 = FILESIG := by rw [a6.1 0 (by simp [Item.numDef]), hsh0]
  rw [if_neg (by simp [hn0])]
  -- 2. the rest of the statistics
  have hlen0 : (encItems sh [.scalar 0 4]).length = 4 := by rw [encItems_length _ _ hwf0]; rfl
  have hpos1 : s1.pos = 4 := by
    rw [a5]; simp only [List.length_append, Lfull, encItems, encItem, leBytes_length]; omega
  have hin1 : s1.inp.drop s1.pos = encItems sh Lstats ++ C := by
    rw [a3, hpos1]
    have : encItems sh Lfull ++ C = encItems sh [.scalar 0 4] ++ (encItems sh Lstats ++ C) := by
      simp [Lfull, encItems, List.append_assoc]
    rw [this]; exact (take_append_len _ _ 4 hlen0).2
  obtain ⟨b1, b2, b3, b4, b5, b6, b7, _⟩ := canonRd_at (memCfg cap) hs Lstats [0] [] sh s1 C (by decide) hwfS
    ⟨by intro g hg; simp only [List.mem_singleton] at hg; subst hg; exact a6.1 0 (by simp [Item.numDef]), by intro g hg; simp at hg⟩
    (by
      intro f n hm
      have hb : s1.obj.buf f = statsDefault.buf f := a8 f (by simp [Item.bufDef])
      rw [hb]; exact statsDefault_arr f n hm)
    (by intro f ew len hm; simp [Lstats] at hm) a1 ok1.pos hin1
  obtain ⟨e2, ok2⟩ := exec_sticky (memCfg cap) hs _ _ ok1 (by rw [b2]; exact ok1.short)
  rw [stats_rd, stickyCfg_eq, e2]
  generalize (Stmt.block (canonRd Lstats)).exec (memCfg cap) s1 = s2 at b1 b2 b3 b4 b5 b6 b7 ok2
  -- 3. the containers
  have hinp2 : s2.inp = encItems sh Lfull ++ C := by rw [b3, a3]
  have hin2 : s2.inp.drop s2.pos = (flattenB ((payloads cap cfg objs).map (encodeContainer Z cap cfg.level))).take (t - 144) := by
    rw [hC, b5, b3, a3]
    have hl : (encItems sh Lfull ++ C).length - C.length = (encItems sh Lfull).length := by simp
    rw [hl]; simp
  obtain ⟨c1, c3⟩ := containerLoop_prefix Z hZ cap cfg.level (payloads cap cfg objs) hP (t - 144)
    { st := s2, usize := s2.obj.num 1 } ((encItems sh Lfull ++ C).length + 2) ok2 rfl hin2 (by
      have h1 := kOf_le Z cap cfg.level (payloads cap cfg objs) hP (t - 144)
      have h2 := payloads_fuel Z cap cfg.level (payloads cap cfg objs) hP
      have h3 : C.length = min (t - 144) (flattenB ((payloads cap cfg objs).map (encodeContainer Z cap cfg.level))).length := by
        rw [← hC, List.length_take]
      simp only [List.length_append]; omega)
  unfold readAfterHeader
  dsimp only
  generalize containerLoop Z cap ((encItems sh Lfull ++ C).length + 2) { st := s2, usize := s2.obj.num 1 } = cs at c1 c3
  rw [c3]
  simp only [Bool.false_eq_true, if_false]
  rw [c1]
  simp only [List.append_nil, List.reverse_reverse, flattenConts_contsOf]
  generalize hk : kOf Z cap cfg.level (payloads cap cfg objs) (t - 144) = k
  -- 4. the objects: what reached the stream is a prefix of it
  unfold parseStream
  dsimp only
  have hstream : streamOf cap objs = flat cap L := by rw [← hobjs]; exact streamOf_flat cap L
  have hpre : flattenB ((payloads cap cfg objs).take k) =
      (flat cap L).take (flattenB ((payloads cap cfg objs).take k)).length := by
    rw [← hstream, ← flattenB_payloads cap cfg objs]
    exact flattenB_take _ k
  obtain ⟨ds, d1, d2, d3⟩ := TruncRound.parse_prefix cap L hL (flattenB ((payloads cap cfg objs).take k)).length
    (flattenB ((payloads cap cfg objs).take k))
    { st := { obj := statsDefault, inp := flattenB ((payloads cap cfg objs).take k) } }
    (4 * (flattenB ((payloads cap cfg objs).take k)).length + 64)
    ⟨⟨rfl, rfl, Nat.zero_le _, rfl⟩, rfl, rfl⟩ (by simp only [List.drop_zero]; exact hpre) (by
      have := (TruncRound.jOf_le cap L (fun x hx => (hL x hx).1) (flattenB ((payloads cap cfg objs).take k)).length).2
      omega)
  exact ⟨ds, by rw [d3]; rfl, by rw [d1]; simp, d2⟩

end Blf.FileTrunc
