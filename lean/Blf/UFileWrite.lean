import Blf.UFileRefine
import Blf.PipeBound
/-!
# The byte writer keeps what it holds next to the put position (C12, write sessions)

In a write session the encoder appends bytes (`write`), the compressor reads and calls `dropOldData`.
`WInv D s`: the containers held are contiguous from some `b ≤ tellp`, every one has the default size `D`
and a vector of exactly that size, and the last one ends less than one container beyond the put
position.  Every operation of the session preserves it, hence the bytes held never exceed
`tellp - b + D`, and right after `dropOldData` they are less than the unread bytes plus two containers —
whatever was written, read and dropped before, however long the session.

Before fix 2aa9853 the invariant broke at the first write after everything had been dropped: the new
container got position 0 and the loop re-created every container up to the put position.
-/
namespace Blf.UFile

/-- bytes held in container vectors -/
def held (s : State) : Nat := (flat s.data).length

/-- `b`: where the held data starts (a ghost: the position of the first container, the put position if none is held) -/
def WInvAt (D : Nat) (b : Int) (s : State) : Prop :=
  s.dlcs = D ∧ ∃ e : Int, Chain s.data b e ∧ b ≤ s.tellp ∧ s.tellp ≤ e ∧ e < s.tellp + D ∧ ∀ c ∈ s.data, c.size = D

def WInv (D : Nat) (s : State) : Prop := ∃ b, WInvAt D b s

theorem winv_init (D : Nat) (hD : 0 < D) : WInvAt D 0 { dlcs := D } :=
  ⟨rfl, 0, rfl, by simp, by simp, by simp; omega, by simp⟩

theorem chain_backEnd : ∀ (l : List Cont) (b e : Int), Chain l b e → l ≠ [] → backEnd l = some e
  | [], _, _, _, h => absurd rfl h
  | [c], b, e, h, _ => by
    have := h.2.2; simp only [Chain] at this
    simp only [backEnd, List.getLast?_singleton]
    rw [h.1]; congr 1; omega
  | c :: d :: l, b, e, h, _ => by
    have := chain_backEnd (d :: l) _ e h.2.2 (by simp)
    simpa [backEnd, List.getLast?_cons_cons] using this

/-- the container found by `logContainerContaining` in a chain, and what replacing it by one of the same
    shape does -/
theorem go_set (p : Int) (c' : Cont) : ∀ (l : List Cont) (b e : Int) (i j : Nat) (c : Cont), Chain l b e →
    containing.go p l i = some (j, c) → c'.pos = c.pos → c'.size = c.size → c'.data.length = c'.size →
    i ≤ j ∧ Chain (l.set (j - i) c') b e ∧ b ≤ c.pos ∧ c.pos + c.size ≤ e ∧ c.pos ≤ p ∧ p < c.pos + c.size ∧
      c.data.length = c.size ∧ c ∈ l ∧ (∀ x ∈ l.set (j - i) c', x = c' ∨ x ∈ l)
  | [], _, _, _, _, _, _, hg, _, _, _ => by simp [containing.go] at hg
  | d :: l, b, e, i, j, c, h, hg, h1, h2, h3 => by
    simp only [containing.go] at hg
    by_cases hc : d.contains p = true
    · simp only [hc, if_true, Option.some.injEq, Prod.mk.injEq] at hg
      obtain ⟨rfl, rfl⟩ := hg
      have hle := chain_le l _ _ h.2.2
      simp only [Cont.contains, Bool.and_eq_true, decide_eq_true_eq] at hc
      refine ⟨Nat.le_refl _, ?_, by rw [h.1]; omega, by rw [h.1]; omega, hc.1, by omega, h.2.1, by simp, ?_⟩
      · simp only [Nat.sub_self, List.set_cons_zero]
        exact ⟨by rw [h1]; exact h.1, h3, by rw [h2]; exact h.2.2⟩
      · intro x hx
        simp only [Nat.sub_self, List.set_cons_zero, List.mem_cons] at hx
        rcases hx with hx | hx
        · exact Or.inl hx
        · exact Or.inr (by simp [hx])
    · simp only [hc, Bool.false_eq_true, if_false] at hg
      obtain ⟨hij, hch, ha, hb, hcp, hcq, hl, hm, hs⟩ := go_set p c' l _ e (i + 1) j c h.2.2 hg h1 h2 h3
      have e1 : j - i = (j - (i + 1)) + 1 := by omega
      refine ⟨by omega, ?_, by omega, hb, hcp, hcq, hl, by simp [hm], ?_⟩
      · rw [e1, List.set_cons_succ]
        exact ⟨h.1, h.2.1, hch⟩
      · intro x hx
        rw [e1, List.set_cons_succ, List.mem_cons] at hx
        rcases hx with hx | hx
        · exact Or.inr (by simp [hx])
        · rcases hs x hx with h5 | h5
          · exact Or.inl h5
          · exact Or.inr (by simp [h5])

theorem chain_sizes_flat : ∀ (l : List Cont) (b e : Int), Chain l b e → ((flat l).length : Int) = e - b :=
  chain_flat_length

/-- the copy loop of `write` keeps the invariant -/
theorem writeLoop_winv (D : Nat) (hD : 0 < D) (b : Int) : ∀ (fuel : Nat) (s : State) (bs : Bytes), WInvAt D b s →
    WInvAt D b (writeLoop fuel s bs)
  | 0, s, bs, h => by
    simp only [writeLoop]
    split
    · exact h
    · exact h
  | fuel+1, s, bs, h => by
    obtain ⟨hdl, e, hch, hb, h1, h2, hsz⟩ := h
    simp only [writeLoop]
    split
    · exact ⟨hdl, e, hch, hb, h1, h2, hsz⟩
    · rename_i hne
      have hlen : 0 < bs.length := by
        cases bs with
        | nil => simp at hne
        | cons x xs => simp
      split
      · rename_i hnone
        -- the put position is the end of the chain
        have hte : s.tellp = e := by
          by_cases hlt : s.tellp < e
          · obtain ⟨j, c, rest, hg, _⟩ := go_chain s.tellp s.data b e 0 hch hb hlt
            simp only [containing] at hnone
            rw [hg] at hnone; cases hnone
          · omega
        have hbe : backEnd s.data = none ∨ backEnd s.data = some s.tellp := by
          by_cases hem : s.data = []
          · left; rw [hem]; rfl
          · right; rw [chain_backEnd s.data b e hch hem, hte]
        rcases hbe with hbe | hbe
        all_goals
          simp only [hbe, Int.sub_self]
          have hpc : min (bs.length : Int) ((s.dlcs : Int) - 0) > 0 := by
            rw [hdl]; omega
          rw [if_pos hpc, if_neg (by omega)]
          apply writeLoop_winv D hD b fuel
          refine ⟨hdl, e + D, ?_, (by show b ≤ s.tellp + _; omega), ?_, ?_, ?_⟩
          · simp only [replaceAt, Int.toNat_zero, List.take_zero, List.nil_append, Nat.zero_add]
            have : s.data.length = (s.data ++ [({ pos := s.tellp, size := s.dlcs, data := zeros s.dlcs } : Cont)]).length - 1 := by simp
            rw [List.set_append_right _ _ (Nat.le_refl _)]
            simp only [Nat.sub_self, List.set_cons_zero]
            rw [← hdl]
            refine chain_append s.data b e _ hch hte ?_
            simp only [List.length_append, List.length_take, List.length_drop, zeros, List.length_replicate]
            omega
          · show s.tellp + ((min (bs.length : Int) ((s.dlcs : Int) - 0)).toNat : Int) ≤ e + D
            rw [hdl]; omega
          · show e + (D : Int) < s.tellp + ((min (bs.length : Int) ((s.dlcs : Int) - 0)).toNat : Int) + D
            omega
          · intro c hc
            simp only [replaceAt] at hc
            rw [List.set_append_right _ _ (Nat.le_refl _)] at hc
            simp only [Nat.sub_self, List.set_cons_zero, List.mem_append, List.mem_singleton] at hc
            rcases hc with hc | hc
            · exact hsz c hc
            · rw [hc]; exact hdl
      · rename_i i c hsome
        simp only [containing] at hsome
        split
        · rename_i hk
          split
          · exact ⟨hdl, e, hch, hb, h1, h2, hsz⟩
          · rename_i hnoob
            apply writeLoop_winv D hD b fuel
            obtain ⟨_, _, _, _, _, _, hl0, _, _⟩ := go_set s.tellp c s.data b e 0 i c hch hsome rfl rfl
              (by
                obtain ⟨j, c2, rest, hg, _, _, hl2, _⟩ := go_chain s.tellp s.data b e 0 hch hb (by
                  by_cases hlt : s.tellp < e
                  · exact hlt
                  · have := go_none s.tellp s.data b e 0 hch (Or.inr (by omega))
                    rw [this] at hsome; cases hsome)
                rw [hg] at hsome; cases hsome; exact hl2)
            have hgs := go_set s.tellp
              { c with data := c.data.take (s.tellp - c.pos).toNat ++ bs.take (min bs.length (c.size - (s.tellp - c.pos).toNat)) ++
                  c.data.drop ((s.tellp - c.pos).toNat + min bs.length (c.size - (s.tellp - c.pos).toNat)) }
              s.data b e 0 i c hch hsome rfl rfl
              (by
                simp only [List.length_append, List.length_take, List.length_drop]
                omega)
            obtain ⟨_, hch', ha, hbe, hcp, hcq, hl, hm, hs⟩ := hgs
            refine ⟨hdl, e, ?_, ?_, ?_, ?_, ?_⟩
            · simpa [replaceAt] using hch'
            · show b ≤ s.tellp + _
              omega
            · show s.tellp + ((min bs.length (c.size - (s.tellp - c.pos).toNat) : Nat) : Int) ≤ e
              omega
            · show e < s.tellp + ((min bs.length (c.size - (s.tellp - c.pos).toNat) : Nat) : Int) + D
              omega
            · intro x hx
              simp only [replaceAt] at hx
              have := hs x (by simpa using hx)
              rcases this with h5 | h5
              · rw [h5]; exact hsz c hm
              · exact hsz x h5
        · exact writeLoop_winv D hD b fuel s bs ⟨hdl, e, hch, hb, h1, h2, hsz⟩

theorem write_winv (D : Nat) (hD : 0 < D) (b : Int) (s : State) (bs : Bytes) (h : WInvAt D b s) : WInvAt D b (write s bs) := by
  have key := fun fuel => writeLoop_winv D hD b fuel s bs h
  unfold write
  generalize (2 * bs.length + (if s.dlcs = 0 then 0 else s.tellp.toNat / s.dlcs) + 4) = fuel
  dsimp only
  split
  · exact key _
  · exact key _

/-- the copy loop of `read` leaves the containers, the put position and the default size alone -/
theorem readLoop_frame : ∀ (fuel : Nat) (s : State) (n : Int) (acc : Bytes),
    (readLoop fuel s n acc).1.data = s.data ∧ (readLoop fuel s n acc).1.tellp = s.tellp ∧
    (readLoop fuel s n acc).1.dlcs = s.dlcs
  | 0, s, n, acc => ⟨rfl, rfl, rfl⟩
  | fuel+1, s, n, acc => by
    simp only [readLoop]
    split
    · exact ⟨rfl, rfl, rfl⟩
    · split
      · exact ⟨rfl, rfl, rfl⟩
      · split
        · exact ⟨rfl, rfl, rfl⟩
        · exact readLoop_frame fuel _ _ _

theorem read_winv (D : Nat) (b : Int) (s : State) (n : Nat) (h : WInvAt D b s) : WInvAt D b (read s n).1 := by
  simp only [read]
  split
  · obtain ⟨h1, h2, h3⟩ := readLoop_frame (n + 1) { s with gcount := 0, readDemand := 0 }
      (if decide ((n : Int) + s.tellg > s.fileSize) then s.fileSize - s.tellg else n) []
    unfold WInvAt; rw [h1, h2, h3]; exact h
  · obtain ⟨h1, h2, h3⟩ := readLoop_frame (n + 1)
      { s with good := !decide ((n : Int) + s.tellg > s.fileSize), eof := decide ((n : Int) + s.tellg > s.fileSize), gcount := 0, readDemand := 0 }
      (if decide ((n : Int) + s.tellg > s.fileSize) then s.fileSize - s.tellg else n) []
    unfold WInvAt; rw [h1, h2, h3]; exact h

/-- dropping leading containers that end at or before the put position keeps the invariant -/
theorem dropWhile_winv (D : Nat) (s : State) : ∀ (l : List Cont) (b e : Int), Chain l b e → b ≤ s.tellp → s.tellp ≤ e →
    ∃ b', Chain (l.dropWhile (droppable s)) b' e ∧ b ≤ b' ∧ b' ≤ s.tellp
  | [], b, e, h, h1, h2 => ⟨b, h, Int.le_refl _, h1⟩
  | c :: l, b, e, h, h1, h2 => by
    simp only [List.dropWhile]
    by_cases hd : droppable s c = true
    · simp only [hd]
      have hd' := hd
      simp only [droppable, Bool.not_eq_true', Bool.or_eq_false_iff, decide_eq_false_iff_not, Int.not_lt] at hd'
      obtain ⟨b', hc, ha, hb⟩ := dropWhile_winv D s l (b + c.size) e h.2.2 (by rw [← h.1]; omega) h2
      exact ⟨b', hc, by omega, hb⟩
    · simp only [hd]
      exact ⟨b, h, Int.le_refl _, h1⟩

/-- `dropOldData` keeps the invariant; the new start is not before the old one, and either nothing is held any more (the
    start is the put position) or the first container held reaches beyond `min tellg tellp` -/
theorem drop_winv (D : Nat) (b : Int) (s : State) (h : WInvAt D b s) (hpf : s.tellp ≤ s.fileSize) :
    ∃ b', WInvAt D b' (dropOldData s) ∧ b ≤ b' ∧ min s.tellg s.tellp < b' + D := by
  obtain ⟨hdl, e, hch, hb, h1, h2, hsz⟩ := h
  obtain ⟨b', hc, hbb, hb'⟩ := dropWhile_winv D s s.data b e hch hb h1
  have hsz' : ∀ c ∈ s.data.dropWhile (droppable s), c.size = D := fun c hc' => hsz c (List.dropWhile_sublist _ |>.subset hc')
  refine ⟨b', ⟨hdl, e, hc, hb', h1, h2, hsz'⟩, hbb, ?_⟩
  rcases PipeBound.dropWhile_head (droppable s) s.data with hnil | ⟨c, r, hcr, hcd⟩
  · rw [hnil] at hc; simp only [Chain] at hc
    have : (dropOldData s).tellp = s.tellp := rfl
    omega
  · rw [hcr] at hc
    have hs := hsz' c (by rw [hcr]; simp)
    have hp := hc.1
    simp [droppable] at hcd
    omega

/-- **bytes held < distance from the start of the held data to the put position, plus one container** -/
theorem held_le (D : Nat) (b : Int) (s : State) (h : WInvAt D b s) : (held s : Int) < s.tellp - b + D := by
  obtain ⟨_, e, hch, hb, h1, h2, hsz⟩ := h
  have := chain_flat_length s.data b e hch
  unfold held; omega

/-! ## every session -/

inductive WOp where
  | write (bs : Bytes)
  | read (n : Nat)
  | drop

def wstep (s : State) : WOp → State
  | .write bs => write s bs
  | .read n => (read s n).1
  | .drop => dropOldData s

/-- the session never moves the declared end (`fileSize` only follows the put position) -/
def FsOK (s : State) : Prop := s.tellp ≤ s.fileSize

theorem writeLoop_fs : ∀ (fuel : Nat) (s : State) (bs : Bytes), (writeLoop fuel s bs).fileSize = s.fileSize
  | 0, s, bs => by simp only [writeLoop]; split <;> rfl
  | fuel+1, s, bs => by
    simp only [writeLoop]
    repeat' split
    all_goals first | rfl | rw [writeLoop_fs fuel]

theorem write_fs (s : State) (bs : Bytes) (_h : FsOK s) : FsOK (write s bs) := by
  unfold write FsOK
  generalize (2 * bs.length + (if s.dlcs = 0 then 0 else s.tellp.toNat / s.dlcs) + 4) = fuel
  dsimp only
  split
  · exact Int.le_refl _
  · rename_i hlt; omega

theorem readLoop_fs : ∀ (fuel : Nat) (s : State) (n : Int) (acc : Bytes), (readLoop fuel s n acc).1.fileSize = s.fileSize
  | 0, s, n, acc => rfl
  | fuel+1, s, n, acc => by
    simp only [readLoop]
    split
    · rfl
    · split
      · rfl
      · split
        · rfl
        · rw [readLoop_fs]

theorem read_fs (s : State) (n : Nat) (h : FsOK s) : FsOK (read s n).1 := by
  unfold FsOK
  simp only [read]
  split
  · rw [readLoop_fs, (readLoop_frame _ _ _ _).2.1]; exact h
  · rw [readLoop_fs, (readLoop_frame _ _ _ _).2.1]; exact h

theorem wstep_inv (D : Nat) (hD : 0 < D) (s : State) (op : WOp) (h : WInv D s ∧ FsOK s) : WInv D (wstep s op) ∧ FsOK (wstep s op) := by
  obtain ⟨⟨b, hb⟩, hf⟩ := h
  cases op with
  | write bs => exact ⟨⟨b, write_winv D hD b s bs hb⟩, write_fs s bs hf⟩
  | read n => exact ⟨⟨b, read_winv D b s n hb⟩, read_fs s n hf⟩
  | drop =>
    obtain ⟨b', h', _⟩ := drop_winv D b s hb hf
    exact ⟨⟨b', h'⟩, hf⟩

theorem session_winv (D : Nat) (hD : 0 < D) (ops : List WOp) :
    WInv D (ops.foldl wstep { dlcs := D }) ∧ FsOK (ops.foldl wstep { dlcs := D }) := by
  suffices ∀ s, WInv D s ∧ FsOK s → WInv D (ops.foldl wstep s) ∧ FsOK (ops.foldl wstep s) from
    this _ ⟨⟨0, winv_init D hD⟩, by simp [FsOK, I64MAX]⟩
  induction ops with
  | nil => exact fun s h => h
  | cons op ops ih => exact fun s h => ih _ (wstep_inv D hD s op h)

/-- writes and reads keep the start of the held data -/
theorem nodrop_winv (D : Nat) (hD : 0 < D) (b : Int) : ∀ (ops : List WOp) (s : State), (∀ op ∈ ops, op ≠ WOp.drop) → WInvAt D b s →
    WInvAt D b (ops.foldl wstep s)
  | [], s, _, h => h
  | op :: ops, s, hnd, h => by
    apply nodrop_winv D hD b ops _ (fun o ho => hnd o (by simp [ho]))
    cases op with
    | write bs => exact write_winv D hD b s bs h
    | read n => exact read_winv D b s n h
    | drop => exact absurd rfl (hnd _ (by simp))

/-- **from one `dropOldData` to the next**: whatever is written and read after a drop, the bytes held stay below the
    distance from the unread position at that drop to the current put position, plus two containers -/
theorem held_since_drop (D : Nat) (hD : 0 < D) (s : State) (h : WInv D s) (hpf : FsOK s) (ops : List WOp)
    (hnd : ∀ op ∈ ops, op ≠ WOp.drop) :
    (held (ops.foldl wstep (dropOldData s)) : Int) < (ops.foldl wstep (dropOldData s)).tellp - min s.tellg s.tellp + 2 * D := by
  obtain ⟨b, hb⟩ := h
  obtain ⟨b', h', _, hlt⟩ := drop_winv D b s hb hpf
  have := held_le D b' _ (nodrop_winv D hD b' ops _ hnd h')
  omega

/-- … before the first drop: less than everything written plus one container -/
theorem held_before_drop (D : Nat) (hD : 0 < D) (ops : List WOp) (hnd : ∀ op ∈ ops, op ≠ WOp.drop) :
    (held (ops.foldl wstep { dlcs := D }) : Int) < (ops.foldl wstep { dlcs := D }).tellp + D := by
  have := held_le D 0 _ (nodrop_winv D hD 0 ops _ hnd (winv_init D hD))
  omega

/-! ## read sessions: bytes held after a drop -/

/-- in a read session (containers appended whole, `RInv`) the bytes held are the distance from the first held byte to the put
    position -/
theorem held_rinv (s : State) (w : Bytes) (h : RInv s w) : (held s : Int) = s.tellp - base s := by
  have := chain_flat_length s.data (base s) s.tellp h.chain
  unfold held; omega

/-- **right after `dropOldData` a read session holds less than the unread bytes plus one container** (`C`: a bound on the
    container sizes) -/
theorem read_held_after_drop (s : State) (w : Bytes) (h : RInv s w) (hpf : s.tellp ≤ s.fileSize) (C : Nat)
    (hC : ∀ c ∈ s.data, c.size ≤ C) : (held (dropOldData s) : Int) ≤ max 0 (s.tellp - s.tellg) + C := by
  have h' := rinv_drop s w h
  have hh := held_rinv _ w h'
  have htp : (dropOldData s).tellp = s.tellp := rfl
  rw [htp] at hh
  rcases PipeBound.dropWhile_head (droppable s) s.data with hnil | ⟨c, r, hcr, hcd⟩
  · have : held (dropOldData s) = 0 := by unfold held dropOldData; simp only; rw [hnil]; rfl
    rw [this]; omega
  · have hb : base (dropOldData s) = c.pos := by
      unfold base dropOldData; simp only; rw [hcr]
    have hcs : c.size ≤ C := hC c (List.dropWhile_sublist _ |>.subset (by rw [hcr]; simp))
    simp [droppable] at hcd
    rw [hh, hb]
    omega

end Blf.UFile
