import Blf.Queue
import Blf.UFile
/-!
# The read pipeline as a concurrent transition system: three threads, two monitors

`File::open(in)` starts two workers.  The *inflater* (`compressedFileReadThread`) appends log
containers to the in-memory stream `u` (`UncompressedFile::write(container)`) and finally declares
its size.  The *parser* (`uncompressedFileReadThread`) reads and seeks in `u`, pushes objects into
the object queue `q` and finally declares the queue's size.  The *application* calls `File::read()`
(`q.read`) and at some point `File::close()` (abort on both monitors, stop flags, join).

Threads are `running`, `asleep` on a condition variable of one monitor, or `done`.  A step is one
critical section executed by a running thread whose guard holds, or a running thread going to sleep
because its guard is false; every critical section wakes the sleepers on the condition variables it
notifies.  The in-memory stream is represented by its positions (`UP`); `Blf.PipeTie` shows that the
methods of `Blf.UFile` act on the positions as assumed here.

The parser is *any* finite program over {read n, seek off, dropOldData, queue-write x}: which
operations the real parser issues depends on the bytes it reads, and every such run is one of these
programs.  A read may advance the get position by any amount between 0 and n (what it really
advances is determined by the stream contents; the theorems do not need it).  The application reads
until it chooses to close; it may close at any time.

Proved for every buffer size, every queue capacity ≥ 1, all container sizes, every parser program,
every interleaving:
* `inv_step`     : the invariant, which contains **no lost wake-up** (a sleeper's guard is false),
* `no_deadlock`  : in every reachable non-final state some thread can take a step,
* `measure_step` : a natural-number measure strictly decreases on every step — every schedule, fair
                   or not, reaches the final state,
* `got_prefix`, `final_got` : what the application received is a prefix of the objects the parser
                   pushed, in order, and all of them if it closed after the null result.
-/
namespace Blf.Pipe
open Blf.Queue (CV)

inductive Mon where | u | q
  deriving DecidableEq, Repr

inductive Status where
  | running
  | asleep (m : Mon) (cv : CV)
  | done
  deriving DecidableEq, Repr

/-- wake the sleepers on the condition variables `cvs` of monitor `m` -/
def wake (m : Mon) (cvs : List CV) : Status → Status
  | .asleep m' cv => if m' = m ∧ cv ∈ cvs then .running else .asleep m' cv
  | s => s

/-- the methods of `UncompressedFile` that the pipelines call -/
inductive UMeth where
  | read | seekg | writeCont | writeBytes | setFileSize | abort | dropOldData
  deriving DecidableEq, Repr

/-- condition variables notified by each method of `UncompressedFile` (tied to the source by `Blf.MonitorTie`);
    `read` notifies `tellgChanged` twice: when it publishes its demand before waiting, and at its end -/
@[reducible] def uNotifies : UMeth → List CV
  | .read => [.tellg]
  | .seekg => [.tellg]
  | .writeCont => [.tellp]
  | .writeBytes => [.tellp]
  | .setFileSize => [.tellp]
  | .abort => [.tellg, .tellp]
  | .dropOldData => []

/-- the condition variable a method of `UncompressedFile` waits on -/
@[reducible] def uWaitsOn : UMeth → Option CV
  | .read => some .tellp
  | .writeCont => some .tellg
  | .writeBytes => some .tellg
  | _ => none

/-- the positions of the in-memory stream (`m_tellg`, `m_tellp`, `m_fileSize`, `m_bufferSize`,
    `m_readDemand`, `m_abort`) -/
structure UP where
  tellg : Int := 0
  tellp : Int := 0
  fileSize : Int := UFile.I64MAX
  bufferSize : Int := UFile.I64MAX
  demand : Int := 0
  abort : Bool := false
  deriving Repr, DecidableEq

def UP.guardRead (u : UP) (n : Nat) : Bool :=
  u.abort || decide ((n : Int) + u.tellg ≤ u.tellp) || decide ((n : Int) + u.tellg > u.fileSize)

def UP.guardWrite (u : UP) : Bool :=
  u.abort || decide (u.tellp - u.tellg < u.bufferSize) || decide (u.tellp < u.demand)

/-- operations of the parser thread -/
inductive POp where
  | uread (n : Nat)
  | useek (off : Int)
  | udrop
  | qwrite (x : Nat)
  deriving Repr, DecidableEq

structure Sys where
  u : UP
  q : Queue.State
  toPush : List Nat          -- sizes of the containers the inflater still has to append
  inf : Status
  prog : List POp            -- what the parser still has to do
  par : Status
  app : Status
  sawNull : Bool             -- the application has received the null result
  got : List Nat             -- objects the application has received
  stopReq : Bool             -- close() was called
  deriving Repr

def qwrites : List POp → List Nat
  | [] => []
  | .qwrite x :: r => x :: qwrites r
  | _ :: r => qwrites r

inductive Step : Sys → Sys → Prop
  -- inflater -----------------------------------------------------------------------------------
  | push (s : Sys) (c : Nat) (r : List Nat) (h1 : s.inf = .running) (h2 : s.toPush = c :: r)
      (hg : s.u.guardWrite = true) :
      Step s { s with u := { s.u with tellp := s.u.tellp + c }, toPush := r, par := wake .u (uNotifies .writeCont) s.par }
  | pushBlock (s : Sys) (c : Nat) (r : List Nat) (h1 : s.inf = .running) (h2 : s.toPush = c :: r)
      (hg : s.u.guardWrite = false) :
      Step s { s with inf := .asleep .u .tellg }
  | infEos (s : Sys) (h1 : s.inf = .running) (h2 : s.toPush = [] ∨ s.stopReq = true) :
      Step s { s with u := { s.u with fileSize := s.u.tellp }, inf := .done, par := wake .u (uNotifies .setFileSize) s.par }
  -- parser -------------------------------------------------------------------------------------
  | uread (s : Sys) (n : Nat) (r : List POp) (j : Nat) (h1 : s.par = .running) (h2 : s.prog = .uread n :: r)
      (hg : s.u.guardRead n = true) (hj : j ≤ n) :
      Step s { s with u := { s.u with tellg := s.u.tellg + j, demand := 0 }, prog := r,
                      inf := wake .u (uNotifies .read) s.inf }
  | ureadBlock (s : Sys) (n : Nat) (r : List POp) (h1 : s.par = .running) (h2 : s.prog = .uread n :: r)
      (hg : s.u.guardRead n = false) :
      Step s { s with u := { s.u with demand := (n : Int) + s.u.tellg }, par := .asleep .u .tellp,
                      inf := wake .u (uNotifies .read) s.inf }
  | useek (s : Sys) (off : Int) (r : List POp) (h1 : s.par = .running) (h2 : s.prog = .useek off :: r) :
      Step s { s with u := { s.u with tellg := min (s.u.tellg + off) s.u.fileSize }, prog := r,
                      inf := wake .u (uNotifies .seekg) s.inf }
  | udrop (s : Sys) (r : List POp) (h1 : s.par = .running) (h2 : s.prog = .udrop :: r) :
      Step s { s with prog := r }
  | qwrite (s : Sys) (x : Nat) (r : List POp) (h1 : s.par = .running) (h2 : s.prog = .qwrite x :: r)
      (hg : Queue.guard s.q (.write x) = true) :
      Step s { s with q := (Queue.step s.q (.write x)).1, prog := r,
                      app := wake .q (Queue.notifies (.write x)) s.app }
  | qwriteBlock (s : Sys) (x : Nat) (r : List POp) (h1 : s.par = .running) (h2 : s.prog = .qwrite x :: r)
      (hg : Queue.guard s.q (.write x) = false) :
      Step s { s with par := .asleep .q .tellg }
  | parEos (s : Sys) (h1 : s.par = .running) (h2 : s.prog = [] ∨ s.stopReq = true) :
      Step s { s with q := (Queue.step s.q (.setFileSize s.q.tellp)).1, par := .done,
                      app := wake .q (Queue.notifies (.setFileSize 0)) s.app }
  -- application --------------------------------------------------------------------------------
  | recv (s : Sys) (x : Nat) (r : List Nat) (h1 : s.app = .running) (h0 : s.sawNull = false)
      (hg : Queue.guard s.q .read = true) (hq : s.q.queue = x :: r) :
      Step s { s with q := (Queue.step s.q .read).1, got := s.got ++ [x],
                      par := wake .q (Queue.notifies .read) s.par }
  | recvNull (s : Sys) (h1 : s.app = .running) (h0 : s.sawNull = false)
      (hg : Queue.guard s.q .read = true) (hq : s.q.queue = []) :
      Step s { s with q := (Queue.step s.q .read).1, sawNull := true,
                      par := wake .q (Queue.notifies .read) s.par }
  | recvBlock (s : Sys) (h1 : s.app = .running) (h0 : s.sawNull = false)
      (hg : Queue.guard s.q .read = false) :
      Step s { s with app := .asleep .q .tellp }
  | close (s : Sys) (h1 : s.app = .running) :
      Step s { s with u := { s.u with abort := true }, q := (Queue.step s.q .abort).1, stopReq := true,
                      app := .done,
                      inf := wake .u (uNotifies .abort) s.inf,
                      par := wake .q (Queue.notifies .abort) (wake .u (uNotifies .abort) s.par) }

def init (bufU : Int) (capQ : Nat) (conts : List Nat) (prog : List POp) : Sys :=
  { u := { bufferSize := bufU }, q := { bufferSize := capQ }, toPush := conts, inf := .running, prog := prog,
    par := .running, app := .running, sawNull := false, got := [], stopReq := false }

def Final (s : Sys) : Prop := s.inf = .done ∧ s.par = .done ∧ s.app = .done

inductive Reach (bufU : Int) (capQ : Nat) (conts : List Nat) (prog : List POp) : Sys → Prop
  | init : Reach bufU capQ conts prog (init bufU capQ conts prog)
  | step (s t : Sys) : Reach bufU capQ conts prog s → Step s t → Reach bufU capQ conts prog t

/-- the invariant; `all` is the parser's whole program -/
structure Inv (all : List POp) (s : Sys) : Prop where
  qpos : s.q.tellg + s.q.queue.length = s.q.tellp
  qcap : 0 < s.q.bufferSize
  -- a sleeper sleeps on the variable its operation waits on, with a false guard  (no lost wake-up)
  infSleep : ∀ m cv, s.inf = .asleep m cv → m = .u ∧ cv = .tellg ∧ s.u.guardWrite = false
  parSleep : ∀ m cv, s.par = .asleep m cv →
    (m = .u ∧ cv = .tellp ∧ ∃ n r, s.prog = .uread n :: r ∧ s.u.guardRead n = false ∧ s.u.demand = (n : Int) + s.u.tellg) ∨
    (m = .q ∧ cv = .tellg ∧ ∃ x r, s.prog = .qwrite x :: r ∧ Queue.guard s.q (.write x) = false)
  appSleep : ∀ m cv, s.app = .asleep m cv → m = .q ∧ cv = .tellp ∧ Queue.guard s.q .read = false ∧ s.sawNull = false
  -- end-of-stream discipline
  infDone : s.inf = .done → s.u.fileSize = s.u.tellp
  parDone : s.par = .done → s.q.fileSize = s.q.tellp
  -- close()
  stop1 : s.stopReq = true ↔ s.app = .done
  stop2 : s.stopReq = true → s.u.abort = true ∧ s.q.abort = true
  -- history: received ++ queued ++ still to be pushed = everything the program pushes
  hist : s.stopReq = false → s.par ≠ .done → s.got ++ s.q.queue ++ qwrites s.prog = qwrites all
  histDone : s.stopReq = false → s.par = .done → s.got ++ s.q.queue = qwrites all
  pref : ∃ rest, s.got ++ rest = qwrites all
  nullOk : s.sawNull = true → s.stopReq = false → s.q.queue = [] ∧ s.par = .done
  stop3 : s.stopReq = false → s.u.abort = false ∧ s.q.abort = false
  eos1 : s.par ≠ .done → s.q.fileSize = Queue.U32MAX
  small : s.q.tellp + (qwrites s.prog).length < Queue.U32MAX     -- outside: counter wrap after 2^32 objects

theorem inv_init (bufU : Int) (capQ : Nat) (hc : 0 < capQ) (conts : List Nat) (prog : List POp)
    (hs : (qwrites prog).length < Queue.U32MAX) :
    Inv prog (init bufU capQ conts prog) := by
  refine ⟨rfl, hc, ?_, ?_, ?_, ?_, ?_, ?_, ?_, ?_, ?_, ?_, ?_, ?_, ?_, ?_⟩ <;> simp [init]
  exact hs

theorem guard_read_false_iff (q : Queue.State) :
    Queue.guard q .read = false ↔ q.abort = false ∧ q.queue = [] ∧ q.tellg < q.fileSize := by
  simp [Queue.guard, Nat.not_le]
  cases q.queue <;> simp

theorem guard_write_false_iff (q : Queue.State) (x : Nat) :
    Queue.guard q (.write x) = false ↔ q.abort = false ∧ q.bufferSize ≤ q.queue.length := by
  simp [Queue.guard, Nat.not_lt]

theorem uguardRead_false_iff (u : UP) (n : Nat) :
    u.guardRead n = false ↔ u.abort = false ∧ u.tellp < (n : Int) + u.tellg ∧ (n : Int) + u.tellg ≤ u.fileSize := by
  unfold UP.guardRead
  cases u.abort <;> simp [Int.not_le, Int.not_lt]

theorem uguardWrite_false_iff (u : UP) :
    u.guardWrite = false ↔ u.abort = false ∧ u.bufferSize ≤ u.tellp - u.tellg ∧ u.demand ≤ u.tellp := by
  unfold UP.guardWrite
  cases u.abort <;> simp [Int.not_lt]

/-! ### wake lemmas -/

theorem wake_running (m : Mon) (cvs : List CV) : wake m cvs .running = .running := rfl
theorem wake_done (m : Mon) (cvs : List CV) : wake m cvs .done = .done := rfl

theorem wake_asleep (m : Mon) (cvs : List CV) (st : Status) (m' : Mon) (cv : CV)
    (h : wake m cvs st = .asleep m' cv) : st = .asleep m' cv ∧ ¬ (m' = m ∧ cv ∈ cvs) := by
  cases st with
  | running => simp [wake] at h
  | done => simp [wake] at h
  | asleep m2 cv2 =>
    simp only [wake] at h
    split at h
    · simp at h
    · next hn => injection h with h1 h2; subst h1; subst h2; exact ⟨rfl, hn⟩

theorem wake_eq_done (m : Mon) (cvs : List CV) (st : Status) : wake m cvs st = .done ↔ st = .done := by
  cases st with
  | running => simp [wake]
  | done => simp [wake]
  | asleep m2 cv2 => simp only [wake]; split <;> simp


/-! ### sleepers and wake-ups -/

theorem inf_woken {all : List POp} {s : Sys} (hi : Inv all s) (cvs : List CV) (h : CV.tellg ∈ cvs) (m : Mon) (cv : CV) :
    wake .u cvs s.inf ≠ .asleep m cv := by
  intro hw
  obtain ⟨h1, h2⟩ := wake_asleep _ _ _ _ _ hw
  obtain ⟨rfl, rfl, _⟩ := hi.infSleep m cv h1
  exact h2 ⟨rfl, h⟩

theorem app_woken {all : List POp} {s : Sys} (hi : Inv all s) (cvs : List CV) (h : CV.tellp ∈ cvs) (m : Mon) (cv : CV) :
    wake .q cvs s.app ≠ .asleep m cv := by
  intro hw
  obtain ⟨h1, h2⟩ := wake_asleep _ _ _ _ _ hw
  obtain ⟨rfl, rfl, _⟩ := hi.appSleep m cv h1
  exact h2 ⟨rfl, h⟩

/-- after a notification of `u.tellpChanged` the parser can only be asleep on the queue -/
theorem par_woken_u {all : List POp} {s : Sys} (hi : Inv all s) (cvs : List CV) (h : CV.tellp ∈ cvs) (m : Mon) (cv : CV)
    (hw : wake .u cvs s.par = .asleep m cv) :
    s.par = .asleep m cv ∧ m = .q ∧ cv = .tellg ∧ ∃ x r, s.prog = .qwrite x :: r ∧ Queue.guard s.q (.write x) = false := by
  obtain ⟨h1, h2⟩ := wake_asleep _ _ _ _ _ hw
  rcases hi.parSleep m cv h1 with ⟨rfl, rfl, _⟩ | ⟨rfl, rfl, hx⟩
  · exact absurd ⟨rfl, h⟩ h2
  · exact ⟨h1, rfl, rfl, hx⟩

/-- after a notification of `q.tellgChanged` the parser can only be asleep on the stream -/
theorem par_woken_q {all : List POp} {s : Sys} (hi : Inv all s) (cvs : List CV) (h : CV.tellg ∈ cvs) (m : Mon) (cv : CV)
    (hw : wake .q cvs s.par = .asleep m cv) :
    s.par = .asleep m cv ∧ m = .u ∧ cv = .tellp ∧
      ∃ n r, s.prog = .uread n :: r ∧ s.u.guardRead n = false ∧ s.u.demand = (n : Int) + s.u.tellg := by
  obtain ⟨h1, h2⟩ := wake_asleep _ _ _ _ _ hw
  rcases hi.parSleep m cv h1 with ⟨rfl, rfl, hx⟩ | ⟨rfl, rfl, _⟩
  · exact ⟨h1, rfl, rfl, hx⟩
  · exact absurd ⟨rfl, h⟩ h2

theorem wake_ne_done (m : Mon) (cvs : List CV) (st : Status) : wake m cvs st ≠ .done ↔ st ≠ .done := by
  rw [Ne, wake_eq_done]


/-- **invariant preservation** (contains *no lost wake-up*) -/
theorem inv_step (all : List POp) (s t : Sys) (hi : Inv all s) (hst : Step s t) : Inv all t := by
  cases hst with
  | push c r h1 h2 hg =>
    refine ⟨hi.qpos, hi.qcap, ?_, ?_, hi.appSleep, ?_, ?_, hi.stop1, ?_, ?_, ?_, hi.pref, ?_, hi.stop3, ?_, hi.small⟩
    · intro m cv h; simp only [h1] at h; cases h
    · intro m cv h
      obtain ⟨h3, rfl, rfl, hx⟩ := par_woken_u hi _ (by simp) m cv h
      exact Or.inr ⟨rfl, rfl, hx⟩
    · intro h; simp only [h1] at h; cases h
    · intro h; exact hi.parDone ((wake_eq_done _ _ _).1 h)
    · intro h; exact hi.stop2 h
    · intro h hp; exact hi.hist h ((wake_ne_done _ _ _).1 hp)
    · intro h hp; exact hi.histDone h ((wake_eq_done _ _ _).1 hp)
    · intro h h'; obtain ⟨a, b⟩ := hi.nullOk h h'; exact ⟨a, (wake_eq_done _ _ _).2 b⟩
    · intro hp; exact hi.eos1 ((wake_ne_done _ _ _).1 hp)
  | pushBlock c r h1 h2 hg =>
    refine ⟨hi.qpos, hi.qcap, ?_, hi.parSleep, hi.appSleep, ?_, hi.parDone, hi.stop1, hi.stop2, hi.hist, hi.histDone,
      hi.pref, hi.nullOk, hi.stop3, hi.eos1, hi.small⟩
    · intro m cv h; injection h with a b; exact ⟨a.symm, b.symm, hg⟩
    · intro h; cases h
  | infEos h1 h2 =>
    refine ⟨hi.qpos, hi.qcap, ?_, ?_, hi.appSleep, ?_, ?_, hi.stop1, ?_, ?_, ?_, hi.pref, ?_, hi.stop3, ?_, hi.small⟩
    · intro m cv h; cases h
    · intro m cv h
      obtain ⟨h3, rfl, rfl, hx⟩ := par_woken_u hi _ (by simp) m cv h
      exact Or.inr ⟨rfl, rfl, hx⟩
    · intro _; rfl
    · intro h; exact hi.parDone ((wake_eq_done _ _ _).1 h)
    · intro h; exact hi.stop2 h
    · intro h hp; exact hi.hist h ((wake_ne_done _ _ _).1 hp)
    · intro h hp; exact hi.histDone h ((wake_eq_done _ _ _).1 hp)
    · intro h h'; obtain ⟨a, b⟩ := hi.nullOk h h'; exact ⟨a, (wake_eq_done _ _ _).2 b⟩
    · intro hp; exact hi.eos1 ((wake_ne_done _ _ _).1 hp)
  | uread n r j h1 h2 hg hj =>
    have hq : qwrites s.prog = qwrites r := by rw [h2]; rfl
    refine ⟨hi.qpos, hi.qcap, ?_, ?_, hi.appSleep, ?_, ?_, hi.stop1, ?_, ?_, ?_, hi.pref, ?_, hi.stop3, ?_, ?_⟩
    · intro m cv h; exact absurd h (inf_woken hi _ (by simp) m cv)
    · intro m cv h; simp only [h1] at h; cases h
    · intro h; exact hi.infDone ((wake_eq_done _ _ _).1 h)
    · intro h; simp only [h1] at h; cases h
    · intro h; exact hi.stop2 h
    · intro h hp; have := hi.hist h hp; rw [hq] at this; exact this
    · intro h hp; simp only [h1] at hp; cases hp
    · intro h h'; obtain ⟨a, b⟩ := hi.nullOk h h'; rw [h1] at b; cases b
    · intro hp; exact hi.eos1 hp
    · have := hi.small; rw [hq] at this; exact this
  | ureadBlock n r h1 h2 hg =>
    refine ⟨hi.qpos, hi.qcap, ?_, ?_, hi.appSleep, ?_, ?_, hi.stop1, ?_, ?_, ?_, hi.pref, ?_, hi.stop3, ?_, hi.small⟩
    · intro m cv h; exact absurd h (inf_woken hi _ (by simp) m cv)
    · intro m cv h; injection h with a b
      exact Or.inl ⟨a.symm, b.symm, n, r, h2, hg, rfl⟩
    · intro h; exact hi.infDone ((wake_eq_done _ _ _).1 h)
    · intro h; cases h
    · intro h; exact hi.stop2 h
    · intro h _; exact hi.hist h (by rw [h1]; simp)
    · intro h hp; cases hp
    · intro h h'; obtain ⟨a, b⟩ := hi.nullOk h h'; rw [h1] at b; cases b
    · intro _; exact hi.eos1 (by rw [h1]; simp)
  | useek off r h1 h2 =>
    have hq : qwrites s.prog = qwrites r := by rw [h2]; rfl
    refine ⟨hi.qpos, hi.qcap, ?_, ?_, hi.appSleep, ?_, ?_, hi.stop1, ?_, ?_, ?_, hi.pref, ?_, hi.stop3, ?_, ?_⟩
    · intro m cv h; exact absurd h (inf_woken hi _ (by simp) m cv)
    · intro m cv h; simp only [h1] at h; cases h
    · intro h
      have h3 := (wake_eq_done _ _ _).1 h
      -- the inflater never ends before the parser's seek in a way that matters: fileSize = tellp is kept
      exact hi.infDone h3
    · intro h; simp only [h1] at h; cases h
    · intro h; exact hi.stop2 h
    · intro h hp; have := hi.hist h hp; rw [hq] at this; exact this
    · intro h hp; simp only [h1] at hp; cases hp
    · intro h h'; obtain ⟨a, b⟩ := hi.nullOk h h'; rw [h1] at b; cases b
    · intro hp; exact hi.eos1 hp
    · have := hi.small; rw [hq] at this; exact this
  | udrop r h1 h2 =>
    have hq : qwrites s.prog = qwrites r := by rw [h2]; rfl
    refine ⟨hi.qpos, hi.qcap, hi.infSleep, ?_, hi.appSleep, hi.infDone, hi.parDone, hi.stop1, hi.stop2, ?_, ?_, hi.pref, ?_,
      hi.stop3, hi.eos1, ?_⟩
    · intro m cv h; simp only [h1] at h; cases h
    · intro h hp; have := hi.hist h hp; rw [hq] at this; exact this
    · intro h hp; simp only [h1] at hp; cases hp
    · intro h h'; obtain ⟨a, b⟩ := hi.nullOk h h'; rw [h1] at b; cases b
    · have := hi.small; rw [hq] at this; exact this
  | qwrite x r h1 h2 hg =>
    have hq : qwrites s.prog = x :: qwrites r := by rw [h2]; rfl
    have hne : s.par ≠ .done := by rw [h1]; simp
    have he := hi.eos1 hne
    have hsm := hi.small
    rw [hq] at hsm; simp only [List.length_cons] at hsm
    refine ⟨?_, ?_, hi.infSleep, ?_, ?_, hi.infDone, ?_, ?_, ?_, ?_, ?_, hi.pref, ?_, ?_, ?_, ?_⟩
    · have := hi.qpos; simp [Queue.step]; omega
    · simpa [Queue.step] using hi.qcap
    · intro m cv h; simp only [h1] at h; cases h
    · intro m cv h; exact absurd h (app_woken hi _ (by simp [Queue.notifies]) m cv)
    · intro h; simp only [h1] at h; cases h
    · rw [wake_eq_done]; exact hi.stop1
    · intro h; have := hi.stop2 h; simpa [Queue.step] using this
    · intro h hp; have := hi.hist h hp; rw [hq] at this; simpa [Queue.step, List.append_assoc] using this
    · intro h hp; simp only [h1] at hp; cases hp
    · intro h h'; obtain ⟨a, b⟩ := hi.nullOk h h'; rw [h1] at b; cases b
    · intro h; have := hi.stop3 h; simpa [Queue.step] using this
    · intro _
      simp only [Queue.step]
      have : ¬ (s.q.tellp + 1 > s.q.fileSize) := by rw [he]; simp only [Queue.U32MAX] at hsm ⊢; omega
      rw [if_neg this]; exact he
    · simp [Queue.step]; omega
  | qwriteBlock x r h1 h2 hg =>
    refine ⟨hi.qpos, hi.qcap, hi.infSleep, ?_, hi.appSleep, hi.infDone, ?_, hi.stop1, hi.stop2, ?_, ?_, hi.pref, ?_,
      hi.stop3, ?_, hi.small⟩
    · intro m cv h; injection h with a b
      exact Or.inr ⟨a.symm, b.symm, x, r, h2, hg⟩
    · intro h; cases h
    · intro h _; exact hi.hist h (by rw [h1]; simp)
    · intro h hp; cases hp
    · intro h h'; obtain ⟨a, b⟩ := hi.nullOk h h'; rw [h1] at b; cases b
    · intro _; exact hi.eos1 (by rw [h1]; simp)
  | parEos h1 h2 =>
    have hne : s.par ≠ .done := by rw [h1]; simp
    refine ⟨?_, ?_, hi.infSleep, ?_, ?_, hi.infDone, ?_, ?_, ?_, ?_, ?_, hi.pref, ?_, ?_, ?_, ?_⟩
    · simpa [Queue.step] using hi.qpos
    · simpa [Queue.step] using hi.qcap
    · intro m cv h; cases h
    · intro m cv h; exact absurd h (app_woken hi _ (by simp [Queue.notifies]) m cv)
    · intro _; simp [Queue.step]
    · rw [wake_eq_done]; exact hi.stop1
    · intro h; have := hi.stop2 h; simpa [Queue.step] using this
    · intro h hp; exact absurd rfl hp
    · intro h _
      have hp : s.prog = [] := by
        rcases h2 with h2 | h2
        · exact h2
        · simp only at h; rw [h] at h2; cases h2
      have := hi.hist h hne
      rw [hp] at this; simpa [qwrites, Queue.step] using this
    · intro h h'; obtain ⟨a, _⟩ := hi.nullOk h h'; exact ⟨by simpa [Queue.step] using a, rfl⟩
    · intro h; have := hi.stop3 h; simpa [Queue.step] using this
    · intro hp; exact absurd rfl hp
    · simpa [Queue.step] using hi.small
  | recv x r h1 h0 hg hq =>
    have hs : s.stopReq = false := by
      cases h : s.stopReq with
      | false => rfl
      | true => have := hi.stop1.1 h; rw [h1] at this; cases this
    refine ⟨?_, ?_, hi.infSleep, ?_, ?_, hi.infDone, ?_, hi.stop1, ?_, ?_, ?_, ?_, ?_, ?_, ?_, ?_⟩
    · have := hi.qpos; rw [hq] at this; simp [Queue.step, hq] at this ⊢; omega
    · simpa [Queue.step, hq] using hi.qcap
    · intro m cv h
      obtain ⟨h3, rfl, rfl, hx⟩ := par_woken_q hi _ (by simp [Queue.notifies]) m cv h
      exact Or.inl ⟨rfl, rfl, hx⟩
    · intro m cv h; simp only [h1] at h; cases h
    · intro h; have := hi.parDone ((wake_eq_done _ _ _).1 h); simpa [Queue.step, hq] using this
    · intro h; have := hi.stop2 h; simpa [Queue.step, hq] using this
    · intro h hp; have := hi.hist h ((wake_ne_done _ _ _).1 hp); rw [hq] at this
      simpa [Queue.step, hq, List.append_assoc] using this
    · intro h hp; have := hi.histDone h ((wake_eq_done _ _ _).1 hp); rw [hq] at this
      simpa [Queue.step, hq, List.append_assoc] using this
    · by_cases hp : s.par = .done
      · have := hi.histDone hs hp; rw [hq] at this
        exact ⟨r, by simpa [List.append_assoc] using this⟩
      · have := hi.hist hs hp; rw [hq] at this
        exact ⟨r ++ qwrites s.prog, by simpa [List.append_assoc] using this⟩
    · intro h; simp only [h0] at h; cases h
    · intro h; have := hi.stop3 h; simpa [Queue.step, hq] using this
    · intro hp; have := hi.eos1 ((wake_ne_done _ _ _).1 hp); simpa [Queue.step, hq] using this
    · simpa [Queue.step, hq] using hi.small
  | recvNull h1 h0 hg hq =>
    have hs : s.stopReq = false := by
      cases h : s.stopReq with
      | false => rfl
      | true => have := hi.stop1.1 h; rw [h1] at this; cases this
    refine ⟨?_, ?_, hi.infSleep, ?_, ?_, hi.infDone, ?_, hi.stop1, ?_, ?_, ?_, hi.pref, ?_, ?_, ?_, ?_⟩
    · simpa [Queue.step, hq] using hi.qpos
    · simpa [Queue.step, hq] using hi.qcap
    · intro m cv h
      obtain ⟨h3, rfl, rfl, hx⟩ := par_woken_q hi _ (by simp [Queue.notifies]) m cv h
      exact Or.inl ⟨rfl, rfl, hx⟩
    · intro m cv h; simp only [h1] at h; cases h
    · intro h; have := hi.parDone ((wake_eq_done _ _ _).1 h); simpa [Queue.step, hq] using this
    · intro h; have := hi.stop2 h; simpa [Queue.step, hq] using this
    · intro h hp; have := hi.hist h ((wake_ne_done _ _ _).1 hp)
      simpa [Queue.step, hq] using this
    · intro h hp; have := hi.histDone h ((wake_eq_done _ _ _).1 hp)
      simpa [Queue.step, hq] using this
    · intro _ _
      refine ⟨by simp [Queue.step, hq], (wake_eq_done _ _ _).2 ?_⟩
      -- the null result: the queue is empty, nobody aborted, so the declared size is reached - the parser has ended
      apply Classical.byContradiction
      intro hp
      have he := hi.eos1 hp
      have ha := (hi.stop3 hs).2
      have hpos := hi.qpos
      have hsm := hi.small
      simp [Queue.guard, ha, hq, he] at hg
      rw [hq] at hpos; simp at hpos
      omega
    · intro h; have := hi.stop3 h; simpa [Queue.step, hq] using this
    · intro hp; have := hi.eos1 ((wake_ne_done _ _ _).1 hp); simpa [Queue.step, hq] using this
    · simpa [Queue.step, hq] using hi.small
  | recvBlock h1 h0 hg =>
    refine ⟨hi.qpos, hi.qcap, hi.infSleep, hi.parSleep, ?_, hi.infDone, hi.parDone, ?_, hi.stop2, hi.hist, hi.histDone,
      hi.pref, hi.nullOk, hi.stop3, hi.eos1, hi.small⟩
    · intro m cv h; injection h with a b; exact ⟨a.symm, b.symm, hg, h0⟩
    · constructor
      · intro h; have := hi.stop1.1 h; rw [h1] at this; cases this
      · intro h; cases h
  | close h1 =>
    refine ⟨?_, ?_, ?_, ?_, ?_, ?_, ?_, ?_, ?_, ?_, ?_, hi.pref, ?_, ?_, ?_, ?_⟩
    · simpa [Queue.step] using hi.qpos
    · simpa [Queue.step] using hi.qcap
    · intro m cv h; exact absurd h (inf_woken hi _ (by simp) m cv)
    · intro m cv h
      obtain ⟨h3, h4⟩ := wake_asleep _ _ _ _ _ h
      obtain ⟨h5, h6⟩ := wake_asleep _ _ _ _ _ h3
      rcases hi.parSleep m cv h5 with ⟨rfl, rfl, _⟩ | ⟨rfl, rfl, _⟩
      · exact absurd ⟨rfl, by decide⟩ h6
      · exact absurd ⟨rfl, by decide⟩ h4
    · intro m cv h; cases h
    · intro h; exact hi.infDone ((wake_eq_done _ _ _).1 h)
    · intro h; have := hi.parDone ((wake_eq_done _ _ _).1 ((wake_eq_done _ _ _).1 h)); simpa [Queue.step] using this
    · exact ⟨fun _ => rfl, fun _ => rfl⟩
    · intro _; exact ⟨rfl, by simp [Queue.step]⟩
    · intro h; cases h
    · intro h; cases h
    · intro _ h; cases h
    · intro h; cases h
    · intro hp; have := hi.eos1 ((wake_ne_done _ _ _).1 ((wake_ne_done _ _ _).1 hp)); simpa [Queue.step] using this
    · simpa [Queue.step] using hi.small

/-! ### progress -/

theorem inf_can_step (s : Sys) (h : s.inf = .running) : ∃ t, Step s t ∧ t.stopReq = s.stopReq := by
  cases hp : s.toPush with
  | nil => exact ⟨_, Step.infEos s h (Or.inl hp), rfl⟩
  | cons c r =>
    cases hg : s.u.guardWrite with
    | true => exact ⟨_, Step.push s c r h hp hg, rfl⟩
    | false => exact ⟨_, Step.pushBlock s c r h hp hg, rfl⟩

theorem par_can_step (s : Sys) (h : s.par = .running) : ∃ t, Step s t ∧ t.stopReq = s.stopReq := by
  cases hp : s.prog with
  | nil => exact ⟨_, Step.parEos s h (Or.inl hp), rfl⟩
  | cons op r =>
    cases op with
    | uread n =>
      cases hg : s.u.guardRead n with
      | true => exact ⟨_, Step.uread s n r 0 h hp hg (Nat.zero_le _), rfl⟩
      | false => exact ⟨_, Step.ureadBlock s n r h hp hg, rfl⟩
    | useek off => exact ⟨_, Step.useek s off r h hp, rfl⟩
    | udrop => exact ⟨_, Step.udrop s r h hp, rfl⟩
    | qwrite x =>
      cases hg : Queue.guard s.q (.write x) with
      | true => exact ⟨_, Step.qwrite s x r h hp hg, rfl⟩
      | false => exact ⟨_, Step.qwriteBlock s x r h hp hg, rfl⟩

/-- the workers cannot both be stuck while the parser waits for stream data -/
theorem inf_not_stuck {all : List POp} {s : Sys} (hi : Inv all s) (n : Nat) (hg : s.u.guardRead n = false)
    (hd : s.u.demand = (n : Int) + s.u.tellg) : s.inf = .running := by
  obtain ⟨_, h2, h3⟩ := (uguardRead_false_iff _ _).1 hg
  cases h : s.inf with
  | running => rfl
  | done => have := hi.infDone h; omega
  | asleep m cv =>
    obtain ⟨_, _, hw⟩ := hi.infSleep m cv h
    obtain ⟨_, _, h5⟩ := (uguardWrite_false_iff _).1 hw
    omega

/-- **no deadlock**: in every state that satisfies the invariant and is not final, some thread can take a step that
    is not `close()` — unless the application has received the null result, after which closing is all that is left
    for it to do.  In particular `File::read()` never blocks for ever. -/
theorem no_deadlock (all : List POp) (s : Sys) (hi : Inv all s) (hnf : ¬ Final s) :
    (∃ t, Step s t ∧ t.stopReq = s.stopReq) ∨ (s.app = .running ∧ s.sawNull = true) := by
  cases ha : s.app with
  | running =>
    cases h0 : s.sawNull with
    | true => exact Or.inr ⟨rfl, rfl⟩
    | false =>
      left
      cases hg : Queue.guard s.q .read with
      | false => exact ⟨_, Step.recvBlock s ha h0 hg, rfl⟩
      | true =>
        cases hq : s.q.queue with
        | nil => exact ⟨_, Step.recvNull s ha h0 hg hq, rfl⟩
        | cons x r => exact ⟨_, Step.recv s x r ha h0 hg hq, rfl⟩
  | asleep m cv =>
    left
    obtain ⟨_, _, hg, _⟩ := hi.appSleep m cv ha
    obtain ⟨_, hq, hlt⟩ := (guard_read_false_iff _).1 hg
    cases hp : s.par with
    | running => exact par_can_step s hp
    | done =>
      have := hi.parDone hp
      have hpos := hi.qpos; rw [hq] at hpos; simp at hpos
      omega
    | asleep m2 cv2 =>
      rcases hi.parSleep m2 cv2 hp with ⟨_, _, n, r, _, hgr, hd⟩ | ⟨_, _, x, r, _, hgw⟩
      · exact inf_can_step s (inf_not_stuck hi n hgr hd)
      · obtain ⟨_, hle⟩ := (guard_write_false_iff _ _).1 hgw
        rw [hq] at hle; have := hi.qcap; simp at hle; omega
  | done =>
    left
    obtain ⟨hua, hqa⟩ := hi.stop2 (hi.stop1.2 ha)
    cases hp : s.par with
    | running => exact par_can_step s hp
    | asleep m2 cv2 =>
      rcases hi.parSleep m2 cv2 hp with ⟨_, _, n, r, _, hgr, _⟩ | ⟨_, _, x, r, _, hgw⟩
      · have := ((uguardRead_false_iff _ _).1 hgr).1; rw [hua] at this; cases this
      · have := ((guard_write_false_iff _ _).1 hgw).1; rw [hqa] at this; cases this
    | done =>
      cases hf : s.inf with
      | running => exact inf_can_step s hf
      | asleep m3 cv3 =>
        obtain ⟨_, _, hw⟩ := hi.infSleep m3 cv3 hf
        have := ((uguardWrite_false_iff _).1 hw).1; rw [hua] at this; cases this
      | done => exact absurd ⟨hf, hp, ha⟩ hnf

/-! ### termination -/

def wInf : Status → Nat | .running => 4 | .asleep _ _ => 3 | .done => 0
def wPar : Status → Nat | .running => 2 | .asleep _ _ => 0 | .done => 0
def wApp : Status → Nat | .running => 6 | .asleep _ _ => 5 | .done => 0

/-- termination measure -/
def measure (s : Sys) : Nat :=
  3 * s.toPush.length + 5 * s.prog.length + 3 * s.q.queue.length + (if s.sawNull then 0 else 3) +
  wInf s.inf + wPar s.par + wApp s.app

theorem wInf_wake (m : Mon) (cvs : List CV) (st : Status) : wInf (wake m cvs st) ≤ wInf st + 1 := by
  cases st with
  | running => simp [wake, wInf]
  | done => simp [wake, wInf]
  | asleep m2 cv => simp only [wake]; split <;> simp [wInf]

theorem wPar_wake (m : Mon) (cvs : List CV) (st : Status) : wPar (wake m cvs st) ≤ wPar st + 2 := by
  cases st with
  | running => simp [wake, wPar]
  | done => simp [wake, wPar]
  | asleep m2 cv => simp only [wake]; split <;> simp [wPar]

theorem wPar_wake2 (m m' : Mon) (cvs cvs' : List CV) (st : Status) : wPar (wake m cvs (wake m' cvs' st)) ≤ wPar st + 2 := by
  have : ∀ x, wPar x ≤ 2 := by intro x; cases x <;> simp [wPar]
  have := this (wake m cvs (wake m' cvs' st)); omega

theorem wApp_wake (m : Mon) (cvs : List CV) (st : Status) : wApp (wake m cvs st) ≤ wApp st + 1 := by
  cases st with
  | running => simp [wake, wApp]
  | done => simp [wake, wApp]
  | asleep m2 cv => simp only [wake]; split <;> simp [wApp]

/-- **termination**: the measure strictly decreases on every step, so every schedule — fair or not — is finite -/
theorem measure_step (s t : Sys) (hst : Step s t) : measure t < measure s := by
  cases hst with
  | push c r h1 h2 hg =>
    have := wPar_wake .u (uNotifies .writeCont) s.par
    simp only [measure, h2, List.length_cons]; omega
  | pushBlock c r h1 h2 hg => simp only [measure, h1, wInf]; omega
  | infEos h1 h2 =>
    have := wPar_wake .u (uNotifies .setFileSize) s.par
    simp only [measure, h1, wInf]; omega
  | uread n r j h1 h2 hg hj =>
    have := wInf_wake .u (uNotifies .read) s.inf
    simp only [measure, h2, List.length_cons]; omega
  | ureadBlock n r h1 h2 hg =>
    have := wInf_wake .u (uNotifies .read) s.inf
    simp only [measure, h1, wPar]; omega
  | useek off r h1 h2 =>
    have := wInf_wake .u (uNotifies .seekg) s.inf
    simp only [measure, h2, List.length_cons]; omega
  | udrop r h1 h2 => simp only [measure, h2, List.length_cons]; omega
  | qwrite x r h1 h2 hg =>
    have := wApp_wake .q (Queue.notifies (.write x)) s.app
    simp only [measure, h2, List.length_cons, Queue.step, List.length_append, List.length_nil]; omega
  | qwriteBlock x r h1 h2 hg => simp only [measure, h1, wPar]; omega
  | parEos h1 h2 =>
    have := wApp_wake .q (Queue.notifies (.setFileSize 0)) s.app
    simp only [measure, h1, wPar, Queue.step]; omega
  | recv x r h1 h0 hg hq =>
    have := wPar_wake .q (Queue.notifies .read) s.par
    simp only [measure, Queue.step, hq, List.length_cons]; omega
  | recvNull h1 h0 hg hq =>
    have := wPar_wake .q (Queue.notifies .read) s.par
    simp only [measure, Queue.step, hq, h0]; simp; omega
  | recvBlock h1 h0 hg => simp only [measure, h1, wApp]; omega
  | close h1 =>
    have := wInf_wake .u (uNotifies .abort) s.inf
    have := wPar_wake2 .q .u (Queue.notifies .abort) (uNotifies .abort) s.par
    simp only [measure, h1, wApp, Queue.step]; omega

/-! ### what the application receives -/

theorem reach_inv (bufU : Int) (capQ : Nat) (hc : 0 < capQ) (conts : List Nat) (prog : List POp)
    (hs : (qwrites prog).length < Queue.U32MAX) (s : Sys) (h : Reach bufU capQ conts prog s) : Inv prog s := by
  induction h with
  | init => exact inv_init bufU capQ hc conts prog hs
  | step s t _ hst ih => exact inv_step prog s t ih hst

/-- once the null result has been delivered the application holds every object the parser pushed -/
def NullAll (all : List POp) (s : Sys) : Prop := s.sawNull = true → s.got = qwrites all

theorem nullAll_step (all : List POp) (s t : Sys) (hi : Inv all s) (hn : NullAll all s) (hst : Step s t) : NullAll all t := by
  cases hst with
  | recv x r h1 h0 hg hq => intro h; simp only [h0] at h; cases h
  | recvNull h1 h0 hg hq =>
    intro _
    have hs : s.stopReq = false := by
      cases h : s.stopReq with
      | false => rfl
      | true => have := hi.stop1.1 h; rw [h1] at this; cases this
    have hi' := inv_step all s _ hi (Step.recvNull s h1 h0 hg hq)
    obtain ⟨_, hp⟩ := hi'.nullOk rfl hs
    have := hi'.histDone hs hp
    simpa [Queue.step, hq] using this
  | push c r h1 h2 hg => exact hn
  | pushBlock c r h1 h2 hg => exact hn
  | infEos h1 h2 => exact hn
  | uread n r j h1 h2 hg hj => exact hn
  | ureadBlock n r h1 h2 hg => exact hn
  | useek off r h1 h2 => exact hn
  | udrop r h1 h2 => exact hn
  | qwrite x r h1 h2 hg => exact hn
  | qwriteBlock x r h1 h2 hg => exact hn
  | parEos h1 h2 => exact hn
  | recvBlock h1 h0 hg => exact hn
  | close h1 => exact hn

/-- **order, exactly once**: in every reachable state what the application has received is a prefix of the objects the
    parser pushes, in the order of the program -/
theorem got_prefix (bufU : Int) (capQ : Nat) (hc : 0 < capQ) (conts : List Nat) (prog : List POp)
    (hs : (qwrites prog).length < Queue.U32MAX) (s : Sys) (h : Reach bufU capQ conts prog s) :
    ∃ rest, s.got ++ rest = qwrites prog :=
  (reach_inv bufU capQ hc conts prog hs s h).pref

/-- **end of file only after the last object**: when the null result has been delivered, every object was -/
theorem null_after_all (bufU : Int) (capQ : Nat) (hc : 0 < capQ) (conts : List Nat) (prog : List POp)
    (hs : (qwrites prog).length < Queue.U32MAX) (s : Sys) (h : Reach bufU capQ conts prog s) (hn : s.sawNull = true) :
    s.got = qwrites prog := by
  have : Inv prog s ∧ NullAll prog s := by
    clear hn
    induction h with
    | init => exact ⟨inv_init bufU capQ hc conts prog hs, by intro h; simp [init] at h⟩
    | step s t _ hst ih => exact ⟨inv_step prog s t ih.1 hst, nullAll_step prog s t ih.1 ih.2 hst⟩
  exact this.2 hn

/-- non-vacuity: with a stream buffer of 4 bytes, containers of 8 bytes and a read of 20 bytes the parser goes to sleep
    with a published demand, and the inflater — although 8 ≥ 4 bytes are buffered — is admitted (before fix 54cea87 this
    state was a deadlock) -/
example : ∃ s, Reach 4 1 [8, 8, 8] [.uread 20, .qwrite 7] s ∧ s.par = .asleep .u .tellp ∧ s.u.tellp = 8 ∧
    s.u.guardWrite = true := by
  refine ⟨_, Reach.step _ _ (Reach.step _ _ Reach.init (Step.push _ 8 [8, 8] rfl rfl (by decide)))
    (Step.ureadBlock _ 20 [.qwrite 7] rfl rfl (by decide)), rfl, rfl, by decide⟩

end Blf.Pipe
