import Blf.Queue
/-!
# ObjectQueue<T> with its counters as they are declared: `uint32_t` (wrap-around at 2^32)

`Blf.Queue` counts `m_tellg` / `m_tellp` in `Nat`.  The C++ members are `uint32_t`, `m_tellg++` / `m_tellp++` wrap,
and the capacity test casts `m_queue.size()` to `uint32_t`.  This file is the same machine with exactly these
reductions (`step32`, `guard32`, `run32`) and closes the gap in two directions:

* `run32_eq_run` — *refinement*: from every state that satisfies the position invariant, every operation sequence
  that keeps the put counter below 2^32 (i.e. fewer than 2^32 objects written in the life of the queue) is executed by
  the 32-bit machine exactly as by the `Nat` machine: same final state, same results.  All theorems of `Blf.Queue`
  (and the correspondence runs, which drive `Blf.Queue.step`) therefore speak about the real counters in that range.
* `fifo32`, `backpressure32`, `eos32_nonempty`, `abort_releases32` — the parts of C16 that do not depend on the counters hold for
  *every* operation sequence of the 32-bit machine, wrap or not: insertion order / exactly once, back-pressure below 2^32
  queued objects, never a null result while objects remain, abort releases every waiter.
* `inv32_run` — the position invariant survives the wrap in its modular form `(tellg + |queue|) mod 2^32 = tellp`.
* `wrap_end_unannounced` — what the wrap *does* change, exhibited as a concrete state: after 2^32 − 1 objects have been
  read with no size ever declared (`m_fileSize` still at its initial 0xFFFFFFFF) the test `m_tellg >= m_fileSize` holds and a
  read on the empty queue reports the end of the stream instead of waiting.  (The `Nat` machine says the same for that
  state; it is the meaning of the initial value, not an arithmetic artefact.  A session of 2^32 − 1 objects is outside anything
  a check can execute; recorded in DESIGN.md as an observation.)
-/
namespace Blf.Queue

/-- 2^32 -/
def W : Nat := 4294967296

/-- wait predicates with the `static_cast<uint32_t>(m_queue.size())` of `write` -/
def guard32 (s : State) : Op → Bool
  | .read => s.abort || !s.queue.isEmpty || decide (s.tellg ≥ s.fileSize)
  | .write _ => s.abort || decide (s.queue.length % W < s.bufferSize)
  | _ => true

/-- method bodies with `uint32_t` increments -/
def step32 (s : State) : Op → State × Option (Option Nat)
  | .read =>
    match s.queue with
    | [] => ({ s with good := false, eof := true }, some none)
    | x :: q => ({ s with queue := q, good := true, eof := false, tellg := (s.tellg + 1) % W }, some (some x))
  | .write x =>
    let tp := (s.tellp + 1) % W
    ({ s with queue := s.queue ++ [x], tellp := tp, fileSize := if tp > s.fileSize then tp else s.fileSize }, none)
  | .abort => ({ s with abort := true }, none)
  | .setFileSize n => ({ s with fileSize := n }, none)
  | .setBufferSize n => ({ s with bufferSize := n }, none)

def run32 (s : State) : List Op → State × List (Option Nat)
  | [] => (s, [])
  | op :: l =>
    if guard32 s op then
      let r := step32 s op
      let rest := run32 r.1 l
      match r.2 with
      | some v => (rest.1, v :: rest.2)
      | none => rest
    else run32 s l

def written32 (s : State) : List Op → List Nat
  | [] => []
  | op :: l =>
    if guard32 s op then
      match op with
      | .write x => x :: written32 (step32 s op).1 l
      | _ => written32 (step32 s op).1 l
    else written32 s l

/-! ## refinement below the wrap -/

theorem guard32_eq (s : State) (op : Op) (hq : s.queue.length < W) : guard32 s op = guard s op := by
  cases op <;> simp [guard32, guard, Nat.mod_eq_of_lt hq]

theorem step32_eq (s : State) (op : Op) (hi : Inv s) (hp : s.tellp + 1 < W) : step32 s op = step s op := by
  unfold Inv at hi
  cases op with
  | read =>
    simp only [step32, step]
    cases hq : s.queue with
    | nil => rfl
    | cons x q =>
      have : s.tellg + 1 < W := by simp [hq] at hi; omega
      simp [Nat.mod_eq_of_lt this]
  | write x => simp [step32, step, Nat.mod_eq_of_lt hp]
  | abort => rfl
  | setFileSize n => rfl
  | setBufferSize n => rfl

theorem tellp_step_le (s : State) (op : Op) : (step s op).1.tellp ≤ s.tellp + 1 := by
  cases op with
  | read => simp only [step]; cases s.queue <;> simp
  | write x => simp [step]
  | abort => simp [step]
  | setFileSize n => simp [step]
  | setBufferSize n => simp [step]

/-- **refinement**: as long as the put counter stays below 2^32 the machine with `uint32_t` counters and the machine
    with unbounded counters are the same function of the operation sequence -/
theorem run32_eq_run (s : State) (ops : List Op) (hi : Inv s) (hb : s.tellp + ops.length < W) :
    run32 s ops = run s ops := by
  induction ops generalizing s with
  | nil => rfl
  | cons op l ih =>
    have hlen : s.queue.length < W := by unfold Inv at hi; simp at hb; omega
    have hp : s.tellp + 1 < W := by simp at hb; omega
    simp only [run32, run, guard32_eq s op hlen, step32_eq s op hi hp]
    split
    · have hb' : (step s op).1.tellp + l.length < W := by
        have := tellp_step_le s op; simp at hb; omega
      simp only [ih _ (inv_step s op hi) hb']
      cases (step s op).2 <;> rfl
    · exact ih s hi (by simp at hb; omega)

/-- the same for a fresh queue: fewer than 2^32 operations in all -/
theorem run32_eq_run_fresh (ops : List Op) (hb : ops.length < W) : run32 {} ops = run {} ops :=
  run32_eq_run {} ops (by simp [Inv]) (by simpa using hb)

/-! ## what holds for every sequence, wrap or not -/

/-- FIFO, exactly once — independent of the counters -/
theorem fifo32 (s : State) (ops : List Op) :
    delivered (run32 s ops).2 ++ (run32 s ops).1.queue = s.queue ++ written32 s ops := by
  induction ops generalizing s with
  | nil => simp [run32, written32, delivered]
  | cons op l ih =>
    simp only [run32, written32]
    split
    · cases op with
      | read =>
        simp only [step32]
        cases hq : s.queue with
        | nil =>
          simp only []
          have := ih { s with good := false, eof := true }
          simp only [hq] at this
          simpa [delivered] using this
        | cons x q =>
          simp only []
          have := ih { s with queue := q, good := true, eof := false, tellg := (s.tellg + 1) % W }
          simp only at this
          simp only [delivered, List.filterMap_cons, id] at this ⊢
          simp [this]
      | write x =>
        simp only [step32]
        have := ih { s with queue := s.queue ++ [x], tellp := (s.tellp + 1) % W,
                            fileSize := if (s.tellp + 1) % W > s.fileSize then (s.tellp + 1) % W else s.fileSize }
        simp only at this
        simp [this]
      | abort => simp only [step32]; exact ih _
      | setFileSize n => simp only [step32]; exact ih _
      | setBufferSize n => simp only [step32]; exact ih _
    · exact ih s

/-- back-pressure with the cast: below 2^32 queued objects the writer is held back exactly at capacity -/
theorem backpressure32 (s : State) (x : Nat) (hq : s.queue.length < W) :
    guard32 s (.write x) = false ↔ (s.abort = false ∧ s.bufferSize ≤ s.queue.length) := by
  simp [guard32, Nat.mod_eq_of_lt hq, Nat.not_lt]

/-- never a null result while objects remain; a null result sets eof and clears good -/
theorem eos32_nonempty (s : State) :
    ((step32 s .read).2 = some none ↔ s.queue = []) ∧
    ((step32 s .read).2 = some none → (step32 s .read).1.eof = true ∧ (step32 s .read).1.good = false) := by
  cases hq : s.queue <;> simp [step32, hq]

/-- an admitted read on the empty queue: the size test held or abort was called -/
theorem eos32_cause (s : State) (hg : guard32 s .read = true) (hq : s.queue = []) :
    s.tellg ≥ s.fileSize ∨ s.abort = true := by
  simp only [guard32, hq, List.isEmpty_nil, Bool.not_true, Bool.or_false, Bool.or_eq_true, decide_eq_true_eq] at hg
  rcases hg with h | h
  · exact Or.inr h
  · exact Or.inl h

theorem abort_sticky32 (t : State) (l : List Op) (h : t.abort = true) : (run32 t l).1.abort = true := by
  induction l generalizing t with
  | nil => simpa [run32] using h
  | cons o l ih =>
    simp only [run32]
    split
    · have h' : (step32 t o).1.abort = true := by
        cases o <;> simp [step32, h]
        cases t.queue <;> simp
      have := ih _ h'
      cases hr : (step32 t o).2 <;> simp <;> exact this
    · exact ih t h

/-- abort releases every waiter, for ever -/
theorem abort_releases32 (s : State) (ops : List Op) (op : Op) :
    guard32 (run32 (step32 s .abort).1 ops).1 op = true := by
  have ha := abort_sticky32 (step32 s .abort).1 ops (by simp [step32])
  cases op <;> simp [guard32, ha]

/-- modular position invariant -/
def Inv32 (s : State) : Prop := (s.tellg + s.queue.length) % W = s.tellp % W

theorem inv32_step (s : State) (op : Op) (h : Inv32 s) : Inv32 (step32 s op).1 := by
  unfold Inv32 at *
  cases op with
  | read =>
    simp only [step32]
    cases hq : s.queue with
    | nil => simpa [hq] using h
    | cons x q =>
      simp only [hq, List.length_cons] at h ⊢
      simp only [W] at *
      omega
  | write x =>
    simp only [step32, List.length_append, List.length_cons, List.length_nil]
    simp only [W] at *
    omega
  | abort => simpa [step32] using h
  | setFileSize n => simpa [step32] using h
  | setBufferSize n => simpa [step32] using h

theorem inv32_run (s : State) (ops : List Op) (h : Inv32 s) : Inv32 (run32 s ops).1 := by
  induction ops generalizing s with
  | nil => simpa [run32] using h
  | cons op l ih =>
    simp only [run32]
    split
    · have := ih _ (inv32_step s op h)
      cases hr : (step32 s op).2 <;> simp <;> exact this
    · exact ih s h

/-- the state after 2^32 − 1 objects written and read, no size declared: the read is admitted and reports the end -/
def wrapState : State := { tellg := U32MAX, tellp := U32MAX }

theorem wrap_end_unannounced :
    Inv wrapState ∧ wrapState.fileSize = U32MAX ∧ wrapState.abort = false ∧
    guard32 wrapState .read = true ∧ (step32 wrapState .read).2 = some none ∧
    guard wrapState .read = true ∧ (step wrapState .read).2 = some none := by
  refine ⟨by simp [Inv, wrapState], ?_⟩
  decide

/-- ... and one object later both counters are 0 again while the declared size stays at its maximum -/
example : (run32 wrapState [.write 7, .read]).1.tellg = 0 ∧ (run32 wrapState [.write 7, .read]).1.tellp = 0 ∧
    (run32 wrapState [.write 7, .read]).2 = [some 7] ∧ (run32 wrapState [.write 7, .read]).1.fileSize = U32MAX := by
  decide

/-- non-vacuity of the refinement: a history with a blocked write, on a capacity-2 queue -/
example : run32 { bufferSize := 2 } [.write 7, .write 8, .write 9, .read, .setFileSize 2, .read, .read] =
    run { bufferSize := 2 } [.write 7, .write 8, .write 9, .read, .setFileSize 2, .read, .read] ∧
    (run32 { bufferSize := 2 } [.write 7, .write 8, .write 9, .read, .setFileSize 2, .read, .read]).2 = [some 7, some 8, none] := by
  decide

end Blf.Queue
