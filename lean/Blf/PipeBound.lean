import Blf.Pipe
import Blf.WPipe
/-!
# Back-pressure: what is buffered ahead of the consumer stays bounded  (C12)

Read pipeline (`Blf.Pipe`): as long as the application has not closed the file, the bytes the inflater has appended
beyond the parser's position never exceed `max bufferSize R + C`, where `R` bounds the parser's reads and `C` the
container sizes — however many containers the file has and however slowly parser and application run; and the object
queue never holds more than its capacity.  (Programs without backward seeks; the real parser seeks back by less than one
object right after having read it.)

Write pipeline (`Blf.WPipe`): the bytes the encoder has written beyond the compressor's position never exceed
`max bufferSize cs + S`, `S` a bound on the size of one encoded object, and the queue never exceeds its capacity.
-/
namespace Blf.PipeBound
open Blf.Queue (CV)
open Blf.Pipe

def readsLe (R : Nat) : List POp → Prop
  | [] => True
  | .uread n :: r => n ≤ R ∧ readsLe R r
  | .useek off :: r => 0 ≤ off ∧ readsLe R r
  | _ :: r => readsLe R r

def lsum : List Nat → Nat
  | [] => 0
  | c :: l => c + lsum l

structure BInv (bufU : Int) (R C : Nat) (s : Sys) : Prop where
  ahead : s.stopReq = false → s.u.tellp - s.u.tellg ≤ max bufU R + C
  dem : s.u.demand = 0 ∨ ∃ n r, s.prog = .uread n :: r ∧ s.u.demand = (n : Int) + s.u.tellg
  g0 : 0 ≤ s.u.tellg
  p0 : 0 ≤ s.u.tellp
  fs : s.u.tellp ≤ s.u.fileSize
  live : s.inf ≠ .done → s.u.fileSize = UFile.I64MAX ∧ s.u.tellp + lsum s.toPush ≤ UFile.I64MAX
  conts : ∀ c ∈ s.toPush, c ≤ C
  prog : readsLe R s.prog
  buf : s.u.bufferSize = bufU
  qlen : s.stopReq = false → s.q.queue.length ≤ s.q.bufferSize

theorem BInv.demLe {bufU : Int} {R C : Nat} {s : Sys} (hb : BInv bufU R C s) : s.u.demand ≤ s.u.tellg + R := by
  rcases hb.dem with h | ⟨n, r, h1, h2⟩
  · rw [h]; have := hb.g0; omega
  · have hp := hb.prog; rw [h1] at hp; have := hp.1; omega

theorem binv_init (bufU : Int) (capQ : Nat) (conts : List Nat) (prog : List POp) (R C : Nat)
    (hc : ∀ c ∈ conts, c ≤ C) (hp : readsLe R prog) (hsum : (lsum conts : Int) ≤ UFile.I64MAX) :
    BInv bufU R C (init bufU capQ conts prog) := by
  refine ⟨?_, Or.inl rfl, Int.le_refl _, Int.le_refl _, ?_, ?_, hc, hp, rfl, ?_⟩
  · intro _; simp [init]; omega
  · simp [init, UFile.I64MAX]
  · intro _; exact ⟨rfl, by simpa [init] using hsum⟩
  · intro _; simp [init]

theorem binv_step (all : List POp) (bufU : Int) (R C : Nat) (s t : Sys) (hi : Inv all s) (hb : BInv bufU R C s)
    (hst : Step s t) : BInv bufU R C t := by
  cases hst with
  | push c r h1 h2 hg =>
    have hne : s.inf ≠ .done := by rw [h1]; simp
    obtain ⟨hfs, hsum⟩ := hb.live hne
    rw [h2] at hsum; simp only [lsum] at hsum
    have hcC : c ≤ C := hb.conts c (by rw [h2]; simp)
    refine ⟨?_, hb.dem, hb.g0, ?_, ?_, ?_, ?_, hb.prog, hb.buf, hb.qlen⟩
    · intro hs
      have ha := (hi.stop3 hs).1
      have hd := hb.demLe
      have hbuf := hb.buf
      simp [UP.guardWrite, ha] at hg
      simp only
      rcases hg with hg | hg <;> omega
    · simp only; have := hb.p0; omega
    · simp only; rw [hfs]; push_cast at hsum ⊢; omega
    · intro _; simp only; exact ⟨hfs, by push_cast at hsum ⊢; omega⟩
    · intro d hd; exact hb.conts d (by rw [h2]; simp [hd])
  | pushBlock c r h1 h2 hg =>
    exact ⟨hb.ahead, hb.dem, hb.g0, hb.p0, hb.fs, fun _ => hb.live (by rw [h1]; simp), hb.conts, hb.prog, hb.buf, hb.qlen⟩
  | infEos h1 h2 =>
    exact ⟨hb.ahead, hb.dem, hb.g0, hb.p0, Int.le_refl _, fun h => absurd rfl h, hb.conts, hb.prog, hb.buf, hb.qlen⟩
  | uread n r j h1 h2 hg hj =>
    have hp := hb.prog; rw [h2] at hp
    refine ⟨?_, Or.inl rfl, ?_, hb.p0, hb.fs, fun h => hb.live ((wake_ne_done _ _ _).1 h), hb.conts, hp.2, hb.buf, hb.qlen⟩
    · intro hs; have := hb.ahead hs; simp only; omega
    · simp only; have := hb.g0; omega
  | ureadBlock n r h1 h2 hg =>
    exact ⟨hb.ahead, Or.inr ⟨n, r, h2, rfl⟩, hb.g0, hb.p0, hb.fs, fun h => hb.live ((wake_ne_done _ _ _).1 h), hb.conts, hb.prog,
      hb.buf, hb.qlen⟩
  | useek off r h1 h2 =>
    have hp := hb.prog; rw [h2] at hp
    have h0 := hp.1
    have hg0 := hb.g0
    have hfs := hb.fs
    have hp0 := hb.p0
    have hd0 : s.u.demand = 0 := by
      rcases hb.dem with h | ⟨n, r', h3, _⟩
      · exact h
      · rw [h2] at h3; cases h3
    refine ⟨?_, Or.inl hd0, ?_, hb.p0, hb.fs, fun h => hb.live ((wake_ne_done _ _ _).1 h), hb.conts, hp.2, hb.buf, hb.qlen⟩
    · intro hs
      have := hb.ahead hs
      simp only
      have hM : (0 : Int) ≤ max bufU R + C := by omega
      omega
    · simp only; omega
  | udrop r h1 h2 =>
    have hp := hb.prog; rw [h2] at hp
    have hd : s.u.demand = 0 ∨ ∃ n r', r = .uread n :: r' ∧ s.u.demand = (n : Int) + s.u.tellg := by
      rcases hb.dem with h | ⟨n, r', h3, _⟩
      · exact Or.inl h
      · rw [h2] at h3; cases h3
    exact ⟨hb.ahead, hd, hb.g0, hb.p0, hb.fs, hb.live, hb.conts, hp, hb.buf, hb.qlen⟩
  | qwrite x r h1 h2 hg =>
    have hp := hb.prog; rw [h2] at hp
    have hd : s.u.demand = 0 ∨ ∃ n r', r = .uread n :: r' ∧ s.u.demand = (n : Int) + s.u.tellg := by
      rcases hb.dem with h | ⟨n, r', h3, _⟩
      · exact Or.inl h
      · rw [h2] at h3; cases h3
    refine ⟨hb.ahead, hd, hb.g0, hb.p0, hb.fs, hb.live, hb.conts, hp, hb.buf, ?_⟩
    intro hs
    have ha := (hi.stop3 hs).2
    simp [Queue.guard, ha] at hg
    simp [Queue.step]; omega
  | qwriteBlock x r h1 h2 hg => exact ⟨hb.ahead, hb.dem, hb.g0, hb.p0, hb.fs, hb.live, hb.conts, hb.prog, hb.buf, hb.qlen⟩
  | parEos h1 h2 =>
    refine ⟨hb.ahead, hb.dem, hb.g0, hb.p0, hb.fs, hb.live, hb.conts, hb.prog, hb.buf, ?_⟩
    intro hs; simpa [Queue.step] using hb.qlen hs
  | recv x r h1 h0 hg hq =>
    refine ⟨hb.ahead, hb.dem, hb.g0, hb.p0, hb.fs, hb.live, hb.conts, hb.prog, hb.buf, ?_⟩
    intro hs; have := hb.qlen hs; rw [hq] at this; simp [Queue.step, hq] at this ⊢; omega
  | recvNull h1 h0 hg hq =>
    refine ⟨hb.ahead, hb.dem, hb.g0, hb.p0, hb.fs, hb.live, hb.conts, hb.prog, hb.buf, ?_⟩
    intro hs; simpa [Queue.step, hq] using hb.qlen hs
  | recvBlock h1 h0 hg => exact ⟨hb.ahead, hb.dem, hb.g0, hb.p0, hb.fs, hb.live, hb.conts, hb.prog, hb.buf, hb.qlen⟩
  | close h1 =>
    refine ⟨?_, hb.dem, hb.g0, hb.p0, hb.fs, ?_, hb.conts, hb.prog, hb.buf, ?_⟩
    · intro h; cases h
    · intro h; exact hb.live ((wake_ne_done _ _ _).1 h)
    · intro h; cases h

/-- **C12, read session**: in every reachable state before `close()`, at most `max bufferSize R + C` bytes are buffered ahead
    of the parser and at most `capacity` objects are queued — independent of the number of containers -/
theorem read_buffered_bounded (bufU : Int) (capQ : Nat) (hc : 0 < capQ) (conts : List Nat) (prog : List POp) (R C : Nat)
    (hs : (qwrites prog).length < Queue.U32MAX) (hcC : ∀ c ∈ conts, c ≤ C) (hp : readsLe R prog)
    (hsum : (lsum conts : Int) ≤ UFile.I64MAX) (s : Sys) (h : Reach bufU capQ conts prog s) (hopen : s.stopReq = false) :
    s.u.tellp - s.u.tellg ≤ max bufU R + C ∧ s.q.queue.length ≤ capQ := by
  have : Inv prog s ∧ BInv bufU R C s ∧ s.q.bufferSize = capQ := by
    clear hopen
    induction h with
    | init => exact ⟨inv_init bufU capQ hc conts prog hs, binv_init bufU capQ conts prog R C hcC hp hsum, rfl⟩
    | step s t _ hst ih =>
      refine ⟨inv_step prog s t ih.1 hst, binv_step prog bufU R C s t ih.1 ih.2.1 hst, ?_⟩
      have := ih.2.2
      cases hst <;> simp [Queue.step] <;> first | exact this | (split <;> exact this) | skip
  exact ⟨this.2.1.ahead hopen, by rw [← this.2.2]; exact this.2.1.qlen hopen⟩

/-! ## write session -/
open Blf.WPipe in
structure WBInv (sz : Nat → Nat) (bufU : Int) (S : Nat) (s : WPipe.Sys) : Prop where
  ahead : s.u.tellp - s.u.tellg ≤ max bufU s.cs + S
  dem : s.u.demand = 0 ∨ s.u.demand = (s.cs : Int) + s.u.tellg
  g0 : 0 ≤ s.u.tellg
  buf : s.u.bufferSize = bufU
  qlen : s.q.queue.length ≤ s.q.bufferSize

theorem wbinv_step (sz : Nat → Nat) (hS : ∀ x, sz x ≤ S) (objs : List Nat) (bufU : Int) (s t : WPipe.Sys)
    (hi : WPipe.Inv sz objs s) (hb : WBInv sz bufU S s) (hst : WPipe.Step sz s t) : WBInv sz bufU S t := by
  cases hst with
  | awrite x r h1 h2 hg =>
    refine ⟨hb.ahead, hb.dem, hb.g0, hb.buf, ?_⟩
    have ha := hi.noAbort.2
    simp [Queue.guard, ha] at hg
    simp [Queue.step]; omega
  | awriteBlock x r h1 h2 hg => exact ⟨hb.ahead, hb.dem, hb.g0, hb.buf, hb.qlen⟩
  | aEos h1 h2 => exact ⟨hb.ahead, hb.dem, hb.g0, hb.buf, by simpa [Queue.step] using hb.qlen⟩
  | eRecv x r h1 h0 hg hq =>
    refine ⟨hb.ahead, hb.dem, hb.g0, hb.buf, ?_⟩
    have := hb.qlen; rw [hq] at this; simp [Queue.step, hq] at this ⊢; omega
  | eNull h1 h0 hg hq => exact ⟨hb.ahead, hb.dem, hb.g0, hb.buf, by simpa [Queue.step, hq] using hb.qlen⟩
  | eBlockQ h1 h0 hg => exact ⟨hb.ahead, hb.dem, hb.g0, hb.buf, hb.qlen⟩
  | eWrite x h1 h0 hg =>
    refine ⟨?_, hb.dem, hb.g0, hb.buf, hb.qlen⟩
    have ha := hi.noAbort.1
    have hbuf := hb.buf
    have hg0 := hb.g0
    have hx := hS x
    simp [UP.guardWrite, ha] at hg
    simp only
    rcases hg with hg | hg
    · omega
    · rcases hb.dem with hd | hd <;> omega
  | eBlockU x h1 h0 hg => exact ⟨hb.ahead, hb.dem, hb.g0, hb.buf, hb.qlen⟩
  | cFull h1 hg hs =>
    refine ⟨?_, Or.inl rfl, ?_, hb.buf, hb.qlen⟩
    · have := hb.ahead; simp only; omega
    · have := hb.g0; simp only; omega
  | cShort h1 hg hs =>
    have hfs : s.u.tellg ≤ s.u.fileSize := by
      have h3 := hi.tp
      have h4 := hi.gle
      have h5 := hi.big
      have h6 := WPipe.total_le_of_hist sz s.wr (WPipe.pend s.pending) s.q.queue s.toWrite
      rw [hi.hist] at h6
      by_cases he : s.enc = .done
      · have := (hi.encDone he).1; omega
      · have := hi.encLive he; omega
    refine ⟨?_, Or.inl rfl, ?_, hb.buf, hb.qlen⟩
    · have := hb.ahead; simp only; omega
    · have := hb.g0; simp only; omega
  | cBlock h1 hg => exact ⟨hb.ahead, Or.inr rfl, hb.g0, hb.buf, hb.qlen⟩

/-- **C12, write session**: in every reachable state at most `max bufferSize cs + S` bytes are buffered ahead of the
    compressor (`S` bounds the encoding of one object) and at most `capacity` objects are queued -/
theorem write_buffered_bounded (sz : Nat → Nat) (S : Nat) (hS : ∀ x, sz x ≤ S) (bufU : Int) (capQ : Nat) (hc : 0 < capQ)
    (cs : Nat) (hcs : 0 < cs) (objs : List Nat) (hs : objs.length < Queue.U32MAX)
    (hb : (WPipe.total sz objs : Int) + cs < UFile.I64MAX) (s : WPipe.Sys) (h : WPipe.Reach sz bufU capQ cs objs s) :
    s.u.tellp - s.u.tellg ≤ max bufU cs + S ∧ s.q.queue.length ≤ capQ := by
  have : WPipe.Inv sz objs s ∧ WBInv sz bufU S s ∧ s.q.bufferSize = capQ ∧ s.cs = cs := by
    induction h with
    | init =>
      refine ⟨WPipe.inv_init sz bufU capQ hc cs hcs objs hs hb, ⟨?_, Or.inl rfl, Int.le_refl _, rfl, ?_⟩, rfl, rfl⟩
      · simp [WPipe.init]; omega
      · simp [WPipe.init]
    | step s t _ hst ih =>
      refine ⟨WPipe.inv_step sz objs s t ih.1 hst, wbinv_step sz hS objs bufU s t ih.1 ih.2.1 hst, ?_, ?_⟩
      · have := ih.2.2.1
        cases hst <;> simp [Queue.step] <;> first | exact this | (split <;> exact this) | skip
      · rw [WPipe.cs_const sz s t hst]; exact ih.2.2.2
  obtain ⟨_, hw, hq, hcs'⟩ := this
  exact ⟨by have := hw.ahead; rw [hcs'] at this; exact this, by rw [← hq]; exact hw.qlen⟩

end Blf.PipeBound

namespace Blf.PipeBound
open Blf.UFile

theorem dropWhile_head (p : Cont → Bool) : ∀ (l : List Cont), l.dropWhile p = [] ∨ ∃ c r, l.dropWhile p = c :: r ∧ p c = false := by
  intro l
  induction l with
  | nil => exact Or.inl rfl
  | cons a l ih =>
    simp only [List.dropWhile]
    cases hp : p a with
    | true => simpa using ih
    | false => exact Or.inr ⟨a, l, by simp, hp⟩

/-- **C12, what `dropOldData` leaves**: after the call either nothing is held, or the first container still held reaches
    beyond the get position — so the bytes held are at most what is buffered ahead plus one container -/
theorem drop_resident (s : State) (hgp : s.tellg ≤ s.tellp) (hpf : s.tellp ≤ s.fileSize) :
    (dropOldData s).data = [] ∨ ∃ c r, (dropOldData s).data = c :: r ∧ s.tellg < (c.size : Int) + c.pos := by
  unfold dropOldData
  rcases dropWhile_head (droppable s) s.data with h | ⟨c, r, h, hc⟩
  · exact Or.inl h
  · refine Or.inr ⟨c, r, h, ?_⟩
    simp [droppable] at hc
    omega

end Blf.PipeBound
