import Blf.FileRound
/-!
# Log containers: what the writer emits, the reader takes back  (C01/C04, container level)

`LogContainer` is outside the exactly-framed fragment: its reader does not read the length of the stored data but derives it
from the object size.  Its two generated programs are analysed here directly: the writer's program is the canonical one of
the layout `L9 ++ [var 10 1 12, pad 3 4]` behind three assignments, the reader's is signature search, the canonical reads
of `L9`, the assignment `compressedFileSize := objectSize - 32` and the canonical reads of the stored data and the padding.
-/
namespace Blf.ContainerRound
open Blf Blf.FileSeq Blf.FileRound

def L9 : List Item := hdr4 ++ [.scalar 5 2, .scalar 6 2, .scalar 7 4, .scalar 8 4, .scalar 9 4]
def T2 : List Item := [.var 10 1 12, .pad 3 4]

def lcAssigns : List (Nat × Expr) :=
  [(12, .cast 4 (.bsize 10 1)), (1, .const 16), (3, .cast 4 (.add (.const 32) (.cast 4 (.bsize 10 1))))]

theorem lc_rd : Gen.LogContainer.readProg = Stmt.block ((.sync 0 :: canonRd L9) ++
    (.assign 12 (.sub 4 (.fld 3) (.const 32)) :: canonRd T2)) := rfl

theorem lc_wr : Gen.LogContainer.writeProg = Stmt.block (assignStmts lcAssigns ++ .wr 0 4 :: canonWr (L9 ++ T2)) := rfl

/-- the object after the writer's pre-processing -/
def lcPre (o : Obj) : Obj := runAssigns o lcAssigns

theorem lcPre_buf (o : Obj) (f : Nat) : (lcPre o).buf f = o.buf f := runAssigns_buf o lcAssigns f

theorem lcPre_num (o : Obj) (h : (o.buf 10).length + 32 < 256 ^ 4) :
    (lcPre o).num 12 = (o.buf 10).length ∧ (lcPre o).num 1 = 16 ∧ (lcPre o).num 3 = 32 + (o.buf 10).length ∧
    ∀ g, g ≠ 12 → g ≠ 1 → g ≠ 3 → (lcPre o).num g = o.num g := by
  have h1 : (o.buf 10).length % 256 ^ 4 = (o.buf 10).length := Nat.mod_eq_of_lt (by omega)
  have h2 : (32 + (o.buf 10).length) % 256 ^ 4 = 32 + (o.buf 10).length := Nat.mod_eq_of_lt (by omega)
  simp only [lcPre, lcAssigns, runAssigns, Expr.eval, Obj.setNum, Nat.div_one]
  refine ⟨by simp [h1], by simp, by simp [h1, h2], fun g a b c => by simp [a, b, c]⟩

theorem decItem_num_frame (cap : Nat) (o o1 : Obj) (s s1 : Bytes) (i : Item)
    (h : decItem cap o s i = some (o1, s1)) (g : Nat) (hg : i.numDef ≠ some g) : o1.num g = o.num g := by
  cases i with
  | scalar f w =>
    simp only [decItem] at h
    split at h
    · simp only [Option.some.injEq, Prod.mk.injEq] at h
      rw [← h.1]
      have : g ≠ f := by intro e; subst e; exact hg rfl
      exact Obj.setNum_num_ne _ _ this
    · cases h
  | fixed f n =>
    simp only [decItem] at h
    split at h
    · simp only [Option.some.injEq, Prod.mk.injEq] at h; rw [← h.1]; rfl
    · cases h
  | var f ew len =>
    simp only [decItem] at h
    split at h
    · simp only [Option.some.injEq, Prod.mk.injEq] at h; rw [← h.1]; rfl
    · cases h
  | pad g' k => simp only [decItem, Option.some.injEq, Prod.mk.injEq] at h; rw [← h.1]
  | skipK n => simp only [decItem, Option.some.injEq, Prod.mk.injEq] at h; rw [← h.1]

theorem decItems_num_frame (cap : Nat) : ∀ (L : List Item) (o o1 : Obj) (s s1 : Bytes),
    decItems cap L o s = some (o1, s1) → ∀ g, g ∉ L.filterMap Item.numDef → o1.num g = o.num g := by
  intro L
  induction L with
  | nil => intro o o1 s s1 h g _; simp only [decItems, Option.some.injEq, Prod.mk.injEq] at h; rw [← h.1]
  | cons i l ih =>
    intro o o1 s s1 h g hg
    simp only [decItems] at h
    cases hd : decItem cap o s i with
    | none => rw [hd] at h; cases h
    | some p =>
      obtain ⟨o2, s2⟩ := p
      rw [hd] at h
      simp only at h
      have h1 := decItem_num_frame cap o o2 s s2 i hd g (by
        intro e; apply hg; simp [List.filterMap_cons, e])
      have h2 := ih o2 o1 s2 s1 h g (by
        intro hm; apply hg
        simp only [List.filterMap_cons]
        split
        · exact hm
        · exact List.mem_cons_of_mem _ hm)
      rw [h2, h1]

theorem decItems_buf_frame (cap : Nat) : ∀ (L : List Item) (o o1 : Obj) (s s1 : Bytes),
    decItems cap L o s = some (o1, s1) → ∀ g, g ∉ L.filterMap Item.bufDef → o1.buf g = o.buf g := by
  intro L
  induction L with
  | nil => intro o o1 s s1 h g _; simp only [decItems, Option.some.injEq, Prod.mk.injEq] at h; rw [← h.1]
  | cons i l ih =>
    intro o o1 s s1 h g hg
    simp only [decItems] at h
    cases hd : decItem cap o s i with
    | none => rw [hd] at h; cases h
    | some p =>
      obtain ⟨o2, s2⟩ := p
      rw [hd] at h
      simp only at h
      have h1 := decItem_buf_frame cap o o2 s s2 i hd g (by
        intro e; apply hg; simp [List.filterMap_cons, e])
      have h2 := ih o2 o1 s2 s1 h g (by
        intro hm; apply hg
        simp only [List.filterMap_cons]
        split
        · exact hm
        · exact List.mem_cons_of_mem _ hm)
      rw [h2, h1]

/-- canonical reads of an item list at a position where its encoding stands -/
theorem canonRd_at (cfg : Cfg) (hs : cfg.sticky = false) (L : List Item) (kn bf : List Nat) (ow : Obj) (st : St) (rest : Bytes)
    (hok : itemsOK kn bf L = true) (hwf : ItemsWF ow L) (hag : Agree kn bf st.obj ow) (harr : ArrOK st.obj L)
    (hcap : ∀ f ew len, Item.var f ew len ∈ L → ow.num len * ew ≤ cfg.cap)
    (h0 : st.halt = .none) (hp : st.pos ≤ st.inp.length) (hin : st.inp.drop st.pos = encItems ow L ++ rest) :
    ((Stmt.block (canonRd L)).exec cfg st).halt = .none ∧
    ((Stmt.block (canonRd L)).exec cfg st).short = st.short ∧
    ((Stmt.block (canonRd L)).exec cfg st).inp = st.inp ∧
    ((Stmt.block (canonRd L)).exec cfg st).out = st.out ∧
    ((Stmt.block (canonRd L)).exec cfg st).pos = st.inp.length - rest.length ∧
    Agree (L.filterMap Item.numDef ++ kn) (L.filterMap Item.bufDef ++ bf) ((Stmt.block (canonRd L)).exec cfg st).obj ow ∧
    (∀ g, g ∉ L.filterMap Item.numDef → ((Stmt.block (canonRd L)).exec cfg st).obj.num g = st.obj.num g) ∧
    (∀ g, g ∉ L.filterMap Item.bufDef → ((Stmt.block (canonRd L)).exec cfg st).obj.buf g = st.obj.buf g) := by
  obtain ⟨o', hd, ha⟩ := dec_enc cfg.cap L kn bf ow st.obj rest hok hwf hag hcap
  have hrd := exec_canonRd cfg hs L kn bf st hok h0 hp harr
  rw [hin, hd] at hrd
  refine ⟨hrd.halt, hrd.short, hrd.inp, hrd.out, drop_eq_pos _ _ _ hrd.pos hrd.rest, ?_, ?_, ?_⟩
  · rw [hrd.obj]; exact ha
  · intro g hg; rw [hrd.obj]; exact decItems_num_frame cfg.cap L st.obj o' _ rest hd g hg
  · intro g hg; rw [hrd.obj]; exact decItems_buf_frame cfg.cap L st.obj o' _ rest hd g hg

/-- what the writer needs of a container object -/
structure LcOK (o : Obj) : Prop where
  sig : o.num 0 = SIG
  size : (o.buf 10).length + 32 < 256 ^ 4
  n2 : o.num 2 < 256 ^ 2
  n4 : o.num 4 < 256 ^ 4
  n5 : o.num 5 < 256 ^ 2
  n6 : o.num 6 < 256 ^ 2
  n7 : o.num 7 < 256 ^ 4
  n8 : o.num 8 < 256 ^ 4
  n9 : o.num 9 < 256 ^ 4

theorem lcPre_wf (o : Obj) (h : LcOK o) : ItemsWF (lcPre o) (L9 ++ T2) := by
  obtain ⟨h12, h1, h3, hr⟩ := lcPre_num o h.size
  have := h.size
  simp only [L9, hdr4, T2, List.cons_append, List.nil_append, ItemsWF, Item.WF, and_true]
  refine ⟨by rw [h1]; decide, by rw [hr 2 (by decide) (by decide) (by decide)]; exact h.n2, by rw [h3]; omega,
    by rw [hr 4 (by decide) (by decide) (by decide)]; exact h.n4, by rw [hr 5 (by decide) (by decide) (by decide)]; exact h.n5,
    by rw [hr 6 (by decide) (by decide) (by decide)]; exact h.n6, by rw [hr 7 (by decide) (by decide) (by decide)]; exact h.n7,
    by rw [hr 8 (by decide) (by decide) (by decide)]; exact h.n8, by rw [hr 9 (by decide) (by decide) (by decide)]; exact h.n9,
    by rw [lcPre_buf, h12]; simp⟩

/-- **what `LogContainer::write` emits** -/
theorem lc_encode (cfg : Cfg) (o : Obj) (h : LcOK o) :
    (Gen.LogContainer.encode cfg o).halt = .none ∧
    (Gen.LogContainer.encode cfg o).out = leBytes 4 SIG ++ encItems (lcPre o) (L9 ++ T2) := by
  unfold Codec.encode
  rw [lc_wr, exec_assigns cfg lcAssigns _ _ rfl, exec_block_cons]
  simp only [Stmt.exec, if_true]
  have hw := exec_canonWr cfg (L9 ++ T2)
    { obj := runAssigns o lcAssigns, out := [] ++ leBytes 4 ((runAssigns o lcAssigns).num 0) } rfl (lcPre_wf o h)
  rw [hw]
  have h0 : (runAssigns o lcAssigns).num 0 = SIG := by
    have := (lcPre_num o h.size).2.2.2 0 (by decide) (by decide) (by decide)
    unfold lcPre at this; rw [this]; exact h.sig
  refine ⟨rfl, ?_⟩
  simp only [h0, List.nil_append]
  rfl

/-- **what `LogContainer::read` takes back**: at a position where a container as written stands, followed by anything -/
theorem lc_decode_at (cfg : Cfg) (hs : cfg.sticky = false) (o : Obj) (h : LcOK o) (hcap : (o.buf 10).length ≤ cfg.cap)
    (st : St) (rest : Bytes) (h0 : st.halt = .none)
    (hin : st.inp.drop st.pos = leBytes 4 SIG ++ encItems (lcPre o) (L9 ++ T2) ++ rest) :
    (Gen.LogContainer.readProg.exec cfg st).halt = .none ∧
    (Gen.LogContainer.readProg.exec cfg st).short = st.short ∧
    (Gen.LogContainer.readProg.exec cfg st).inp = st.inp ∧
    (Gen.LogContainer.readProg.exec cfg st).pos = st.inp.length - rest.length ∧
    (Gen.LogContainer.readProg.exec cfg st).obj.num 5 = o.num 5 ∧
    (Gen.LogContainer.readProg.exec cfg st).obj.num 8 = o.num 8 ∧
    (Gen.LogContainer.readProg.exec cfg st).obj.buf 10 = o.buf 10 := by
  obtain ⟨h12, h1, h3, hr⟩ := lcPre_num o h.size
  have hwf := lcPre_wf o h
  have hwf9 := ((itemsWF_append _ _ _).1 hwf).1
  have hwf2 := ((itemsWF_append _ _ _).1 hwf).2
  have hsig : (lcPre o).num 0 = SIG := by rw [hr 0 (by decide) (by decide) (by decide)]; exact h.sig
  rw [lc_rd, exec_block_append cfg _ _ st h0]
  have hin1 : st.inp.drop st.pos = leBytes 4 SIG ++ encItems (lcPre o) L9 ++ (encItems (lcPre o) T2 ++ rest) := by
    rw [hin, encItems_append]; simp only [List.append_assoc]
  obtain ⟨a1, a2, a3, a4, a5, a6⟩ := syncRd_at cfg hs L9 0 (lcPre o) st (encItems (lcPre o) T2 ++ rest)
    (by decide) hwf9 hsig (by intro f n hm; simp [L9, hdr4] at hm) (by intro f ew len hm; simp [L9, hdr4] at hm) h0 hin1
  rw [if_pos a1]
  generalize (Stmt.block (.sync 0 :: canonRd L9)).exec cfg st = r1 at a1 a2 a3 a4 a5 a6
  -- compressedFileSize := objectSize - 32
  rw [exec_block_cons]
  have hassign : (Stmt.assign 12 (.sub 4 (.fld 3) (.const 32))).exec cfg r1 =
      { r1 with obj := r1.obj.setNum 12 ((Expr.sub 4 (.fld 3) (.const 32)).eval r1.obj) } := rfl
  rw [hassign, if_pos (by exact a1)]
  have hn3 : r1.obj.num 3 = 32 + (o.buf 10).length := by
    rw [a6.1 3 (by simp [L9, hdr4, Item.numDef]), h3]
  have hsub : (Expr.sub 4 (.fld 3) (.const 32)).eval r1.obj = (o.buf 10).length := by
    have := h.size
    have hM : (256 : Nat) ^ 4 = 4294967296 := by decide
    simp only [Expr.eval, hn3, hM] at this ⊢
    omega
  rw [hsub]
  -- the stored data and the padding
  have hl9 : (encItems (lcPre o) L9).length = 28 := by rw [encItems_length _ _ hwf9]; simp [L9, hdr4, itemsSize, Item.size]
  have hpos1 : r1.pos ≤ r1.inp.length := by
    have := congrArg List.length hin1
    simp only [List.length_drop, List.length_append, leBytes_length, hl9] at this
    rw [a3, a5, hl9]; omega
  have hin2 : ({ r1 with obj := r1.obj.setNum 12 (o.buf 10).length } : St).inp.drop
      ({ r1 with obj := r1.obj.setNum 12 (o.buf 10).length } : St).pos = encItems (lcPre o) T2 ++ rest := by
    show r1.inp.drop r1.pos = _
    rw [a3, a5, Nat.add_assoc, ← List.drop_drop, hin1, hl9]
    have hl : (leBytes 4 SIG ++ encItems (lcPre o) L9).length = 4 + 28 := by simp [hl9]
    exact (take_append_len _ _ (4 + 28) hl).2
  obtain ⟨b1, b2, b3, b4, b5, b6, b7, _⟩ := canonRd_at cfg hs T2 [12, 3] [] (lcPre o)
    { r1 with obj := r1.obj.setNum 12 (o.buf 10).length } rest (by decide) hwf2
    ⟨by
      intro g hg
      simp only [List.mem_cons, List.mem_singleton, List.not_mem_nil, or_false] at hg
      rcases hg with rfl | rfl
      · simp [h12]
      · simp only [Obj.setNum_num_ne _ _ (show (3 : Nat) ≠ 12 by decide)]; rw [hn3, h3],
     by intro g hg; simp at hg⟩
    (by intro f n hm; simp [T2] at hm)
    (by intro f ew len hm
        simp only [T2, List.mem_cons, List.mem_singleton, Item.var.injEq, reduceCtorEq, or_false, List.not_mem_nil] at hm
        obtain ⟨rfl, rfl, rfl⟩ := hm
        rw [h12]; simpa using hcap)
    a1 hpos1 hin2
  refine ⟨b1, by rw [b2]; exact a2, by rw [b3]; exact a3, by rw [b5]; show r1.inp.length - rest.length = _; rw [a3], ?_, ?_, ?_⟩
  · rw [b7 5 (by simp [T2, Item.numDef])]
    simp only [Obj.setNum_num_ne _ _ (show (5 : Nat) ≠ 12 by decide)]
    rw [a6.1 5 (by simp [L9, hdr4, Item.numDef]), hr 5 (by decide) (by decide) (by decide)]
  · rw [b7 8 (by simp [T2, Item.numDef])]
    simp only [Obj.setNum_num_ne _ _ (show (8 : Nat) ≠ 12 by decide)]
    rw [a6.1 8 (by simp [L9, hdr4, Item.numDef]), hr 8 (by decide) (by decide) (by decide)]
  · have := b6.2 10 (by simp [T2, Item.bufDef])
    rw [this, lcPre_buf]

/-! ### one container on the compressed file -/

/-- what zlib is assumed to do for the round trip (outside the model): inflating what `deflate` produced, with the original
    length as the expected size, gives the original bytes back -/
def ZRT (Z : Zlib) : Prop := ∀ level (b : Bytes), Z.inflate (Z.deflate level b) b.length = some b

/-- the bytes stored in the container for `payload` -/
def stored (Z : Zlib) (level : Nat) (payload : Bytes) : Bytes := if level = 0 then payload else Z.deflate level payload

theorem containerObj_facts (Z : Zlib) (level : Nat) (payload : Bytes) :
    (containerObj Z level payload).buf 10 = stored Z level payload ∧
    (containerObj Z level payload).num 8 = payload.length ∧
    (containerObj Z level payload).num 5 = (if level = 0 then 0 else 2) ∧
    (containerObj Z level payload).num 0 = SIG ∧ (containerObj Z level payload).num 2 = 1 ∧
    (containerObj Z level payload).num 4 = 10 ∧ (containerObj Z level payload).num 6 = 0 ∧
    (containerObj Z level payload).num 7 = 0 ∧ (containerObj Z level payload).num 9 = 0 := by
  unfold containerObj stored
  by_cases h : level = 0
  · simp only [h, if_true]
    refine ⟨by simp, by simp [Obj.setNum], by simp, ?_, ?_, ?_, ?_, ?_, ?_⟩ <;> simp [Obj.setNum, Obj.setBuf] <;> rfl
  · simp only [h, if_false]
    refine ⟨by simp, by simp [Obj.setNum], by simp, ?_, ?_, ?_, ?_, ?_, ?_⟩ <;> simp [Obj.setNum, Obj.setBuf] <;> rfl

theorem containerObj_ok (Z : Zlib) (level : Nat) (payload : Bytes) (hp : payload.length < 256 ^ 4)
    (hd : (stored Z level payload).length + 32 < 256 ^ 4) : LcOK (containerObj Z level payload) := by
  obtain ⟨f10, f8, f5, f0, f2, f4, f6, f7, f9⟩ := containerObj_facts Z level payload
  refine ⟨f0, by rw [f10]; exact hd, by rw [f2]; decide, by rw [f4]; decide, ?_, by rw [f6]; decide, by rw [f7]; decide,
    by rw [f8]; exact hp, by rw [f9]; decide⟩
  rw [f5]; split <;> decide

theorem stickyCfg_eq (cap : Nat) : stickyCfg cap = (memCfg cap).asSticky := rfl

/-- **one container**: the inflater, standing at the first byte of a container as the writer emitted it, hands its payload to
    the in-memory stream, counts it, and stands behind its last byte (padding included) -/
theorem containerStep_container (Z : Zlib) (hZ : ZRT Z) (cap level : Nat) (payload rest : Bytes) (cs : CState)
    (hp : payload.length < 256 ^ 4) (hd : (stored Z level payload).length + 32 < 256 ^ 4)
    (hc1 : payload.length ≤ cap) (hc2 : (stored Z level payload).length ≤ cap)
    (hok : StreamOK cs.st)
    (hin : cs.st.inp.drop cs.st.pos = encodeContainer Z cap level payload ++ rest) :
    ∃ cs', containerStep Z cap cs = some cs' ∧ StreamOK cs'.st ∧ cs'.st.inp = cs.st.inp ∧
      cs'.st.pos = cs.st.inp.length - rest.length ∧
      cs'.conts = { size := payload.length, data := payload } :: cs.conts ∧
      cs'.usize = cs.usize + 32 + payload.length ∧ cs'.died = false ∧ cs'.stop = false := by
  have hs : (memCfg cap).sticky = false := rfl
  obtain ⟨f10, f8, f5, f0, f2, f4, f6, f7, f9⟩ := containerObj_facts Z level payload
  have hlc := containerObj_ok Z level payload hp hd
  obtain ⟨_, henc⟩ := lc_encode (memCfg cap) (containerObj Z level payload) hlc
  have henc' : encodeContainer Z cap level payload =
      leBytes 4 SIG ++ encItems (lcPre (containerObj Z level payload)) (L9 ++ T2) := henc
  obtain ⟨h12, h1, h3, hr⟩ := lcPre_num (containerObj Z level payload) hlc.size
  have hwf := lcPre_wf (containerObj Z level payload) hlc
  have hwf4 : ItemsWF (lcPre (containerObj Z level payload)) hdr4 := by
    have := ((itemsWF_append _ _ _).1 hwf).1
    unfold L9 at this
    exact ((itemsWF_append _ _ _).1 this).1
  have hsig : (lcPre (containerObj Z level payload)).num 0 = SIG := by
    rw [hr 0 (by decide) (by decide) (by decide)]; exact f0
  -- 1. the base header, read from the sticky stream
  have hin1 : ({ cs.st with obj := Gen.ObjectHeaderBase.fresh, halt := Halt.none } : St).inp.drop
      ({ cs.st with obj := Gen.ObjectHeaderBase.fresh, halt := Halt.none } : St).pos =
      leBytes 4 SIG ++ encItems (lcPre (containerObj Z level payload)) hdr4 ++
        (encItems (lcPre (containerObj Z level payload))
          ([.scalar 5 2, .scalar 6 2, .scalar 7 4, .scalar 8 4, .scalar 9 4] ++ T2) ++ rest) := by
    show cs.st.inp.drop cs.st.pos = _
    rw [hin, henc']
    simp only [L9, encItems_append, List.append_assoc]
  obtain ⟨a1, a2, a3, a4, a5, a6⟩ := syncRd_at (memCfg cap) hs hdr4 0 (lcPre (containerObj Z level payload))
    { cs.st with obj := Gen.ObjectHeaderBase.fresh, halt := Halt.none } _
    (by decide) hwf4 hsig (by intro f n h; simp [hdr4] at h) (by intro f ew len h; simp [hdr4] at h) rfl hin1
  have hok1 : StreamOK ({ cs.st with obj := Gen.ObjectHeaderBase.fresh, halt := Halt.none } : St) :=
    ⟨hok.good, hok.eof, hok.pos, hok.short⟩
  obtain ⟨e1, hgood⟩ := exec_sticky (memCfg cap) hs _ _ hok1 (by rw [a2]; exact hok.short)
  have hlen4 : (encItems (lcPre (containerObj Z level payload)) hdr4).length = 12 := by
    rw [encItems_length _ _ hwf4]; rfl
  unfold containerStep
  rw [stickyCfg_eq, ohb_prog, e1]
  generalize (Stmt.block (.sync 0 :: canonRd hdr4)).exec (memCfg cap) { cs.st with obj := Gen.ObjectHeaderBase.fresh, halt := Halt.none } = hdS
    at a1 a2 a3 a4 a5 a6 hgood
  simp only at a2 a3 a4 a5
  have hty : hdS.obj.num 4 = 10 := by
    rw [a6.1 4 (by simp [hdr4, Item.numDef]), hr 4 (by decide) (by decide) (by decide)]; exact f4
  unfold afterContainerHeader
  rw [if_neg (by simp [a1]), if_neg (by simp [hgood.good]), if_neg (by simp [hty])]
  -- 2. the container itself
  have hpos1 : (hdS.sback 16).pos = cs.st.pos := by simp only [St.sback]; rw [a5, hlen4]; omega
  have hin2 : ({ hdS.sback 16 with obj := Gen.LogContainer.fresh, halt := Halt.none } : St).inp.drop
      ({ hdS.sback 16 with obj := Gen.LogContainer.fresh, halt := Halt.none } : St).pos =
      leBytes 4 SIG ++ encItems (lcPre (containerObj Z level payload)) (L9 ++ T2) ++ rest := by
    simp only [hpos1]
    show hdS.inp.drop cs.st.pos = _
    rw [a3]; show cs.st.inp.drop cs.st.pos = _
    rw [hin, henc']
  obtain ⟨b1, b2, b3, b4, b5, b6, b7⟩ := lc_decode_at (memCfg cap) hs (containerObj Z level payload) hlc
    (by rw [f10]; exact hc2) { hdS.sback 16 with obj := Gen.LogContainer.fresh, halt := Halt.none } rest rfl hin2
  have hok2 : StreamOK ({ hdS.sback 16 with obj := Gen.LogContainer.fresh, halt := Halt.none } : St) :=
    ⟨hgood.good, hgood.eof, by simp only [hpos1]; show cs.st.pos ≤ hdS.inp.length; rw [a3]; exact hok.pos, hgood.short⟩
  obtain ⟨e2, hgood2⟩ := exec_sticky (memCfg cap) hs _ _ hok2 (by rw [b2]; exact hgood.short)
  rw [stickyCfg_eq, e2]
  generalize Gen.LogContainer.readProg.exec (memCfg cap) { hdS.sback 16 with obj := Gen.LogContainer.fresh, halt := Halt.none } = r
    at b1 b2 b3 b4 b5 b6 b7 hgood2
  simp only at b2 b3 b4
  unfold afterContainerRead
  rw [if_neg (by simp [b1]), if_neg (by simp [b1]), if_neg (by simp [hgood2.good])]
  have hinp : r.inp = cs.st.inp := by rw [b3]; show hdS.inp = _; rw [a3]
  -- 3. inflate or copy
  unfold pushContainer
  simp only
  rw [b5, b6, b7, f5, f8, f10]
  by_cases hl : level = 0
  · simp only [hl, if_true, stored]
    rw [if_neg (by simp)]
    exact ⟨_, rfl, hgood2, hinp, by simp only; rw [b4]; show hdS.inp.length - _ = _; rw [a3], rfl, rfl, rfl, rfl⟩
  · simp only [hl, if_false, stored]
    have := hZ level payload
    simp only [if_true, if_neg (show ¬ cap < payload.length by omega), this, show ((2 : Nat) = 0) = False by simp, if_false]
    exact ⟨_, rfl, hgood2, hinp, by simp only; rw [b4]; show hdS.inp.length - _ = _; rw [a3], rfl, rfl, rfl, rfl⟩

/-- at the end of the compressed file the inflater's loop ends -/
theorem containerStep_at_end (Z : Zlib) (cap : Nat) (cs : CState) (hg : cs.st.good = true) (hend : cs.st.pos = cs.st.inp.length) :
    containerStep Z cap cs = none := by
  unfold containerStep
  have hh : (Gen.ObjectHeaderBase.readProg.exec (stickyCfg cap) { cs.st with obj := Gen.ObjectHeaderBase.fresh, halt := Halt.none }).halt ≠ .none := by
    rw [ohb_prog, exec_block_cons]
    have hsync := sync_at_end (stickyCfg cap) { cs.st with obj := Gen.ObjectHeaderBase.fresh, halt := Halt.none } (Or.inr hg) 0
      (by simp only; omega)
    rw [if_neg (by rw [hsync]; simp), hsync]; simp
  unfold afterContainerHeader
  rw [if_pos hh]

/-- the constraints on one payload and what is stored for it -/
structure PayloadOK (Z : Zlib) (cap level : Nat) (p : Bytes) : Prop where
  len : p.length < 256 ^ 4
  stored : (stored Z level p).length + 32 < 256 ^ 4
  cap1 : p.length ≤ cap
  cap2 : (ContainerRound.stored Z level p).length ≤ cap

def contsOf (P : List Bytes) : List RCont := P.map fun p => { size := p.length, data := p }

def usizeOf : List Bytes → Nat
  | [] => 0
  | p :: l => 32 + p.length + usizeOf l

/-- **the inflater on a file of containers** -/
theorem containerLoop_containers (Z : Zlib) (hZ : ZRT Z) (cap level : Nat) : ∀ (P : List Bytes) (cs : CState) (fuel : Nat),
    (∀ p ∈ P, PayloadOK Z cap level p) → StreamOK cs.st → cs.died = false →
    cs.st.inp.drop cs.st.pos = flattenB (P.map (encodeContainer Z cap level)) → P.length < fuel →
    (containerLoop Z cap fuel cs).conts = (contsOf P).reverse ++ cs.conts ∧
    (containerLoop Z cap fuel cs).usize = cs.usize + usizeOf P ∧
    (containerLoop Z cap fuel cs).died = false := by
  intro P
  induction P with
  | nil =>
    intro cs fuel _ hok hdd hin hf
    obtain ⟨n, rfl⟩ : ∃ n, fuel = n + 1 := ⟨fuel - 1, by omega⟩
    have hend : cs.st.pos = cs.st.inp.length := by
      have := congrArg List.length hin
      simp [flattenB] at this
      have := hok.pos
      omega
    unfold containerLoop
    rw [containerStep_at_end Z cap cs hok.good hend]
    exact ⟨by simp [contsOf], by simp [usizeOf], hdd⟩
  | cons p l ih =>
    intro cs fuel hP hok hdd hin hf
    obtain ⟨n, rfl⟩ : ∃ n, fuel = n + 1 := ⟨fuel - 1, by omega⟩
    have hp := hP p (by simp)
    obtain ⟨cs', hstep, hok', hinp, hpos, hconts, husize, hdied, hstop⟩ :=
      containerStep_container Z hZ cap level p (flattenB (l.map (encodeContainer Z cap level))) cs
        hp.len hp.stored hp.cap1 hp.cap2 hok (by rw [hin]; rfl)
    have hin' : cs'.st.inp.drop cs'.st.pos = flattenB (l.map (encodeContainer Z cap level)) := by
      rw [hinp, hpos]
      have h1 := congrArg List.length hin
      simp only [List.length_drop, List.map_cons, flattenB, List.length_append] at h1
      have h0 := hok.pos
      have h2 : cs.st.inp.length - (flattenB (l.map (encodeContainer Z cap level))).length =
          cs.st.pos + (encodeContainer Z cap level p).length := by omega
      rw [h2, ← List.drop_drop, hin]
      simp [flattenB]
    obtain ⟨h1, h2, h3⟩ := ih cs' n (fun q hq => hP q (by simp [hq])) hok' hdied hin' (by simp at hf; omega)
    unfold containerLoop
    rw [hstep]
    simp only [hdied, hstop, Bool.or_self, Bool.false_eq_true, if_false, hok'.good, Bool.not_true]
    refine ⟨?_, ?_, ?_⟩
    · rw [h1, hconts]; simp [contsOf]
    · rw [h2, husize]; simp only [usizeOf]; omega
    · exact h3

theorem encodeContainer_length (Z : Zlib) (cap level : Nat) (p : Bytes) (h : PayloadOK Z cap level p) :
    4 ≤ (encodeContainer Z cap level p).length := by
  have hlc := containerObj_ok Z level p h.len h.stored
  obtain ⟨_, henc⟩ := lc_encode (memCfg cap) (containerObj Z level p) hlc
  show 4 ≤ (Gen.LogContainer.encode (memCfg cap) (containerObj Z level p)).out.length
  rw [henc]; simp

theorem payloads_fuel (Z : Zlib) (cap level : Nat) : ∀ (P : List Bytes), (∀ p ∈ P, PayloadOK Z cap level p) →
    P.length ≤ (flattenB (P.map (encodeContainer Z cap level))).length := by
  intro P
  induction P with
  | nil => intro _; simp
  | cons p l ih =>
    intro h
    have h1 := encodeContainer_length Z cap level p (h p (by simp))
    have h2 := ih (fun q hq => h q (by simp [hq]))
    simp only [List.map_cons, flattenB, List.length_append, List.length_cons]
    omega

end Blf.ContainerRound
