import Blf.Gen.All
import Blf.Spec.ObjectTypes
/-!
# Sequential semantics of a BLF file: `readFile`, `writeFile`  (hand model; tie D `file` protocol)

The four transfer functions of `File.cpp` as sequential functions.  The codecs they call are the
*generated* programs (`Gen.ObjectHeaderBase`, `Gen.LogContainer`, `Gen.allCodecs`, `Gen.factoryTable`);
zlib is an abstract parameter `Z`.

Read side: `readContainers` mirrors `compressedFile2UncompressedFile` + `compressedFileReadThread`
(on a sticky `std::fstream`), `parseStream` mirrors `uncompressedFile2ReadWriteQueue` +
`uncompressedFileReadThread` on the non-sticky in-memory stream.  Outcome `hang` stands for an
execution in which `File::read()` never returns (a worker loops forever); `oob` for undefined
behaviour.  A worker that ends with a foreign exception (`std::bad_alloc` from an absurd length
field) declares the end of its stream like one that ends with the library's `Exception`.
-/
namespace Blf.FileSeq
open Blf

structure Zlib where
  deflate : Nat → Bytes → Bytes            -- level, data
  inflate : Bytes → Nat → Option Bytes     -- compressed, declared size; `none` = zlib error or size mismatch

inductive Outcome where
  | ended          -- the read loop ends with a null result
  | openException  -- File::open throws Exception
  | hang           -- File::read() would never return
  | oob            -- undefined memory access
  deriving DecidableEq, Repr, Inhabited

def FILESIG : Nat := 0x47474F4C

/-- FileStatistics as a field list (id, width); SYSTEMTIME and reserved are raw buffers -/
def statsScalars : List (Nat × Nat) :=
  [(0, 4), (1, 4), (2, 4), (3, 1), (4, 1), (5, 1), (6, 1), (7, 8), (8, 8), (9, 4), (10, 4)]
-- 0 signature 1 statisticsSize 2 apiNumber 3 applicationId 4 compressionLevel 5 applicationMajor 6 applicationMinor
-- 7 fileSize 8 uncompressedFileSize 9 objectCount 10 applicationBuild 11 measurementStartTime 12 lastObjectTime
-- 13 restorePointsOffset 14 reserved

def statsDefault : Obj where
  num := fun f => if f = 0 then FILESIG else if f = 1 then 144 else if f = 2 then 4080200 else if f = 4 then 1 else 0
  buf := fun f => if f = 11 ∨ f = 12 then zeros 16 else if f = 14 then zeros 64 else []

def statsReadRest : Stmt := Stmt.block
  [.rd 1 4, .rd 2 4, .rd 3 1, .rd 4 1, .rd 5 1, .rd 6 1, .rd 7 8, .rd 8 8, .rd 9 4, .rd 10 4,
   .rdBuf 11 (.const 16), .rdBuf 12 (.const 16), .rd 13 8, .rdBuf 14 (.const 64)]

def statsWrite : Stmt := Stmt.block
  [.wr 0 4, .wr 1 4, .wr 2 4, .wr 3 1, .wr 4 1, .wr 5 1, .wr 6 1, .wr 7 8, .wr 8 8, .wr 9 4, .wr 10 4,
   .wrBuf 11 (.const 16), .wrBuf 12 (.const 16), .wr 13 8, .wrBuf 14 (.const 64)]

def stickyCfg (cap : Nat) : Cfg := { cap := cap, sticky := true }
def memCfg (cap : Nat) : Cfg := { cap := cap, sticky := false }

/-- a container as handed to the in-memory stream: declared size and actual vector -/
structure RCont where
  size : Nat
  data : Bytes
  deriving Repr, DecidableEq

structure CState where
  st : St                       -- the compressed file stream (sticky)
  conts : List RCont := []      -- containers pushed so far (reverse order)
  usize : Nat := 0              -- currentUncompressedFileSize
  died : Bool := false          -- worker ended with a foreign exception (no end of stream declared)
  stop : Bool := false          -- worker ended with the library's Exception after the statistics update

/-- a log container has been read completely (`r`): inflate or copy it and hand it to the in-memory stream -/
def pushContainer (Z : Zlib) (cap : Nat) (cs : CState) (r : St) : CState :=
  let lc := r.obj
  let usize := cs.usize + 32 + lc.num 8
  let method := lc.num 5
  if method = 0 then
    if lc.num 8 ≠ (lc.buf 10).length then { cs with st := r, usize := usize, stop := true }   -- "unexpected uncompressedSize"
    else { st := r, conts := { size := lc.num 8, data := lc.buf 10 } :: cs.conts, usize := usize }
  else if method = 2 then
    if cap < lc.num 8 then { cs with st := r, usize := usize, stop := true }   -- resize throws std::bad_alloc
    else match Z.inflate (lc.buf 10) (lc.num 8) with
      | some d => { st := r, conts := { size := lc.num 8, data := d } :: cs.conts, usize := usize }
      | none => { cs with st := r, usize := usize, stop := true }   -- zlib error / size mismatch -> Exception
  else { cs with st := r, usize := usize, stop := true }            -- unknown compression method -> Exception

/-- what follows `LogContainer::read` (`r`) -/
def afterContainerRead (Z : Zlib) (cap : Nat) (cs : CState) (r : St) : Option CState :=
  if r.halt = .badAlloc then some { cs with st := r, stop := true }      -- std::bad_alloc: worker ends, end of stream declared
  else if r.halt ≠ .none then none
  else if !r.good then none
  else some (pushContainer Z cap cs r)

/-- what follows the read of the base header `h` on the compressed file -/
def afterContainerHeader (Z : Zlib) (cap : Nat) (cs : CState) (h : St) : Option CState :=
  if h.halt ≠ .none then none                                   -- Exception("End of File") -> loop ends
  else if !h.good then none                                     -- "Read beyond end of file"
  else if h.obj.num 4 ≠ 10 then none                            -- not a log container -> Exception
  else afterContainerRead Z cap cs
    (Gen.LogContainer.readProg.exec (stickyCfg cap) { h.sback 16 with obj := Gen.LogContainer.fresh, halt := .none })

/-- one call of `compressedFile2UncompressedFile` plus the loop test; `none` = the thread loop ends -/
def containerStep (Z : Zlib) (cap : Nat) (cs : CState) : Option CState :=
  afterContainerHeader Z cap cs
    (Gen.ObjectHeaderBase.readProg.exec (stickyCfg cap) { cs.st with obj := Gen.ObjectHeaderBase.fresh, halt := .none })

def containerLoop (Z : Zlib) (cap : Nat) : Nat → CState → CState
  | 0, cs => cs
  | fuel+1, cs =>
    match containerStep Z cap cs with
    | none => cs
    | some cs' => if cs'.died || cs'.stop then cs' else if !cs'.st.good then cs' else containerLoop Z cap fuel cs'

/-- the uncompressed stream as the object parser sees it; `none` if some container's vector is shorter
    than its declared size (reading it is undefined behaviour in the code) -/
def flattenConts : List RCont → Option Bytes
  | [] => some []
  | c :: l =>
    if c.data.length < c.size then none
    else match flattenConts l with
      | some r => some (c.data.take c.size ++ r)
      | none => none

def lookupClass (code : Nat) : Option Codec :=
  match Spec.lookupCode Gen.factoryTable code with
  | some n => Gen.allCodecs.find? (·.name == n)
  | none => none

structure PState where
  st : St
  objs : List (String × Obj) := []     -- delivered objects (reverse order)
  count : Nat := 0                     -- currentObjectCount
  outcome : Option Outcome := none     -- set when the worker stops abnormally

/-- the object read by the decoder of class `c` from the object's first byte on (`st1`), declared size `osz` -/
def classStep (cap : Nat) (ps : PState) (st1 : St) (osz : Nat) (c : Codec) : Option PState :=
  let r := c.readProg.exec (memCfg cap) { st1 with obj := c.fresh, halt := .none }
  let csz := c.sizeExpr.eval c.fresh
  if r.halt = .badAlloc then none                           -- std::bad_alloc: worker ends, end of stream declared
  else if r.halt = .oob then some { ps with st := r, outcome := some .oob }
  else if r.halt = .exc then none
  else if !r.good then none                                 -- "Read beyond end of file": object dropped
  else
    -- if (tmp != 0) seekg(tmp)   with tmp = objectSize - calculateObjectSize() < 0; never back to the object's start
    if csz > osz then
      if r.pos + osz ≤ st1.pos + csz then none              -- "Object size smaller than object": Exception
      else
        some { st := { r with pos := min (r.pos + osz - csz) r.inp.length }, objs := (c.name, r.obj) :: ps.objs,
               count := if r.obj.num 4 = 115 then ps.count else ps.count + 1 }
    else
      some { st := r, objs := (c.name, r.obj) :: ps.objs,
             count := if r.obj.num 4 = 115 then ps.count else ps.count + 1 }

/-- what follows the read of the base header `h` -/
def afterHeader (cap : Nat) (ps : PState) (h : St) : Option PState :=
  if h.halt ≠ .none then none                                   -- Exception("End of File")
  else if !h.good then none                                     -- normal eof
  else if h.obj.num 3 < 16 then none                            -- "Object size smaller than object header"
  else
    match lookupClass (h.obj.num 4) with
    | none => some { ps with st := (h.sback 16).sseek (memCfg cap) (h.obj.num 3) }   -- unknown type: skip objectSize bytes
    | some c => classStep cap ps (h.sback 16) (h.obj.num 3) c

/-- one call of `uncompressedFile2ReadWriteQueue` plus the loop test; `none` = the thread loop ends normally -/
def objectStep (cap : Nat) (ps : PState) : Option PState :=
  afterHeader cap ps (Gen.ObjectHeaderBase.readProg.exec (memCfg cap) { ps.st with obj := Gen.ObjectHeaderBase.fresh, halt := .none })

def objectLoop (cap : Nat) : Nat → PState → PState
  | 0, ps => { ps with outcome := some .hang }                  -- no progress: unbounded object stream
  | fuel+1, ps =>
    match objectStep cap ps with
    | none => ps
    | some ps' => if ps'.outcome.isSome then ps' else if !ps'.st.good then ps' else objectLoop cap fuel ps'

structure ReadResult where
  outcome : Outcome
  stats : Obj := statsDefault
  objs : List (String × Obj) := []
  objectCount : Nat := 0
  uncompressedSize : Nat := 0

/-- the object parser on the uncompressed stream `B` -/
def parseStream (cap : Nat) (stats : Obj) (usize : Nat) (B : Bytes) : ReadResult :=
  let ps := objectLoop cap (4 * B.length + 64) { st := { obj := statsDefault, inp := B } }
  { outcome := ps.outcome.getD .ended, stats := stats, objs := ps.objs.reverse, objectCount := ps.count,
    uncompressedSize := usize }

/-- what follows the read of the file statistics (`s2`: the compressed file stream behind them) -/
def readAfterHeader (Z : Zlib) (cap : Nat) (fileLen : Nat) (s2 : St) : ReadResult :=
  let cs := containerLoop Z cap (fileLen + 2) { st := s2, usize := s2.obj.num 1 }
  if cs.died then { outcome := .hang, stats := s2.obj, uncompressedSize := cs.usize }
  else match flattenConts cs.conts.reverse with
    | none => { outcome := .oob, stats := s2.obj, uncompressedSize := cs.usize }
    | some B => parseStream cap s2.obj cs.usize B

/-- `File::open(in)`, reading until null, `close()` -/
def readFile (Z : Zlib) (cap : Nat) (file : Bytes) : ReadResult :=
  let s1 := (Stmt.rd 0 4).exec (stickyCfg cap) { obj := statsDefault, inp := file }
  if s1.obj.num 0 ≠ FILESIG then { outcome := .openException }
  else readAfterHeader Z cap file.length (statsReadRest.exec (stickyCfg cap) s1)

/-! ## write side -/

structure WCfg where
  level : Nat := 1
  containerSize : Nat := 131072
  restorePoints : Bool := true

/-- cut into containers: full ones while at least `cs` bytes remain, then one final short (possibly empty) one -/
def chunk (cs : Nat) : Nat → Bytes → List Bytes
  | 0, b => [b]
  | fuel+1, b => if cs ≤ b.length ∧ 0 < cs then b.take cs :: chunk cs fuel (b.drop cs) else [b]

def containerObj (Z : Zlib) (level : Nat) (payload : Bytes) : Obj :=
  let o := Gen.LogContainer.fresh
  let o := o.setNum 8 payload.length                                    -- uncompressedFileSize := gcount
  if level = 0 then (o.setNum 5 0).setBuf 10 payload
  else (o.setNum 5 2).setBuf 10 (Z.deflate level payload)

def encodeContainer (Z : Zlib) (cap : Nat) (level : Nat) (payload : Bytes) : Bytes :=
  (Gen.LogContainer.encode (memCfg cap) (containerObj Z level payload)).out

def encodeStats (cap : Nat) (stats : Obj) : Bytes := (statsWrite.exec (memCfg cap) { obj := stats }).out

def flattenB : List Bytes → Bytes
  | [] => []
  | b :: l => b ++ flattenB l

/-- `File::open(out)`, `write` of every object, `close()` -/
def writeFile (Z : Zlib) (cap : Nat) (cfg : WCfg) (hdr : Obj) (objs : List (Codec × Obj)) : Bytes :=
  let B := flattenB (objs.map fun p => (p.1.encode (memCfg cap) p.2).out)
  let chunks := chunk cfg.containerSize (B.length + 1) B
  let body := chunks.map (encodeContainer Z cap cfg.level)
  let bodyLen := (flattenB body).length
  let trailer := if cfg.restorePoints then encodeContainer Z cap cfg.level [] else []
  let count := (objs.filter fun p => p.2.num 4 ≠ 115).length   -- objectType is field 4 in every class
  let usize := hdr.num 1 + (chunks.map fun c => 32 + c.length).sum + (if cfg.restorePoints then 32 else 0)
  let total := 144 + bodyLen + trailer.length
  let hdr1 := if cfg.restorePoints then hdr.setNum 13 (144 + bodyLen) else hdr
  let hdr2 := ((hdr1.setNum 7 total).setNum 8 usize).setNum 9 count
  encodeStats cap hdr2 ++ flattenB body ++ trailer

end Blf.FileSeq
