import Blf.ContainerRound
/-!
# Write then read: the whole file  (C01, C04, C05 at file level)

`readFile (writeFile …)`: for every list of parsable objects (exactly-framed classes, accepted by the writer), every
compression level, container size and restore-point setting, every caller-supplied header within the field widths, and
every zlib whose `inflate` undoes its `deflate`, a read session on the bytes a write session produced

* ends with the null result (`outcome = ended`),
* delivers exactly the objects written, in order, each once, every field of the layout as pre-processed by the writer,
* ends with the running object counter equal to the number of objects written (restore points excluded) and the running
  uncompressed-size counter equal to statistics size + Σ over containers (32 + payload),
* and returns the header the writer stored (so these counters equal the stored `objectCount` / `uncompressedFileSize`).
-/
namespace Blf.FileRoundTrip
open Blf Blf.FileSeq Blf.FileRound Blf.ContainerRound

def Lstats : List Item := [.scalar 1 4, .scalar 2 4, .scalar 3 1, .scalar 4 1, .scalar 5 1, .scalar 6 1, .scalar 7 8, .scalar 8 8,
  .scalar 9 4, .scalar 10 4, .fixed 11 16, .fixed 12 16, .scalar 13 8, .fixed 14 64]
def Lfull : List Item := .scalar 0 4 :: Lstats

theorem stats_rd : statsReadRest = Stmt.block (canonRd Lstats) := rfl
theorem stats_wr : statsWrite = Stmt.block (canonWr Lfull) := rfl

theorem flattenB_append (a b : List Bytes) : flattenB (a ++ b) = flattenB a ++ flattenB b := by
  induction a with
  | nil => rfl
  | cons x a ih => simp [flattenB, ih, List.append_assoc]

/-- cutting into containers loses nothing -/
theorem flattenB_chunk (cs : Nat) : ∀ (fuel : Nat) (b : Bytes), flattenB (chunk cs fuel b) = b := by
  intro fuel
  induction fuel with
  | zero => intro b; simp [chunk, flattenB]
  | succ n ih =>
    intro b
    unfold chunk
    split
    · simp only [flattenB, ih]; exact List.take_append_drop cs b
    · simp [flattenB]

theorem flattenConts_contsOf : ∀ (P : List Bytes), flattenConts (contsOf P) = some (flattenB P) := by
  intro P
  induction P with
  | nil => rfl
  | cons p l ih =>
    simp only [contsOf, List.map_cons] at ih ⊢
    unfold flattenConts
    rw [if_neg (by simp), ih]
    simp [flattenB]

/-- the stream as the writer lays it out -/
def streamOf (cap : Nat) (objs : List (Codec × Obj)) : Bytes :=
  flattenB (objs.map fun p => (p.1.encode (memCfg cap) p.2).out)

/-- the payloads of the containers of a file -/
def payloads (cap : Nat) (cfg : WCfg) (objs : List (Codec × Obj)) : List Bytes :=
  chunk cfg.containerSize ((streamOf cap objs).length + 1) (streamOf cap objs) ++ (if cfg.restorePoints then [[]] else [])

theorem flattenB_payloads (cap : Nat) (cfg : WCfg) (objs : List (Codec × Obj)) :
    flattenB (payloads cap cfg objs) = streamOf cap objs := by
  unfold payloads
  rw [flattenB_append, flattenB_chunk]
  split <;> simp [flattenB]

/-- the header as the writer stores it -/
def storedHeader (Z : Zlib) (cap : Nat) (cfg : WCfg) (hdr : Obj) (objs : List (Codec × Obj)) : Obj :=
  let chunks := chunk cfg.containerSize ((streamOf cap objs).length + 1) (streamOf cap objs)
  let bodyLen := (flattenB (chunks.map (encodeContainer Z cap cfg.level))).length
  let trailer := if cfg.restorePoints then encodeContainer Z cap cfg.level [] else []
  let count := (objs.filter fun p => p.2.num 4 ≠ 115).length
  let usize := hdr.num 1 + (chunks.map fun c => 32 + c.length).sum + (if cfg.restorePoints then 32 else 0)
  let hdr1 := if cfg.restorePoints then hdr.setNum 13 (144 + bodyLen) else hdr
  ((hdr1.setNum 7 (144 + bodyLen + trailer.length)).setNum 8 usize).setNum 9 count

theorem writeFile_eq (Z : Zlib) (cap : Nat) (cfg : WCfg) (hdr : Obj) (objs : List (Codec × Obj)) :
    writeFile Z cap cfg hdr objs = encodeStats cap (storedHeader Z cap cfg hdr objs) ++
      flattenB ((payloads cap cfg objs).map (encodeContainer Z cap cfg.level)) := by
  unfold writeFile storedHeader payloads streamOf
  simp only [List.map_append, flattenB_append, List.append_assoc]
  congr 1
  congr 1
  split <;> simp [flattenB]

theorem streamOf_flat (cap : Nat) : ∀ (L : List (Codec × Layout × Obj)),
    streamOf cap (L.map fun x => (x.1, x.2.2)) = flat cap L := by
  intro L
  induction L with
  | nil => rfl
  | cons x l ih =>
    simp only [streamOf, List.map_cons, flattenB] at ih ⊢
    rw [ih]; rfl

/-- what the writer stores in front of the containers -/
theorem encodeStats_eq (cap : Nat) (h : Obj) (hwf : ItemsWF h Lfull) : encodeStats cap h = encItems h Lfull := by
  unfold encodeStats
  rw [stats_wr, exec_canonWr (memCfg cap) Lfull { obj := h } rfl hwf]
  simp

theorem statsDefault_arr : ArrOK statsDefault Lstats := by
  intro f n hm
  simp only [Lstats, List.mem_cons, Item.fixed.injEq, reduceCtorEq, false_or, List.not_mem_nil, or_false] at hm
  rcases hm with ⟨rfl, rfl⟩ | ⟨rfl, rfl⟩ | ⟨rfl, rfl⟩ <;> simp [statsDefault, zeros_length]

/-- **write, then read** -/
theorem read_write_file (Z : Zlib) (hZ : ZRT Z) (cap : Nat) (cfg : WCfg) (hdr : Obj) (L : List (Codec × Layout × Obj))
    (hL : ∀ x ∈ L, Parsable cap x.1 x.2.1 x.2.2 ∧ ArrOK x.1.fresh x.2.1.items)
    (hsig : hdr.num 0 = FILESIG)
    (hH : ItemsWF (storedHeader Z cap cfg hdr (L.map fun x => (x.1, x.2.2))) Lfull)
    (hP : ∀ p ∈ payloads cap cfg (L.map fun x => (x.1, x.2.2)), PayloadOK Z cap cfg.level p) :
    ∃ ds, (readFile Z cap (writeFile Z cap cfg hdr (L.map fun x => (x.1, x.2.2)))).outcome = .ended ∧
      (readFile Z cap (writeFile Z cap cfg hdr (L.map fun x => (x.1, x.2.2)))).objs = ds ∧ AllDelivered L ds ∧
      (readFile Z cap (writeFile Z cap cfg hdr (L.map fun x => (x.1, x.2.2)))).objectCount = countOf L ∧
      (readFile Z cap (writeFile Z cap cfg hdr (L.map fun x => (x.1, x.2.2)))).uncompressedSize =
        hdr.num 1 + usizeOf (payloads cap cfg (L.map fun x => (x.1, x.2.2))) ∧
      Agree (Lfull.filterMap Item.numDef) (Lfull.filterMap Item.bufDef)
        (readFile Z cap (writeFile Z cap cfg hdr (L.map fun x => (x.1, x.2.2)))).stats
        (storedHeader Z cap cfg hdr (L.map fun x => (x.1, x.2.2))) := by
  have hs : (memCfg cap).sticky = false := rfl
  generalize hobjs : (L.map fun x => (x.1, x.2.2)) = objs at hH hP ⊢
  generalize hSH : storedHeader Z cap cfg hdr objs = sh at hH
  have hsh0 : sh.num 0 = FILESIG := by
    rw [← hSH]; unfold storedHeader; simp only
    split <;> simp [Obj.setNum, hsig]
  have hfile : writeFile Z cap cfg hdr objs = encItems sh Lfull ++
      flattenB ((payloads cap cfg objs).map (encodeContainer Z cap cfg.level)) := by
    rw [writeFile_eq, hSH, encodeStats_eq cap sh hH]
  generalize hC : flattenB ((payloads cap cfg objs).map (encodeContainer Z cap cfg.level)) = C at hfile
  rw [hfile]
  -- 1. the signature
  have hwf0 : ItemsWF sh [.scalar 0 4] := ⟨hH.1, trivial⟩
  have hwfS : ItemsWF sh Lstats := hH.2
  have hin0 : ({ obj := statsDefault, inp := encItems sh Lfull ++ C } : St).inp.drop 0 =
      encItems sh [.scalar 0 4] ++ (encItems sh Lstats ++ C) := by
    simp [Lfull, encItems, List.append_assoc]
  obtain ⟨a1, a2, a3, a4, a5, a6, _, a8⟩ := canonRd_at (memCfg cap) hs [.scalar 0 4] [] [] sh
    { obj := statsDefault, inp := encItems sh Lfull ++ C } (encItems sh Lstats ++ C) (by decide) hwf0
    ⟨by intro g hg; simp at hg, by intro g hg; simp at hg⟩ (by intro f n hm; simp at hm) (by intro f ew len hm; simp at hm)
    rfl (Nat.zero_le _) hin0
  obtain ⟨e1, ok1⟩ := exec_sticky (memCfg cap) hs _ _ (⟨rfl, rfl, Nat.zero_le _, rfl⟩ : StreamOK
    ({ obj := statsDefault, inp := encItems sh Lfull ++ C } : St)) (by rw [a2])
  have hrd0 : (Stmt.rd 0 4).exec (stickyCfg cap) { obj := statsDefault, inp := encItems sh Lfull ++ C } =
      (Stmt.block (canonRd [.scalar 0 4])).exec (memCfg cap) { obj := statsDefault, inp := encItems sh Lfull ++ C } := by
    rw [← e1]
    show _ = (Stmt.block [Stmt.rd 0 4]).exec (stickyCfg cap) _
    rw [exec_block_cons]
    split <;> rfl
  unfold readFile
  dsimp only
  rw [hrd0]
  generalize (Stmt.block (canonRd [.scalar 0 4])).exec (memCfg cap) { obj := statsDefault, inp := encItems sh Lfull ++ C } = s1
    at a1 a2 a3 a4 a5 a6 a8 ok1
  simp only at a2 a3 a4 a5 a8
  have hn0 : s1.obj.num 0 = FILESIG := by rw [a6.1 0 (by simp [Item.numDef]), hsh0]
  rw [if_neg (by simp [hn0])]
  -- 2. the rest of the statistics
  have hlen0 : (encItems sh [.scalar 0 4]).length = 4 := by rw [encItems_length _ _ hwf0]; rfl
  have hpos1 : s1.pos = 4 := by
    rw [a5]; simp only [List.length_append, Lfull, encItems, encItem, leBytes_length]; omega
  have hin1 : s1.inp.drop s1.pos = encItems sh Lstats ++ C := by
    rw [a3, hpos1]
    have : encItems sh Lfull ++ C = encItems sh [.scalar 0 4] ++ (encItems sh Lstats ++ C) := by
      simp [Lfull, encItems, List.append_assoc]
    rw [this]; exact (take_append_len _ _ 4 hlen0).2
  obtain ⟨b1, b2, b3, b4, b5, b6, b7, _⟩ := canonRd_at (memCfg cap) hs Lstats [0] [] sh s1 C (by decide) hwfS
    ⟨by intro g hg; simp only [List.mem_singleton] at hg; subst hg; exact a6.1 0 (by simp [Item.numDef]), by intro g hg; simp at hg⟩
    (by
      intro f n hm
      have hb : s1.obj.buf f = statsDefault.buf f := a8 f (by simp [Item.bufDef])
      rw [hb]; exact statsDefault_arr f n hm)
    (by intro f ew len hm; simp [Lstats] at hm) a1 ok1.pos hin1
  obtain ⟨e2, ok2⟩ := exec_sticky (memCfg cap) hs _ _ ok1 (by rw [b2]; exact ok1.short)
  rw [stats_rd, stickyCfg_eq, e2]
  generalize (Stmt.block (canonRd Lstats)).exec (memCfg cap) s1 = s2 at b1 b2 b3 b4 b5 b6 b7 ok2
  -- 3. the containers
  have hinp2 : s2.inp = encItems sh Lfull ++ C := by rw [b3, a3]
  have hin2 : s2.inp.drop s2.pos = flattenB ((payloads cap cfg objs).map (encodeContainer Z cap cfg.level)) := by
    rw [hC, b5, b3, a3]
    have hl : (encItems sh Lfull ++ C).length - C.length = (encItems sh Lfull).length := by simp
    rw [hl]; simp
  obtain ⟨c1, c2, c3⟩ := containerLoop_containers Z hZ cap cfg.level (payloads cap cfg objs)
    { st := s2, usize := s2.obj.num 1 } ((encItems sh Lfull ++ C).length + 2) hP ok2 rfl hin2 (by
      have := payloads_fuel Z cap cfg.level (payloads cap cfg objs) hP
      rw [hC] at this
      simp only [List.length_append]; omega)
  unfold readAfterHeader
  dsimp only
  generalize containerLoop Z cap ((encItems sh Lfull ++ C).length + 2) { st := s2, usize := s2.obj.num 1 } = cs at c1 c2 c3
  rw [c3]
  simp only [Bool.false_eq_true, if_false]
  rw [c1]
  simp only [List.append_nil, List.reverse_reverse, flattenConts_contsOf, flattenB_payloads]
  -- 4. the objects
  unfold parseStream
  dsimp only
  have hstream : streamOf cap objs = flat cap L := by rw [← hobjs]; exact streamOf_flat cap L
  obtain ⟨ds, d1, d2, d3, d4⟩ := parse_objects cap L hL (streamOf cap objs)
    { st := { obj := statsDefault, inp := streamOf cap objs } } (4 * (streamOf cap objs).length + 64)
    ⟨⟨rfl, rfl, Nat.zero_le _, rfl⟩, rfl, rfl⟩ (by simp [hstream]) (by
      have := flat_fuel cap L (fun x hx => (hL x hx).1)
      rw [hstream]; omega)
  refine ⟨ds, by rw [d3]; rfl, by rw [d1]; simp, d2, by rw [d4]; simp, ?_, ?_⟩
  · rw [c2]
    have : s2.obj.num 1 = hdr.num 1 := by
      rw [b6.1 1 (by simp [Lstats, Item.numDef]), ← hSH]
      unfold storedHeader; simp only
      split <;> simp [Obj.setNum]
    rw [this]
  · exact b6.mono
      (fun g hg => by
        simp only [Lfull, Lstats, List.filterMap_cons, List.filterMap_nil, Item.numDef, List.mem_cons, List.mem_append,
          List.not_mem_nil, or_false] at hg ⊢
        omega)
      (fun g hg => by
        simp only [Lfull, Lstats, List.filterMap_cons, List.filterMap_nil, Item.bufDef, List.mem_cons, List.mem_append,
          List.not_mem_nil, or_false] at hg ⊢
        omega)

end Blf.FileRoundTrip
