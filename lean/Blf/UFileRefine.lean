import Blf.UFile
/-!
# The in-memory stream refines a flat byte queue (C15), container-writer sessions

In a read session the inflater appends whole containers (`writeCont`) and the parser reads, seeks,
drops.  `RInv s w` relates the concrete state to the ghost byte string `w` of everything appended so
far: the containers held are contiguous, well sized, end at the put position and spell `w` from the
position of the first held container on.  Every operation of the session preserves `RInv`
(`rinv_writeCont`, `rinv_drop`, `rinv_seekg`, `rinv_setFileSize`, `rinv_read`), `read` returns exactly
the bytes `w[tellg, tellg+k)` (`read_spec`), and `dropOldData` never removes a byte at or after the get
position (`drop_safe`).  No bound on the number or size of containers.
-/
namespace Blf.UFile

def flat : List Cont → Bytes
  | [] => []
  | c :: l => c.data ++ flat l

/-- consecutive containers follow each other without gap or overlap, starting at `b`, ending at `e` -/
def Chain : List Cont → Int → Int → Prop
  | [], b, e => b = e
  | c :: l, b, e => c.pos = b ∧ c.data.length = c.size ∧ Chain l (b + c.size) e

theorem chain_le : ∀ (l : List Cont) (b e : Int), Chain l b e → b ≤ e
  | [], b, e, h => by simp [Chain] at h; omega
  | c :: l, b, e, h => by
    have := chain_le l _ _ h.2.2
    omega

theorem chain_flat_length : ∀ (l : List Cont) (b e : Int), Chain l b e → ((flat l).length : Int) = e - b
  | [], b, e, h => by simp [Chain] at h; simp [flat, h]
  | c :: l, b, e, h => by
    have := chain_flat_length l _ _ h.2.2
    simp only [flat, List.length_append, Int.natCast_add, h.2.1]
    omega

theorem chain_append (l : List Cont) (b e : Int) (c : Cont) (h : Chain l b e) (hp : c.pos = e)
    (hs : c.data.length = c.size) : Chain (l ++ [c]) b (e + c.size) := by
  induction l generalizing b with
  | nil => simp [Chain] at h; subst h; exact ⟨hp, hs, rfl⟩
  | cons d l ih => exact ⟨h.1, h.2.1, ih _ h.2.2⟩

theorem flat_append (a b : List Cont) : flat (a ++ b) = flat a ++ flat b := by
  induction a with
  | nil => rfl
  | cons c a ih => simp [flat, ih]

/-- the start of the held data: position of the first container, or the put position if none is held -/
def base (s : State) : Int :=
  match s.data with
  | [] => s.tellp
  | c :: _ => c.pos

structure RInv (s : State) (w : Bytes) : Prop where
  chain : Chain s.data (base s) s.tellp
  basenn : 0 ≤ base s
  tp : s.tellp = w.length
  content : flat s.data = w.drop (base s).toNat

theorem rinv_init : RInv {} [] := ⟨rfl, by simp [base], rfl, rfl⟩

/-- appending a container whose vector has the declared size -/
theorem rinv_writeCont (s : State) (w : Bytes) (h : RInv s w) (d : Bytes) :
    RInv (writeCont s d.length d) (w ++ d) := by
  have hb : base (writeCont s d.length d) = base s := by
    unfold base writeCont
    cases hd : s.data <;> simp [hd]
  refine ⟨?_, by rw [hb]; exact h.basenn, by simp [writeCont, h.tp], ?_⟩
  · rw [hb]
    simp only [writeCont]
    exact chain_append s.data (base s) s.tellp { pos := s.tellp, size := d.length, data := d } h.chain rfl rfl
  · rw [hb]
    simp only [writeCont, flat_append, flat, List.append_nil, h.content]
    have hle := chain_le _ _ _ h.chain
    have : (base s).toNat ≤ w.length := by have := h.tp; have := h.basenn; omega
    rw [List.drop_append_of_le_length this]

theorem rinv_seekg (s : State) (w : Bytes) (h : RInv s w) (off : Int) : RInv (seekg s off) w :=
  ⟨h.chain, h.basenn, h.tp, h.content⟩

theorem rinv_setFileSize (s : State) (w : Bytes) (h : RInv s w) (n : Int) : RInv (setFileSize s n) w :=
  ⟨h.chain, h.basenn, h.tp, h.content⟩

/-- dropping a fully consumed front container -/
theorem rinv_dropWhile (s : State) (w : Bytes) (h : RInv s w) :
    ∀ (l : List Cont) (b : Int), s.data = l → base s = b →
      RInv { s with data := l.dropWhile (droppable s) } w ∧
      b ≤ base { s with data := l.dropWhile (droppable s) } ∧
      (l.dropWhile (droppable s) ≠ l → base { s with data := l.dropWhile (droppable s) } ≤ s.tellg) := by
  intro l
  induction l generalizing s with
  | nil =>
    intro b hl hb
    have e : ({ s with data := ([] : List Cont).dropWhile (droppable s) } : State) = s := by
      cases s; simp_all
    rw [e]; exact ⟨h, by omega, fun hne => absurd rfl hne⟩
  | cons c l ih =>
    intro b hl hb
    simp only [List.dropWhile]
    by_cases hd : droppable s c = true
    · simp only [hd]
      -- the state with the front container removed still satisfies the invariant
      have hbase : base s = c.pos := by unfold base; rw [hl]
      have hch := h.chain
      rw [hl, hbase] at hch
      have s1 : RInv { s with data := l } w := by
        have hb1 : base { s with data := l } = c.pos + c.size := by
          unfold base
          cases hl2 : l with
          | nil =>
            simp only
            have := hch.2.2; rw [hl2] at this; simp [Chain] at this; omega
          | cons d l' =>
            simp only
            have := hch.2.2; rw [hl2] at this; exact this.1
        refine ⟨?_, ?_, h.tp, ?_⟩
        · rw [hb1]; exact hch.2.2
        · rw [hb1]; have := h.basenn; omega
        · rw [hb1]
          have hcont := h.content
          rw [hl] at hcont
          simp only [flat] at hcont
          have hlen : c.data.length = c.size := hch.2.1
          have hbn := h.basenn
          have : w.drop (c.pos + ↑c.size).toNat = (w.drop (base s).toNat).drop c.size := by
            rw [List.drop_drop, hbase]; congr 1; omega
          rw [this, ← hcont, ← hlen, List.drop_left]
      have hdr : droppable { s with data := l } = droppable s := by
        funext x; simp [droppable]
      have := ih { s with data := l } s1 (base { s with data := l }) rfl rfl
      simp only [hdr] at this
      refine ⟨this.1, ?_, fun _ => ?_⟩
      · have hb1 : base s ≤ base { s with data := l } := by
          have hch2 := s1.chain
          have : base { s with data := l } = c.pos + c.size ∨ True := Or.inr trivial
          -- base of the shorter list is the end of c
          unfold base at hch2 ⊢
          cases hl2 : l with
          | nil =>
            simp only [hl]
            have := hch.2.2; rw [hl2] at this; simp [Chain] at this
            omega
          | cons d l' =>
            simp only [hl]
            have := hch.2.2; rw [hl2] at this
            have := this.1; omega
        omega
      · -- the new base is at most tellg: every dropped container ends at or before tellg
        by_cases hsame : l.dropWhile (droppable s) = l
        · rw [hsame]
          simp only [droppable, Bool.not_eq_true', Bool.or_eq_false_iff, decide_eq_false_iff_not, Int.not_lt] at hd
          have hb1 : base { s with data := l } = c.pos + c.size := by
            unfold base
            cases hl2 : l with
            | nil => simp only; have := hch.2.2; rw [hl2] at this; simp [Chain] at this; omega
            | cons d l' => simp only; have := hch.2.2; rw [hl2] at this; exact this.1
          rw [hb1]; omega
        · exact this.2.2 hsame
    · simp only [hd, Bool.false_eq_true, if_false]
      have e : ({ s with data := c :: l } : State) = s := by cases s; simp_all
      rw [e]
      exact ⟨h, by omega, fun hne => absurd rfl hne⟩

theorem rinv_drop (s : State) (w : Bytes) (h : RInv s w) : RInv (dropOldData s) w :=
  (rinv_dropWhile s w h s.data (base s) rfl rfl).1

/-- **`dropOldData` never discards a byte at or after the get position** (nor moves the start backwards) -/
theorem drop_safe (s : State) (w : Bytes) (h : RInv s w) (hg : base s ≤ s.tellg) :
    base s ≤ base (dropOldData s) ∧ base (dropOldData s) ≤ s.tellg := by
  have := rinv_dropWhile s w h s.data (base s) rfl rfl
  refine ⟨this.2.1, ?_⟩
  by_cases hsame : s.data.dropWhile (droppable s) = s.data
  · have e : dropOldData s = s := by unfold dropOldData; rw [hsame]
    rw [e]; exact hg
  · exact this.2.2 hsame

/-! ## reading -/

/-- the copy loop does not touch the flags -/
theorem readLoop_flags : ∀ (fuel : Nat) (s : State) (n : Int) (acc : Bytes),
    (readLoop fuel s n acc).1.good = s.good ∧ (readLoop fuel s n acc).1.eof = s.eof
  | 0, s, n, acc => ⟨rfl, rfl⟩
  | fuel+1, s, n, acc => by
    simp only [readLoop]
    split
    · exact ⟨rfl, rfl⟩
    · split
      · exact ⟨rfl, rfl⟩
      · split
        · exact ⟨rfl, rfl⟩
        · exact readLoop_flags fuel _ _ _

theorem go_none (p : Int) : ∀ (l : List Cont) (b e : Int) (i : Nat), Chain l b e → (p < b ∨ e ≤ p) →
    containing.go p l i = none
  | [], _, _, _, _, _ => rfl
  | c :: l, b, e, i, h, hp => by
    have hle := chain_le l _ _ h.2.2
    have hc : c.contains p = false := by
      simp only [Cont.contains, Bool.and_eq_false_iff, decide_eq_false_iff_not, Int.not_le, Int.not_lt]
      rcases hp with h1 | h1
      · left; rw [h.1]; exact h1
      · right; rw [h.1]; omega
    simp only [containing.go, hc, Bool.false_eq_true, if_false]
    refine go_none p l _ e _ h.2.2 ?_
    rcases hp with h1 | h1
    · left; omega
    · right; omega

/-- in a chain, the container found for a position inside `[b, e)` is the one that holds it, and the flat
    content from that position on is the rest of this container followed by the later containers -/
theorem go_chain (p : Int) : ∀ (l : List Cont) (b e : Int) (i : Nat), Chain l b e → b ≤ p → p < e →
    ∃ (j : Nat) (c : Cont) (rest : List Cont), containing.go p l i = some (j, c) ∧ c.pos ≤ p ∧ p < c.pos + c.size ∧
      c.data.length = c.size ∧ (flat l).drop (p - b).toNat = c.data.drop (p - c.pos).toNat ++ flat rest ∧
      Chain rest (c.pos + c.size) e
  | [], b, e, _, h, h1, h2 => by simp [Chain] at h; omega
  | c :: l, b, e, i, h, h1, h2 => by
    by_cases hc : p < c.pos + c.size
    · refine ⟨i, c, l, ?_, by rw [h.1]; exact h1, hc, h.2.1, ?_, by rw [h.1]; exact h.2.2⟩
      · have : c.contains p = true := by
          simp only [Cont.contains, Bool.and_eq_true, decide_eq_true_eq]; exact ⟨by rw [h.1]; exact h1, by omega⟩
        simp [containing.go, this]
      · simp only [flat, h.1]
        apply List.drop_append_of_le_length
        rw [h.2.1]; have := h.1; omega
    · have hge : c.pos + c.size ≤ p := by omega
      have hcf : c.contains p = false := by
        simp only [Cont.contains, Bool.and_eq_false_iff, decide_eq_false_iff_not, Int.not_le, Int.not_lt]
        right; omega
      obtain ⟨j, c', rest, hg, ha, hb, hl, hd, hch⟩ := go_chain p l (b + c.size) e (i + 1) h.2.2 (by rw [← h.1]; exact hge) h2
      refine ⟨j, c', rest, ?_, ha, hb, hl, ?_, hch⟩
      · simp only [containing.go, hcf, Bool.false_eq_true, if_false]; exact hg
      · simp only [flat]
        have e1 : (p - b).toNat = c.data.length + (p - (b + ↑c.size)).toNat := by
          rw [h.2.1]; have := h.1; omega
        rw [e1, List.drop_append, List.drop_eq_nil_of_le (by omega), List.nil_append, Nat.add_sub_cancel_left, hd]

theorem readLoop_spec (b e : Int) : ∀ (fuel : Nat) (s : State) (n : Int) (acc : Bytes),
    Chain s.data b e → b ≤ s.tellg → s.tellg ≤ e → n.toNat < fuel →
    readLoop fuel s n acc =
      ({ s with gcount := s.gcount + min n.toNat (e - s.tellg).toNat,
                tellg := s.tellg + (min n.toNat (e - s.tellg).toNat : Nat) },
       acc ++ ((flat s.data).drop (s.tellg - b).toNat).take (min n.toNat (e - s.tellg).toNat)) := by
  intro fuel
  induction fuel with
  | zero => intro s n acc _ _ _ hf; omega
  | succ fuel ih =>
    intro s n acc hch hb he hf
    simp only [readLoop]
    by_cases hn : n ≤ 0
    · have : n.toNat = 0 := by omega
      simp only [hn, if_true, this, Nat.zero_min, Nat.add_zero, List.take_zero, List.append_nil]
      cases s; simp
    · simp only [hn, if_false]
      by_cases hend : s.tellg = e
      · -- nothing held at the get position
        have hnone : containing s.data s.tellg = none := go_none _ _ b e 0 hch (Or.inr (by omega))
        have : (e - s.tellg).toNat = 0 := by omega
        simp only [hnone, this, Nat.min_zero, Nat.add_zero, List.take_zero, List.append_nil]
        cases s; simp
      · have hlt : s.tellg < e := by omega
        obtain ⟨j, c, rest, hg, ha, hbb, hl, hd, hrest⟩ := go_chain s.tellg s.data b e 0 hch hb hlt
        have hcont : containing s.data s.tellg = some (j, c) := hg
        have hce := chain_le rest _ _ hrest
        simp only [hcont]
        -- bytes taken from this container
        have hoob : ¬ ((s.tellg - c.pos).toNat + min n.toNat (c.size - (s.tellg - c.pos).toNat) > c.data.length) := by
          rw [hl]; omega
        simp only [hoob, if_false]
        have hk : 0 < min n.toNat (c.size - (s.tellg - c.pos).toNat) := by omega
        -- recursive call
        have := ih { s with gcount := s.gcount + min n.toNat (c.size - (s.tellg - c.pos).toNat),
                            tellg := s.tellg + (min n.toNat (c.size - (s.tellg - c.pos).toNat) : Nat) }
          (n - (min n.toNat (c.size - (s.tellg - c.pos).toNat) : Nat))
          (acc ++ (c.data.drop (s.tellg - c.pos).toNat).take (min n.toNat (c.size - (s.tellg - c.pos).toNat)))
          hch (by simp only; omega) (by simp only; omega) (by omega)
        rw [this]
        -- arithmetic of the two chunks
        generalize hgk : min n.toNat (c.size - (s.tellg - c.pos).toNat) = gk at *
        have hk2 : min n.toNat (e - s.tellg).toNat =
            gk + min (n - (gk : Nat)).toNat (e - (s.tellg + (gk : Nat))).toNat := by omega
        simp only [hk2]
        congr 1
        · congr 1
          · simp only [Int.natCast_add]; omega
          · omega
        · -- bytes
          have hdd : (flat s.data).drop (s.tellg + (gk : Nat) - b).toNat = ((flat s.data).drop (s.tellg - b).toNat).drop gk := by
            rw [List.drop_drop]; congr 1; omega
          simp only [hdd, hd]
          rw [List.append_assoc, List.take_add]
          congr 1
          rw [List.take_append_of_le_length]
          simp; rw [hl]; omega

theorem readLoop_on (s s1 : State) (w : Bytes) (h : RInv s w) (hd : s1.data = s.data) (htg : s1.tellg = s.tellg)
    (hg : base s ≤ s.tellg) (hle : s.tellg ≤ s.tellp) (n' : Int) (fuel : Nat) (hf : n'.toNat < fuel) :
    readLoop fuel s1 n' [] =
      ({ s1 with gcount := s1.gcount + min n'.toNat (s.tellp - s.tellg).toNat,
                 tellg := s.tellg + (min n'.toNat (s.tellp - s.tellg).toNat : Nat) },
       (w.drop s.tellg.toNat).take (min n'.toNat (s.tellp - s.tellg).toNat)) := by
  have := readLoop_spec (base s) s.tellp fuel s1 n' [] (by rw [hd]; exact h.chain) (by rw [htg]; exact hg)
    (by rw [htg]; exact hle) hf
  rw [this, htg, hd, h.content, List.drop_drop]
  simp only [List.nil_append]
  congr 3
  have := h.basenn; omega

theorem read_aux (s s1 : State) (w : Bytes) (h : RInv s w) (hd : s1.data = s.data) (htg : s1.tellg = s.tellg)
    (htp : s1.tellp = s.tellp) (hoob : s1.oob = s.oob) (hgc : s1.gcount = 0)
    (hg : base s ≤ s.tellg) (hle : s.tellg ≤ s.tellp) (n' : Int) (fuel : Nat) (hf : n'.toNat < fuel) :
    (readLoop fuel s1 n' []).2 = (w.drop s.tellg.toNat).take (min n'.toNat (s.tellp - s.tellg).toNat) ∧
    (readLoop fuel s1 n' []).1.tellg = s.tellg + (min n'.toNat (s.tellp - s.tellg).toNat : Nat) ∧
    (readLoop fuel s1 n' []).1.gcount = min n'.toNat (s.tellp - s.tellg).toNat ∧
    (readLoop fuel s1 n' []).1.data = s.data ∧ (readLoop fuel s1 n' []).1.tellp = s.tellp ∧
    (readLoop fuel s1 n' []).1.oob = s.oob := by
  rw [readLoop_on s s1 w h hd htg hg hle n' fuel hf]
  exact ⟨rfl, rfl, by simp [hgc], hd, htp, hoob⟩

/-- **`read` returns exactly the bytes of the queue**: with the get position inside the held data,
    `read n` (admitted by its guard) returns `w[tellg, tellg + k)` with `k = min n' (tellp - tellg)`,
    `n'` the request clipped at the declared end, advances the get position by `k`, sets `gcount = k`,
    and touches nothing else but the flags. -/
theorem read_spec (s : State) (w : Bytes) (h : RInv s w) (n : Nat) (hg : base s ≤ s.tellg) (hle : s.tellg ≤ s.tellp) :
    let n' : Int := if (n : Int) + s.tellg > s.fileSize then s.fileSize - s.tellg else n
    let k := min n'.toNat (s.tellp - s.tellg).toNat
    (read s n).2 = (w.drop s.tellg.toNat).take k ∧
    (read s n).1.tellg = s.tellg + (k : Nat) ∧ (read s n).1.gcount = k ∧ (read s n).1.data = s.data ∧
    (read s n).1.tellp = s.tellp ∧ (read s n).1.oob = s.oob := by
  intro n' k
  have hn' : n'.toNat < n + 1 := by
    simp only [n']; split <;> omega
  unfold read
  by_cases hs : (n : Int) + s.tellg > s.fileSize
  · have hn2 : n' = s.fileSize - s.tellg := by simp only [n', hs, if_true]
    simp only [hs, decide_true, Bool.not_true, Bool.false_and, Bool.false_eq_true, if_false, if_true]
    have := read_aux s { s with good := false, eof := true, gcount := 0, readDemand := 0 } w h rfl rfl rfl rfl rfl hg hle
      (s.fileSize - s.tellg) (n + 1) (by rw [← hn2]; exact hn')
    simp only [k, hn2]; exact this
  · have hn2 : n' = (n : Int) := by simp only [n', hs, if_false]
    simp only [hs, decide_false, Bool.not_false, Bool.true_and, Bool.false_eq_true, if_false]
    split
    · have := read_aux s { s with gcount := 0, readDemand := 0 } w h rfl rfl rfl rfl rfl hg hle (n : Int) (n + 1) (by omega)
      simp only [k, hn2]; exact this
    · have := read_aux s { s with good := true, eof := false, gcount := 0, readDemand := 0 } w h rfl rfl rfl rfl rfl hg hle (n : Int) (n + 1) (by omega)
      simp only [k, hn2]; exact this

theorem rinv_read (s : State) (w : Bytes) (h : RInv s w) (n : Nat) (hg : base s ≤ s.tellg) (hle : s.tellg ≤ s.tellp) :
    RInv (read s n).1 w := by
  obtain ⟨_, _, _, hd, htp, _⟩ := read_spec s w h n hg hle
  have hb : base (read s n).1 = base s := by unfold base; rw [hd, htp]
  exact ⟨by rw [hb, hd, htp]; exact h.chain, by rw [hb]; exact h.basenn, by rw [htp]; exact h.tp, by rw [hb, hd]; exact h.content⟩

end Blf.UFile
