/-!
# Spec: padding behaviour observed in the reference logs

For each object type code for which the 170 reference logs contain an object whose size is not a
multiple of four: is it followed by `objectSize % 4` filler bytes (true) or not (false)?  Derived by
`spec/walk_logs.py` (struct + zlib only); the committed table is re-derived and compared on every run.
-/
namespace Blf.Spec

def padObserved : List (Nat × Bool) := [
  (6, true),
  (7, true),
  (8, true),
  (9, true),
  (32, true),
  (33, true),
  (65, true),
  (66, false),
  (69, true),
  (71, true),
  (72, true),
  (76, true),
  (77, true),
  (78, true),
  (79, true),
  (80, true),
  (81, true),
  (83, true),
  (84, true),
  (85, true),
  (90, true),
  (92, true),
  (93, true),
  (96, true),
  (97, true),
  (102, true),
  (118, false),
  (119, false),
  (120, false),
  (121, false),
  (122, false),
  (123, false)]

end Blf.Spec
