/-!
# File life-cycle state machine (C13)  — hand model, tie D `api` protocol

A sequentialisation of the `File` API: open (missing / unwritable / valid-in / out / again), read, write,
close, destroy, with a ghost heap (objects owned by the library, by the application, freed) and a ghost
thread count.  Justified as a sequentialisation by C06/C07 (calls return; results do not depend on the
schedule).  `read`/`write` are only issued while a session of the matching mode is open (the property's
"histories that respect the mode"); other ops are total.
-/
namespace Blf.Api

inductive Op where
  | openMissing | openUnwritable
  | openIn (nobjs : Nat)      -- a valid file holding `nobjs` objects
  | openOut
  | read | write | close | destroy
  deriving Repr, DecidableEq

inductive Mode where | none | reading | writing
  deriving Repr, DecidableEq

structure S where
  isOpen : Bool := false
  mode : Mode := .none
  good : Bool := true
  eof : Bool := false
  remaining : Nat := 0        -- objects of the file not yet delivered
  libOwned : Nat := 0         -- objects passed to write() and not yet freed
  appOwned : Nat := 0         -- objects returned by read()
  allocated : Nat := 0
  freed : Nat := 0
  threads : Nat := 0
  destroyed : Bool := false
  deriving Repr, DecidableEq

def closeS (s : S) : S :=
  if !s.isOpen then s
  else match s.mode with
    | .writing => { s with isOpen := false, threads := 0, freed := s.freed + s.libOwned, libOwned := 0, good := false, eof := true }
    | _ => { s with isOpen := false, threads := 0 }

/-- is the op admissible in this state (mode respected, object not yet destroyed) -/
def admissible (s : S) : Op → Bool
  | .read => s.isOpen && s.mode == .reading && !s.destroyed
  | .write => s.isOpen && s.mode == .writing && !s.destroyed
  | .openIn _ => !s.destroyed && (s.isOpen || s.mode == .none)     -- one successful open per object
  | .openOut => !s.destroyed && (s.isOpen || s.mode == .none)
  | _ => !s.destroyed

def step (s : S) (op : Op) : S :=
  if !admissible s op then s else
  match op with
  | .openMissing | .openUnwritable => s
  | .openIn n => if s.isOpen then s else { s with isOpen := true, mode := .reading, remaining := n, threads := 2 }
  | .openOut => if s.isOpen then s else { s with isOpen := true, mode := .writing, threads := 2 }
  | .read =>
    if s.remaining > 0 then
      { s with remaining := s.remaining - 1, allocated := s.allocated + 1, appOwned := s.appOwned + 1, good := true, eof := false }
    else { s with good := false, eof := true }
  | .write => { s with allocated := s.allocated + 1, libOwned := s.libOwned + 1 }
  | .close => closeS s
  | .destroy => { closeS s with destroyed := true }

def run (s : S) (ops : List Op) : S := ops.foldl step s

/-- accounting invariant: every object ever allocated is owned by the library, owned by the application,
    or freed — exactly one of the three; threads and library-owned objects exist only while a session is open;
    a destroyed object is closed -/
def Inv (s : S) : Prop :=
  s.allocated = s.libOwned + s.appOwned + s.freed ∧ (s.isOpen = false → s.threads = 0 ∧ s.libOwned = 0) ∧
  (s.mode ≠ .writing → s.libOwned = 0) ∧ (s.destroyed = true → s.isOpen = false)

theorem inv_init : Inv {} := by simp [Inv]

theorem inv_close (s : S) (h : Inv s) : Inv (closeS s) ∧ (closeS s).isOpen = false := by
  obtain ⟨h1, h2, h3, h4⟩ := h
  unfold closeS
  by_cases ho : s.isOpen = true
  · simp only [ho, Bool.not_true, Bool.false_eq_true, if_false]
    split
    · refine ⟨⟨by simp; omega, by simp, by simp, by simp⟩, rfl⟩
    · rename_i hm
      have hl : s.libOwned = 0 := h3 (fun e => hm e)
      refine ⟨⟨h1, fun _ => ⟨rfl, hl⟩, fun _ => hl, fun _ => rfl⟩, rfl⟩
  · have ho' : s.isOpen = false := by simpa using ho
    simp only [ho', Bool.not_false, if_true]
    exact ⟨⟨h1, h2, h3, h4⟩, trivial⟩

theorem admissible_not_destroyed (s : S) (op : Op) (ha : admissible s op = true) : s.destroyed = false := by
  cases op <;> simp [admissible] at ha <;> (try exact ha) <;> (try exact ha.2) <;> (try exact ha.1)

theorem inv_step (s : S) (op : Op) (h : Inv s) : Inv (step s op) := by
  have hh := h
  obtain ⟨h1, h2, h3, h4⟩ := h
  unfold step
  by_cases ha : admissible s op = true
  · have hnd := admissible_not_destroyed s op ha
    simp only [ha, Bool.not_true, Bool.false_eq_true, if_false]
    cases op with
    | openMissing => exact hh
    | openUnwritable => exact hh
    | openIn n =>
      simp only
      by_cases ho : s.isOpen = true
      · simp only [ho, if_true]; exact hh
      · have ho' : s.isOpen = false := by simpa using ho
        simp only [ho', Bool.false_eq_true, if_false]
        have hl := (h2 ho').2
        exact ⟨h1, by simp, fun _ => hl, by simp [hnd]⟩
    | openOut =>
      simp only
      by_cases ho : s.isOpen = true
      · simp only [ho, if_true]; exact hh
      · have ho' : s.isOpen = false := by simpa using ho
        simp only [ho', Bool.false_eq_true, if_false]
        exact ⟨h1, by simp, by simp, by simp [hnd]⟩
    | read =>
      simp only [admissible, Bool.and_eq_true, beq_iff_eq] at ha
      have hm : s.mode = .reading := ha.1.2
      have ho : s.isOpen = true := ha.1.1
      have hl : s.libOwned = 0 := h3 (by rw [hm]; decide)
      simp only
      split
      · exact ⟨by simp; omega, by simp [ho], fun _ => hl, by simp [hnd]⟩
      · exact ⟨h1, by simp [ho], fun _ => hl, by simp [hnd]⟩
    | write =>
      simp only [admissible, Bool.and_eq_true, beq_iff_eq] at ha
      have hm : s.mode = .writing := ha.1.2
      have ho : s.isOpen = true := ha.1.1
      exact ⟨by simp; omega, by simp [ho], fun hne => absurd hm hne, by simp [hnd]⟩
    | close => exact (inv_close s hh).1
    | destroy =>
      have := inv_close s hh
      exact ⟨this.1.1, this.1.2.1, this.1.2.2.1, fun _ => this.2⟩
  · have : admissible s op = false := by simpa using ha
    simp only [this, Bool.not_false, if_true]
    exact hh

theorem inv_run (s : S) (ops : List Op) (h : Inv s) : Inv (run s ops) := by
  induction ops generalizing s with
  | nil => exact h
  | cons op l ih => exact ih _ (inv_step s op h)

theorem run_append (s : S) (a b : List Op) : run s (a ++ b) = run (run s a) b := by
  simp [run, List.foldl_append]

theorem destroy_destroys (t : S) : (step t .destroy).destroyed = true := by
  unfold step
  by_cases ha : admissible t .destroy = true
  · simp [ha]
  · have h : admissible t .destroy = false := by simpa using ha
    simp only [admissible, Bool.not_eq_false'] at h
    simp [admissible, h]

/-- **C13**: for every history, after `destroy` every object ever allocated is either freed (exactly once:
    the counters are exact) or owned by the application; nothing is left with the library; no thread is left;
    the file is closed. -/
theorem after_destroy (ops : List Op) :
    (run {} (ops ++ [.destroy])).libOwned = 0 ∧ (run {} (ops ++ [.destroy])).threads = 0 ∧
    (run {} (ops ++ [.destroy])).allocated = (run {} (ops ++ [.destroy])).appOwned + (run {} (ops ++ [.destroy])).freed ∧
    (run {} (ops ++ [.destroy])).isOpen = false := by
  have hi : Inv (run {} (ops ++ [.destroy])) := inv_run {} _ inv_init
  have hd : (run {} (ops ++ [.destroy])).destroyed = true := by
    rw [run_append]
    simp only [run, List.foldl_cons, List.foldl_nil]
    exact destroy_destroys _
  obtain ⟨h1, h2, _, h4⟩ := hi
  have hclosed := h4 hd
  have := h2 hclosed
  exact ⟨this.2, this.1, by omega, hclosed⟩

/-- the flags after each call are the documented functions of the state: a successful read leaves
    good set and eof cleared, a read at the end clears good and sets eof, open/write/failed opens leave
    them alone, closing a write session leaves eof set (the writer consumed the queue to its end) -/
theorem flags_read_obj (s : S) (ha : admissible s .read = true) (hr : 0 < s.remaining) :
    (step s .read).good = true ∧ (step s .read).eof = false := by
  simp [step, ha, hr]

theorem flags_read_null (s : S) (ha : admissible s .read = true) (hr : s.remaining = 0) :
    (step s .read).good = false ∧ (step s .read).eof = true := by
  simp [step, ha, hr]

/-- non-vacuity: a concrete history with a failed open, a read session, early close, double close -/
example : (run {} [.openMissing, .openIn 3, .read, .read, .close, .close, .destroy]).appOwned = 2 ∧
    (run {} [.openOut, .write, .write, .destroy]).freed = 2 := by decide

end Blf.Api
