import Blf.FileRound
import Blf.Sync
/-!
# Filler bytes and objects of unknown type are skipped without losing neighbours  (C09)

`objectStep_filler_object`: with any filler in front that contains no signature at any position (partial signature prefixes
directly before the object included), the parser delivers the object behind the filler exactly as without it.
`objectStep_filler_unknown`: an object of a type without codec is skipped by its declared size, nothing is delivered for it.
`parse_segments`: a stream of such segments delivers exactly the known objects, in order.
-/
namespace Blf.FillerRound
open Blf Blf.FileSeq Blf.FileRound

/-- no signature begins inside the filler (looking into what follows it) -/
def NoSig (fill after : Bytes) : Prop := ∀ j, j < fill.length → startsSig ((fill ++ after).drop j) = false

/-- signature search over filler, then the canonical reads of an item list -/
theorem syncRd_filler (cfg : Cfg) (hs : cfg.sticky = false) (L : List Item) (sigF : Nat) (ow : Obj) (st : St) (fill rest : Bytes)
    (hok : itemsOK [sigF] [] L = true) (hwf : ItemsWF ow L) (hsig : ow.num sigF = SIG)
    (harr : ArrOK st.obj L) (hcap : ∀ f ew len, Item.var f ew len ∈ L → ow.num len * ew ≤ cfg.cap)
    (h0 : st.halt = .none) (hin : st.inp.drop st.pos = fill ++ (leBytes 4 SIG ++ encItems ow L ++ rest))
    (hns : NoSig fill (leBytes 4 SIG ++ encItems ow L ++ rest)) :
    ((Stmt.block (.sync sigF :: canonRd L)).exec cfg st).halt = .none ∧
    ((Stmt.block (.sync sigF :: canonRd L)).exec cfg st).short = st.short ∧
    ((Stmt.block (.sync sigF :: canonRd L)).exec cfg st).inp = st.inp ∧
    ((Stmt.block (.sync sigF :: canonRd L)).exec cfg st).out = st.out ∧
    ((Stmt.block (.sync sigF :: canonRd L)).exec cfg st).pos = st.pos + fill.length + 4 + (encItems ow L).length ∧
    Agree (L.filterMap Item.numDef ++ [sigF]) (L.filterMap Item.bufDef)
      ((Stmt.block (.sync sigF :: canonRd L)).exec cfg st).obj ow := by
  have hl4 : (leBytes 4 SIG).length = 4 := by simp
  have hp : st.pos ≤ st.inp.length := by
    by_cases h : st.pos ≤ st.inp.length
    · exact h
    · rw [List.drop_eq_nil_of_le (by omega)] at hin
      have := congrArg List.length hin
      simp [hl4] at this
      omega
  have hlen : st.pos + fill.length + 4 + (encItems ow L).length + rest.length = st.inp.length := by
    have := congrArg List.length hin
    simp only [List.length_drop, List.length_append, hl4] at this
    omega
  have hdropk : st.inp.drop (st.pos + fill.length) = leBytes 4 SIG ++ encItems ow L ++ rest := by
    rw [← List.drop_drop, hin]; simp
  rw [exec_block_cons]
  rw [exec_sync_skips_filler cfg hs sigF (st.pos + fill.length) st (by omega) (by omega)
    (by
      rw [hdropk, List.append_assoc, sigBytes_eq]
      unfold startsSig
      rw [(take_append_len sigBytes _ 4 (by decide)).1]
      decide)
    (by
      intro j h1 h2
      have := hns (j - st.pos) (by omega)
      rw [← hin, List.drop_drop] at this
      have e : st.pos + (j - st.pos) = j := by omega
      rw [e] at this; exact this)]
  rw [if_pos (by exact h0)]
  have hag : Agree [sigF] [] (st.obj.setNum sigF SIG) ow := by
    refine ⟨fun g hg => ?_, fun g hg => by simp at hg⟩
    simp only [List.mem_singleton] at hg; subst hg; simp [hsig]
  have hdrop : st.inp.drop (st.pos + fill.length + 4) = encItems ow L ++ rest := by
    rw [← List.drop_drop, hdropk, List.append_assoc]; exact (take_append_len _ _ 4 hl4).2
  obtain ⟨o', hd, ha⟩ := dec_enc cfg.cap L [sigF] [] ow (st.obj.setNum sigF SIG) rest hok hwf hag hcap
  have hrd := exec_canonRd cfg hs L [sigF] []
    { st with obj := st.obj.setNum sigF SIG, pos := st.pos + fill.length + 4, good := true, eof := false } hok h0
    (by simp only; omega) (by intro f n h; simpa using harr f n h)
  simp only [hdrop] at hrd
  rw [hd] at hrd
  refine ⟨hrd.halt, hrd.short, hrd.inp, hrd.out, ?_, ?_⟩
  · have h1 := drop_eq_pos _ _ _ hrd.pos hrd.rest
    simp only at h1
    omega
  · rw [hrd.obj]
    exact ha.mono (fun g hg => hg) (fun g hg => by simpa using hg)

theorem objectStep_filler_object (cap : Nat) (c : Codec) (lay : Layout) (o : Obj) (hp : Parsable cap c lay o)
    (harr : ArrOK c.fresh lay.items) (B fill rest : Bytes) (ps : PState) (hi : PInv B ps)
    (hin : B.drop ps.st.pos = fill ++ (enc cap c o ++ rest)) (hns : NoSig fill (enc cap c o ++ rest)) :
    ∃ ps' ob, objectStep cap ps = some ps' ∧ PInv B ps' ∧ ps'.st.pos = ps.st.pos + fill.length + (enc cap c o).length ∧
      ps'.objs = (c.name, ob) :: ps.objs ∧
      Agree (lay.items.filterMap Item.numDef ++ [lay.sigF]) (lay.items.filterMap Item.bufDef) ob (pre c lay o) ∧
      ps'.count = (if (pre c lay o).num 4 = 115 then ps.count else ps.count + 1) := by
  have hs : (memCfg cap).sticky = false := rfl
  have hwf := itemsWF_pre c lay hp.reg o hp.user
  have hsigp : (pre c lay o).num lay.sigF = SIG := by rw [pre_sig c lay hp.reg, hp.sig0]; exact hp.sig
  obtain ⟨R, hR⟩ := hp.hdr
  have hcapp : ∀ f ew len, Item.var f ew len ∈ lay.items → (pre c lay o).num len * ew ≤ (memCfg cap).cap := by
    intro f ew len hm
    have hb : (pre c lay o).buf f = o.buf f := pre_buf c lay o f
    have hw : ((pre c lay o).buf f).length = (pre c lay o).num len * ew := itemsWF_mem _ _ hwf _ hm
    rw [← hw, hb]; exact hp.cap f ew len hm
  obtain ⟨_, hout, _, _, _⟩ := regular_frame (memCfg cap) c lay hp.reg o hwf
  have henc : enc cap c o = leBytes 4 SIG ++ encItems (pre c lay o) lay.items := by
    unfold enc; rw [hout, hsigp]
  -- 1. the base header
  have hwf4 : ItemsWF (pre c lay o) hdr4 := by
    have := hwf; rw [hR] at this; exact ((itemsWF_append _ _ _).1 this).1
  have hinp : ps.st.inp = B := hi.inp
  have hin1 : ({ ps.st with obj := Gen.ObjectHeaderBase.fresh, halt := Halt.none } : St).inp.drop
      ({ ps.st with obj := Gen.ObjectHeaderBase.fresh, halt := Halt.none } : St).pos =
      fill ++ (leBytes 4 SIG ++ encItems (pre c lay o) hdr4 ++ (encItems (pre c lay o) R ++ rest)) := by
    simp only [hinp, hin, henc, hR, encItems_append, List.append_assoc]
  have hns1 : NoSig fill (leBytes 4 SIG ++ encItems (pre c lay o) hdr4 ++ (encItems (pre c lay o) R ++ rest)) := by
    have := hns; rw [henc, hR] at this; simpa only [encItems_append, List.append_assoc] using this
  have hsig0 : (pre c lay o).num 0 = SIG := by rw [← hp.sig0]; exact hsigp
  obtain ⟨a1, a2, a3, a4, a5, a6⟩ := syncRd_filler (memCfg cap) hs hdr4 0 (pre c lay o)
    { ps.st with obj := Gen.ObjectHeaderBase.fresh, halt := Halt.none } fill (encItems (pre c lay o) R ++ rest)
    (by decide) hwf4 hsig0 (by intro f n h; simp [hdr4] at h) (by intro f ew len h; simp [hdr4] at h) rfl hin1 hns1
  have hok1 : StreamOK ({ ps.st with obj := Gen.ObjectHeaderBase.fresh, halt := Halt.none } : St) :=
    ⟨hi.ok.good, hi.ok.eof, hi.ok.pos, hi.ok.short⟩
  have hgood := (exec_sticky (memCfg cap) hs _ _ hok1 (by rw [a2]; exact hi.ok.short)).2
  have hlen4 : (encItems (pre c lay o) hdr4).length = 12 := by
    rw [encItems_length _ _ hwf4]; rfl
  unfold objectStep
  rw [ohb_prog]
  generalize (Stmt.block (.sync 0 :: canonRd hdr4)).exec (memCfg cap) { ps.st with obj := Gen.ObjectHeaderBase.fresh, halt := Halt.none } = hd
    at a1 a2 a3 a4 a5 a6 hgood
  simp only at a2 a3 a4 a5
  have hos : hd.obj.num 3 = (pre c lay o).num 3 := a6.1 3 (by simp [hdr4, Item.numDef])
  have hty : hd.obj.num 4 = (pre c lay o).num 4 := a6.1 4 (by simp [hdr4, Item.numDef])
  unfold afterHeader
  rw [if_neg (by simp [a1]), if_neg (by simp [hgood.good]), hos, hty, if_neg (by have := hp.size16; omega), hp.fac]
  simp only
  -- 2. the decoder of the class, from the object's first byte
  have hpos1 : (hd.sback 16).pos = ps.st.pos + fill.length := by simp only [St.sback]; rw [a5, hlen4]; omega
  have hin2 : ({ hd.sback 16 with obj := c.fresh, halt := Halt.none } : St).inp.drop
      ({ hd.sback 16 with obj := c.fresh, halt := Halt.none } : St).pos =
      leBytes 4 SIG ++ encItems (pre c lay o) lay.items ++ rest := by
    simp only [hpos1]
    show hd.inp.drop (ps.st.pos + fill.length) = _
    rw [a3]; show ps.st.inp.drop (ps.st.pos + fill.length) = _
    rw [hinp, ← List.drop_drop, hin, henc]; simp
  obtain ⟨b1, b2, b3, b4, b5, b6⟩ := syncRd_at (memCfg cap) hs lay.items lay.sigF (pre c lay o)
    { hd.sback 16 with obj := c.fresh, halt := Halt.none } rest hp.reg.ok hwf hsigp harr hcapp rfl hin2
  have hok2 : StreamOK ({ hd.sback 16 with obj := c.fresh, halt := Halt.none } : St) :=
    ⟨hgood.good, hgood.eof, by
      show (hd.sback 16).pos ≤ hd.inp.length
      rw [hpos1, a3]
      show ps.st.pos + fill.length ≤ ps.st.inp.length
      have h1 := congrArg List.length hin
      simp only [List.length_drop, List.length_append] at h1
      have h2 := hi.ok.pos
      rw [hinp] at h2 ⊢
      omega, hgood.short⟩
  have hgood2 := (exec_sticky (memCfg cap) hs _ _ hok2 (by rw [b2]; exact hgood.short)).2
  unfold classStep
  rw [← hp.reg.rd] at b1 b2 b3 b4 b5 b6 hgood2
  generalize c.readProg.exec (memCfg cap) { hd.sback 16 with obj := c.fresh, halt := Halt.none } = r
    at b1 b2 b3 b4 b5 b6 hgood2
  simp only at b2 b3 b4 b5
  simp only
  rw [if_neg (by simp [b1]), if_neg (by simp [b1]), if_neg (by simp [b1]), if_neg (by simp [hgood2.good]),
    if_neg (by have := hp.noSeekBack; omega)]
  refine ⟨_, r.obj, rfl, ⟨hgood2, by simp only; rw [b3]; show hd.inp = B; rw [a3]; exact hinp, rfl⟩, ?_, rfl, b6, ?_⟩
  · simp only; rw [b5, hpos1, henc]; simp [List.length_append]; omega
  · simp only
    have : r.obj.num 4 = (pre c lay o).num 4 := by
      apply b6.1 4
      rw [hR]; simp [hdr4, Item.numDef]
    rw [this]


/-- an object that carries only the four header fields -/
def hdrObj (a b osz code : Nat) : Obj where
  num := fun f => if f = 0 then SIG else if f = 1 then a else if f = 2 then b else if f = 3 then osz else if f = 4 then code else 0
  buf := fun _ => []

/-- the base header of an object, as bytes -/
def hdrBytes (a b osz code : Nat) : Bytes := leBytes 4 SIG ++ leBytes 2 a ++ leBytes 2 b ++ leBytes 4 osz ++ leBytes 4 code

theorem hdrBytes_eq (a b osz code : Nat) : hdrBytes a b osz code = leBytes 4 SIG ++ encItems (hdrObj a b osz code) hdr4 := by
  simp [hdrBytes, hdr4, encItems, encItem, hdrObj, List.append_assoc]

/-- **an object of unknown type**: skipped by its declared size, nothing delivered, nothing counted -/
theorem objectStep_filler_unknown (cap : Nat) (a b osz code : Nat) (ha : a < 256 ^ 2) (hb : b < 256 ^ 2)
    (ho1 : 16 ≤ osz) (ho2 : osz < 256 ^ 4) (hc : code < 256 ^ 4) (hlk : lookupClass code = none)
    (B fill body rest : Bytes) (hbody : body.length + 16 = osz) (ps : PState) (hi : PInv B ps)
    (hin : B.drop ps.st.pos = fill ++ (hdrBytes a b osz code ++ body ++ rest))
    (hns : NoSig fill (hdrBytes a b osz code ++ body ++ rest)) :
    ∃ ps', objectStep cap ps = some ps' ∧ PInv B ps' ∧ ps'.st.pos = ps.st.pos + fill.length + osz ∧
      ps'.objs = ps.objs ∧ ps'.count = ps.count := by
  have hs : (memCfg cap).sticky = false := rfl
  have hinp : ps.st.inp = B := hi.inp
  have hwf4 : ItemsWF (hdrObj a b osz code) hdr4 := by
    simp only [hdr4, ItemsWF, Item.WF, hdrObj, and_true]
    exact ⟨ha, hb, ho2, hc⟩
  have hin1 : ({ ps.st with obj := Gen.ObjectHeaderBase.fresh, halt := Halt.none } : St).inp.drop
      ({ ps.st with obj := Gen.ObjectHeaderBase.fresh, halt := Halt.none } : St).pos =
      fill ++ (leBytes 4 SIG ++ encItems (hdrObj a b osz code) hdr4 ++ (body ++ rest)) := by
    show ps.st.inp.drop ps.st.pos = _
    rw [hinp, hin, hdrBytes_eq]; simp only [List.append_assoc]
  have hns1 : NoSig fill (leBytes 4 SIG ++ encItems (hdrObj a b osz code) hdr4 ++ (body ++ rest)) := by
    have := hns; rw [hdrBytes_eq] at this; simpa only [List.append_assoc] using this
  obtain ⟨a1, a2, a3, a4, a5, a6⟩ := syncRd_filler (memCfg cap) hs hdr4 0 (hdrObj a b osz code)
    { ps.st with obj := Gen.ObjectHeaderBase.fresh, halt := Halt.none } fill (body ++ rest)
    (by decide) hwf4 rfl (by intro f n h; simp [hdr4] at h) (by intro f ew len h; simp [hdr4] at h) rfl hin1 hns1
  have hok1 : StreamOK ({ ps.st with obj := Gen.ObjectHeaderBase.fresh, halt := Halt.none } : St) :=
    ⟨hi.ok.good, hi.ok.eof, hi.ok.pos, hi.ok.short⟩
  have hgood := (exec_sticky (memCfg cap) hs _ _ hok1 (by rw [a2]; exact hi.ok.short)).2
  have hlen4 : (encItems (hdrObj a b osz code) hdr4).length = 12 := by rw [encItems_length _ _ hwf4]; rfl
  unfold objectStep
  rw [ohb_prog]
  generalize (Stmt.block (.sync 0 :: canonRd hdr4)).exec (memCfg cap) { ps.st with obj := Gen.ObjectHeaderBase.fresh, halt := Halt.none } = hd
    at a1 a2 a3 a4 a5 a6 hgood
  simp only at a2 a3 a4 a5
  have hos : hd.obj.num 3 = osz := by rw [a6.1 3 (by simp [hdr4, Item.numDef])]; rfl
  have hty : hd.obj.num 4 = code := by rw [a6.1 4 (by simp [hdr4, Item.numDef])]; rfl
  unfold afterHeader
  rw [if_neg (by simp [a1]), if_neg (by simp [hgood.good]), hos, hty, if_neg (by omega), hlk]
  have hlenB : ps.st.pos + fill.length + osz + rest.length = B.length := by
    have h1 := congrArg List.length hin
    simp only [List.length_drop, List.length_append, hdrBytes, leBytes_length] at h1
    have h2 := hi.ok.pos; rw [hinp] at h2
    omega
  have hinpd : hd.inp = B := by rw [a3]; exact hinp
  refine ⟨_, rfl, ⟨?_, ?_, hi.outcome⟩, ?_, rfl, rfl⟩
  · simp only [St.sseek, St.sback, memCfg, Bool.false_and, Bool.false_eq_true, if_false]
    exact ⟨hgood.good, hgood.eof, by simp only; omega, hgood.short⟩
  · simp only [St.sseek, St.sback, memCfg, Bool.false_and, Bool.false_eq_true, if_false]; exact hinpd
  · simp only [St.sseek, St.sback, memCfg, Bool.false_and, Bool.false_eq_true, if_false]
    rw [a5, hlen4, hinpd]; omega

/-- a segment of the stream: filler, then a known object or an object of unknown type -/
inductive Seg where
  | obj (fill : Bytes) (x : Codec × Layout × Obj)
  | unk (fill : Bytes) (a b osz code : Nat) (body : Bytes)

def Seg.bytes (cap : Nat) : Seg → Bytes
  | .obj fill x => fill ++ enc cap x.1 x.2.2
  | .unk fill a b osz code body => fill ++ (hdrBytes a b osz code ++ body)

def flatS (cap : Nat) : List Seg → Bytes
  | [] => []
  | s :: l => s.bytes cap ++ flatS cap l

/-- the known objects of a segment list -/
def known : List Seg → List (Codec × Layout × Obj)
  | [] => []
  | .obj _ x :: l => x :: known l
  | .unk .. :: l => known l

def Seg.OK (cap : Nat) : Seg → Prop
  | .obj fill x => Parsable cap x.1 x.2.1 x.2.2 ∧ ArrOK x.1.fresh x.2.1.items ∧ ∀ rest, NoSig fill (enc cap x.1 x.2.2 ++ rest)
  | .unk fill a b osz code body => a < 256 ^ 2 ∧ b < 256 ^ 2 ∧ 16 ≤ osz ∧ osz < 256 ^ 4 ∧ code < 256 ^ 4 ∧
      lookupClass code = none ∧ body.length + 16 = osz ∧ ∀ rest, NoSig fill (hdrBytes a b osz code ++ body ++ rest)

/-- **a stream of filler, unknown objects and known objects**: exactly the known objects are delivered, in order -/
theorem parse_segments (cap : Nat) : ∀ (S : List Seg), (∀ s ∈ S, s.OK cap) →
    ∀ (B : Bytes) (ps : PState) (fuel : Nat), PInv B ps → B.drop ps.st.pos = flatS cap S → S.length < fuel →
    ∃ ds : List (String × Obj), (objectLoop cap fuel ps).objs = ds.reverse ++ ps.objs ∧ AllDelivered (known S) ds ∧
      (objectLoop cap fuel ps).outcome = none := by
  intro S
  induction S with
  | nil =>
    intro _ B ps fuel hi hin hf
    obtain ⟨n, rfl⟩ : ∃ n, fuel = n + 1 := ⟨fuel - 1, by omega⟩
    have hend : ps.st.pos = ps.st.inp.length := by
      have := congrArg List.length hin
      simp [flatS] at this
      have := hi.ok.pos
      rw [hi.inp] at this ⊢
      omega
    unfold objectLoop
    rw [objectStep_at_end cap ps hend]
    exact ⟨[], rfl, AllDelivered.nil, hi.outcome⟩
  | cons s l ih =>
    intro hS B ps fuel hi hin hf
    obtain ⟨n, rfl⟩ : ∃ n, fuel = n + 1 := ⟨fuel - 1, by omega⟩
    have hs := hS s (by simp)
    cases s with
    | obj fill x =>
      obtain ⟨hp, harr, hns⟩ := hs
      obtain ⟨ps', ob, hstep, hi', hpos, hobjs, hag, _⟩ :=
        objectStep_filler_object cap x.1 x.2.1 x.2.2 hp harr B fill (flatS cap l) ps hi
          (by rw [hin]; simp [flatS, Seg.bytes, List.append_assoc]) (hns _)
      have hin' : B.drop ps'.st.pos = flatS cap l := by
        rw [hpos, Nat.add_assoc, ← List.drop_drop, hin]
        simp [flatS, Seg.bytes, List.append_assoc]
      obtain ⟨ds, h1, h2, h3⟩ := ih (fun y hy => hS y (by simp [hy])) B ps' n hi' hin' (by simp at hf; omega)
      unfold objectLoop
      rw [hstep]
      simp only [hi'.outcome, Option.isSome_none, Bool.false_eq_true, if_false, hi'.ok.good, Bool.not_true]
      refine ⟨(x.1.name, ob) :: ds, ?_, AllDelivered.cons _ _ _ _ ⟨rfl, hag⟩ h2, h3⟩
      rw [h1, hobjs]; simp
    | unk fill a b osz code body =>
      obtain ⟨ha, hb, ho1, ho2, hc, hlk, hbody, hns⟩ := hs
      obtain ⟨ps', hstep, hi', hpos, hobjs, _⟩ :=
        objectStep_filler_unknown cap a b osz code ha hb ho1 ho2 hc hlk B fill body (flatS cap l) hbody ps hi
          (by rw [hin]; simp [flatS, Seg.bytes, List.append_assoc]) (hns _)
      have hin' : B.drop ps'.st.pos = flatS cap l := by
        rw [hpos, Nat.add_assoc, ← List.drop_drop, hin]
        have hl : (fill ++ (hdrBytes a b osz code ++ body)).length = fill.length + osz := by
          simp [hdrBytes, List.length_append]; omega
        simp only [flatS, Seg.bytes]
        rw [← hl]; simp
      obtain ⟨ds, h1, h2, h3⟩ := ih (fun y hy => hS y (by simp [hy])) B ps' n hi' hin' (by simp at hf; omega)
      unfold objectLoop
      rw [hstep]
      simp only [hi'.outcome, Option.isSome_none, Bool.false_eq_true, if_false, hi'.ok.good, Bool.not_true]
      exact ⟨ds, by rw [h1, hobjs], h2, h3⟩

end Blf.FillerRound
