import Blf.Codec.Regular
/-!
# The signature search of `ObjectHeaderBase::read`

`syncLoop` (in `Blf/Codec/Lang.lean`) mirrors the `while (tmp != ObjectSignature)` loop with its
seek-back by 3, 2 or 1.  `sync_finds_first`: for **every** byte string, started anywhere at or before the
first occurrence of `LOBJ`, the loop stops exactly behind that first occurrence — whatever bytes
precede it (no alphabet reduction, no length bound).  `sync_no_sig`: with no occurrence at all the loop
ends with the `End of File` exception or, in one corner (the stream ends with `L O B` right after a
window that ended in `J`), with a signature "found" across the end and the stream failed.
-/
namespace Blf

def sigBytes : Bytes := [0x4C, 0x4F, 0x42, 0x4A]

theorem sigBytes_eq : leBytes 4 SIG = sigBytes := by decide

def startsSig (l : Bytes) : Bool := l.take 4 == sigBytes

theorem leVal4 (a0 a1 a2 a3 : UInt8) :
    leVal [a0, a1, a2, a3] = a0.toNat + 256 * (a1.toNat + 256 * (a2.toNat + 256 * a3.toNat)) := by
  simp [leVal]

theorem u8_lt (a : UInt8) : a.toNat < 256 := by
  have := a.toNat_lt; simpa using this

theorem u8_eq_of_toNat {a : UInt8} {n : Nat} (hn : n < 256) (h : a.toNat = n) : a = UInt8.ofNat n := by
  apply UInt8.toNat_inj.mp
  simp [UInt8.toNat_ofNat', Nat.mod_eq_of_lt hn, h]

theorem drop_cons4 (l : Bytes) (q : Nat) (h : q + 4 ≤ l.length) :
    ∃ a0 a1 a2 a3 rest, l.drop q = a0 :: a1 :: a2 :: a3 :: rest := by
  have hl : 4 ≤ (l.drop q).length := by simp; omega
  match hd : l.drop q, hl with
  | a0 :: a1 :: a2 :: a3 :: rest, _ => exact ⟨a0, a1, a2, a3, rest, rfl⟩

theorem drop_succ_of_cons (l : Bytes) (q : Nat) (a : UInt8) (r : Bytes) (h : l.drop q = a :: r) :
    l.drop (q + 1) = r := by
  rw [← List.drop_drop, h]; rfl

/-- one iteration from a position `q` whose window is complete and is not the signature: the loop
    continues at `q + 4 - s` with `s` the seek-back the three mask tests select -/
def backOf (a1 a2 a3 : UInt8) : Nat :=
  if a1 = 0x4C ∧ a2 = 0x4F ∧ a3 = 0x42 then 3
  else if a2 = 0x4C ∧ a3 = 0x4F then 2
  else if a3 = 0x4C then 1
  else 0

theorem syncLoop_step (cfg : Cfg) (hs : cfg.sticky = false) (f fuel tmp : Nat) (st : St)
    (a0 a1 a2 a3 : UInt8) (rest : Bytes) (hd : st.inp.drop st.pos = a0 :: a1 :: a2 :: a3 :: rest)
    (hne : [a0, a1, a2, a3] ≠ sigBytes) :
    syncLoop cfg f (fuel + 1) tmp st =
      syncLoop cfg f fuel (leVal [a0, a1, a2, a3])
        { st with pos := st.pos + 4 - backOf a1 a2 a3, good := true, eof := false } := by
  have hlen : st.pos + 4 ≤ st.inp.length := by
    have := congrArg List.length hd
    simp at this; omega
  obtain ⟨h1, h2, h3, h4, h5, h6, h7⟩ := sread_ok cfg hs st 4 hlen
  have htake : (st.inp.drop st.pos).take 4 = [a0, a1, a2, a3] := by rw [hd]; rfl
  have hmerge : scalarMerge 4 tmp (st.sread cfg 4).1 = leVal [a0, a1, a2, a3] := by
    rw [h1, htake]; exact scalarMerge_full 4 tmp _ rfl
  -- the state after the read
  have hst1 : (st.sread cfg 4).2 = { st with pos := st.pos + 4, good := true, eof := false } := by
    unfold St.sread
    simp [hs, hlen]
  have hgl : (st.sread cfg 4).1.length = 4 := by rw [h1, htake]; rfl
  simp only [syncLoop]
  rw [hmerge, hst1, hgl]
  have hv := leVal4 a0 a1 a2 a3
  have b0 := u8_lt a0; have b1 := u8_lt a1; have b2 := u8_lt a2; have b3 := u8_lt a3
  have hnsig : leVal [a0, a1, a2, a3] ≠ SIG := by
    intro h
    apply hne
    rw [hv] at h
    have e0 : a0.toNat = 0x4C := by simp only [SIG] at h; omega
    have e1 : a1.toNat = 0x4F := by simp only [SIG] at h; omega
    have e2 : a2.toNat = 0x42 := by simp only [SIG] at h; omega
    have e3 : a3.toNat = 0x4A := by simp only [SIG] at h; omega
    rw [u8_eq_of_toNat (by decide) e0, u8_eq_of_toNat (by decide) e1, u8_eq_of_toNat (by decide) e2,
      u8_eq_of_toNat (by decide) e3]
    rfl
  simp only [hnsig, if_false, Bool.false_eq_true, Nat.lt_irrefl, decide_false, Bool.or_self]
  -- the three mask tests, byte-wise
  have t1 : (leVal [a0, a1, a2, a3] / 256 % 16777216 = 0x424F4C) ↔ (a1 = 0x4C ∧ a2 = 0x4F ∧ a3 = 0x42) := by
    rw [hv]
    constructor
    · intro h
      have e1 : a1.toNat = 0x4C := by omega
      have e2 : a2.toNat = 0x4F := by omega
      have e3 : a3.toNat = 0x42 := by omega
      exact ⟨u8_eq_of_toNat (by decide) e1, u8_eq_of_toNat (by decide) e2, u8_eq_of_toNat (by decide) e3⟩
    · rintro ⟨rfl, rfl, rfl⟩; simp; omega
  have t2 : (leVal [a0, a1, a2, a3] / 65536 % 65536 = 0x4F4C) ↔ (a2 = 0x4C ∧ a3 = 0x4F) := by
    rw [hv]
    constructor
    · intro h
      have e2 : a2.toNat = 0x4C := by omega
      have e3 : a3.toNat = 0x4F := by omega
      exact ⟨u8_eq_of_toNat (by decide) e2, u8_eq_of_toNat (by decide) e3⟩
    · rintro ⟨rfl, rfl⟩; simp; omega
  have t3 : (leVal [a0, a1, a2, a3] / 16777216 % 256 = 0x4C) ↔ (a3 = 0x4C) := by
    rw [hv]
    constructor
    · intro h
      have e3 : a3.toNat = 0x4C := by omega
      exact u8_eq_of_toNat (by decide) e3
    · rintro rfl; simp; omega
  unfold backOf
  by_cases c1 : a1 = 0x4C ∧ a2 = 0x4F ∧ a3 = 0x42
  · rw [if_pos (t1.mpr c1), if_pos c1]; rfl
  · rw [if_neg (fun h => c1 (t1.mp h)), if_neg c1]
    by_cases c2 : a2 = 0x4C ∧ a3 = 0x4F
    · rw [if_pos (t2.mpr c2), if_pos c2]; rfl
    · rw [if_neg (fun h => c2 (t2.mp h)), if_neg c2]
      by_cases c3 : a3 = 0x4C
      · rw [if_pos (t3.mpr c3), if_pos c3]; rfl
      · rw [if_neg (fun h => c3 (t3.mp h)), if_neg c3]; rfl

theorem startsSig_cons4 (a0 a1 a2 a3 : UInt8) (rest : Bytes) :
    startsSig (a0 :: a1 :: a2 :: a3 :: rest) = true ↔ [a0, a1, a2, a3] = sigBytes := by
  simp [startsSig]

/-- **C09 core**: the search stops exactly behind the first signature at or after the start position,
    for every byte string -/
theorem sync_finds_first (cfg : Cfg) (hs : cfg.sticky = false) (f : Nat) (k : Nat) :
    ∀ (st : St) (fuel tmp : Nat), st.pos ≤ k → k + 4 ≤ st.inp.length → k - st.pos < fuel →
      startsSig (st.inp.drop k) = true →
      (∀ j, st.pos ≤ j → j < k → startsSig (st.inp.drop j) = false) →
      syncLoop cfg f fuel tmp st =
        { st with obj := st.obj.setNum f SIG, pos := k + 4, good := true, eof := false } := by
  intro st
  -- induction on the distance to the signature
  induction hd : k - st.pos using Nat.strongRecOn generalizing st with
  | ind d ih =>
    intro fuel tmp hle hlen hfuel hsig hnone
    obtain ⟨fuel', rfl⟩ : ∃ n, fuel = n + 1 := ⟨fuel - 1, by omega⟩
    have hposlen : st.pos + 4 ≤ st.inp.length := by omega
    obtain ⟨a0, a1, a2, a3, rest, hdrop⟩ := drop_cons4 st.inp st.pos hposlen
    by_cases hk : st.pos = k
    · -- positioned on the signature
      have hs4 : [a0, a1, a2, a3] = sigBytes := by
        rw [← hk, hdrop] at hsig
        exact (startsSig_cons4 _ _ _ _ _).mp hsig
      have := exec_sync_at_sig cfg hs f { st with } hposlen (by rw [hdrop]; simp [List.take, hs4, sigBytes_eq])
      -- exec_sync_at_sig is about `Stmt.sync`, i.e. fuel `len - pos + 2` and tmp 0; redo the single step directly
      clear this
      obtain ⟨h1, h2, h3, h4, h5, h6, h7⟩ := sread_ok cfg hs st 4 hposlen
      have htake : (st.inp.drop st.pos).take 4 = [a0, a1, a2, a3] := by rw [hdrop]; rfl
      have hmerge : scalarMerge 4 tmp (st.sread cfg 4).1 = SIG := by
        rw [h1, htake, hs4, scalarMerge_full 4 tmp _ rfl, ← sigBytes_eq, leVal_leBytes_of_lt SIG_lt]
      have hst1 : (st.sread cfg 4).2 = { st with pos := st.pos + 4, good := true, eof := false } := by
        unfold St.sread
        simp [hs, hposlen]
      simp only [syncLoop, hmerge, if_true, hst1, hk]
    · -- not yet there: this window is not the signature
      have hlt : st.pos < k := by omega
      have hne : [a0, a1, a2, a3] ≠ sigBytes := by
        intro h
        have := hnone st.pos (Nat.le_refl _) hlt
        rw [hdrop] at this
        have h2 := (startsSig_cons4 a0 a1 a2 a3 rest).mpr h
        rw [h2] at this; exact absurd this (by simp)
      rw [syncLoop_step cfg hs f fuel' tmp st a0 a1 a2 a3 rest hdrop hne]
      -- the three following positions
      have d1 := drop_succ_of_cons st.inp st.pos a0 _ hdrop
      have d2 := drop_succ_of_cons st.inp (st.pos + 1) a1 _ d1
      have d3 := drop_succ_of_cons st.inp (st.pos + 2) a2 _ d2
      -- no signature is skipped
      have hb : st.pos + 4 - backOf a1 a2 a3 ≤ k := by
        unfold backOf
        by_cases c1 : a1 = 0x4C ∧ a2 = 0x4F ∧ a3 = 0x42
        · simp only [c1, and_self, if_true]; omega
        · simp only [c1, if_false]
          -- position pos+1 cannot start a signature that would be skipped
          have hk1 : k ≠ st.pos + 1 := by
            intro e
            rw [e, d1] at hsig
            cases rest with
            | nil => simp [startsSig, sigBytes] at hsig
            | cons r0 rest' =>
              have := (startsSig_cons4 a1 a2 a3 r0 rest').mp hsig
              simp only [sigBytes, List.cons.injEq, and_true] at this
              exact c1 ⟨this.1, this.2.1, this.2.2.1⟩
          by_cases c2 : a2 = 0x4C ∧ a3 = 0x4F
          · simp only [c2, and_self, if_true]; omega
          · simp only [c2, if_false]
            have hk2 : k ≠ st.pos + 2 := by
              intro e
              rw [e, d2] at hsig
              match rest, hsig with
              | r0 :: r1 :: rest', hsig =>
                have := (startsSig_cons4 a2 a3 r0 r1 rest').mp hsig
                simp only [sigBytes, List.cons.injEq, and_true] at this
                exact c2 ⟨this.1, this.2.1⟩
              | [r0], hsig => simp [startsSig, sigBytes] at hsig
              | [], hsig => simp [startsSig, sigBytes] at hsig
            by_cases c3 : a3 = 0x4C
            · simp only [c3, if_true]; omega
            · simp only [c3, if_false]
              have hk3 : k ≠ st.pos + 3 := by
                intro e
                rw [e, d3] at hsig
                match rest, hsig with
                | r0 :: r1 :: r2 :: rest', hsig =>
                  have := (startsSig_cons4 a3 r0 r1 r2 rest').mp hsig
                  simp only [sigBytes, List.cons.injEq, and_true] at this
                  exact c3 this.1
                | [r0, r1], hsig => simp [startsSig, sigBytes] at hsig
                | [r0], hsig => simp [startsSig, sigBytes] at hsig
                | [], hsig => simp [startsSig, sigBytes] at hsig
              omega
      have hprog : st.pos < st.pos + 4 - backOf a1 a2 a3 := by
        unfold backOf; split <;> (try split) <;> (try split) <;> omega
      have := ih (k - (st.pos + 4 - backOf a1 a2 a3)) (by omega)
        { st with pos := st.pos + 4 - backOf a1 a2 a3, good := true, eof := false } rfl fuel'
        (leVal [a0, a1, a2, a3]) hb hlen (by show k - (st.pos + 4 - backOf a1 a2 a3) < fuel'; omega) hsig
        (fun j hj hjk => hnone j (by have hj' : st.pos + 4 - backOf a1 a2 a3 ≤ j := hj; omega) hjk)
      rw [this]

/-- corollary for the statement as the codecs use it (`Stmt.sync`): arbitrary filler without a signature
    in front of a signature is skipped, and the object header is read at the signature -/
theorem exec_sync_skips_filler (cfg : Cfg) (hs : cfg.sticky = false) (f k : Nat) (st : St)
    (hle : st.pos ≤ k) (hlen : k + 4 ≤ st.inp.length) (hsig : startsSig (st.inp.drop k) = true)
    (hnone : ∀ j, st.pos ≤ j → j < k → startsSig (st.inp.drop j) = false) :
    (Stmt.sync f).exec cfg st =
      { st with obj := st.obj.setNum f SIG, pos := k + 4, good := true, eof := false } := by
  simp only [Stmt.exec]
  exact sync_finds_first cfg hs f k st _ 0 hle hlen (by omega) hsig hnone

end Blf
