import Blf.Bytes
/-!
# UncompressedFile: the in-memory stream monitor (hand model; tie D `ufile` protocol, guards tie T)

State mirrors the private members one to one; `m_data` is a list of containers with their
`filePosition`, declared `uncompressedFileSize` and the actual vector (kept separate because the code
keeps them separate).  Every public method is one critical section: a guard (the predicate of its
`wait`) and a body.  The bodies follow the C++ loops statement by statement, including their quirks
(non-sticky flags, `write(container)`
placing the container at the put position whatever the list holds).

Outside the model: `std::streamsize` overflow (positions are `Int`).
-/
namespace Blf.UFile

def I64MAX : Int := 9223372036854775807

structure Cont where
  pos : Int            -- filePosition
  size : Nat           -- uncompressedFileSize (declared)
  data : Bytes         -- uncompressedFile (vector)
  deriving Repr, DecidableEq

structure State where
  abort : Bool := false
  data : List Cont := []
  tellg : Int := 0
  tellp : Int := 0
  gcount : Nat := 0
  fileSize : Int := I64MAX
  bufferSize : Int := I64MAX
  good : Bool := true
  eof : Bool := false
  dlcs : Nat := 131072
  readDemand : Int := 0        -- `m_readDemand`: n + tellg of the read that is blocked right now, 0 otherwise
  oob : Bool := false          -- model flag: the C++ code would read/write outside a vector (UB)
  hang : Bool := false         -- model flag: the C++ loop would not terminate
  deriving Repr, DecidableEq

def Cont.contains (c : Cont) (p : Int) : Bool := decide (c.pos ≤ p) && decide (p < (c.size : Int) + c.pos)

/-- `logContainerContaining`: index of the first container whose range holds `p` -/
def containing (l : List Cont) (p : Int) : Option (Nat × Cont) :=
  let rec go : List Cont → Nat → Option (Nat × Cont)
    | [], _ => none
    | c :: r, i => if c.contains p then some (i, c) else go r (i + 1)
  go l 0

/-- guards (predicates of the `wait` calls) -/
def guardRead (s : State) (n : Nat) : Bool :=
  s.abort || decide ((n : Int) + s.tellg ≤ s.tellp) || decide ((n : Int) + s.tellg > s.fileSize)

/-- since fix 54cea87: a writer is also admitted while a blocked read still needs data (`m_tellp < m_readDemand`);
    before it, a read larger than the buffer size blocked both sides for ever -/
def guardWrite (s : State) : Bool :=
  s.abort || decide (s.tellp - s.tellg < s.bufferSize) || decide (s.tellp < s.readDemand)

/-- `(m_tellp - m_tellg) < m_bufferSize` (signed; before fix ceee689 the difference was cast to uint32_t,
    which blocked the inflater for ever once the get position had moved past the put position) -/
def guardWriteCont (s : State) : Bool :=
  s.abort || decide (s.tellp - s.tellg < s.bufferSize) || decide (s.tellp < s.readDemand)

/-- a reader that finds its guard false publishes its demand before it sleeps -/
def blockRead (s : State) (n : Nat) : State := { s with readDemand := (n : Int) + s.tellg }

/-- the copy loop of `read` -/
def readLoop : Nat → State → Int → Bytes → State × Bytes
  | 0, s, _, acc => (s, acc)
  | fuel+1, s, n, acc =>
    if n ≤ 0 then (s, acc) else
    match containing s.data s.tellg with
    | none => (s, acc)
    | some (_, c) =>
      let offset := (s.tellg - c.pos).toNat
      let g := min n.toNat (c.size - offset)
      if offset + g > c.data.length then ({ s with oob := true }, acc)
      else
        let chunk := (c.data.drop offset).take g
        readLoop fuel { s with gcount := s.gcount + g, tellg := s.tellg + g } (n - g) (acc ++ chunk)

/-- `read(s, n)`: returns the bytes copied into the caller's buffer -/
def read (s : State) (n : Nat) : State × Bytes :=
  let short := decide ((n : Int) + s.tellg > s.fileSize)
  let n' : Int := if short then s.fileSize - s.tellg else n
  let s1 := if !short && n == 0 then { s with gcount := 0, readDemand := 0 }
            else { s with good := !short, eof := short, gcount := 0, readDemand := 0 }
  readLoop (n + 1) s1 n' []

def seekg (s : State) (off : Int) : State := { s with tellg := min (s.tellg + off) s.fileSize }

def replaceAt (l : List Cont) (i : Nat) (c : Cont) : List Cont := l.set i c

def backEnd (l : List Cont) : Option Int :=
  match l.getLast? with
  | some c => some ((c.size : Int) + c.pos)
  | none => none

/-- the copy loop of `write(s, n)` -/
def writeLoop : Nat → State → Bytes → State
  | 0, s, b => if b.isEmpty then s else { s with hang := true }
  | fuel+1, s, b =>
    if b.isEmpty then s else
    match containing s.data s.tellp with
    | none =>
      -- append a new container; it is used in this very iteration even if it does not hold tellp
      -- (fix 2aa9853: an emptied buffer continues at the put position, not at 0)
      let p : Int := match backEnd s.data with | some e => e | none => s.tellp
      let c : Cont := { pos := p, size := s.dlcs, data := zeros s.dlcs }
      let s1 := { s with data := s.data ++ [c] }
      let i := s.data.length
      let offset : Int := s1.tellp - c.pos
      let pc : Int := min (b.length : Int) ((c.size : Int) - offset)
      if pc > 0 then
        if offset < 0 then { s1 with oob := true } else
        let k := pc.toNat
        let c' := { c with data := c.data.take offset.toNat ++ b.take k ++ c.data.drop (offset.toNat + k) }
        writeLoop fuel { s1 with data := replaceAt s1.data i c', tellp := s1.tellp + k } (b.drop k)
      else writeLoop fuel s1 b
    | some (i, c) =>
      let offset := (s.tellp - c.pos).toNat
      let k := min b.length (c.size - offset)
      if k > 0 then
        if offset + k > c.data.length then { s with oob := true } else
        let c' := { c with data := c.data.take offset ++ b.take k ++ c.data.drop (offset + k) }
        writeLoop fuel { s with data := replaceAt s.data i c', tellp := s.tellp + k } (b.drop k)
      else writeLoop fuel s b

def write (s : State) (b : Bytes) : State :=
  let s1 := writeLoop (2 * b.length + (if s.dlcs = 0 then 0 else (s.tellp.toNat / s.dlcs)) + 4) s b
  if s1.tellp ≥ s1.fileSize then { s1 with fileSize := s1.tellp } else s1

/-- `write(const std::shared_ptr<LogContainer>&)` -/
def writeCont (s : State) (size : Nat) (d : Bytes) : State :=
  { s with data := s.data ++ [{ pos := s.tellp, size := size, data := d }], tellp := s.tellp + size }

def nextLogContainer (s : State) : State :=
  match containing s.data s.tellp with
  | none => s
  | some (i, c) =>
    let offset := s.tellp - c.pos
    if offset > 0 then
      let k := offset.toNat
      { s with data := replaceAt s.data i { c with size := k, data := c.data.take k ++ zeros (k - c.data.length) } }
    else s

/-- a container may be dropped when it lies completely behind the get position, the put position and the
    declared end -/
def droppable (s : State) (c : Cont) : Bool :=
  let position : Int := (c.size : Int) + c.pos
  !(decide (position > s.tellg) || decide (position > s.tellp) || decide (position > s.fileSize))

/-- `dropOldData`: every leading container that is completely consumed is released (a loop since fix 0843d7b) -/
def dropOldData (s : State) : State := { s with data := s.data.dropWhile (droppable s) }

def setFileSize (s : State) (n : Int) : State := { s with fileSize := n }
def setBufferSize (s : State) (n : Int) : State := { s with bufferSize := n }
def setDlcs (s : State) (n : Nat) : State := { s with dlcs := n }
def doAbort (s : State) : State := { s with abort := true }

/-- accessors -/
def tellgObs (s : State) : Int := if s.good then s.tellg else -1
def tellpObs (s : State) : Int := if s.good then s.tellp else -1

end Blf.UFile
