import Blf.QueueConc
/-!
# C07 — Results are independent of thread interleaving
(queue stage proved; stream stage and composition under construction)
-/
namespace Blf.Props
open Blf.QueueConc

/-- in every final state reachable under any interleaving the consumer has received exactly the objects
    sent, in order, each once, and the null result came after the last one -/
theorem C07_queue_result (cap : Nat) (hc : 0 < cap) (objs : List Nat) (hs : objs.length < Blf.Queue.U32MAX)
    (s : Sys) (h : Reach cap objs s) (hf : Final s) : s.got = objs :=
  final_correct objs s (reach_inv cap hc objs hs s h) hf

end Blf.Props
