import Blf.QueueConc
import Blf.Pipe
import Blf.WPipe
/-!
# C07 — Results are independent of thread interleaving

What is delivered is proved to be a function of the inputs alone, for every interleaving:
* queue stage: the consumer receives exactly the objects sent, in order;
* read pipeline: what the application has received is always a prefix of the objects the parser pushes, in the parser's
  order, and the null result comes only after all of them;
* write pipeline: the encoder writes the objects into the stream in the application's order, each once, and the
  compressor cuts the stream into `total / cs` containers of `cs` bytes plus one with the remaining `total % cs` bytes.

Not in these theorems: that the *bytes* the parser reads are the bytes of the stream whatever the interleaving — that is
`C15_read` (every admitted read returns the bytes of the ghost byte string at the get position) —, and that the parser's
program is a function of those bytes (`Blf.FileSeq`, correspondence).
-/
namespace Blf.Props
open Blf.QueueConc

/-- in every final state reachable under any interleaving the consumer has received exactly the objects
    sent, in order, each once, and the null result came after the last one -/
theorem C07_queue_result (cap : Nat) (hc : 0 < cap) (objs : List Nat) (hs : objs.length < Blf.Queue.U32MAX)
    (s : Sys) (h : Reach cap objs s) (hf : Final s) : s.got = objs :=
  final_correct objs s (reach_inv cap hc objs hs s h) hf

/-- **read pipeline, order and exactly-once**, every reachable state, every interleaving -/
theorem C07_read_pipeline_prefix (bufU : Int) (capQ : Nat) (hc : 0 < capQ) (conts : List Nat) (prog : List Pipe.POp)
    (hs : (Pipe.qwrites prog).length < Blf.Queue.U32MAX) (s : Pipe.Sys) (h : Pipe.Reach bufU capQ conts prog s) :
    ∃ rest, s.got ++ rest = Pipe.qwrites prog :=
  Pipe.got_prefix bufU capQ hc conts prog hs s h

/-- **read pipeline, end of file only after the last object** -/
theorem C07_read_pipeline_eof_last (bufU : Int) (capQ : Nat) (hc : 0 < capQ) (conts : List Nat) (prog : List Pipe.POp)
    (hs : (Pipe.qwrites prog).length < Blf.Queue.U32MAX) (s : Pipe.Sys) (h : Pipe.Reach bufU capQ conts prog s)
    (hn : s.sawNull = true) : s.got = Pipe.qwrites prog :=
  Pipe.null_after_all bufU capQ hc conts prog hs s h hn

/-- **write pipeline, the same stream and the same containers under every interleaving** -/
theorem C07_write_pipeline_result (sz : Nat → Nat) (bufU : Int) (capQ : Nat) (hc : 0 < capQ) (cs : Nat) (hcs : 0 < cs)
    (objs : List Nat) (hs : objs.length < Blf.Queue.U32MAX) (hb : (WPipe.total sz objs : Int) + cs < Blf.UFile.I64MAX)
    (s : WPipe.Sys) (h : WPipe.Reach sz bufU capQ cs objs s) (hf : WPipe.Final s) :
    s.wr = objs ∧ s.outs = List.replicate (WPipe.total sz objs / cs) cs ++ [WPipe.total sz objs % cs] := by
  have hi := WPipe.reach_inv sz bufU capQ hc cs hcs objs hs hb s h
  have hcs' : s.cs = cs := by
    clear hf hi
    induction h with
    | init => rfl
    | step s t _ hst ih => rw [WPipe.cs_const sz s t hst, ih]
  have := WPipe.final_containers sz objs s hi hf
  rw [hcs'] at this
  exact this

/-- the written prefix at every moment -/
theorem C07_write_pipeline_prefix (sz : Nat → Nat) (bufU : Int) (capQ : Nat) (hc : 0 < capQ) (cs : Nat) (hcs : 0 < cs)
    (objs : List Nat) (hs : objs.length < Blf.Queue.U32MAX) (hb : (WPipe.total sz objs : Int) + cs < Blf.UFile.I64MAX)
    (s : WPipe.Sys) (h : WPipe.Reach sz bufU capQ cs objs s) : ∃ rest, s.wr ++ rest = objs :=
  (WPipe.written_prefix sz objs s (WPipe.reach_inv sz bufU capQ hc cs hcs objs hs hb s h)).1

end Blf.Props
