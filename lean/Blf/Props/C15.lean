import Blf.UFile
/-!
# C15 — The in-memory stream is a byte FIFO with iostream-like state for any chunking
(theorems under construction; the executable model `Blf.UFile` is tied to the code by the `ufile` protocol)
-/
namespace Blf.Props
end Blf.Props
