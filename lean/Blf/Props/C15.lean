import Blf.UFileRefine
import Blf.UFileBytes
/-!
# C15 — The in-memory stream is a byte FIFO with iostream-like state for any chunking

> The uncompressed in-memory stream returns bytes in exactly the order written, independent of how writes and
> reads are chunked, of log-container boundaries, of whole containers being appended, of closing the current
> container and of dropping consumed data.  Read counts, get/put positions, relative seeks, declared end and
> the good/eof flags follow a reference byte-queue model, and dropping old data never discards a byte that has
> not been read.

Proved here (no bound on the number or size of containers, by induction over the container list and the copy
loop): the refinement for sessions in which whole containers are appended (read sessions): `RInv s w` relates
the containers held to the ghost byte string `w` of everything appended; `writeCont`, `read`, `seekg`,
`setFileSize` and `dropOldData` preserve it, `read` returns exactly `w[tellg, tellg+k)`, `dropOldData` never
moves the start of the held data beyond the get position.

The byte-writer side (write sessions: `write(const char*, n)` filling pre-allocated containers of the default size, reads by
the compressor, `dropOldData`): `BW D b s w` (`Blf/UFileBytes.lean`) relates the containers to the ghost string `w` of all
bytes written; `C15_byte_write` (`write` appends exactly its argument; the fuel of the model's copy loop suffices and no vector
is indexed outside its bounds), `C15_byte_read` (a read of bytes that are there returns the next `n` bytes written),
`C15_write_session_fifo` (every session: the bytes read so far are the first `tellg` bytes of the bytes written so far).

`C15_partial`: `nextLogContainer`, seeks inside a write session, a change of the default container size in mid-session, and
sequences that mix both kinds of write are covered by the `ufile` correspondence and the flat byte-queue oracle only; mixing
the two kinds of write is where the code deviates from a byte queue (known finding: a container appended after a partial
byte write is shadowed).
-/
namespace Blf.Props
open Blf.UFile

theorem C15_init : RInv {} [] := rinv_init

theorem C15_append_container (s : State) (w : Bytes) (h : RInv s w) (d : Bytes) :
    RInv (writeCont s d.length d) (w ++ d) := rinv_writeCont s w h d

theorem C15_read (s : State) (w : Bytes) (h : RInv s w) (n : Nat) (hg : base s ≤ s.tellg) (hle : s.tellg ≤ s.tellp) :
    let n' : Int := if (n : Int) + s.tellg > s.fileSize then s.fileSize - s.tellg else n
    let k := min n'.toNat (s.tellp - s.tellg).toNat
    (read s n).2 = (w.drop s.tellg.toNat).take k ∧
    (read s n).1.tellg = s.tellg + (k : Nat) ∧ (read s n).1.gcount = k ∧ (read s n).1.data = s.data ∧
    (read s n).1.tellp = s.tellp ∧ (read s n).1.oob = s.oob := read_spec s w h n hg hle

theorem C15_read_preserves (s : State) (w : Bytes) (h : RInv s w) (n : Nat) (hg : base s ≤ s.tellg) (hle : s.tellg ≤ s.tellp) :
    RInv (read s n).1 w := rinv_read s w h n hg hle

theorem C15_seek_preserves (s : State) (w : Bytes) (h : RInv s w) (off : Int) : RInv (seekg s off) w := rinv_seekg s w h off
theorem C15_setFileSize_preserves (s : State) (w : Bytes) (h : RInv s w) (n : Int) : RInv (setFileSize s n) w := rinv_setFileSize s w h n
theorem C15_drop_preserves (s : State) (w : Bytes) (h : RInv s w) : RInv (dropOldData s) w := rinv_drop s w h

/-- dropping old data never discards a byte at or after the get position -/
theorem C15_drop_safe (s : State) (w : Bytes) (h : RInv s w) (hg : base s ≤ s.tellg) :
    base s ≤ base (dropOldData s) ∧ base (dropOldData s) ≤ s.tellg := drop_safe s w h hg

/-- the flags of a read are those of the reference queue: short iff the request reaches beyond the declared end;
    a request of zero bytes inside the declared end leaves them alone -/
theorem C15_read_flags (s : State) (n : Nat) :
    ((n : Int) + s.tellg > s.fileSize → (read s n).1.good = false ∧ (read s n).1.eof = true) ∧
    (¬ ((n : Int) + s.tellg > s.fileSize) → 0 < n → (read s n).1.good = true ∧ (read s n).1.eof = false) := by
  constructor
  · intro h
    unfold UFile.read
    simp only [h, decide_true, Bool.not_true, Bool.false_and, Bool.false_eq_true, if_false, if_true]
    exact readLoop_flags _ _ _ _
  · intro h hn
    unfold UFile.read
    have : (n == 0) = false := by simp; omega
    simp only [h, decide_false, Bool.not_false, Bool.true_and, this, Bool.false_eq_true, if_false]
    exact readLoop_flags _ _ _ _

/-- byte writer: `write` appends exactly its argument to the queue, whatever the container size and the fill state -/
theorem C15_byte_write (D : Nat) (hD : 0 < D) (b : Int) (s : State) (bs w : Bytes) (h : BW D b s w) :
    BW D b (write s bs) (w ++ bs) := write_bw D hD b s bs w h

/-- byte writer: a read of `n` bytes that are there returns the next `n` bytes of the queue -/
theorem C15_byte_read (D : Nat) (b : Int) (s : State) (w : Bytes) (h : BW D b s w) (hg : b ≤ s.tellg) (n : Nat)
    (hn : (n : Int) + s.tellg ≤ s.tellp) (hfs : s.tellp ≤ s.fileSize) :
    (read s n).2 = (w.drop s.tellg.toNat).take n ∧ (read s n).1.tellg = s.tellg + (n : Nat) ∧
    (read s n).1.gcount = n ∧ (read s n).1.fileSize = s.fileSize ∧ BW D b (read s n).1 w := read_bw D b s w h hg n hn hfs

/-- **every write session is a byte FIFO**: for every sequence of byte writes, admitted reads and drops, of any length and
    chunking, with any default container size `D > 0`: (bytes read so far) = first `tellg` bytes of (bytes written so far),
    the put position is the number of bytes written, and the model never flags an out-of-bounds access or a non-terminating loop -/
theorem C15_write_session_fifo (D : Nat) (hD : 0 < D) (ops : List BOp) :
    let x := ops.foldl bstep (({ dlcs := D } : State), [], [])
    x.2.1 = x.2.2.take x.1.tellg.toNat ∧ x.1.tellp = x.2.2.length ∧ x.1.oob = false ∧ x.1.hang = false :=
  session_fifo D hD ops

/-- test (one session): container size 3; write 5 bytes, read 2, drop, write 2, read 4, drop, read 1 -/
example : ([BOp.write [1,2,3,4,5], .read 2, .drop, .write [6,7], .read 4, .drop, .read 1].foldl bstep
    (({ dlcs := 3 } : State), [], [])).2.1 = [1,2,3,4,5,6,7] := by decide

/-- non-vacuity: two containers appended, a read straddling their boundary -/
example : (read (writeCont (writeCont {} 3 [1, 2, 3]) 2 [4, 5]) 4).2 = [1, 2, 3, 4] := by decide

end Blf.Props
