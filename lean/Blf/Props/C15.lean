import Blf.UFileRefine
/-!
# C15 — The in-memory stream is a byte FIFO with iostream-like state for any chunking

> The uncompressed in-memory stream returns bytes in exactly the order written, independent of how writes and
> reads are chunked, of log-container boundaries, of whole containers being appended, of closing the current
> container and of dropping consumed data.  Read counts, get/put positions, relative seeks, declared end and
> the good/eof flags follow a reference byte-queue model, and dropping old data never discards a byte that has
> not been read.

Proved here (no bound on the number or size of containers, by induction over the container list and the copy
loop): the refinement for sessions in which whole containers are appended (read sessions): `RInv s w` relates
the containers held to the ghost byte string `w` of everything appended; `writeCont`, `read`, `seekg`,
`setFileSize` and `dropOldData` preserve it, `read` returns exactly `w[tellg, tellg+k)`, `dropOldData` never
moves the start of the held data beyond the get position.  `C15_partial`: the byte-writer side
(`write(const char*, n)` filling pre-allocated containers, `nextLogContainer`) and sequences that mix both
kinds of write are covered by the `ufile` correspondence and the flat byte-queue oracle only; mixing them is
where the code deviates from a byte queue (known finding: a container appended after a partial byte write is
shadowed).
-/
namespace Blf.Props
open Blf.UFile

theorem C15_init : RInv {} [] := rinv_init

theorem C15_append_container (s : State) (w : Bytes) (h : RInv s w) (d : Bytes) :
    RInv (writeCont s d.length d) (w ++ d) := rinv_writeCont s w h d

theorem C15_read (s : State) (w : Bytes) (h : RInv s w) (n : Nat) (hg : base s ≤ s.tellg) (hle : s.tellg ≤ s.tellp) :
    let n' : Int := if (n : Int) + s.tellg > s.fileSize then s.fileSize - s.tellg else n
    let k := min n'.toNat (s.tellp - s.tellg).toNat
    (read s n).2 = (w.drop s.tellg.toNat).take k ∧
    (read s n).1.tellg = s.tellg + (k : Nat) ∧ (read s n).1.gcount = k ∧ (read s n).1.data = s.data ∧
    (read s n).1.tellp = s.tellp ∧ (read s n).1.oob = s.oob := read_spec s w h n hg hle

theorem C15_read_preserves (s : State) (w : Bytes) (h : RInv s w) (n : Nat) (hg : base s ≤ s.tellg) (hle : s.tellg ≤ s.tellp) :
    RInv (read s n).1 w := rinv_read s w h n hg hle

theorem C15_seek_preserves (s : State) (w : Bytes) (h : RInv s w) (off : Int) : RInv (seekg s off) w := rinv_seekg s w h off
theorem C15_setFileSize_preserves (s : State) (w : Bytes) (h : RInv s w) (n : Int) : RInv (setFileSize s n) w := rinv_setFileSize s w h n
theorem C15_drop_preserves (s : State) (w : Bytes) (h : RInv s w) : RInv (dropOldData s) w := rinv_drop s w h

/-- dropping old data never discards a byte at or after the get position -/
theorem C15_drop_safe (s : State) (w : Bytes) (h : RInv s w) (hg : base s ≤ s.tellg) :
    base s ≤ base (dropOldData s) ∧ base (dropOldData s) ≤ s.tellg := drop_safe s w h hg

/-- the flags of a read are those of the reference queue: short iff the request reaches beyond the declared end;
    a request of zero bytes inside the declared end leaves them alone -/
theorem C15_read_flags (s : State) (n : Nat) :
    ((n : Int) + s.tellg > s.fileSize → (read s n).1.good = false ∧ (read s n).1.eof = true) ∧
    (¬ ((n : Int) + s.tellg > s.fileSize) → 0 < n → (read s n).1.good = true ∧ (read s n).1.eof = false) := by
  constructor
  · intro h
    unfold UFile.read
    simp only [h, decide_true, Bool.not_true, Bool.false_and, Bool.false_eq_true, if_false, if_true]
    exact readLoop_flags _ _ _ _
  · intro h hn
    unfold UFile.read
    have : (n == 0) = false := by simp; omega
    simp only [h, decide_false, Bool.not_false, Bool.true_and, this, Bool.false_eq_true, if_false]
    exact readLoop_flags _ _ _ _

/-- non-vacuity: two containers appended, a read straddling their boundary -/
example : (read (writeCont (writeCont {} 3 [1, 2, 3]) 2 [4, 5]) 4).2 = [1, 2, 3, 4] := by decide

end Blf.Props
