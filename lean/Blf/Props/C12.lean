import Blf.UFile
/-! # C12 (boundedness theorem under construction) -/
namespace Blf.Props
end Blf.Props
