import Blf.PipeBound
import Blf.UFileWrite
/-!
# C12 — Buffered data stays bounded no matter how long the file is

Proved on the pipeline models, for every number of containers and every interleaving (so for every way in which the
application stalls and the workers burst):
* read session, before `close()`: bytes appended beyond the parser's position ≤ `max bufferSize R + C` (`R` = largest
  stream read = largest object, `C` = largest container), queued objects ≤ queue capacity;
* write session: bytes written beyond the compressor's position ≤ `max bufferSize cs + S` (`S` = largest encoded object),
  queued objects ≤ queue capacity;
* `dropOldData` leaves at most the containers from the one holding the get position on, so the bytes *held* are at most
  what is buffered ahead plus one container.

* write session, bytes *held* (`UFile.held`, the sum of the container vectors): for every sequence of byte writes, reads and
  `dropOldData` calls — any lengths, any order, any number — the containers held form one contiguous run that starts at
  or before the put position and ends less than one container after it (`C12_write_session_resident`); between one
  `dropOldData` and the next they amount to less than the distance from the unread position at that drop to the put
  position plus two containers (`C12_write_held_since_drop`, `C12_write_held_after_drop`).  Before fix
  2aa9853 this was false: the first write after everything had been dropped re-created every container from position 0.

* read session, bytes *held*: `C12_read_held_after_drop` (after `dropOldData`: at most the unread bytes plus one container).

Measured, not proved: the allocator-level peak (harness allocation counter, as a function of the number of containers) —
the models count stream bytes and queue entries, not `malloc` overhead, `std::vector` growth or zlib's work buffers.
-/
namespace Blf.Props
open Blf

theorem C12_read_session_bounded (bufU : Int) (capQ : Nat) (hc : 0 < capQ) (conts : List Nat) (prog : List Pipe.POp) (R C : Nat)
    (hs : (Pipe.qwrites prog).length < Queue.U32MAX) (hcC : ∀ c ∈ conts, c ≤ C) (hp : PipeBound.readsLe R prog)
    (hsum : (PipeBound.lsum conts : Int) ≤ UFile.I64MAX) (s : Pipe.Sys) (h : Pipe.Reach bufU capQ conts prog s)
    (hopen : s.stopReq = false) :
    s.u.tellp - s.u.tellg ≤ max bufU R + C ∧ s.q.queue.length ≤ capQ :=
  PipeBound.read_buffered_bounded bufU capQ hc conts prog R C hs hcC hp hsum s h hopen

theorem C12_write_session_bounded (sz : Nat → Nat) (S : Nat) (hS : ∀ x, sz x ≤ S) (bufU : Int) (capQ : Nat) (hc : 0 < capQ)
    (cs : Nat) (hcs : 0 < cs) (objs : List Nat) (hs : objs.length < Queue.U32MAX)
    (hb : (WPipe.total sz objs : Int) + cs < UFile.I64MAX) (s : WPipe.Sys) (h : WPipe.Reach sz bufU capQ cs objs s) :
    s.u.tellp - s.u.tellg ≤ max bufU cs + S ∧ s.q.queue.length ≤ capQ :=
  PipeBound.write_buffered_bounded sz S hS bufU capQ hc cs hcs objs hs hb s h

theorem C12_drop_leaves_one_container (s : UFile.State) (hgp : s.tellg ≤ s.tellp) (hpf : s.tellp ≤ s.fileSize) :
    (UFile.dropOldData s).data = [] ∨
    ∃ c r, (UFile.dropOldData s).data = c :: r ∧ s.tellg < (c.size : Int) + c.pos :=
  PipeBound.drop_resident s hgp hpf

/-- every write session of the in-memory stream (byte writes, reads, drops in any order and number): what is held is one
    contiguous run of default-size containers that starts at some `b ≤ tellp` and ends less than one container beyond
    `tellp` (`UFile.WInvAt`), so the bytes held are less than `tellp - b + D` -/
theorem C12_write_session_resident (D : Nat) (hD : 0 < D) (ops : List UFile.WOp) :
    let s := ops.foldl UFile.wstep { dlcs := D }
    ∃ b : Int, UFile.WInvAt D b s ∧ (UFile.held s : Int) < s.tellp - b + D := by
  obtain ⟨⟨b, hb⟩, _⟩ := UFile.session_winv D hD ops
  exact ⟨b, hb, UFile.held_le D b _ hb⟩

/-- … and from one `dropOldData` (the compressor calls it after every container) to the next: after any session `pre`, a
    drop and then any writes and reads `ops`, the bytes held are less than the distance from the unread position at the
    drop to the current put position plus two containers — no term for the length of `pre` -/
theorem C12_write_held_since_drop (D : Nat) (hD : 0 < D) (pre ops : List UFile.WOp) (hnd : ∀ op ∈ ops, op ≠ UFile.WOp.drop) :
    let s := pre.foldl UFile.wstep { dlcs := D }
    let s' := ops.foldl UFile.wstep (UFile.dropOldData s)
    (UFile.held s' : Int) < s'.tellp - min s.tellg s.tellp + 2 * D :=
  UFile.held_since_drop D hD _ (UFile.session_winv D hD pre).1 (UFile.session_winv D hD pre).2 ops hnd

/-- right after the drop: less than the unread bytes plus two containers -/
theorem C12_write_held_after_drop (D : Nat) (hD : 0 < D) (pre : List UFile.WOp) :
    let s := pre.foldl UFile.wstep { dlcs := D }
    (UFile.held (UFile.dropOldData s) : Int) < max 0 (s.tellp - s.tellg) + 2 * D := by
  have := C12_write_held_since_drop D hD pre [] (by simp)
  simp only [List.foldl_nil] at this
  have e : (UFile.dropOldData (pre.foldl UFile.wstep { dlcs := D })).tellp = (pre.foldl UFile.wstep { dlcs := D }).tellp := rfl
  show (UFile.held (UFile.dropOldData (pre.foldl UFile.wstep { dlcs := D })) : Int) <
    max 0 ((pre.foldl UFile.wstep { dlcs := D }).tellp - (pre.foldl UFile.wstep { dlcs := D }).tellg) + 2 * D
  omega

/-- read session (whole containers appended, `RInv`): right after `dropOldData` the bytes held are at most the unread bytes plus one
    container (`C` bounds the container sizes) — with `C12_read_session_bounded` (unread bytes ≤ max bufferSize R + C) this bounds
    what a read session holds by `max bufferSize R + 2·C`, however many containers the file has -/
theorem C12_read_held_after_drop (s : UFile.State) (w : Bytes) (h : UFile.RInv s w) (hpf : s.tellp ≤ s.fileSize) (C : Nat)
    (hC : ∀ c ∈ s.data, c.size ≤ C) : (UFile.held (UFile.dropOldData s) : Int) ≤ max 0 (s.tellp - s.tellg) + C :=
  UFile.read_held_after_drop s w h hpf C hC

/-- test (one session, not the theorem): fill a container of 4, read it, drop it, write one more byte — 4 bytes are held,
    not 8 (before fix 2aa9853: a second container from position 0) -/
example : UFile.held ([UFile.WOp.write [1,2,3,4], .read 4, .drop, .write [5]].foldl UFile.wstep { dlcs := 4 }) = 4 := by decide

/-- non-vacuity: 1000 containers of 8 bytes through a buffer of 4: a reachable state exists at all (the initial one) and
    the bound `max 4 3 + 8 = 12` does not mention 1000 -/
example : ∃ s, Pipe.Reach 4 1 (List.replicate 1000 8) [.uread 3] s ∧ s.stopReq = false := ⟨_, Pipe.Reach.init, rfl⟩

end Blf.Props
