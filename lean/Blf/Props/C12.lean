import Blf.PipeBound
/-!
# C12 — Buffered data stays bounded no matter how long the file is

Proved on the pipeline models, for every number of containers and every interleaving (so for every way in which the
application stalls and the workers burst):
* read session, before `close()`: bytes appended beyond the parser's position ≤ `max bufferSize R + C` (`R` = largest
  stream read = largest object, `C` = largest container), queued objects ≤ queue capacity;
* write session: bytes written beyond the compressor's position ≤ `max bufferSize cs + S` (`S` = largest encoded object),
  queued objects ≤ queue capacity;
* `dropOldData` leaves at most the containers from the one holding the get position on, so the bytes *held* are at most
  what is buffered ahead plus one container.

Measured, not proved: the allocator-level peak (harness allocation counter, as a function of the number of containers) —
the models count stream bytes and queue entries, not `malloc` overhead, `std::vector` growth or zlib's work buffers.
-/
namespace Blf.Props
open Blf

theorem C12_read_session_bounded (bufU : Int) (capQ : Nat) (hc : 0 < capQ) (conts : List Nat) (prog : List Pipe.POp) (R C : Nat)
    (hs : (Pipe.qwrites prog).length < Queue.U32MAX) (hcC : ∀ c ∈ conts, c ≤ C) (hp : PipeBound.readsLe R prog)
    (hsum : (PipeBound.lsum conts : Int) ≤ UFile.I64MAX) (s : Pipe.Sys) (h : Pipe.Reach bufU capQ conts prog s)
    (hopen : s.stopReq = false) :
    s.u.tellp - s.u.tellg ≤ max bufU R + C ∧ s.q.queue.length ≤ capQ :=
  PipeBound.read_buffered_bounded bufU capQ hc conts prog R C hs hcC hp hsum s h hopen

theorem C12_write_session_bounded (sz : Nat → Nat) (S : Nat) (hS : ∀ x, sz x ≤ S) (bufU : Int) (capQ : Nat) (hc : 0 < capQ)
    (cs : Nat) (hcs : 0 < cs) (objs : List Nat) (hs : objs.length < Queue.U32MAX)
    (hb : (WPipe.total sz objs : Int) + cs < UFile.I64MAX) (s : WPipe.Sys) (h : WPipe.Reach sz bufU capQ cs objs s) :
    s.u.tellp - s.u.tellg ≤ max bufU cs + S ∧ s.q.queue.length ≤ capQ :=
  PipeBound.write_buffered_bounded sz S hS bufU capQ hc cs hcs objs hs hb s h

theorem C12_drop_leaves_one_container (s : UFile.State) (hgp : s.tellg ≤ s.tellp) (hpf : s.tellp ≤ s.fileSize) :
    (UFile.dropOldData s).data = [] ∨
    ∃ c r, (UFile.dropOldData s).data = c :: r ∧ s.tellg < (c.size : Int) + c.pos :=
  PipeBound.drop_resident s hgp hpf

/-- non-vacuity: 1000 containers of 8 bytes through a buffer of 4: a reachable state exists at all (the initial one) and
    the bound `max 4 3 + 8 = 12` does not mention 1000 -/
example : ∃ s, Pipe.Reach 4 1 (List.replicate 1000 8) [.uread 3] s ∧ s.stopReq = false := ⟨_, Pipe.Reach.init, rfl⟩

end Blf.Props
