import Blf.Api
/-!
# C13 — Every object is released exactly once and sessions shut down cleanly

> For every sequence of API calls forming a session - failed open attempts, one successful open, any number
> of reads or writes, close once or repeatedly, destruction with or without close, with data still queued -
> every object passed to write() and every object still inside the library is freed exactly once, objects
> returned by read() belong to the caller, and no memory or thread is leaked.  is_open(), good() and eof()
> report the documented state after each step.

The theorem is about the ownership protocol of the life-cycle state machine `Blf.Api` (by induction over
arbitrary histories, no length bound).  That the *binary* frees exactly once is what ASan and the live-heap
accounting of the harness observe on every run (partial by nature).
-/
namespace Blf.Props
open Blf.Api

theorem C13_after_destroy (ops : List Op) :
    (run {} (ops ++ [.destroy])).libOwned = 0 ∧ (run {} (ops ++ [.destroy])).threads = 0 ∧
    (run {} (ops ++ [.destroy])).allocated = (run {} (ops ++ [.destroy])).appOwned + (run {} (ops ++ [.destroy])).freed ∧
    (run {} (ops ++ [.destroy])).isOpen = false := after_destroy ops

theorem C13_flags_read_obj (s : S) (ha : admissible s .read = true) (hr : 0 < s.remaining) :
    (step s .read).good = true ∧ (step s .read).eof = false := flags_read_obj s ha hr

theorem C13_flags_read_null (s : S) (ha : admissible s .read = true) (hr : s.remaining = 0) :
    (step s .read).good = false ∧ (step s .read).eof = true := flags_read_null s ha hr

end Blf.Props
