import Blf.FileRoundTrip
/-!
# C04 — Finished files decode with an independent implementation of the container format

The container format written out byte by byte (`specContainer`, independent of the generated programs):
signature `LOBJ`, header size 16, header version 1, object size = 32 + stored bytes, object type 10, compression method
(0 = none, 2 = zlib), two reserved fields, uncompressed size, a reserved field, the stored bytes, and `objectSize mod 4`
padding bytes.  Proved for every object list, level, container size, restore-point setting:

* `C04_file_layout`: the finished file is the 144-byte statistics block followed only by such containers;
* `C04_payload_is_stream`: the concatenation of the containers' payloads is exactly the concatenation of the objects'
  encodings in the order written — independent of level and container size;
* `C04_container_sizes`: no payload is larger than the configured container size, and every payload but the last (and the
  restore-point trailer) has exactly that size;
* `C04_stored_inflates`: what is stored inflates to exactly the declared uncompressed size (given `ZRT`), or is the payload
  itself at level 0.

The independent *decoder* itself (Python, `spec/blfparse.py`) is run on every file the real library writes (correspondence).
-/
namespace Blf.Props
open Blf Blf.FileSeq Blf.FileRound Blf.ContainerRound Blf.FileRoundTrip

/-- a log container as the format defines it -/
def specContainer (method usz : Nat) (data : Bytes) : Bytes :=
  leBytes 4 SIG ++ leBytes 2 16 ++ leBytes 2 1 ++ leBytes 4 (32 + data.length) ++ leBytes 4 10 ++
  leBytes 2 method ++ leBytes 2 0 ++ leBytes 4 0 ++ leBytes 4 usz ++ leBytes 4 0 ++ data ++ zeros ((32 + data.length) % 4)

/-- what the writer emits for one payload is the container of the format -/
theorem C04_container (Z : Zlib) (cap level : Nat) (p : Bytes) (h : PayloadOK Z cap level p) :
    encodeContainer Z cap level p = specContainer (if level = 0 then 0 else 2) p.length (stored Z level p) := by
  have hlc := containerObj_ok Z level p h.len h.stored
  obtain ⟨_, henc⟩ := lc_encode (memCfg cap) (containerObj Z level p) hlc
  obtain ⟨f10, f8, f5, f0, f2, f4, f6, f7, f9⟩ := containerObj_facts Z level p
  obtain ⟨h12, h1, h3, hr⟩ := lcPre_num (containerObj Z level p) hlc.size
  show (Gen.LogContainer.encode (memCfg cap) (containerObj Z level p)).out = _
  rw [henc]
  simp only [L9, hdr4, T2, List.cons_append, List.nil_append, encItems, encItem, List.append_nil, h1, h3, h12,
    hr 2 (by decide) (by decide) (by decide), hr 4 (by decide) (by decide) (by decide),
    hr 5 (by decide) (by decide) (by decide), hr 6 (by decide) (by decide) (by decide),
    hr 7 (by decide) (by decide) (by decide), hr 8 (by decide) (by decide) (by decide),
    hr 9 (by decide) (by decide) (by decide), lcPre_buf, f10, f8, f5, f2, f4, f6, f7, f9, Nat.mul_one, specContainer,
    List.append_assoc]
  simp [List.take_length]

/-- **the finished file**: statistics block, then containers of the format, nothing else -/
theorem C04_file_layout (Z : Zlib) (cap : Nat) (cfg : WCfg) (hdr : Obj) (objs : List (Codec × Obj))
    (hH : ItemsWF (storedHeader Z cap cfg hdr objs) Lfull)
    (hP : ∀ p ∈ payloads cap cfg objs, PayloadOK Z cap cfg.level p) :
    ∃ stats : Bytes, stats.length = 144 ∧
      writeFile Z cap cfg hdr objs = stats ++
        flattenB ((payloads cap cfg objs).map fun p =>
          specContainer (if cfg.level = 0 then 0 else 2) p.length (stored Z cfg.level p)) := by
  refine ⟨encItems (storedHeader Z cap cfg hdr objs) Lfull, ?_, ?_⟩
  · rw [encItems_length _ _ hH]; simp [Lfull, Lstats, itemsSize, Item.size]
  · rw [writeFile_eq, encodeStats_eq cap _ hH]
    congr 2
    apply List.map_congr_left
    intro p hp
    exact C04_container Z cap cfg.level p (hP p hp)

/-- the payloads, concatenated, are the stream of object encodings in the order written -/
theorem C04_payload_is_stream (cap : Nat) (cfg : WCfg) (objs : List (Codec × Obj)) :
    flattenB (payloads cap cfg objs) = flattenB (objs.map fun p => (p.1.encode (memCfg cap) p.2).out) :=
  flattenB_payloads cap cfg objs

theorem chunk_ne_nil (cs fuel : Nat) (b : Bytes) : chunk cs fuel b ≠ [] := by
  cases fuel with
  | zero => simp [chunk]
  | succ n => unfold chunk; split <;> simp

/-- every payload but the last has exactly the container size -/
theorem C04_full_containers (cs : Nat) : ∀ (fuel : Nat) (b : Bytes), ∀ c ∈ (chunk cs fuel b).dropLast, c.length = cs := by
  intro fuel
  induction fuel with
  | zero => intro b c hc; simp [chunk] at hc
  | succ n ih =>
    intro b c hc
    unfold chunk at hc
    split at hc
    · next h =>
      rw [List.dropLast_cons_of_ne_nil (chunk_ne_nil cs n _)] at hc
      simp only [List.mem_cons] at hc
      rcases hc with rfl | hc
      · simp [List.length_take]; omega
      · exact ih _ c hc
    · simp at hc

/-- no payload is larger than the container size -/
theorem C04_container_sizes (cs : Nat) (hcs : 0 < cs) : ∀ (fuel : Nat) (b : Bytes), b.length < fuel →
    ∀ c ∈ chunk cs fuel b, c.length ≤ cs := by
  intro fuel
  induction fuel with
  | zero => intro b h; omega
  | succ n ih =>
    intro b hb c hc
    unfold chunk at hc
    split at hc
    · next h =>
      simp only [List.mem_cons] at hc
      rcases hc with rfl | hc
      · simp [List.length_take]; omega
      · exact ih (b.drop cs) (by simp [List.length_drop]; omega) c hc
    · next h =>
      simp only [List.mem_singleton] at hc
      subst hc
      simp only [not_and, Nat.not_lt] at h
      by_cases h1 : cs ≤ c.length
      · have := h h1; omega
      · omega

/-- what is stored is the payload (level 0) or inflates to exactly the payload, of the declared size (other levels) -/
theorem C04_stored_inflates (Z : Zlib) (hZ : ZRT Z) (level : Nat) (p : Bytes) :
    (level = 0 → stored Z level p = p) ∧ (level ≠ 0 → Z.inflate (stored Z level p) p.length = some p) := by
  refine ⟨fun h => by simp [stored, h], fun h => ?_⟩
  simp only [stored, h, if_false]
  exact hZ level p

end Blf.Props
