import Blf.Gen.Checks
import Blf.Codec.Tables
import Blf.Codec.Pre
import Blf.Spec.PadObserved
import Blf.Spec.ObjectTypes
/-!
# C03 — Every written object is framed exactly as its own header declares

> For every object the library encodes, the header-size field equals the header bytes emitted, the
> object-size field equals the bytes emitted for the object not counting alignment padding, padding is
> exactly (object size mod 4) zero bytes for the variable-size types of the format that pad and absent
> for all others, and every length or count field equals the size of the payload actually emitted;
> decoding the bytes consumes exactly what was emitted.  Hence the uncompressed stream can be walked
> object by object from header fields alone, and encoding never reads outside the caller's containers.

`Gen.exactLayouts` is computed on every run from the regenerated programs: the classes for which the
kernel evaluates `regularCheck` to `true`.  Classes outside it are not covered by these theorems; the
check reports each of them (known finding, or violation).
-/
namespace Blf.Props
open Blf

theorem exact_mem {p : Codec × Layout} (hp : p ∈ Gen.exactLayouts) : Reg p.1 p.2 :=
  regularCheck_sound _ _ (List.all_eq_true.mp Gen.exact_all p hp)

/-- **C03 (framing)** for every exactly-framed class, every object (arbitrary scalars, payloads, stale
    length/size fields — `pre` overwrites them), every allocation cap: the encoder does not stop
    (in particular no `oob`: it never reads outside the caller's containers), the output is the
    signature followed by the items of the pre-processed object, its length is
    `4 + Σ item sizes` plus `objectSize % 4` for padding classes, the stored `objectSize` is that length
    without the padding (mod 2^32), the stored `headerSize` is the size of the header items. -/
theorem C03_framing (cfg : Cfg) (p : Codec × Layout) (hp : p ∈ Gen.exactLayouts) (o : Obj)
    (hwf : UserWF p.2 o) :
    (p.1.encode cfg o).halt = .none ∧
    (p.1.encode cfg o).out = leBytes 4 ((pre p.1 p.2 o).num p.2.sigF) ++ encItems (pre p.1 p.2 o) p.2.items ∧
    (p.1.encode cfg o).out.length = 4 + itemsSize (pre p.1 p.2 o) p.2.body +
        (if p.2.padded then (pre p.1 p.2 o).num p.2.osF % 4 else 0) ∧
    (p.1.sizeExpr.eval (pre p.1 p.2 o)) % M32 = (4 + itemsSize (pre p.1 p.2 o) p.2.body) % M32 ∧
    p.1.hdrSizeExpr.eval (pre p.1 p.2 o) = 4 + itemsConst (p.2.items.take p.2.nHdr) :=
  regular_frame_user cfg p.1 p.2 (exact_mem hp) o hwf

/-- **C03 (decoding consumes exactly what was emitted)**, with arbitrary bytes following. -/
theorem C03_consumes (cfg : Cfg) (hs : cfg.sticky = false) (p : Codec × Layout) (hp : p ∈ Gen.exactLayouts)
    (o o0 : Obj) (rest : Bytes)
    (hwf : UserWF p.2 o) (hsig : o.num p.2.sigF = SIG)
    (harr : ArrOK o0 p.2.items)
    (hcap : ∀ f ew len, Item.var f ew len ∈ p.2.items → (o.buf f).length ≤ cfg.cap) :
    (p.1.decode cfg o0 ((p.1.encode cfg o).out ++ rest)).halt = .none ∧
    (p.1.decode cfg o0 ((p.1.encode cfg o).out ++ rest)).short = false ∧
    (p.1.decode cfg o0 ((p.1.encode cfg o).out ++ rest)).pos = (p.1.encode cfg o).out.length :=
  let h := regular_roundtrip_user cfg hs p.1 p.2 (exact_mem hp) o o0 rest hwf hsig harr hcap
  ⟨h.1, h.2.1, h.2.2.1⟩

/-- the class the factory table assigns to a code, and whether it pads -/
def padsOfCode (code : Nat) : Option Bool :=
  match Spec.lookupCode Gen.factoryTable code with
  | some n => (Gen.allCodecs.find? (·.name == n)).map fun c => c.pads
  | none => none

def padFreeOfCode (code : Nat) : Option Bool :=
  match Spec.lookupCode Gen.factoryTable code with
  | some n => (Gen.allCodecs.find? (·.name == n)).map fun c => c.padFree
  | none => none

/-- **C03 (padding set)**: the types that pad are the ones observed to pad in the reference logs, and
    the types observed not to pad have no padding statement at all. -/
theorem C03_padset :
    (Spec.padObserved.all fun e => if e.2 then padsOfCode e.1 == some true else padFreeOfCode e.1 == some true) = true := by
  decide +kernel

/-- every class either pads by `objectSize % 4` on both sides or on neither -/
theorem C03_pad_symmetric : (Gen.allCodecs.all fun c => c.pads || c.padFree) = true := by
  decide +kernel

/-- non-vacuity: a concrete non-trivial object (AppText with a 5-byte text) meets the hypotheses -/
example : match Gen.sample with
    | some (c, lay, o) => ItemsWF (pre c lay o) lay.items ∧ o.num lay.sigF = SIG ∧
        (c, lay) ∈ Gen.exactLayouts ∧ ArrOK c.fresh lay.items
    | none => False := by
  simp only [Gen.sample]
  exact ⟨by decide, by decide, by decide, arrOK_of_b _ _ (by decide)⟩

end Blf.Props
