import Blf.TruncRound
import Blf.FileTrunc
import Blf.HeaderTrunc
/-!
# C08 — A file cut off at any byte reads as an unmodified prefix of its objects

Proved at the level of the uncompressed stream, for every cut position (not a sample of offsets):

* `C08_stream_prefix`: the object parser on the first `m` bytes of a stream of encoded objects delivers exactly the objects
  whose fields lie completely inside those `m` bytes — unmodified (every field of the layout), in order —, delivers nothing
  for the object the cut falls into, and ends with the null result (no outcome set: no hang, no undefined access);
* `C08_monotone`: a longer prefix never yields fewer objects;
* `C08_cut_object_dropped`: the single step behind it — the stream ends inside the fields of an object: the decoder comes
  back short, the stream is not good, the parser's loop ends.

and at the level of the file, for **every** cut position `t` (`C08_file_every_cut`):

* `C08_file_prefix`: a read session on the first `t` bytes of a file the writer produced ends with the null result and delivers
  exactly the first `deliveredAt … t` objects written, unmodified and in order — the objects whose fields lie inside the payloads
  of the containers whose header and stored bytes lie inside the first `t` bytes (a container of which only the trailing padding is
  cut counts as stored; a container cut anywhere before is dropped entirely: the decoder comes back short on the in-memory
  stream, so the `std::fstream`-like stream is not good, `containerStep_cut`);
* `C08_file_monotone`: `deliveredAt` never decreases when `t` grows.

* `C08_file_header_cut`: a cut inside the 144-byte statistics block (`t < 144`): `open()` succeeds (the signature member keeps, or is
  partly overwritten with a prefix of, the expected value), the failed state of the `std::fstream` persists, no container is read,
  the session ends with the null result and no object (`deliveredAt … t = 0` there).

Not proved: files whose header still holds the initial all-zero statistics (the reader does not consult them; covered
dynamically), the classes outside the exactly-framed fragment.
-/
namespace Blf.Props
open Blf Blf.FileSeq Blf.FileRound Blf.TruncRound

theorem C08_stream_prefix (cap : Nat) (L : List (Codec × Layout × Obj))
    (hL : ∀ x ∈ L, Parsable cap x.1 x.2.1 x.2.2 ∧ ArrOK x.1.fresh x.2.1.items) (m : Nat) :
    ∃ ds, (objectLoop cap (4 * ((flat cap L).take m).length + 64 + L.length)
        { st := { obj := statsDefault, inp := (flat cap L).take m } }).objs = ds.reverse ∧
      AllDelivered (L.take (jOf cap L m)) ds ∧
      (objectLoop cap (4 * ((flat cap L).take m).length + 64 + L.length)
        { st := { obj := statsDefault, inp := (flat cap L).take m } }).outcome = none := by
  obtain ⟨ds, d1, d2, d3⟩ := parse_prefix cap L hL m ((flat cap L).take m)
    { st := { obj := statsDefault, inp := (flat cap L).take m } } (4 * ((flat cap L).take m).length + 64 + L.length)
    ⟨⟨rfl, rfl, Nat.zero_le _, rfl⟩, rfl, rfl⟩ (by simp) (by have := (jOf_le cap L (fun x hx => (hL x hx).1) m).1; omega)
  exact ⟨ds, by rw [d1]; simp, d2, d3⟩

theorem C08_monotone (cap : Nat) (L : List (Codec × Layout × Obj)) (m m' : Nat) (h : m ≤ m') :
    jOf cap L m ≤ jOf cap L m' := jOf_mono cap L m m' h

theorem C08_cut_object_dropped (cap : Nat) (c : Codec) (lay : Layout) (o : Obj) (hp : Parsable cap c lay o)
    (harr : ArrOK c.fresh lay.items) (B : Bytes) (ps : PState) (hi : PInv B ps) (m : Nat)
    (hmb : m < 4 + (encItems (pre c lay o) lay.body).length)
    (hin : B.drop ps.st.pos = (enc cap c o).take m) : objectStep cap ps = none :=
  objectStep_cut cap c lay o hp harr B ps hi m hmb hin

theorem C08_file_prefix (Z : Zlib) (hZ : ContainerRound.ZRT Z) (cap : Nat) (cfg : WCfg) (hdr : Obj)
    (L : List (Codec × Layout × Obj))
    (hL : ∀ x ∈ L, Parsable cap x.1 x.2.1 x.2.2 ∧ ArrOK x.1.fresh x.2.1.items)
    (hsig : hdr.num 0 = FILESIG)
    (hH : ItemsWF (FileRoundTrip.storedHeader Z cap cfg hdr (L.map fun x => (x.1, x.2.2))) FileRoundTrip.Lfull)
    (hP : ∀ p ∈ FileRoundTrip.payloads cap cfg (L.map fun x => (x.1, x.2.2)), ContainerRound.PayloadOK Z cap cfg.level p)
    (t : Nat) (ht : 144 ≤ t) :
    (readFile Z cap ((writeFile Z cap cfg hdr (L.map fun x => (x.1, x.2.2))).take t)).outcome = .ended ∧
    AllDelivered (L.take (FileTrunc.deliveredAt Z cap cfg L t))
      (readFile Z cap ((writeFile Z cap cfg hdr (L.map fun x => (x.1, x.2.2))).take t)).objs := by
  obtain ⟨ds, h1, h2, h3⟩ := FileTrunc.read_truncated_file Z hZ cap cfg hdr L hL hsig hH hP t ht
  exact ⟨h1, by rw [h2]; exact h3⟩

theorem C08_file_header_cut (Z : Zlib) (cap : Nat) (cfg : WCfg) (hdr : Obj) (objs : List (Codec × Obj))
    (hsig : hdr.num 0 = FILESIG) (hH : ItemsWF (FileRoundTrip.storedHeader Z cap cfg hdr objs) FileRoundTrip.Lfull)
    (t : Nat) (ht : t < 144) :
    (readFile Z cap ((writeFile Z cap cfg hdr objs).take t)).outcome = .ended ∧
    (readFile Z cap ((writeFile Z cap cfg hdr objs).take t)).objs = [] :=
  HeaderTrunc.read_truncated_header Z cap cfg hdr objs hsig hH t ht

/-- **every cut position**: the first `t` bytes of a written file, for any `t`, read as the first `deliveredAt … t` objects,
    unmodified and in order, and the session ends with the null result -/
theorem C08_file_every_cut (Z : Zlib) (hZ : ContainerRound.ZRT Z) (cap : Nat) (cfg : WCfg) (hdr : Obj)
    (L : List (Codec × Layout × Obj))
    (hL : ∀ x ∈ L, Parsable cap x.1 x.2.1 x.2.2 ∧ ArrOK x.1.fresh x.2.1.items)
    (hsig : hdr.num 0 = FILESIG)
    (hH : ItemsWF (FileRoundTrip.storedHeader Z cap cfg hdr (L.map fun x => (x.1, x.2.2))) FileRoundTrip.Lfull)
    (hP : ∀ p ∈ FileRoundTrip.payloads cap cfg (L.map fun x => (x.1, x.2.2)), ContainerRound.PayloadOK Z cap cfg.level p)
    (t : Nat) :
    (readFile Z cap ((writeFile Z cap cfg hdr (L.map fun x => (x.1, x.2.2))).take t)).outcome = .ended ∧
    AllDelivered (L.take (FileTrunc.deliveredAt Z cap cfg L t))
      (readFile Z cap ((writeFile Z cap cfg hdr (L.map fun x => (x.1, x.2.2))).take t)).objs := by
  by_cases ht : 144 ≤ t
  · exact C08_file_prefix Z hZ cap cfg hdr L hL hsig hH hP t ht
  · obtain ⟨h1, h2⟩ := C08_file_header_cut Z cap cfg hdr _ hsig hH t (by omega)
    have h0 : FileTrunc.deliveredAt Z cap cfg L t = 0 := by
      unfold FileTrunc.deliveredAt
      have : t - 144 = 0 := by omega
      rw [this, ContainerTrunc.kOf_zero, List.take_zero]
      exact TruncRound.jOf_zero cap L
    rw [h2, h0]
    exact ⟨h1, AllDelivered.nil⟩

theorem C08_file_monotone (Z : Zlib) (cap : Nat) (cfg : WCfg) (L : List (Codec × Layout × Obj)) (t t' : Nat) (h : t ≤ t') :
    FileTrunc.deliveredAt Z cap cfg L t ≤ FileTrunc.deliveredAt Z cap cfg L t' :=
  FileTrunc.deliveredAt_mono Z cap cfg L t t' h

end Blf.Props
