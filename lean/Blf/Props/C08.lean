import Blf.TruncRound
/-!
# C08 — A file cut off at any byte reads as an unmodified prefix of its objects

Proved at the level of the uncompressed stream, for every cut position (not a sample of offsets):

* `C08_stream_prefix`: the object parser on the first `m` bytes of a stream of encoded objects delivers exactly the objects
  whose fields lie completely inside those `m` bytes — unmodified (every field of the layout), in order —, delivers nothing
  for the object the cut falls into, and ends with the null result (no outcome set: no hang, no undefined access);
* `C08_monotone`: a longer prefix never yields fewer objects;
* `C08_cut_object_dropped`: the single step behind it — the stream ends inside the fields of an object: the decoder comes
  back short, the stream is not good, the parser's loop ends.

Because log containers are all-or-nothing for the reader, what the parser sees of a truncated *file* is always such a prefix of
the stream (the payloads of the completely stored containers).  That last step — the inflater stops at the first incompletely
stored container without handing anything of it to the stream, for every cut inside a container or inside the 144-byte
statistics block — is covered by `C10_read_session_ends_without_ub` (ends, no undefined behaviour) and otherwise validated
dynamically (every truncation offset of written files, both header variants), not proved here.
-/
namespace Blf.Props
open Blf Blf.FileSeq Blf.FileRound Blf.TruncRound

theorem C08_stream_prefix (cap : Nat) (L : List (Codec × Layout × Obj))
    (hL : ∀ x ∈ L, Parsable cap x.1 x.2.1 x.2.2 ∧ ArrOK x.1.fresh x.2.1.items) (m : Nat) :
    ∃ ds, (objectLoop cap (4 * ((flat cap L).take m).length + 64 + L.length)
        { st := { obj := statsDefault, inp := (flat cap L).take m } }).objs = ds.reverse ∧
      AllDelivered (L.take (jOf cap L m)) ds ∧
      (objectLoop cap (4 * ((flat cap L).take m).length + 64 + L.length)
        { st := { obj := statsDefault, inp := (flat cap L).take m } }).outcome = none := by
  obtain ⟨ds, d1, d2, d3⟩ := parse_prefix cap L hL m ((flat cap L).take m)
    { st := { obj := statsDefault, inp := (flat cap L).take m } } (4 * ((flat cap L).take m).length + 64 + L.length)
    ⟨⟨rfl, rfl, Nat.zero_le _, rfl⟩, rfl, rfl⟩ (by simp) (by have := (jOf_le cap L (fun x hx => (hL x hx).1) m).1; omega)
  exact ⟨ds, by rw [d1]; simp, d2, d3⟩

theorem C08_monotone (cap : Nat) (L : List (Codec × Layout × Obj)) (m m' : Nat) (h : m ≤ m') :
    jOf cap L m ≤ jOf cap L m' := jOf_mono cap L m m' h

theorem C08_cut_object_dropped (cap : Nat) (c : Codec) (lay : Layout) (o : Obj) (hp : Parsable cap c lay o)
    (harr : ArrOK c.fresh lay.items) (B : Bytes) (ps : PState) (hi : PInv B ps) (m : Nat)
    (hmb : m < 4 + (encItems (pre c lay o) lay.body).length)
    (hin : B.drop ps.st.pos = (enc cap c o).take m) : objectStep cap ps = none :=
  objectStep_cut cap c lay o hp harr B ps hi m hmb hin

end Blf.Props
