import Blf.FileSeq
/-! # C08 (theorems under construction; the executable model `Blf.FileSeq` is tied to the code by the `file` protocol) -/
namespace Blf.Props
end Blf.Props
