import Blf.Gen.Checks
import Blf.Codec.Determinacy
import Blf.Codec.Pre
/-!
# C14 — Output bytes are a deterministic function of objects and configuration

> Writing the same object sequence with the same configuration always produces the same file bytes:
> the output does not depend on timing, on earlier activity in the process, or on uninitialised
> memory - alignment padding, unused parts of unions and untouched reserved fields are written as zero.

`writeFile` of the model is a function, so determinism is by construction *provided nothing outside
its arguments is read*.  The content is therefore (1) the encoder's output depends only on the
buffers and on its input fields (`encode_deterministic`, proved once for the interpreter), (2) for
every class outside `Gen.inputsNotInit` every input field has an initialiser (kernel evaluation of
the regenerated tables), (3) filler is zero.  Schedule-independence of the file bytes is C07.
`Gen.inputsNotInit` is recomputed on every run; the check compares it with the known findings.
-/
namespace Blf.Props
open Blf

/-- **C14 (no indeterminate input)**: for every class outside the computed exception list, two objects with
    the same buffers that agree on the encoder's input fields — all of which have initialisers — encode
    to the same bytes.  In particular the encoding of an object does not depend on members the caller
    never set. -/
theorem C14_no_indeterminate (cfg : Cfg) (c : Codec) (hc : c ∈ Gen.allCodecs) (hx : c.name ∉ Gen.inputsNotInit)
    (a b : Obj) (hb : a.buf = b.buf) (hn : ∀ f ∈ c.inputs, a.num f = b.num f) :
    (c.encode cfg a).out = (c.encode cfg b).out ∧ (c.encode cfg a).halt = (c.encode cfg b).halt ∧
    (c.inputs.all fun f => c.hasInit f) = true := by
  have hall : (Gen.allCodecs.all fun c => Gen.inputsNotInit.contains c.name || c.inputsInit) = true := by
    decide +kernel
  have := List.all_eq_true.mp hall c hc
  simp only [Bool.or_eq_true, List.contains_iff_mem] at this
  rcases this with h | h
  · exact absurd h hx
  · refine ⟨(encode_deterministic cfg c h a b hb hn).1, (encode_deterministic cfg c h a b hb hn).2, ?_⟩
    simp only [Codec.inputsInit, Bool.and_eq_true] at h
    exact h.2

/-- arrays — the only buffers that can be indeterminate — all have initialisers, in every class outside
    the computed exception list -/
theorem C14_arrays_init :
    (Gen.allCodecs.all fun c => Gen.arraysNotInit.contains c.name || c.arraysInit) = true := by
  decide +kernel

/-- **C14 (filler is zero)**: `skipp n` appends exactly `n` zero bytes (alignment padding, union filler) -/
theorem C14_filler_zero (cfg : Cfg) (n : Expr) (st : St) :
    ((Stmt.skipp n).exec cfg st).out = st.out ++ zeros (n.eval st.obj) := rfl

/-- non-vacuity: the sample class is subject to the theorem and has input fields -/
example : match Gen.sample with
    | some (c, _, _) => c ∈ Gen.allCodecs ∧ c.name ∉ Gen.inputsNotInit ∧ c.inputs ≠ []
    | none => False := by
  simp only [Gen.sample]
  decide

end Blf.Props
