import Blf.Queue
import Blf.Queue32
/-!
# C16 — The object queue is a bounded FIFO with exact end-of-stream and abort

> The object queue delivers objects in insertion order, exactly once; a producer is held back while the
> queue is at its configured capacity; end-of-stream (null result, eof set) is reported only when the
> queue is empty and either the declared size has been consumed or abort() was called - never while
> objects remain - and abort() releases every waiter.

The counters `m_tellg` / `m_tellp` are `uint32_t` in the code: `C16_counters32_refine` proves that the machine with wrapping
counters (`Blf.Queue.run32`) *is* the machine below for every history that writes fewer than 2^32 objects, and
`C16_fifo_wrap` / `C16_never_null_while_objects_remain_wrap` / `C16_abort_releases_wrap` prove the counter-independent parts
for every history of the wrapping machine, without that bound.

Sequential half: theorems by induction over arbitrary operation lists (no length bound, any capacity).
The concurrent half (one producer, one consumer, a controller) is an instance of the pipeline model (C06/C07).
-/
namespace Blf.Props
open Blf.Queue

/-- FIFO, each object exactly once: delivered ++ still queued = initially queued ++ written -/
theorem C16_fifo (s : State) (ops : List Op) :
    delivered (run s ops).2 ++ (run s ops).1.queue = s.queue ++ written s ops := fifo s ops

theorem C16_backpressure (s : State) (x : Nat) :
    guard s (.write x) = false ↔ (s.abort = false ∧ s.bufferSize ≤ s.queue.length) := backpressure s x

theorem C16_eos (s : State) (hg : guard s .read = true) :
    ((step s .read).2 = some none ↔ s.queue = []) ∧
    ((step s .read).2 = some none → (s.tellg ≥ s.fileSize ∨ s.abort = true) ∧
        (step s .read).1.eof = true ∧ (step s .read).1.good = false) := eos s hg

theorem C16_abort_releases (s : State) (ops : List Op) (op : Op) :
    guard (run (step s .abort).1 ops).1 op = true ∧ notifies .abort = [.tellg, .tellp] :=
  ⟨abort_releases s ops op, rfl⟩

theorem C16_positions (ops : List Op) : (run {} ops).1.tellg + (run {} ops).1.queue.length = (run {} ops).1.tellp :=
  inv_run {} ops (by simp [Blf.Queue.Inv])

/-- the model with unbounded counters is exact for the `uint32_t` counters of the code: every history that starts in a
    state satisfying the position invariant and keeps the put counter below 2^32 gives the same state and the same results -/
theorem C16_counters32_refine (s : State) (ops : List Op) (hi : Blf.Queue.Inv s) (hb : s.tellp + ops.length < W) :
    run32 s ops = run s ops := run32_eq_run s ops hi hb

/-- FIFO / exactly once for every history of the machine with wrapping counters (no bound on the number of objects) -/
theorem C16_fifo_wrap (s : State) (ops : List Op) :
    delivered (run32 s ops).2 ++ (run32 s ops).1.queue = s.queue ++ written32 s ops := fifo32 s ops

/-- wrapping counters: a read returns null exactly on the empty queue (never while objects remain), then eof is set and
    good cleared, and the read was admitted because the size test held or abort was called -/
theorem C16_never_null_while_objects_remain_wrap (s : State) :
    ((step32 s .read).2 = some none ↔ s.queue = []) ∧
    ((step32 s .read).2 = some none → (step32 s .read).1.eof = true ∧ (step32 s .read).1.good = false) ∧
    (guard32 s .read = true → s.queue = [] → (s.tellg ≥ s.fileSize ∨ s.abort = true)) :=
  ⟨(eos32_nonempty s).1, (eos32_nonempty s).2, eos32_cause s⟩

theorem C16_abort_releases_wrap (s : State) (ops : List Op) (op : Op) :
    guard32 (run32 (step32 s .abort).1 ops).1 op = true := abort_releases32 s ops op

/-- wrapping counters: `(tellg + |queue|) mod 2^32 = tellp` after every history -/
theorem C16_positions_wrap (ops : List Op) :
    ((run32 {} ops).1.tellg + (run32 {} ops).1.queue.length) % W = (run32 {} ops).1.tellp % W :=
  inv32_run {} ops (by simp [Inv32])

end Blf.Props
