import Blf.Queue
/-!
# C16 — The object queue is a bounded FIFO with exact end-of-stream and abort

> The object queue delivers objects in insertion order, exactly once; a producer is held back while the
> queue is at its configured capacity; end-of-stream (null result, eof set) is reported only when the
> queue is empty and either the declared size has been consumed or abort() was called - never while
> objects remain - and abort() releases every waiter.

Sequential half: theorems by induction over arbitrary operation lists (no length bound, any capacity).
The concurrent half (one producer, one consumer, a controller) is an instance of the pipeline model (C06/C07).
-/
namespace Blf.Props
open Blf.Queue

/-- FIFO, each object exactly once: delivered ++ still queued = initially queued ++ written -/
theorem C16_fifo (s : State) (ops : List Op) :
    delivered (run s ops).2 ++ (run s ops).1.queue = s.queue ++ written s ops := fifo s ops

theorem C16_backpressure (s : State) (x : Nat) :
    guard s (.write x) = false ↔ (s.abort = false ∧ s.bufferSize ≤ s.queue.length) := backpressure s x

theorem C16_eos (s : State) (hg : guard s .read = true) :
    ((step s .read).2 = some none ↔ s.queue = []) ∧
    ((step s .read).2 = some none → (s.tellg ≥ s.fileSize ∨ s.abort = true) ∧
        (step s .read).1.eof = true ∧ (step s .read).1.good = false) := eos s hg

theorem C16_abort_releases (s : State) (ops : List Op) (op : Op) :
    guard (run (step s .abort).1 ops).1 op = true ∧ notifies .abort = [.tellg, .tellp] :=
  ⟨abort_releases s ops op, rfl⟩

theorem C16_positions (ops : List Op) : (run {} ops).1.tellg + (run {} ops).1.queue.length = (run {} ops).1.tellp :=
  inv_run {} ops (by simp [Blf.Queue.Inv])

end Blf.Props
