import Blf.Pipe
import Blf.WPipe
/-!
# C11 — No data races; an object handed over is never touched by the other side again

What the pipeline models can carry of this property: **ownership**.  Objects are identified by distinct ids.

* read session (`Blf.Pipe`): in every reachable state, under every interleaving, an object the application has received is
  neither in the object queue nor among the objects the parser still has to push — the library holds no reference to it
  (`C11_read_handover`);
* write session (`Blf.WPipe`): an object the application has passed to `write()` is in the queue, with the encoder, or
  already written — never again among the objects the application still owns, and each object is in exactly one place
  (`C11_write_handover`).

Not expressible in these models: that the C++ code makes no access outside the critical sections the models consist of (a data
race is an access the model does not have).  That part is checked dynamically: ThreadSanitizer on native stress runs, and
AddressSanitizer under the controlled scheduler, where the application deletes every object right after `read()` returned
it, so that a late access by a worker is a deterministic use-after-free (this is how the defect repaired by cb8a11b shows).
-/
namespace Blf.Props
open Blf

/-- received ++ queued ++ still to be pushed is always an initial segment of what the parser's program pushes -/
def Pipe.Hand (all : List Pipe.POp) (s : Pipe.Sys) : Prop :=
  ∃ rest, s.got ++ s.q.queue ++ (if s.par = .done then [] else Pipe.qwrites s.prog) ++ rest = Pipe.qwrites all

theorem Pipe.hand_step (all : List Pipe.POp) (s t : Pipe.Sys) (h : Pipe.Hand all s) (hst : Pipe.Step s t) : Pipe.Hand all t := by
  obtain ⟨rest, hr⟩ := h
  cases hst with
  | push c r h1 h2 hg => exact ⟨rest, by simpa [Pipe.wake_eq_done] using hr⟩
  | pushBlock c r h1 h2 hg => exact ⟨rest, hr⟩
  | infEos h1 h2 => exact ⟨rest, by simpa [Pipe.wake_eq_done] using hr⟩
  | uread n r j h1 h2 hg hj => exact ⟨rest, by simp only [h1, h2, Pipe.qwrites] at hr ⊢; simpa [h1] using hr⟩
  | ureadBlock n r h1 h2 hg => exact ⟨rest, by simp only [h1] at hr; simpa using hr⟩
  | useek off r h1 h2 => exact ⟨rest, by simp only [h1, h2, Pipe.qwrites] at hr ⊢; simpa [h1] using hr⟩
  | udrop r h1 h2 => exact ⟨rest, by simp only [h1, h2, Pipe.qwrites] at hr ⊢; simpa [h1] using hr⟩
  | qwrite x r h1 h2 hg =>
    refine ⟨rest, ?_⟩
    simp only [h1, h2, Pipe.qwrites] at hr ⊢
    simpa [Queue.step, h1, List.append_assoc] using hr
  | qwriteBlock x r h1 h2 hg => exact ⟨rest, by simp only [h1] at hr; simpa using hr⟩
  | parEos h1 h2 =>
    refine ⟨Pipe.qwrites s.prog ++ rest, ?_⟩
    simp only [h1] at hr
    simpa [Queue.step, List.append_assoc] using hr
  | recv x r h1 h0 hg hq =>
    refine ⟨rest, ?_⟩
    rw [hq] at hr
    simpa [Queue.step, hq, Pipe.wake_eq_done, List.append_assoc] using hr
  | recvNull h1 h0 hg hq => exact ⟨rest, by simpa [Queue.step, hq, Pipe.wake_eq_done] using hr⟩
  | recvBlock h1 h0 hg => exact ⟨rest, hr⟩
  | close h1 => exact ⟨rest, by simpa [Queue.step, Pipe.wake_eq_done] using hr⟩

theorem Pipe.hand_reach (bufU : Int) (capQ : Nat) (conts : List Nat) (prog : List Pipe.POp) (s : Pipe.Sys)
    (h : Pipe.Reach bufU capQ conts prog s) : Pipe.Hand prog s := by
  induction h with
  | init => exact ⟨[], by simp [Pipe.init]⟩
  | step s t _ hst ih => exact Pipe.hand_step prog s t ih hst

theorem nodup_append_disjoint {α} {a b : List α} (h : (a ++ b).Nodup) (x : α) (ha : x ∈ a) : x ∉ b := by
  intro hb
  have := List.nodup_append.1 h
  exact this.2.2 x ha x hb rfl

/-- **read session**: an object handed to the application is nowhere in the library any more -/
theorem C11_read_handover (bufU : Int) (capQ : Nat) (conts : List Nat) (prog : List Pipe.POp)
    (hnd : (Pipe.qwrites prog).Nodup) (s : Pipe.Sys) (h : Pipe.Reach bufU capQ conts prog s) (x : Nat) (hx : x ∈ s.got) :
    x ∉ s.q.queue ∧ (s.par ≠ .done → x ∉ Pipe.qwrites s.prog) := by
  obtain ⟨rest, hr⟩ := Pipe.hand_reach bufU capQ conts prog s h
  rw [← hr] at hnd
  have h1 : (s.got ++ (s.q.queue ++ ((if s.par = .done then [] else Pipe.qwrites s.prog) ++ rest))).Nodup := by
    simpa [List.append_assoc] using hnd
  have hd := nodup_append_disjoint h1 x hx
  refine ⟨fun hq => hd (by simp [hq]), fun hp hm => hd ?_⟩
  simp [hp, hm]

/-- **write session**: an object passed to `write()` is in exactly one place inside the library and no longer with the
    application -/
theorem C11_write_handover (sz : Nat → Nat) (bufU : Int) (capQ : Nat) (hc : 0 < capQ) (cs : Nat) (hcs : 0 < cs)
    (objs : List Nat) (hs : objs.length < Queue.U32MAX) (hb : (WPipe.total sz objs : Int) + cs < UFile.I64MAX)
    (hnd : objs.Nodup) (s : WPipe.Sys) (h : WPipe.Reach sz bufU capQ cs objs s) (x : Nat)
    (hx : x ∈ s.wr ∨ x ∈ WPipe.pend s.pending ∨ x ∈ s.q.queue) : x ∉ s.toWrite := by
  have hi := WPipe.reach_inv sz bufU capQ hc cs hcs objs hs hb s h
  have hh := hi.hist
  rw [← hh] at hnd
  have h1 : ((s.wr ++ WPipe.pend s.pending ++ s.q.queue) ++ s.toWrite).Nodup := hnd
  exact nodup_append_disjoint h1 x (by
    rcases hx with hx | hx | hx
    · simp [hx]
    · simp [hx]
    · simp [hx])

end Blf.Props
