import Blf.QueueConc
/-! # C11 (ownership theorem under construction) -/
namespace Blf.Props
end Blf.Props
