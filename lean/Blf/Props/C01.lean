import Blf.Gen.Checks
import Blf.Codec.Tables
import Blf.Codec.Pre
import Blf.FileRoundTrip
/-!
# C01 — Write-then-read returns the same objects, in order, for every configuration

* `C01_object_roundtrip`: one object, any trailing bytes.
* `C01_stream_roundtrip`: the object parser on the concatenation of any number of encodings.
* `C01_file_roundtrip`: the whole file — `readFile (writeFile …)` — for every object list, compression level, container size
  and restore-point setting: exactly the objects written, in order, each once (every field of the class layout as
  pre-processed by the writer), then the null result.

Scope of the theorems: objects of the *exactly-framed* classes (`Gen.exactLayouts`, recomputed from the source on every run;
the others are the subject of the known findings and of the correspondence runs), that the writer accepts (`UserWF`: scalar
members within their width, arrays of their declared size, container lengths within their length fields), whose type code
the factory maps back to their class, and that are not shorter than the default layout of their class (`Parsable`; for a
shorter layout variant the parser seeks backwards — covered dynamically with tiny containers, not by these theorems).
Assumed about zlib: `inflate (deflate l b) |b| = some b`.  Modelled, not proved: `FileSeq` is what the threaded `File` does
(correspondence: files written and read by the real library, compared byte for byte and object for object).
-/
namespace Blf.Props
open Blf Blf.FileSeq

theorem C01_object_roundtrip (cfg : Cfg) (hs : cfg.sticky = false) (p : Codec × Layout) (hp : p ∈ Gen.exactLayouts)
    (o o0 : Obj) (rest : Bytes)
    (hwf : UserWF p.2 o) (hsig : o.num p.2.sigF = SIG) (harr : ArrOK o0 p.2.items)
    (hcap : ∀ f ew len, Item.var f ew len ∈ p.2.items → (o.buf f).length ≤ cfg.cap) :
    (p.1.decode cfg o0 ((p.1.encode cfg o).out ++ rest)).halt = .none ∧
    (p.1.decode cfg o0 ((p.1.encode cfg o).out ++ rest)).short = false ∧
    (p.1.decode cfg o0 ((p.1.encode cfg o).out ++ rest)).pos = (p.1.encode cfg o).out.length ∧
    Agree (p.2.items.filterMap Item.numDef ++ [p.2.sigF]) (p.2.items.filterMap Item.bufDef)
      (p.1.decode cfg o0 ((p.1.encode cfg o).out ++ rest)).obj (pre p.1 p.2 o) :=
  regular_roundtrip_user cfg hs p.1 p.2 (regularCheck_sound _ _ (List.all_eq_true.mp Gen.exact_all p hp)) o o0 rest hwf hsig harr hcap

/-- an object of an exactly-framed class that the writer accepts and the factory recognises is `Parsable` -/
theorem parsable_of_exact (cap : Nat) (p : Codec × Layout) (hp : p ∈ Gen.exactLayouts) (o : Obj)
    (hu : UserWF p.2 o) (hsig : o.num 0 = SIG)
    (hcap : ∀ f ew len, Item.var f ew len ∈ p.2.items → (o.buf f).length ≤ cap)
    (hfac : lookupClass (o.num 4) = some p.1)
    (h16 : 16 ≤ (pre p.1 p.2 o).num 3) (hsz : p.1.sizeExpr.eval p.1.fresh ≤ (pre p.1 p.2 o).num 3) :
    FileRound.Parsable cap p.1 p.2 o := by
  have hreg := regularCheck_sound _ _ (List.all_eq_true.mp Gen.exact_all p hp)
  obtain ⟨h0, h1, h3, hR, h4⟩ := FileRound.hdrCheck_sound p.2 (List.all_eq_true.mp Gen.exact_hdr p hp)
  have hty : (pre p.1 p.2 o).num 4 = o.num 4 :=
    pre_num_untouched p.1 p.2 o 4 (by rw [h1]; decide) (by rw [h3]; decide) h4
  exact ⟨hreg, h0, h3, hR, hu, hsig, hcap, by rw [hty]; exact hfac, h16, hsz⟩

/-- **stream level**: the object parser on the concatenated encodings of any list of parsable objects -/
theorem C01_stream_roundtrip (cap : Nat) (L : List (Codec × Layout × Obj))
    (hL : ∀ x ∈ L, FileRound.Parsable cap x.1 x.2.1 x.2.2 ∧ ArrOK x.1.fresh x.2.1.items) :
    ∃ ds, (objectLoop cap (4 * (FileRound.flat cap L).length + 64)
        { st := { obj := statsDefault, inp := FileRound.flat cap L } }).objs = ds.reverse ∧
      FileRound.AllDelivered L ds ∧
      (objectLoop cap (4 * (FileRound.flat cap L).length + 64)
        { st := { obj := statsDefault, inp := FileRound.flat cap L } }).outcome = none := by
  obtain ⟨ds, d1, d2, d3, _⟩ := FileRound.parse_objects cap L hL (FileRound.flat cap L)
    { st := { obj := statsDefault, inp := FileRound.flat cap L } } (4 * (FileRound.flat cap L).length + 64)
    ⟨⟨rfl, rfl, Nat.zero_le _, rfl⟩, rfl, rfl⟩ (by simp) (by
      have := FileRound.flat_fuel cap L (fun x hx => (hL x hx).1); omega)
  exact ⟨ds, by rw [d1]; simp, d2, d3⟩

/-- **file level**: a read session on what a write session produced -/
theorem C01_file_roundtrip (Z : Zlib) (hZ : ContainerRound.ZRT Z) (cap : Nat) (cfg : WCfg) (hdr : Obj)
    (L : List (Codec × Layout × Obj))
    (hL : ∀ x ∈ L, FileRound.Parsable cap x.1 x.2.1 x.2.2 ∧ ArrOK x.1.fresh x.2.1.items)
    (hsig : hdr.num 0 = FILESIG)
    (hH : ItemsWF (FileRoundTrip.storedHeader Z cap cfg hdr (L.map fun x => (x.1, x.2.2))) FileRoundTrip.Lfull)
    (hP : ∀ p ∈ FileRoundTrip.payloads cap cfg (L.map fun x => (x.1, x.2.2)), ContainerRound.PayloadOK Z cap cfg.level p) :
    (readFile Z cap (writeFile Z cap cfg hdr (L.map fun x => (x.1, x.2.2)))).outcome = .ended ∧
    FileRound.AllDelivered L (readFile Z cap (writeFile Z cap cfg hdr (L.map fun x => (x.1, x.2.2)))).objs := by
  obtain ⟨ds, h1, h2, h3, _⟩ := FileRoundTrip.read_write_file Z hZ cap cfg hdr L hL hsig hH hP
  exact ⟨h1, by rw [h2]; exact h3⟩

/-- `AllDelivered` means: as many objects as written, the i-th delivered object has the class name of the i-th written one
    and agrees with it on every field of its layout -/
theorem C01_delivered_length (L : List (Codec × Layout × Obj)) (ds : List (String × Obj)) (h : FileRound.AllDelivered L ds) :
    ds.length = L.length := h.length_eq

/-! ### non-vacuity: the hypotheses are met by real objects; a concrete file is written and read back -/

theorem canMsg_mem : (Gen.CanMessage, Gen.CanMessage_layout) ∈ Gen.exactLayouts := by
  unfold Gen.exactLayouts
  repeat (first | exact List.mem_cons_self .. | apply List.mem_cons_of_mem)


def Zid : Zlib := { deflate := fun _ b => b, inflate := fun c n => if c.length = n then some c else none }
theorem Zid_rt : ContainerRound.ZRT Zid := by intro l b; simp [Zid]

theorem canMsg_parsable : FileRound.Parsable (2^20) Gen.CanMessage Gen.CanMessage_layout Gen.CanMessage.fresh := by
  refine parsable_of_exact (2^20) (Gen.CanMessage, Gen.CanMessage_layout) canMsg_mem _ ?_ ?_ ?_ ?_ ?_ ?_
  · intro i hi
    simp only [Gen.CanMessage_layout, List.mem_cons, List.not_mem_nil, or_false] at hi
    rcases hi with rfl | rfl | rfl | rfl | rfl | rfl | rfl | rfl | rfl | rfl | rfl | rfl | rfl <;> simp [Gen.CanMessage_layout] <;> decide
  · decide
  · intro f ew len hm; simp [Gen.CanMessage_layout] at hm
  · decide
  · decide
  · decide


theorem payloadOK_small (p : Bytes) (h : p.length < 1000) : ContainerRound.PayloadOK Zid (2^20) 1 p := by
  refine ⟨by omega, ?_, by omega, ?_⟩ <;> simp [ContainerRound.stored, Zid] <;> omega

set_option maxRecDepth 8000 in
example : (readFile Zid (2^20) (writeFile Zid (2^20) {} statsDefault [(Gen.CanMessage, Gen.CanMessage.fresh), (Gen.CanMessage, Gen.CanMessage.fresh)])).outcome = .ended ∧
    (readFile Zid (2^20) (writeFile Zid (2^20) {} statsDefault [(Gen.CanMessage, Gen.CanMessage.fresh), (Gen.CanMessage, Gen.CanMessage.fresh)])).objs.length = 2 := by
  have h := C01_file_roundtrip Zid Zid_rt (2^20) {} statsDefault
    [(Gen.CanMessage, Gen.CanMessage_layout, Gen.CanMessage.fresh), (Gen.CanMessage, Gen.CanMessage_layout, Gen.CanMessage.fresh)]
    (by intro x hx; simp at hx; subst hx; exact ⟨canMsg_parsable, by intro f n hm; simp [Gen.CanMessage_layout] at hm; obtain ⟨rfl, rfl⟩ := hm; decide⟩)
    (by decide) (by decide)
    (by
      intro p hp
      apply payloadOK_small
      have hlen : (FileRoundTrip.streamOf (2^20) [(Gen.CanMessage, Gen.CanMessage.fresh), (Gen.CanMessage, Gen.CanMessage.fresh)]).length = 96 := by decide
      have hch : FileRoundTrip.payloads (2^20) {} [(Gen.CanMessage, Gen.CanMessage.fresh), (Gen.CanMessage, Gen.CanMessage.fresh)] =
          [FileRoundTrip.streamOf (2^20) [(Gen.CanMessage, Gen.CanMessage.fresh), (Gen.CanMessage, Gen.CanMessage.fresh)], []] := by
        unfold FileRoundTrip.payloads
        rw [hlen]
        unfold chunk
        rw [if_neg (by rw [hlen]; decide)]
        rfl
      have hp' : p ∈ FileRoundTrip.payloads (2^20) {} [(Gen.CanMessage, Gen.CanMessage.fresh), (Gen.CanMessage, Gen.CanMessage.fresh)] := hp
      rw [hch] at hp'
      simp only [List.mem_cons, List.not_mem_nil, or_false] at hp'
      rcases hp' with rfl | rfl
      · rw [hlen]; decide
      · decide)
  exact ⟨h.1, by have := h.2.length_eq; simpa using this⟩

end Blf.Props
