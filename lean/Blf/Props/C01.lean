import Blf.Gen.Checks
import Blf.Codec.Tables
import Blf.Codec.Pre
import Blf.FileSeq
/-!
# C01 — Write-then-read returns the same objects, in order, for every configuration
(per-object round trip proved; the file-level composition is under construction in `Blf/FileSeq`)
-/
namespace Blf.Props
open Blf

theorem C01_object_roundtrip (cfg : Cfg) (hs : cfg.sticky = false) (p : Codec × Layout) (hp : p ∈ Gen.exactLayouts)
    (o o0 : Obj) (rest : Bytes)
    (hwf : UserWF p.2 o) (hsig : o.num p.2.sigF = SIG) (harr : ArrOK o0 p.2.items)
    (hcap : ∀ f ew len, Item.var f ew len ∈ p.2.items → (o.buf f).length ≤ cfg.cap) :
    (p.1.decode cfg o0 ((p.1.encode cfg o).out ++ rest)).halt = .none ∧
    (p.1.decode cfg o0 ((p.1.encode cfg o).out ++ rest)).short = false ∧
    (p.1.decode cfg o0 ((p.1.encode cfg o).out ++ rest)).pos = (p.1.encode cfg o).out.length ∧
    Agree (p.2.items.filterMap Item.numDef ++ [p.2.sigF]) (p.2.items.filterMap Item.bufDef)
      (p.1.decode cfg o0 ((p.1.encode cfg o).out ++ rest)).obj (pre p.1 p.2 o) :=
  regular_roundtrip_user cfg hs p.1 p.2 (regularCheck_sound _ _ (List.all_eq_true.mp Gen.exact_all p hp)) o o0 rest hwf hsig harr hcap

end Blf.Props
