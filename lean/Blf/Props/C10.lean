import Blf.FileSafe
/-!
# C10 — Corrupt or hostile input never causes a hang, a crash or undefined behaviour

Proved, for every byte string (not a sample of mutations):

* `C10_decoder_memory_safe`: every decoder regenerated from the current source — all classes of the object factory, the log
  container and the base header — never reads into a container that is too small (`halt ≠ oob`), on any input, for any
  allocation cap, on either kind of stream.  The side condition per class (`readSafe`) is decided by the kernel on the
  regenerated program; a decoder that stops passing it (e.g. a read of `timeStampsLength` bytes into a vector of
  `timeStampsLength / 8` elements) breaks this file.
* `C10_read_session_ends_without_ub`: a read session on any byte string ends — the object parser consumes at least one byte of
  the uncompressed stream per iteration — and the outcome is the null result or the exception of `open()`; never `hang`,
  never `oob`.

Modelled, not proved: `Blf.FileSeq.readFile` is what the threaded `File` does (correspondence runs on valid, mutated and
hostile files under ASan/UBSan with a watchdog); zlib's `uncompress` returns the declared number of bytes or an error
(`ZOK`; the code checks it); allocation above the cap throws `std::bad_alloc` (the harness caps `operator new`).
Outside: the container loop of the model runs on fuel `|file| + 2`, which is not proved sufficient here (it is compared with
the implementation on every run); arithmetic overflow of 32/64-bit positions.
-/
namespace Blf.Props
open Blf Blf.FileSeq Blf.FileSafe

/-- every decoder, every input: no out-of-bounds access -/
theorem C10_decoder_memory_safe (c : Codec) (hc : c ∈ Gen.ObjectHeaderBase :: Gen.allCodecs) (cfg : Cfg) (inp : Bytes) :
    (c.decode cfg c.fresh inp).halt ≠ .oob := by
  have h := Gen.all_readSafe
  rw [List.all_eq_true] at h
  exact readSafe_fresh c (h c hc) cfg inp

/-- a read session on arbitrary bytes ends, without undefined behaviour -/
theorem C10_read_session_ends_without_ub (Z : Zlib) (hZ : ZOK Z) (cap : Nat) (file : Bytes) :
    (readFile Z cap file).outcome = .ended ∨ (readFile Z cap file).outcome = .openException :=
  readFile_outcome Z hZ cap file

/-- the object parser moves forward by at least one byte per iteration and never leaves the stream -/
theorem C10_parser_progress (cap : Nat) (ps ps' : PState) (hb : ps.st.pos ≤ ps.st.inp.length)
    (h : objectStep cap ps = some ps') :
    ps'.st.inp = ps.st.inp ∧ ps'.st.pos ≤ ps'.st.inp.length ∧ ps.st.pos < ps'.st.pos := by
  obtain ⟨a, b, _, d⟩ := objectStep_facts cap ps ps' hb h
  exact ⟨a, b, d⟩

/-- non-vacuity: the checker does reject an unsafe decoder — `resize(n / 8)` followed by a read of `n` bytes -/
example : (safeAux (fun _ => none) none
    (Stmt.block [.rd 0 4, .resize 1 8 (.div (.fld 0) (.const 8)), .rdBuf 1 (.fld 0)])).1 = false := by decide

/-- ... and that program does go out of bounds in the semantics: `n = 9` -/
example : ((Stmt.block [.rd 0 4, .resize 1 8 (.div (.fld 0) (.const 8)), .rdBuf 1 (.fld 0)]).exec {}
    { obj := { num := fun _ => 0, buf := fun _ => [] }, inp := [9, 0, 0, 0, 1, 2, 3, 4, 5, 6, 7, 8, 9] }).halt = .oob := by decide

end Blf.Props
