import Blf.QueueConc
/-!
# C06 — No API call blocks forever: the three-stage pipeline cannot deadlock
(queue stage proved for every capacity, object count and interleaving; stream stage and composition under construction)
-/
namespace Blf.Props
open Blf.QueueConc

/-- in every reachable state of the queue stage that is not final, some thread can take a step -/
theorem C06_queue_no_deadlock (cap : Nat) (hc : 0 < cap) (objs : List Nat) (hs : objs.length < Blf.Queue.U32MAX)
    (s : Sys) (h : Reach cap objs s) (hnf : ¬ Final s) : ∃ t, Step s t :=
  no_deadlock objs s (reach_inv cap hc objs hs s h) hnf

/-- every step strictly decreases a natural-number measure: every schedule, fair or not, is finite -/
theorem C06_queue_terminates (s t : Sys) (h : Step s t) : measure t < measure s := measure_step s t h

/-- no lost wake-up: a thread asleep on a condition variable has a false guard, in every reachable state -/
theorem C06_queue_no_lost_wakeup (cap : Nat) (hc : 0 < cap) (objs : List Nat) (hs : objs.length < Blf.Queue.U32MAX)
    (s : Sys) (h : Reach cap objs s) :
    (∀ cv, s.prod = .asleep cv → ∃ x r, s.toSend = x :: r ∧ Blf.Queue.guard s.q (.write x) = false) ∧
    (∀ cv, s.cons = .asleep cv → Blf.Queue.guard s.q .read = false) := by
  have hi := reach_inv cap hc objs hs s h
  exact ⟨fun cv hcv => (hi.prodSleep cv hcv).2, fun cv hcv => (hi.consSleep cv hcv).2⟩

/-- non-vacuity: a reachable state with a sleeping producer (capacity 1, two objects) -/
example : ∃ s, Reach 1 [7, 8] s ∧ s.prod = .asleep .tellg := by
  refine ⟨_, Reach.step _ _ (Reach.step _ _ Reach.init (Step.send _ 7 [8] rfl rfl (by decide)))
    (Step.sendBlock _ 8 [] rfl rfl (by decide)), rfl⟩

end Blf.Props
