import Blf.QueueConc
import Blf.Pipe
import Blf.WPipe
import Blf.PipeTie
/-!
# C06 — No API call blocks forever: the three-stage pipeline cannot deadlock

* the queue stage alone (`Blf.QueueConc`): every capacity, object count and interleaving;
* the **read pipeline** (`Blf.Pipe`): inflater, parser, application over the in-memory stream and the object queue —
  every stream buffer size, queue capacity ≥ 1, container sizes, parser program (any reads, seeks, pushes; in particular
  reads larger than the stream buffer) and every interleaving, including `close()` at any time;
* the **write pipeline** (`Blf.WPipe`): application, encoder, compressor — every buffer size, capacity ≥ 1, container
  size ≥ 1 (in particular above the stream buffer), object sizes and every interleaving.

Modelled, not proved here: the positions of the in-memory stream move as `Blf.UFile` says (`Blf.PipeTie`), `Blf.UFile`
and `Blf.Queue` are the C++ monitors (correspondence runs `useq`, `qseq`, `demand`), a C++ condition-variable wait is
"sleep until notified, then re-evaluate the predicate", and the worker loops are the programs of `Blf.Pipe`/`Blf.WPipe`
(controlled-scheduler runs of the real library compare outcomes).  Outside: `abort()` racing with workers that throw,
allocation failure, and the case container size 0 (the compressor would cut empty containers for ever — see DESIGN.md).
-/
namespace Blf.Props
open Blf.QueueConc

/-- in every reachable state of the queue stage that is not final, some thread can take a step -/
theorem C06_queue_no_deadlock (cap : Nat) (hc : 0 < cap) (objs : List Nat) (hs : objs.length < Blf.Queue.U32MAX)
    (s : Sys) (h : Reach cap objs s) (hnf : ¬ Final s) : ∃ t, Step s t :=
  no_deadlock objs s (reach_inv cap hc objs hs s h) hnf

/-- every step strictly decreases a natural-number measure: every schedule, fair or not, is finite -/
theorem C06_queue_terminates (s t : Sys) (h : Step s t) : measure t < measure s := measure_step s t h

/-- no lost wake-up: a thread asleep on a condition variable has a false guard, in every reachable state -/
theorem C06_queue_no_lost_wakeup (cap : Nat) (hc : 0 < cap) (objs : List Nat) (hs : objs.length < Blf.Queue.U32MAX)
    (s : Sys) (h : Reach cap objs s) :
    (∀ cv, s.prod = .asleep cv → ∃ x r, s.toSend = x :: r ∧ Blf.Queue.guard s.q (.write x) = false) ∧
    (∀ cv, s.cons = .asleep cv → Blf.Queue.guard s.q .read = false) := by
  have hi := reach_inv cap hc objs hs s h
  exact ⟨fun cv hcv => (hi.prodSleep cv hcv).2, fun cv hcv => (hi.consSleep cv hcv).2⟩

/-- non-vacuity: a reachable state with a sleeping producer (capacity 1, two objects) -/
example : ∃ s, Reach 1 [7, 8] s ∧ s.prod = .asleep .tellg := by
  refine ⟨_, Reach.step _ _ (Reach.step _ _ Reach.init (Step.send _ 7 [8] rfl rfl (by decide)))
    (Step.sendBlock _ 8 [] rfl rfl (by decide)), rfl⟩

/-! ## read session: inflater → in-memory stream → parser → object queue → application -/

/-- **read pipeline, no deadlock**: in every reachable state that is not final some thread can take a step other than
    `close()`, unless the application has already received the null result (then `close()` is what remains).  So
    `File::read()` never blocks for ever, under any interleaving, for any sizes. -/
theorem C06_read_pipeline_no_deadlock (bufU : Int) (capQ : Nat) (hc : 0 < capQ) (conts : List Nat) (prog : List Pipe.POp)
    (hs : (Pipe.qwrites prog).length < Blf.Queue.U32MAX) (s : Pipe.Sys) (h : Pipe.Reach bufU capQ conts prog s)
    (hnf : ¬ Pipe.Final s) :
    (∃ t, Pipe.Step s t ∧ t.stopReq = s.stopReq) ∨ (s.app = .running ∧ s.sawNull = true) :=
  Pipe.no_deadlock prog s (Pipe.reach_inv bufU capQ hc conts prog hs s h) hnf

/-- **read pipeline, termination**: every step strictly decreases a measure — every schedule is finite, so together with
    `C06_read_pipeline_no_deadlock` every schedule in which the application eventually closes ends in the final state
    (all threads joined) -/
theorem C06_read_pipeline_terminates (s t : Pipe.Sys) (h : Pipe.Step s t) : Pipe.measure t < Pipe.measure s :=
  Pipe.measure_step s t h

/-- **read pipeline, no lost wake-up**: whoever sleeps has a false guard -/
theorem C06_read_pipeline_no_lost_wakeup (bufU : Int) (capQ : Nat) (hc : 0 < capQ) (conts : List Nat) (prog : List Pipe.POp)
    (hs : (Pipe.qwrites prog).length < Blf.Queue.U32MAX) (s : Pipe.Sys) (h : Pipe.Reach bufU capQ conts prog s) :
    (∀ m cv, s.inf = .asleep m cv → s.u.guardWrite = false) ∧
    (∀ m cv, s.par = .asleep m cv →
      (∃ n r, s.prog = .uread n :: r ∧ s.u.guardRead n = false) ∨
      (∃ x r, s.prog = .qwrite x :: r ∧ Blf.Queue.guard s.q (.write x) = false)) ∧
    (∀ m cv, s.app = .asleep m cv → Blf.Queue.guard s.q .read = false) := by
  have hi := Pipe.reach_inv bufU capQ hc conts prog hs s h
  refine ⟨fun m cv hm => (hi.infSleep m cv hm).2.2, fun m cv hm => ?_, fun m cv hm => (hi.appSleep m cv hm).2.2.1⟩
  rcases hi.parSleep m cv hm with ⟨_, _, n, r, h1, h2, _⟩ | ⟨_, _, x, r, h1, h2⟩
  · exact Or.inl ⟨n, r, h1, h2⟩
  · exact Or.inr ⟨x, r, h1, h2⟩

/-- the step `uread` of the read pipeline is what `UncompressedFile::read` does to the positions (`Blf.UFile.read`) -/
theorem C06_tie_read (s : Blf.UFile.State) (n : Nat) :
    ∃ j : Nat, j ≤ n ∧ PipeTie.up (Blf.UFile.read s n).1 = { PipeTie.up s with tellg := (PipeTie.up s).tellg + j, demand := 0 } :=
  PipeTie.read_up s n

/-! ## write session: application → object queue → encoder → in-memory stream → compressor -/

/-- **write pipeline, no deadlock**: in every reachable non-final state some thread can take a step: `File::write()` and
    `File::close()` never block for ever — for every container size ≥ 1, also above the stream buffer size -/
theorem C06_write_pipeline_no_deadlock (sz : Nat → Nat) (bufU : Int) (capQ : Nat) (hc : 0 < capQ) (cs : Nat) (hcs : 0 < cs)
    (objs : List Nat) (hs : objs.length < Blf.Queue.U32MAX) (hb : (WPipe.total sz objs : Int) + cs < Blf.UFile.I64MAX)
    (s : WPipe.Sys) (h : WPipe.Reach sz bufU capQ cs objs s) (hnf : ¬ WPipe.Final s) : ∃ t, WPipe.Step sz s t :=
  WPipe.no_deadlock sz objs s (WPipe.reach_inv sz bufU capQ hc cs hcs objs hs hb s h) hnf

/-- **write pipeline, termination** -/
theorem C06_write_pipeline_terminates (sz : Nat → Nat) (bufU : Int) (capQ : Nat) (hc : 0 < capQ) (cs : Nat) (hcs : 0 < cs)
    (objs : List Nat) (hs : objs.length < Blf.Queue.U32MAX) (hb : (WPipe.total sz objs : Int) + cs < Blf.UFile.I64MAX)
    (s t : WPipe.Sys) (h : WPipe.Reach sz bufU capQ cs objs s) (hst : WPipe.Step sz s t) :
    WPipe.measure sz objs t < WPipe.measure sz objs s :=
  WPipe.measure_step sz objs s t (WPipe.reach_inv sz bufU capQ hc cs hcs objs hs hb s h) hst

end Blf.Props
