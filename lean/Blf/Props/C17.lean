import Blf.Gen.Checks
import Blf.Codec.Determinacy
import Blf.Codec.Pre
import Blf.Spec.ObjectTypes
/-!
# C17 — Type codes agree between constructors, the object factory and files

> For every object type code, the object factory yields either nothing (unknown and reserved codes) or
> an object of the class that the format assigns to that code.  A default-constructed object of any
> class carries a code that the factory maps back to that same class, is written under that code, and
> reading it back yields the same class and code; a freshly constructed object has fully determined
> field values, so its encoding does not depend on previous memory contents.
-/
namespace Blf.Props
open Blf

/-- **C17 (factory)**: the `createObject` switch, as regenerated from the source, is the format's table. -/
theorem C17_factory : Gen.factoryTable = Spec.classOfCode := by decide +kernel

/-- ... hence for **every** code (not only 0..255) the factory yields the format's class or nothing -/
theorem C17_factory_total (code : Nat) :
    Spec.lookupCode Gen.factoryTable code = Spec.lookupCode Spec.classOfCode code := by
  rw [C17_factory]

/-- every class the factory can create has been translated (no class silently outside the model) -/
theorem C17_factory_classes_translated :
    (Gen.factoryTable.all fun e => Gen.allCodecs.any fun c => c.name == e.2) = true := by decide +kernel

/-- **C17 (constructor code)**: outside the computed exception list, the code a default constructor passes
    is mapped back to the same class by the factory. -/
theorem C17_ctor :
    (Gen.allCodecs.all fun c =>
      Gen.ctorMismatch.contains c.name || Spec.lookupCode Gen.factoryTable c.ctorType == some c.name) = true := by
  decide +kernel

/-- **C17 (determined defaults)**: outside the computed exception list every member has an initialiser. -/
theorem C17_defaults_determined :
    (Gen.allCodecs.all fun c => Gen.notAllInit.contains c.name || c.allInit) = true := by
  decide +kernel

/-- the type field of an exactly-framed class is not touched by the write-side pre-processing, so an
    object is written under the code it carries -/
theorem C17_written_under_its_code (p : Codec × Layout) (hp : p ∈ Gen.exactLayouts) (o : Obj) (tf : Nat)
    (h1 : tf ≠ p.2.hsF) (h2 : tf ≠ p.2.osF) (h3 : tf ∉ p.2.pre.map (·.1)) :
    (pre p.1 p.2 o).num tf = o.num tf :=
  pre_num_untouched p.1 p.2 o tf h1 h2 h3

/-- **C17 (default round trip)**: the default-constructed object of every exactly-framed class is
    caller-level well-formed, so C01's round trip applies to it: it is read back with every field equal
    (including the type code). -/
def userWFb (lay : Layout) (o : Obj) : Bool :=
  lay.items.all fun i => match i with
    | .scalar f w => f == lay.hsF || f == lay.osF || (lay.pre.map (·.1)).contains f || decide (o.num f < 256 ^ w)
    | .fixed f n => (o.buf f).length == n
    | .var f ew len => ((o.buf f).length % ew == 0) && decide ((o.buf f).length / ew < 256 ^ widthOf lay.items len)
    | _ => true

theorem userWF_of_b (lay : Layout) (o : Obj) (h : userWFb lay o = true) : UserWF lay o := by
  intro i hi
  have := List.all_eq_true.mp h i hi
  cases i <;> simp_all [userWFb] <;> grind

def varsEmpty (lay : Layout) (o : Obj) : Bool :=
  lay.items.all fun i => match i with
    | .var f _ _ => (o.buf f).length == 0
    | _ => true

theorem C17_fresh_wellformed :
    (Gen.exactLayouts.all fun p => userWFb p.2 p.1.fresh && decide (p.1.fresh.num p.2.sigF = SIG) &&
      arrOKb p.1.fresh p.2.items && varsEmpty p.2 p.1.fresh) = true := by
  decide +kernel

theorem C17_default_roundtrip (cfg : Cfg) (hs : cfg.sticky = false) (p : Codec × Layout)
    (hp : p ∈ Gen.exactLayouts) (rest : Bytes) :
    let b := (p.1.encode cfg p.1.fresh).out
    (p.1.decode cfg p.1.fresh (b ++ rest)).halt = .none ∧
    (p.1.decode cfg p.1.fresh (b ++ rest)).short = false ∧
    (p.1.decode cfg p.1.fresh (b ++ rest)).pos = b.length ∧
    Agree (p.2.items.filterMap Item.numDef ++ [p.2.sigF]) (p.2.items.filterMap Item.bufDef)
      (p.1.decode cfg p.1.fresh (b ++ rest)).obj (pre p.1 p.2 p.1.fresh) := by
  have h := List.all_eq_true.mp C17_fresh_wellformed p hp
  simp only [Bool.and_eq_true, decide_eq_true_eq] at h
  have hreg : Reg p.1 p.2 := regularCheck_sound _ _ (List.all_eq_true.mp Gen.exact_all p hp)
  refine regular_roundtrip_user cfg hs p.1 p.2 hreg p.1.fresh p.1.fresh rest (userWF_of_b _ _ h.1.1.1) h.1.1.2
    (arrOK_of_b _ _ h.1.2) ?_
  intro f ew len hm
  have := List.all_eq_true.mp h.2 _ hm
  simp only [beq_iff_eq] at this
  rw [this]; exact Nat.zero_le _

end Blf.Props
