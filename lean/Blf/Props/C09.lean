import Blf.FillerRound
/-!
# C09 — Unknown object types and filler bytes are skipped without losing neighbours

* `C09_search_finds_first_signature`: for every byte string, the signature search of `ObjectHeaderBase::read` stops exactly behind
  the first signature at or after the start position (no signature is skipped, none is invented);
* `C09_stream_with_filler_and_unknown_objects`: the object parser on any stream of segments — arbitrary filler without a
  signature (partial prefixes `L`, `LO`, `LOB` directly before an object included), then either an object of a type without
  codec (any code the factory does not know, declared size 16 … 2^32-1) or a known parsable object — delivers exactly the
  known objects, unmodified and in order.

Not covered by the theorems: filler *behind the last object* (the search then runs into the end of the stream; covered by
`C10_read_session_ends_without_ub` and dynamically), objects of the classes outside the exactly-framed fragment.
-/
namespace Blf.Props
open Blf Blf.FileSeq Blf.FileRound Blf.FillerRound

theorem C09_search_finds_first_signature (cfg : Cfg) (hs : cfg.sticky = false) (f k : Nat) (st : St)
    (hle : st.pos ≤ k) (hlen : k + 4 ≤ st.inp.length) (hsig : startsSig (st.inp.drop k) = true)
    (hnone : ∀ j, st.pos ≤ j → j < k → startsSig (st.inp.drop j) = false) :
    (Stmt.sync f).exec cfg st = { st with obj := st.obj.setNum f SIG, pos := k + 4, good := true, eof := false } :=
  exec_sync_skips_filler cfg hs f k st hle hlen hsig hnone

theorem C09_stream_with_filler_and_unknown_objects (cap : Nat) (S : List Seg) (hS : ∀ s ∈ S, s.OK cap) :
    ∃ ds, (objectLoop cap (4 * (flatS cap S).length + 64) { st := { obj := statsDefault, inp := flatS cap S } }).objs = ds.reverse ∧
      AllDelivered (known S) ds ∧
      (objectLoop cap (4 * (flatS cap S).length + 64) { st := { obj := statsDefault, inp := flatS cap S } }).outcome = none := by
  have hfuel : ∀ (T : List Seg), (∀ s ∈ T, s.OK cap) → T.length ≤ (flatS cap T).length := by
    intro T
    induction T with
    | nil => intro _; simp
    | cons s l ih =>
      intro hT
      have h2 := ih (fun y hy => hT y (by simp [hy]))
      have : 1 ≤ (s.bytes cap).length := by
        have hs := hT s (by simp)
        cases s with
        | obj fill x =>
          have := enc_length cap x.1 x.2.1 x.2.2 hs.1
          simp only [Seg.bytes, List.length_append]; omega
        | unk fill a b osz code body => simp [Seg.bytes, hdrBytes]; omega
      simp only [flatS, List.length_append, List.length_cons]; omega
  have hfuel := hfuel S hS
  obtain ⟨ds, d1, d2, d3⟩ := parse_segments cap S hS (flatS cap S)
    { st := { obj := statsDefault, inp := flatS cap S } } (4 * (flatS cap S).length + 64)
    ⟨⟨rfl, rfl, Nat.zero_le _, rfl⟩, rfl, rfl⟩ (by simp) (by omega)
  exact ⟨ds, by rw [d1]; simp, d2, d3⟩

/-- non-vacuity: the partial signature prefix `LOB` in front of an object is admissible filler -/
example (rest : Bytes) : NoSig [0x4C, 0x4F, 0x42] (leBytes 4 SIG ++ rest) := by
  intro j hj
  simp only [List.length_cons, List.length_nil] at hj
  have hS : leBytes 4 SIG = [0x4C, 0x4F, 0x42, 0x4A] := by decide
  rw [hS]
  match j, hj with
  | 0, _ => simp [startsSig, sigBytes]
  | 1, _ => simp [startsSig, sigBytes]
  | 2, _ => simp [startsSig, sigBytes]

end Blf.Props
